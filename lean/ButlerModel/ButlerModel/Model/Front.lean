/-! The Butler front end's treatment of data-ID keys that are not given as dimension values
(`registry/_defaults.py`, `DirectButler._rewrite_data_id`).

*Defaults.*  A governor dimension (instrument, skymap) that the caller does not name is completed from
the registry defaults: the caller's explicit default if there is one, otherwise — when inference is on —
the single value that the summaries of the default collections agree on.  `clone()` builds new
defaults from the *original* arguments, replacing those it is given.

*Record-style keys.*  `seq_num=…`, `exposure.obs_id`, a string for a detector: fields of the
dimension's record given next to, or instead of, the dimension value.  With the value, the record it
names must carry those fields; without it, exactly one record must.  Core Lean only. -/
namespace Front

/-! ## defaults (one governor dimension; they are independent of each other) -/

/-- collection ↦ the governor values its summary lists -/
abbrev Holds := Nat → List Nat

structure Defaults where
  colls : List Nat
  infer : Bool
  explicit : Option Nat        -- `_original_kwargs`
  value : Option Nat           -- `dataId` after `finish()`
  deriving Repr

def inferred (h : Holds) (colls : List Nat) : Option Nat :=
  match (colls.flatMap h).eraseDups with
  | [v] => some v
  | _ => none

/-- `finish()` -/
def finish (h : Holds) (colls : List Nat) (infer : Bool) (explicit : Option Nat) : Option Nat :=
  match explicit with
  | some v => some v
  | none => if infer then inferred h colls else none

def mk (h : Holds) (colls : List Nat) (infer : Bool) (explicit : Option Nat) : Defaults :=
  { colls := colls, infer := infer, explicit := explicit, value := finish h colls infer explicit }

/-- `clone(collections=…, inferDefaults=…, dataId=…)`; `none` = the argument is omitted -/
def clone (h : Holds) (d : Defaults) (colls : Option (List Nat)) (infer : Option Bool) (dataId : Option (Option Nat)) : Defaults :=
  mk h (colls.getD d.colls) (infer.getD d.infer) (dataId.getD d.explicit)

structure CloneArgs where
  colls : Option (List Nat) := none
  infer : Option Bool := none
  dataId : Option (Option Nat) := none

def clones (h : Holds) (d : Defaults) (cs : List CloneArgs) : Defaults :=
  cs.foldl (fun d c => clone h d c.colls c.infer c.dataId) d

/-- a governor key of a data ID: what the caller wrote, else the default; `none` = the data ID is
incomplete and is rejected -/
def complete (d : Defaults) (given : Option Nat) : Option Nat := given.or d.value

/-! ## record-style keys -/

structure Rec where
  id : Nat
  fields : List (Nat × Option Nat)      -- field ↦ stored value (`none` = NULL)

def fieldOf (r : Rec) (f : Nat) : Option (Option Nat) := (r.fields.find? (·.1 == f)).map (·.2)

/-- the record carries every given field value (a NULL or missing field equals no given value) -/
def carries (r : Rec) (vals : List (Nat × Nat)) : Bool := vals.all fun fv => fieldOf r fv.1 == some (some fv.2)

/-- `_rewrite_data_id` for one dimension: `none` = rejected (`DimensionValueError`) -/
def rewrite (recs : List Rec) (explicit : Option Nat) (vals : List (Nat × Nat)) : Option Nat :=
  match explicit with
  | some k => match recs.find? (·.id == k) with
    | some r => if carries r vals then some k else none
    | none => if vals.isEmpty then some k else none
  | none => match recs.filter (carries · vals) with
    | [r] => some r.id
    | _ => none

end Front
