/-! Model of `Butler.transaction()` = registry savepoints + the datastore's undo-log stack
(`datastore/_datastore.py` `DatastoreTransaction`, `Datastore.transaction`).  Artifacts and
registry rows are identified by the dataset number.  `popOnFail = true` is the code as it is now
(the parent transaction is restored in all cases); `false` is the earlier code, which restored it
only on success — kept so that the regression witness stays checkable. Core Lean only. -/
namespace Txn

inductive Prog where
  | put (id : Nat)                -- `butler.put`: register undo, write artifact, insert registry row
  | fail                          -- an exception is raised here
  | block (body : List Prog)      -- `with butler.transaction(): body` — a failure propagates
  | tryBlock (body : List Prog)   -- `try: with butler.transaction(): body  except: pass`
  deriving Repr

structure S where
  files : List Nat := []          -- artifacts under the datastore root
  reg : List Nat := []            -- registered datasets
  stack : List (List Nat) := []   -- undo logs, innermost transaction first
  deriving DecidableEq, Repr

/-- `DatastoreTransaction.rollback`: run the undo functions (remove the artifacts written). -/
def rollbackFiles (log files : List Nat) : List Nat := files.filter (fun f => !log.contains f)

/-- `put` with the current transaction state. -/
def doPut (s : S) (id : Nat) : S :=
  match s.stack with
  | [] => { s with files := id :: s.files, reg := id :: s.reg }              -- its own, committed transaction
  | log :: rest => { files := id :: s.files, reg := id :: s.reg, stack := (id :: log) :: rest }

mutual
/-- Returns the new state and whether an exception escaped. -/
def run (popOnFail : Bool) : Nat → Prog → S → S × Bool
  | 0, _, s => (s, true)
  | _ + 1, .put id, s => (doPut s id, false)
  | _ + 1, .fail, s => (s, true)
  | fuel + 1, .block body, s =>
    let s1 := { s with stack := [] :: s.stack }
    let (s2, failed) := runList popOnFail fuel body s1
    if failed then
      -- `self._transaction.rollback()` on whatever `_transaction` currently is; registry savepoint restored
      match s2.stack with
      | log :: rest =>
        ({ files := rollbackFiles log s2.files, reg := s.reg,
           stack := if popOnFail then s.stack else [] :: rest }, true)
      | [] => ({ s2 with reg := s.reg }, true)
    else
      -- commit: the parent inherits the log; `_transaction = _transaction.parent`
      match s2.stack with
      | log :: parent :: rest => ({ s2 with stack := (log ++ parent) :: rest }, false)
      | [_] => ({ s2 with stack := [] }, false)
      | [] => (s2, false)
  | fuel + 1, .tryBlock body, s => ((run popOnFail fuel (.block body) s).1, false)
def runList (popOnFail : Bool) : Nat → List Prog → S → S × Bool
  | 0, _, s => (s, true)
  | _ + 1, [], s => (s, false)
  | fuel + 1, p :: ps, s =>
    let (s1, failed) := run popOnFail fuel p s
    if failed then (s1, true) else runList popOnFail fuel ps s1
end

mutual
/-- Ids written by a program (in order). -/
def puts : Prog → List Nat
  | .put id => [id]
  | .fail => []
  | .block body => putsL body
  | .tryBlock body => putsL body
def putsL : List Prog → List Nat
  | [] => []
  | p :: ps => puts p ++ putsL ps
end

end Txn
