/-! Model of "what `Butler.get` returns": datastore records map a dataset id to an artifact path
(`file_datastore_records`), the file system maps a path to content; `put` writes the artifact (an
existing file at that path is overwritten — `_write_in_memory_to_artifact` does not look) and inserts
the record, removal deletes the record and, when no other record names the path, the file
(C09's rule).  `get` resolves the location only through the stored record
(`_prepare_for_direct_get`).  Core Lean only. -/
namespace Store

structure S where
  files : List (Nat × Nat × Nat) := []     -- path ↦ (content, size); the first entry for a path is the file
  recs : List (Nat × Nat × Nat) := []      -- dataset id ↦ (path, recorded file size)
  deriving DecidableEq, Repr

/-- What a read gives: the content, or `FileIntegrityError` when the file's size is not the recorded one. -/
inductive Res where
  | ok (c : Nat)
  | integrity
  deriving DecidableEq, Repr

def put (s : S) (id p c sz : Nat) : S :=
  if (s.recs.lookup id).isSome then s            -- the id is taken: refused (unique ids, C02)
  else { files := (p, c, sz) :: s.files, recs := (id, p, sz) :: s.recs }

def remove (s : S) (id : Nat) : S :=
  match s.recs.lookup id with
  | none => s
  | some (p, _) =>
    let recs' := s.recs.filter (fun r => r.1 != id)
    if recs'.any (fun r => r.2.1 == p) then { s with recs := recs' }
    else { files := s.files.filter (fun f => f.1 != p), recs := recs' }

def get (s : S) (id : Nat) : Option Res :=
  (s.recs.lookup id).bind (fun r => (s.files.lookup r.1).map (fun f => if f.2 = r.2 then .ok f.1 else .integrity))

inductive Op where
  | put (id p c sz : Nat)
  | remove (id : Nat)
  deriving Repr

def step (s : S) : Op → S
  | .put id p c sz => put s id p c sz
  | .remove id => remove s id

/-- The specification: a plain map from dataset id to the content stored under it. -/
def specStep (a : List (Nat × Nat)) : Op → List (Nat × Nat)
  | .put id _ c _ => if (a.lookup id).isSome then a else (id, c) :: a
  | .remove id => a.filter (fun e => e.1 != id)

/-- The placement is injective at this step: a put goes to a path no stored dataset uses. -/
def FreshOp (s : S) : Op → Prop
  | .put _ p _ _ => ∀ r ∈ s.recs, r.2.1 ≠ p
  | .remove _ => True

/-- Every put of the history goes to a path that no stored dataset uses at that moment. -/
def Valid : S → List Op → Prop
  | _, [] => True
  | s, op :: ops => FreshOp s op ∧ Valid (step s op) ops

end Store
