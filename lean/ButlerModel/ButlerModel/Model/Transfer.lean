/-! Model of `Butler.import_` (YAML export → target repository; `transfers/_yaml.py` `register` /
`load`) and of `transfer_from`, at the level of keyed tables.  Each kind of content is merged into
the target with the policy the code implements:

* dataset types, datasets (by UUID), TAGGED memberships (by collection × dataset type × data ID):
  **strict** — an entry that is already there must be identical, otherwise the whole import is
  refused (`ConflictingDefinitionError`), and nothing changes (one transaction);
* dimension records: **keep** — `insertDimensionData(..., skip_existing=True)`: what the target has wins;
* chain definitions: **overwrite** — `setCollectionChain(chain, children)` unconditionally;
* validity ranges: **disjoint** — `certify` refuses any overlap with what is there for the same
  dataset type and data ID, *including the very same range* (so a repeated import of calibrations
  is refused, not absorbed).
Keys and values are numbers (the harness numbers the real values).  Core Lean only. -/
namespace Transfer

abbrev Tbl := List (Nat × Nat)

def lookup (t : Tbl) (k : Nat) : Option Nat := List.lookup k t

/-- strict merge: refuse when a key is present with another value. -/
def mergeStrict : Tbl → Tbl → Option Tbl
  | t, [] => some t
  | t, (k, v) :: s => match lookup t k with
      | none => mergeStrict ((k, v) :: t) s
      | some v' => if v = v' then mergeStrict t s else none

/-- keep merge: what the target has wins. -/
def mergeKeep : Tbl → Tbl → Tbl
  | t, [] => t
  | t, (k, v) :: s => match lookup t k with
      | none => mergeKeep ((k, v) :: t) s
      | some _ => mergeKeep t s

/-- overwrite merge: the source wins. -/
def mergeOver : Tbl → Tbl → Tbl
  | t, [] => t
  | t, (k, v) :: s => mergeOver ((k, v) :: t) s

/-- A validity range of a calibration collection: (slot = collection × dataset type × data ID, dataset, begin, end). -/
structure Rng where
  slot : Nat
  ds : Nat
  b : Nat
  e : Nat
  deriving DecidableEq, Repr

def overlaps (x y : Rng) : Bool := x.slot == y.slot && decide (x.b < y.e) && decide (y.b < x.e)

/-- certify each range in turn; any overlap with what is there refuses the whole import. -/
def mergeCalib : List Rng → List Rng → Option (List Rng)
  | t, [] => some t
  | t, r :: s => if t.any (overlaps r) then none else mergeCalib (r :: t) s

structure Repo where
  types : Tbl := []
  dims : Tbl := []
  ds : Tbl := []          -- dataset id ↦ hash of (type, data ID, run, content)
  slots : Tbl := []       -- (type, data ID, run) ↦ dataset id: one dataset per slot (C02)
  tags : Tbl := []        -- slot (collection × type × data ID) ↦ dataset id
  chains : Tbl := []      -- chain name ↦ hash of the child list
  calibs : List Rng := []
  deriving DecidableEq, Repr

/-- `import_`: all or nothing. -/
def importInto (t e : Repo) : Option Repo := do
  let types ← mergeStrict t.types e.types
  let ds ← mergeStrict t.ds e.ds
  let slots ← mergeStrict t.slots e.slots
  let tags ← mergeStrict t.tags e.tags
  let calibs ← mergeCalib t.calibs e.calibs
  pure { types := types, dims := mergeKeep t.dims e.dims, ds := ds, slots := slots, tags := tags,
         chains := mergeOver t.chains e.chains, calibs := calibs }

/-- Well-formed export: no key twice (an export lists every entry once). -/
def NoDup (s : Tbl) : Prop := (s.map (·.1)).Nodup

end Transfer
