import ButlerModel.Model.Parser
/-! Well-formedness of the LALR automaton **as extracted from the live PLY parser**
(`Gen/Grammar.lean`), stated as decidable checks over the tables.  `Props/C14.lean` proves from
these checks that the LR driver of `Model/Parser.lean` can never get stuck: for every input string
the outcome is a tree or one of the user-facing errors, never an internal error (empty stack,
missing goto entry, a semantic action applied to children of the wrong shape).

The automaton is read as a labelled graph: an edge `(s, X, t)` for every shift of terminal `X` from
`s` to `t` and every goto entry.  The classical LR facts are then finite checks:
* every state has one accessing symbol (`edgesConsistent`);
* the start state has no incoming edge;
* for every reduce entry `(s, A → X₁…Xₙ)`, *every* backward path of length `n` from `s` exists in
  full, spells `X₁…Xₙ`, and ends in a state with a goto entry for `A` (`reduceOK`);
* accept is only possible right after `input` (`acceptOK`). -/
namespace LR
open Parser Lexer

abbrev Edge := Nat × String × Nat

def shiftEdges : List Edge :=
  Gen.Grammar.action.flatMap fun (st, row) =>
    row.filterMap fun (la, k, n) => if k == 0 then some (st, la, n) else none
def gotoEdges : List Edge :=
  Gen.Grammar.goto.flatMap fun (st, row) => row.map fun (nt, n) => (st, nt, n)
def edges : List Edge := shiftEdges ++ gotoEdges

/-- accessing symbol of a state: label of the first edge that enters it -/
def symOf (s : Nat) : String :=
  match edges.find? (fun e => e.2.2 == s) with
  | some e => e.2.1
  | none => ""
def predsOf (s : Nat) : List Nat := (edges.filter (fun e => e.2.2 == s)).map (·.1)

/-- every edge into `s` carries `symOf s` -/
def edgesConsistent : Bool := edges.all fun e => e.2.1 == symOf e.2.2
def startHasNoPred : Bool := edges.all fun e => e.2.2 != 0

/-- All backward paths of length ≤ `n` from `s` (states, the origin last); a path stops early only
where a state has no predecessor, and then reports how many steps were missing. -/
def back : Nat → Nat → List (List Nat × Nat)
  | 0, s => [([s], 0)]
  | n + 1, s =>
    if (predsOf s).isEmpty then [([s], n + 1)]
    else (predsOf s).flatMap fun s' => (back n s').map fun (p, r) => (s :: p, r)

def nonterminals : List String :=
  ["S'", "input", "empty", "expr", "bool_primary", "predicate", "identifier", "literal_or_id_list",
   "bind_name", "bit_expr", "simple_expr", "literal", "function_call", "expr_list"]

/-- shape of the value the semantic actions produce for a grammar symbol -/
inductive Kind where
  | tok | node | list | none | nodeOrNone
  deriving DecidableEq, Repr

def kindOf (X : String) : Kind :=
  if X == "input" || X == "S'" then .nodeOrNone
  else if X == "empty" then .none
  else if X == "literal_or_id_list" || X == "expr_list" then .list
  else if nonterminals.contains X then .node
  else .tok

def kindOK (X : String) (v : Val) : Bool :=
  match kindOf X, v with
  | .tok, .tok _ => true
  | .node, .node _ => true
  | .list, .list _ => true
  | .none, .none => true
  | .nodeOrNone, .node _ => true
  | .nodeOrNone, .none => true
  | _, _ => false

def childrenOK : List String → List Val → Bool
  | [], [] => true
  | X :: xs, v :: vs => kindOK X v && childrenOK xs vs
  | _, _ => false

/-- `(text, lhs, len)` of production `p` together with its right-hand side -/
def prodInfo (p : Nat) : Option (String × String × Nat × List String) :=
  match Gen.Grammar.productions[p]?, Gen.Grammar.prodRhs[p]? with
  | some (text, lhs, len), some rhs => some (text, lhs, len, rhs)
  | _, _ => none

/-- the production table is coherent: text = `lhs -> rhs`, `len = |rhs|` -/
def prodsCoherent : Bool :=
  Gen.Grammar.productions.length == Gen.Grammar.prodRhs.length &&
  (List.zip Gen.Grammar.productions Gen.Grammar.prodRhs).all fun ((text, lhs, len), rhs) =>
    len == rhs.length &&
    text == lhs ++ " -> " ++ (if rhs.isEmpty then "<empty>" else " ".intercalate rhs)

def reduceOK (s p : Nat) : Bool :=
  match prodInfo p with
  | none => false
  | some (_, lhs, len, rhs) =>
    len == rhs.length &&
    (back len s).all fun (path, missing) =>
      missing == 0 &&
      (path.take len).map symOf == rhs.reverse &&
      (match path[len]? with
       | some o => (gotoOf o lhs).isSome
       | none => false)

def acceptOK (s : Nat) : Bool :=
  (back 1 s).all fun (path, missing) => missing == 0 && (path.take 1).map symOf == ["input"]

/-- distinct `(state, production)` pairs with a reduce entry, plus the defaulted states -/
def reducePairs : List (Nat × Nat) :=
  ((Gen.Grammar.action.flatMap fun (st, row) =>
      row.filterMap fun (_, k, n) => if k == 1 then some (st, n) else none) ++
    Gen.Grammar.defaulted).eraseDups

def reducesOK : Bool := reducePairs.all fun (s, p) => reduceOK s p

/-- every lookahead key is a terminal; `$end` is never shifted; anything that is neither shift nor
reduce is an accept in a state entered by `input` only -/
def actionsOK : Bool :=
  Gen.Grammar.action.all fun (st, row) => row.all fun (la, k, _) =>
    !nonterminals.contains la && kindOf la == .tok &&
    (k != 0 || la != "$end") &&
    (k == 0 || k == 1 || acceptOK st)

end LR
