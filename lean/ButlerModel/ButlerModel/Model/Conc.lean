/-! Interleaving model for clients of one repository.  The state is the committed database plus
the files; a *step* is atomic (one database transaction, or one file operation).  On SQLite every
write transaction holds the database lock from its first statement to its commit, so `put`,
`ingest`, registrations, `associate` and chain edits are each **one** step (the file is written
inside the transaction); the removals are the multi-step operations (`pruneDatasets` / `removeRuns`):
commit the move to the trash · query which trashed artifacts nobody else refers to · delete those
files · delete the rows.  State components are functions, which makes commutation of steps a matter
of `funext`.  Core Lean only. -/
namespace Conc

structure S where
  slots : Nat → Option Nat := fun _ => none   -- (run, dataset type, data ID) ↦ dataset id
  recs : Nat → Option Nat := fun _ => none    -- dataset id ↦ artifact path
  files : Nat → Option Nat := fun _ => none   -- path ↦ content
  users : Nat → Nat := fun _ => 0             -- path ↦ number of stored (not trashed) datasets recorded at it
  trash : Nat → Bool := fun _ => false        -- dataset id is in dataset_location_trash
  doom : Nat → Bool := fun _ => false         -- emptyTrash decided to delete this trashed dataset's artifact
  colls : Nat → Option Nat := fun _ => none   -- collection name ↦ type
  tags : Nat → Option Nat := fun _ => none    -- (TAGGED collection, type, data ID) ↦ dataset id
  chain : Nat → List Nat := fun _ => []       -- chain ↦ children

def upd {α : Type} (f : Nat → α) (k : Nat) (v : α) : Nat → α := fun q => if q = k then v else f q

inductive Step where
  | regColl (n t : Nat)                 -- get-or-create
  | put (slot id path c : Nat)          -- registry insert + artifact + records, one transaction
  | assoc (tslot id : Nat)
  | chainAdd (ch child : Nat)           -- read-modify-write of the chain under its row lock
  | prune1 (slot id path : Nat)         -- trash + registry delete, committed
  | prune2q (id path : Nat)             -- emptyTrash: the query for artifacts only the trash refers to
  | prune2d (id path : Nat)             -- emptyTrash: delete the artifact if the query said so
  | prune3 (id : Nat)                   -- emptyTrash: delete records and trash row
  deriving Repr

def apply (s : S) : Step → S
  | .regColl n t => if (s.colls n).isNone then { s with colls := upd s.colls n (some t) } else s
  | .put slot id path c =>
      if (s.slots slot).isNone then
        { s with slots := upd s.slots slot (some id), recs := upd s.recs id (some path),
                 files := upd s.files path (some c), users := upd s.users path (s.users path + 1) }
      else s
  | .assoc tslot id =>
      if (s.tags tslot).isNone || s.tags tslot == some id then { s with tags := upd s.tags tslot (some id) } else s
  | .chainAdd ch child => { s with chain := upd s.chain ch (s.chain ch ++ [child]) }
  | .prune1 slot id path =>
      if s.slots slot == some id then
        { s with slots := upd s.slots slot none, trash := upd s.trash id true, users := upd s.users path (s.users path - 1) }
      else s
  | .prune2q id path => if s.trash id then { s with doom := upd s.doom id (s.users path == 0) } else s
  | .prune2d id path => if s.trash id && s.doom id then { s with files := upd s.files path none } else s
  | .prune3 id => if s.trash id then { s with recs := upd s.recs id none, trash := upd s.trash id false, doom := upd s.doom id false } else s

def run (s : S) (steps : List Step) : S := steps.foldl apply s

/-- Two steps commute when the order in which they are applied never matters. -/
def Commute (a b : Step) : Prop := ∀ s, apply (apply s a) b = apply (apply s b) a

/-- `b` stays clear of the removal of dataset `id` at `path`: it neither concerns that dataset id
nor writes, records or releases that path. -/
def Clear (id path : Nat) : Step → Prop
  | .regColl _ _ => True
  | .put _ id' path' _ => id' ≠ id ∧ path' ≠ path
  | .assoc _ _ => True
  | .chainAdd _ _ => True
  | .prune1 _ id' path' => id' ≠ id ∧ path' ≠ path
  | .prune2q id' _ => id' ≠ id
  | .prune2d id' path' => id' ≠ id ∧ path' ≠ path
  | .prune3 id' => id' ≠ id

end Conc
