import ButlerModel.Model.Py
/-! Hand-written carrier types for the Timespan model.  All *operations* are generated
from `_timespan.py` / `timespan_database_representation.py` into `Gen/Timespan*.lean`. -/

/-- `Timespan.nsec`: a pair of integer TAI nanoseconds `[b, e)`. -/
structure TS where
  b : Int
  e : Int
  deriving DecidableEq, Repr, Inhabited

/-- A constructor argument of `Timespan.__init__`: `None`, `Timespan.EMPTY`, an
`astropy.time.Time` (already converted to clamped nanoseconds by `astropy_to_nsec`,
with the two flags the error-message branch of the constructor looks at), or a value of
any other type. -/
inductive Bound where
  | none
  | empty
  | time (nsec : Int) (belowEpoch aboveMax : Bool)
  | other
  deriving DecidableEq, Repr, Inhabited

namespace Bound
def isNone : Bound → Bool | .none => true | _ => false
def isEmptyTag : Bound → Bool | .empty => true | _ => false
def isTime : Bound → Bool | .time .. => true | _ => false
def nsec : Bound → Int | .time n _ _ => n | _ => 0
def ltEpoch : Bound → Bool | .time _ b _ => b | _ => false
def gtMax : Bound → Bool | .time _ _ a => a | _ => false
end Bound

namespace TS
/-- The set of nanoseconds a timespan denotes. -/
def Mem (x : Int) (t : TS) : Prop := t.b ≤ x ∧ x < t.e
def render (t : TS) : String := s!"({t.b},{t.e})"
end TS
