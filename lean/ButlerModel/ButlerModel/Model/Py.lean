/-! Python built-ins used by translated code (`translate/py2lean.py`). Core Lean only. -/
namespace Py

/-- `max(*xs)` for a non-empty list (Python raises on an empty one; callers guard). -/
def maxL : List Int → Int
  | [] => 0
  | x :: xs => xs.foldl max x

/-- `min(*xs)` for a non-empty list. -/
def minL : List Int → Int
  | [] => 0
  | x :: xs => xs.foldl min x

theorem foldl_max_ge (xs : List Int) (a : Int) : a ≤ xs.foldl max a ∧ ∀ x ∈ xs, x ≤ xs.foldl max a := by
  induction xs generalizing a with
  | nil => simp
  | cons y ys ih =>
    simp only [List.foldl_cons, List.mem_cons]
    have h := ih (max a y)
    refine ⟨by omega, ?_⟩
    intro x hx
    cases hx with
    | inl h1 => subst h1; omega
    | inr h1 => exact h.2 x h1

theorem foldl_max_mem (xs : List Int) (a : Int) : xs.foldl max a = a ∨ xs.foldl max a ∈ xs := by
  induction xs generalizing a with
  | nil => simp
  | cons y ys ih =>
    simp only [List.foldl_cons, List.mem_cons]
    rcases ih (max a y) with h | h
    · rw [h]; by_cases hc : a ≤ y
      · right; left; omega
      · left; omega
    · right; right; exact h

theorem foldl_min_le (xs : List Int) (a : Int) : xs.foldl min a ≤ a ∧ ∀ x ∈ xs, xs.foldl min a ≤ x := by
  induction xs generalizing a with
  | nil => simp
  | cons y ys ih =>
    simp only [List.foldl_cons, List.mem_cons]
    have h := ih (min a y)
    refine ⟨by omega, ?_⟩
    intro x hx
    cases hx with
    | inl h1 => subst h1; omega
    | inr h1 => exact h.2 x h1

theorem foldl_min_mem (xs : List Int) (a : Int) : xs.foldl min a = a ∨ xs.foldl min a ∈ xs := by
  induction xs generalizing a with
  | nil => simp
  | cons y ys ih =>
    simp only [List.foldl_cons, List.mem_cons]
    rcases ih (min a y) with h | h
    · rw [h]; by_cases hc : a ≤ y
      · left; omega
      · right; left; omega
    · right; right; exact h

/-! ### `collections.defaultdict(list)` with natural-number keys and values: an association list in insertion order -/

abbrev Groups := List (Nat × List Nat)

/-- `d[k].append(v)` -/
def groupAppend : Groups → Nat → Nat → Groups
  | [], k, v => [(k, [v])]
  | (k', vs) :: rest, k, v => if k' = k then (k', vs ++ [v]) :: rest else (k', vs) :: groupAppend rest k v

/-- `list(d.keys())` -/
def groupKeys (g : Groups) : List Nat := g.map (·.1)

/-- `d[k]` (for a key that is present; `[]` otherwise — the translated code only asks for keys it took from `d`) -/
def groupGet : Groups → Nat → List Nat
  | [], _ => []
  | (k', vs) :: rest, k => if k' = k then vs else groupGet rest k

/-- `s.add(x)` for a set kept as a list without repetition -/
def setAdd (l : List Nat) (x : Nat) : List Nat := if l.contains x then l else l ++ [x]

end Py
