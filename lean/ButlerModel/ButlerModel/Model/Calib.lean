import ButlerModel.Gen.TimespanPy
/-! Model of the calibration association table of one (dataset type, CALIBRATION collection):
`certify` / `decertify` of `registry/datasets/byDimensions/_manager.py` (the branch without a
database exclusion constraint, i.e. SQLite), and the timespan lookup.  Timespan operations are the
ones *generated* from `_timespan.py` (`Gen.TsPy`). -/
namespace Calib
open Gen

structure Row where
  key : Nat   -- data ID (required values), numbered by the harness
  ds : Nat    -- dataset
  ts : TS
  deriving DecidableEq, Repr, Inhabited

abbrev State := List Row

/-- The SELECT-COUNT-then-INSERT emulation of the exclusion constraint: count existing rows of the
batch's data IDs overlapping the timespan; refuse if any, else insert one row per dataset. -/
def certifyCore (s : State) (batch : List (Nat × Nat)) (ts : TS) : Except String State :=
  let conflicting := (s.filter fun r => TsPy.overlaps r.ts ts && batch.any (fun b => b.1 == r.key)).length
  if conflicting > 0 then .error "ConflictingDefinitionError"
  else .ok (s ++ batch.map fun b => ⟨b.1, b.2, ts⟩)

/-- `len(data_ids) == len(rows)`: no two datasets of the call share a data ID. -/
def distinctKeys : List (Nat × Nat) → Bool
  | [] => true
  | b :: bs => !(bs.any fun b' => b'.1 == b.1) && distinctKeys bs

/-- `certify(collection, datasets, timespan)` (SQLite branch): nothing to do for an empty batch;
a batch with a repeated data ID is refused (unless the timespan is empty, which overlaps nothing);
otherwise `certifyCore`. -/
def certify (s : State) (batch : List (Nat × Nat)) (ts : TS) : Except String State :=
  if batch.isEmpty then .ok s
  else if !distinctKeys batch && !TsPy.isEmpty ts then .error "ConflictingDefinitionError"
  else certifyCore s batch ts

def selected (sel : Option (List Nat)) (k : Nat) : Bool :=
  match sel with
  | none => true
  | some l => l.contains k

def hit (ts : TS) (sel : Option (List Nat)) (r : Row) : Bool := TsPy.overlaps r.ts ts && selected sel r.key

/-- `decertify(collection, datasetType, timespan, dataIds=sel)`: delete every overlapping row (of
the selected data IDs) and re-insert what `Timespan.difference` leaves of it. -/
def decertify (s : State) (ts : TS) (sel : Option (List Nat)) : State :=
  s.filter (fun r => !hit ts sel r) ++
    (s.filter (hit ts sel)).flatMap (fun r => (TsPy.difference r.ts ts).map fun d => ⟨r.key, r.ds, d⟩)

/-- cascade of `removeDatasets`. -/
def removeDataset (s : State) (d : Nat) : State := s.filter (fun r => r.ds != d)

/-- Rows of data ID `k` valid at instant `t`. -/
def validAt (s : State) (k : Nat) (t : Int) : List Row := s.filter fun r => r.key == k && TsPy.containsT r.ts t

/-- Timespan lookup (`findDataset(..., timespan=q)` on a CALIBRATION collection). -/
inductive Found where
  | none | one (ds : Nat) | ambiguous
  deriving DecidableEq, Repr

def lookup (s : State) (k : Nat) (q : TS) : Found :=
  match s.filter (fun r => r.key == k && TsPy.overlaps r.ts q) with
  | [] => .none
  | [r] => .one r.ds
  | _ => .ambiguous

def render (s : State) : String :=
  ";".intercalate (s.map fun r => s!"{r.key}:{r.ds}:{r.ts.b},{r.ts.e}")

end Calib
