/-! Model of the datastore file cache (`datastore/cache_manager.py`): `CacheRegistry` bookkeeping
(`_entries` in dict order, `_size`), `move_to_cache` (= expire, "already cached?" check, move,
register), `remove_from_cache`, `scan_cache`, and `_expire_cache` in its four modes with the clock
as a parameter.  Files, datasets and times are numbered / integer seconds.  Core Lean only. -/
namespace Cache

structure Entry where
  key : Nat      -- file (path in cache)
  ref : Nat      -- dataset id
  size : Nat
  ctime : Int    -- seconds
  deriving DecidableEq, Repr, Inhabited

/-- One client's `CacheRegistry`. -/
structure Reg where
  entries : List Entry := []
  size : Nat := 0
  deriving Repr, Inhabited

inductive Mode where
  | files | datasets | size | age
  deriving DecidableEq, Repr

/-- `CacheRegistry.__setitem__` for a key not yet present. -/
def Reg.set (r : Reg) (e : Entry) : Reg := { entries := r.entries ++ [e], size := r.size + e.size }

/-- `CacheRegistry.pop(key, None)`: remove the entry if present, decrement the size (clipped at 0). -/
def Reg.pop (r : Reg) (k : Nat) : Reg :=
  match r.entries.find? (·.key == k) with
  | none => r
  | some e => { entries := r.entries.filter (·.key != k), size := r.size - e.size }

/-- Stable insertion into a ctime-sorted list (after every entry with ctime ≤). -/
def insertSorted (e : Entry) : List Entry → List Entry
  | [] => [e]
  | x :: xs => if e.ctime < x.ctime then e :: x :: xs else x :: insertSorted e xs

/-- `_sort_cache`: `sorted(entries, key=ctime)` (stable). -/
def sortCache (es : List Entry) : List Entry := es.foldr insertSorted []

/-- `_remove_from_cache(keys)`: pop from the registry and unlink the file. -/
def removeKeys (disk : List Entry) (r : Reg) (ks : List Nat) : List Entry × Reg :=
  (disk.filter (fun e => !ks.contains e.key), ks.foldl Reg.pop r)

/-- `scan_cache`: register files found on disk that are unknown, forget entries whose file is gone. -/
def scan (disk : List Entry) (r : Reg) : Reg :=
  let known := r.entries.filter fun e => disk.any (·.key == e.key)
  let gone := r.entries.filter fun e => !disk.any (·.key == e.key)
  let r1 : Reg := gone.foldl (fun r e => r.pop e.key) r
  let new := disk.filter fun e => !known.any (·.key == e.key)
  new.foldl Reg.set r1

/-- Distinct dataset ids in order of first appearance. -/
def refsInOrder : List Entry → List Nat
  | [] => []
  | e :: es => e.ref :: (refsInOrder es).filter (· != e.ref)

/-- The `size` mode loop: remove oldest first until the tracked size is within the threshold. -/
def sizeLoop (thr : Nat) : List Entry → (List Entry × Reg) → (List Entry × Reg)
  | [], s => s
  | e :: es, (disk, r) =>
    let (disk', r') := removeKeys disk r [e.key]
    if r'.size ≤ thr then (disk', r') else sizeLoop thr es (disk', r')

/-- The `age` predicate as written in the source. `delta.total_seconds()` after the fix. -/
def tooOld (now : Int) (thr : Int) (e : Entry) : Bool := now - e.ctime > thr

/-- `_expire_cache` (after its `scan_cache`). -/
def expire (mode : Mode) (thr : Int) (now : Int) (disk : List Entry) (r0 : Reg) : List Entry × Reg :=
  let r := scan disk r0
  match mode with
  | .files =>
    let nOver : Int := r.entries.length - thr
    if nOver > 0 then removeKeys disk r (((sortCache r.entries).take nOver.toNat).map (·.key)) else (disk, r)
  | .datasets =>
    let sorted := sortCache r.entries
    let refs := refsInOrder sorted
    let nOver : Int := refs.length - thr
    if nOver > 0 then
      let doomed := refs.take nOver.toNat
      removeKeys disk r ((doomed.flatMap fun d => sorted.filter (·.ref == d)).map (·.key))
    else (disk, r)
  | .size =>
    if (r.size : Int) > thr then sizeLoop thr.toNat (sortCache r.entries) (disk, r) else (disk, r)
  | .age =>
    removeKeys disk r (((sortCache r.entries).takeWhile (tooOld now thr)).map (·.key))

/-- `move_to_cache`: expire first, then skip if already cached, else move the file in and register. -/
def moveToCache (mode : Mode) (thr : Int) (now : Int) (e : Entry) (disk : List Entry) (r : Reg) :
    List Entry × Reg :=
  let (disk1, r1) := expire mode thr now disk r
  if r1.entries.any (·.key == e.key) then (disk1, r1)
  else (disk1.filter (·.key != e.key) ++ [e], r1.set e)

/-- `remove_from_cache(refs)`. -/
def removeRefs (disk : List Entry) (r : Reg) (refs : List Nat) : List Entry × Reg :=
  if r.entries.isEmpty then (disk, r)
  else removeKeys disk r ((r.entries.filter fun e => refs.contains e.ref).map (·.key))

def renderReg (r : Reg) : String :=
  let ks := (r.entries.map (·.key)).toArray.qsort (· < ·) |>.toList
  s!"size={r.size} entries=" ++ (if ks.isEmpty then "-" else ",".intercalate (ks.map toString))
def renderDisk (d : List Entry) : String :=
  let ks := (d.map (·.key)).toArray.qsort (· < ·) |>.toList
  if ks.isEmpty then "-" else ",".intercalate (ks.map toString)

end Cache
