/-! Model of result paging and limits in the direct query driver
(`direct_query_driver/_driver.py` `_Cursor`, `_postprocessing.py` `Postprocessing.apply`):
raw SQL rows arrive in pages of `k` rows; each page goes through `apply`, which drops rows failing
the (spatial) post-filter and carries a *mutable, decrementing* limit from page to page.
Rows are abstract (`α`); the post-filter is a predicate. Core Lean only. -/
namespace Paging

/-- `Postprocessing.apply(rows)` for one page when post-processing is active.
State = remaining limit (`none` = unlimited).  Returns (yielded rows, new limit state). -/
def applyPage {α : Type} (p : α → Bool) : Option Nat → List α → List α × Option Nat
  | none, rows => (rows.filter p, none)
  | some 0, _ => ([], some 0)                      -- `if self._limit == 0: return`
  | some (l + 1), [] => ([], some (l + 1))
  | some (l + 1), r :: rs =>
    if p r then
      -- yield row; limit -= 1; if it hit zero stop
      if l = 0 then ([r], some 0)
      else let (out, st) := applyPage p (some l) rs; (r :: out, st)
    else applyPage p (some (l + 1)) rs

/-- `cursor.partitions()` with `yield_per = k`: chunks of `k` rows (k ≥ 1). -/
def pages {α : Type} (k : Nat) : Nat → List α → List (List α)
  | 0, _ => []
  | fuel + 1, rows => if rows.isEmpty then [] else rows.take k :: pages k fuel (rows.drop k)

/-- Iterate all pages through `apply`, concatenating what each page yields. -/
def iterate {α : Type} (p : α → Bool) : Option Nat → List (List α) → List α
  | _, [] => []
  | st, pg :: pgs => let (out, st') := applyPage p st pg; out ++ iterate p st' pgs

/-- The result the documentation promises: the post-filtered rows, cut at the limit. -/
def spec {α : Type} (p : α → Bool) (limit : Option Nat) (rows : List α) : List α :=
  match limit with
  | none => rows.filter p
  | some l => (rows.filter p).take l

/-- Stable insertion sort by a "less than" on keys (the model of `ORDER BY`). -/
def insertBy {α : Type} (lt : α → α → Bool) (x : α) : List α → List α
  | [] => [x]
  | y :: ys => if lt x y then x :: y :: ys else y :: insertBy lt x ys
def sortBy {α : Type} (lt : α → α → Bool) (l : List α) : List α := l.foldr (insertBy lt) []

/-! ### the convenience wrappers (`Butler.query_data_ids`, `query_datasets`, `query_dimension_records`):
a negative limit `-n` means "at most `n`, and warn when there are more".  The wrapper asks the query for
`n + 1` rows; a full answer proves there are more, its last row is dropped and the warning issued. -/

/-- `rows`: what the query would return without limit; the query itself applies `take` -/
def wrapper {α : Type} (limit : Option Int) (rows : List α) : List α × Bool :=
  match limit with
  | none => (rows, false)
  | some l =>
    if l < 0 then
      let queryLimit := l.natAbs + 1
      let got := rows.take queryLimit
      if got.length == queryLimit then (got.dropLast, true) else (got, false)
    else (rows.take l.toNat, false)

end Paging
