/-! Model of the dimension universe and of `DimensionGroup` (`dimensions/_group.py`).
Elements are numbered by their position in universe order (`DimensionUniverse.sorted`).
Core Lean only. -/
namespace Dim

structure Elem where
  isDim : Bool
  /-- required dimensions other than the element itself (element indices) -/
  req : List Nat
  /-- implied dimensions, in the iteration order of `element.implied` -/
  imp : List Nat
  deriving DecidableEq, Repr, Inhabited

abbrev Universe := List Elem

def elemAt (U : Universe) (k : Nat) : Elem := U.getD k ⟨false, [], []⟩
def deps (U : Universe) (k : Nat) : List Nat := (elemAt U k).req ++ (elemAt U k).imp

/-- Well-formedness (decidable): every dependency points to an earlier element (so the
dependency graph is acyclic and universe order is topological), dependencies are dimensions,
and required ∩ implied = ∅. -/
def wfB (U : Universe) : Bool :=
  (List.range U.length).all fun k =>
    (deps U k).all (fun j => decide (j < k) && (elemAt U j).isDim) &&
    (elemAt U k).req.all (fun j => !(elemAt U k).imp.contains j)

/-- A set of element indices as a characteristic function. -/
abbrev NSet := Nat → Bool

/-- One downward sweep: visit indices `k-1, …, 0`; whenever an index is in the set, add its
dependencies.  Because dependencies point downwards this computes the least closed superset. -/
def sweep (U : Universe) : Nat → NSet → NSet
  | 0, m => m
  | k + 1, m => sweep U k (if m k then (fun j => m j || (deps U k).contains j) else m)

/-- Dependency closure (the set computed by `DimensionGroup.__new__` with `_conform=True`). -/
def closeFn (U : Universe) (m : NSet) : NSet := sweep U U.length m

def ofList (s : List Nat) : NSet := fun i => s.contains i
def toList (U : Universe) (m : NSet) : List Nat := (List.range U.length).filter m

/-- `DimensionGroup(universe, names).names` as a sorted index list. -/
def close (U : Universe) (s : List Nat) : List Nat := toList U (closeFn U (ofList s))

/-- List-based sweep: the executable form used by the driver (`closeFast_eq` proves it equal). -/
def sweepL (U : Universe) : Nat → List Nat → List Nat
  | 0, s => s
  | k + 1, s => sweepL U k (if s.contains k then deps U k ++ s else s)

def closeFast (U : Universe) (s : List Nat) : List Nat :=
  let r := sweepL U U.length s
  (List.range U.length).filter fun i => r.contains i

theorem sweepL_eq (U : Universe) : ∀ (k : Nat) (s : List Nat) (i : Nat),
    (sweepL U k s).contains i = sweep U k (ofList s) i := by
  intro k
  induction k with
  | zero => intro s i; rfl
  | succ k ih =>
    intro s i
    unfold sweepL sweep
    rw [ih]
    congr 1
    unfold ofList
    split
    · funext j
      simp only [List.contains_eq_mem, List.mem_append, Bool.decide_or, Bool.or_comm]
    · rfl

theorem closeFast_eq (U : Universe) (s : List Nat) : closeFast U s = close U s := by
  unfold closeFast close toList closeFn
  simp only []
  congr 1
  funext i
  exact sweepL_eq U _ s i

def Closed (U : Universe) (m : NSet) : Prop := ∀ k, m k = true → ∀ j ∈ deps U k, m j = true

/-- `required`: members that no member implies. -/
def required (U : Universe) (g : List Nat) : List Nat :=
  g.filter fun d => !(g.any fun d' => (elemAt U d').imp.contains d)
/-- `implied`: members some member implies. -/
def implied (U : Universe) (g : List Nat) : List Nat :=
  g.filter fun d => g.any fun d' => (elemAt U d').imp.contains d

/-- `elements`: every universe element whose required dimensions (itself included, for a
dimension) are all in the group. -/
def elements (U : Universe) (g : List Nat) : List Nat :=
  (List.range U.length).filter fun e =>
    ((elemAt U e).req.all fun r => g.contains r) && (!(elemAt U e).isDim || g.contains e)

/-- `lookup_order`'s inner recursive function `add_to_order` (state = (done, order)). -/
def addToOrder (U : Universe) : Nat → Nat → (List Nat × List Nat) → (List Nat × List Nat)
  | 0, _, s => s
  | fuel + 1, e, (done, order) =>
    if done.contains e then (done, order)
    else if !((elemAt U e).req.all fun r => done.contains r) then (done, order)
    else (elemAt U e).imp.foldl (fun s o => addToOrder U fuel o s) (e :: done, order ++ [e])

/-- `lookup_order`'s `while not done.issuperset(self.required)` loop. -/
def lookupLoop (U : Universe) (req : List Nat) : Nat → (List Nat × List Nat) → (List Nat × List Nat)
  | 0, s => s
  | fuel + 1, s =>
    if req.all (fun r => s.1.contains r) then s
    else lookupLoop U req fuel (req.foldl (fun s d => addToOrder U (U.length + 1) d s) s)

/-- `DimensionGroup.lookup_order`. -/
def lookupOrder (U : Universe) (g : List Nat) : List Nat :=
  let s := lookupLoop U (required U g) (U.length + 1) ([], [])
  s.2 ++ (elements U g).filter (fun e => !s.1.contains e)

/-- The nondeterministic worklist of `DimensionGroup.__new__` (Python pops from a `set` in
unspecified order): `choose` picks which pending name is popped. State = (to_expand, names). -/
def worklist (U : Universe) (choose : List Nat → Nat) : Nat → (List Nat × List Nat) → Option (List Nat)
  | 0, (te, names) => if te.isEmpty then some names else none
  | fuel + 1, (te, names) =>
    if te.isEmpty then some names
    else
      let d := choose te
      let names' := d :: names
      let te' := (te ++ deps U d).filter (fun x => !names'.contains x)
      worklist U choose fuel (te', names')

def renderList (l : List Nat) : String := ",".intercalate (l.map toString)


/-! ### comparison of groups (`DimensionGroup.__le__` … `__gt__`, `issubset`, `issuperset`, `isdisjoint`):
the subset order of the name sets -/
def subsetB (a b : List Nat) : Bool := a.all fun x => b.contains x
def leB (a b : List Nat) : Bool := subsetB a b
def geB (a b : List Nat) : Bool := subsetB b a
def eqB (a b : List Nat) : Bool := subsetB a b && subsetB b a
def ltB (a b : List Nat) : Bool := subsetB a b && !subsetB b a
def gtB (a b : List Nat) : Bool := subsetB b a && !subsetB a b
def disjointB (a b : List Nat) : Bool := a.all fun x => !b.contains x

end Dim
