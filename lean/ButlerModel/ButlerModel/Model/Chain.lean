/-! Model of CHAINED collections (`registry/collections/_base.py`): the `collection_chain` rows of
one parent with integer positions and the four edits, depth-first flattening of a search path
(`_find_many.order` + `resolve_wildcard`'s `done_keys`), the cycle check, and find-first.
Collections are numbered. Core Lean only. -/
namespace Chain

/-! ### chain rows of one parent: (position, child), kept in position order -/
abbrev Rows := List (Int × Nat)

def children (r : Rows) : List Nat := r.map (·.2)

/-- `resolve_wildcard(from_names(names), flatten_chains=False)`: first occurrences, in order. -/
def dedup : List Nat → List Nat
  | [] => []
  | x :: xs => x :: (dedup xs).filter (· != x)

/-- `_remove_collection_chain_rows`. -/
def removeRows (r : Rows) (ks : List Nat) : Rows := r.filter fun p => !ks.contains p.2

/-- `_insert_collection_chain_rows(parent, start, child_keys)`: `enumerate(child_keys, start)`. -/
def enumFrom (start : Int) : List Nat → Rows
  | [] => []
  | k :: ks => (start, k) :: enumFrom (start + 1) ks

/-- `MIN(position)` / `MAX(position)` with the `None -> 0` default. -/
def minPos : Rows → Int
  | [] => 0
  | p :: ps => ps.foldl (fun m q => min m q.1) p.1
def maxPos : Rows → Int
  | [] => 0
  | p :: ps => ps.foldl (fun m q => max m q.1) p.1

/-- `update_chain` (redefine): delete everything, insert at 0. -/
def redefine (_r : Rows) (new : List Nat) : Rows := enumFrom 0 (dedup new)

/-- `prepend_collection_chain`: remove the new children, then insert them at `min − len`. -/
def prepend (r : Rows) (new : List Nat) : Rows :=
  let ks := dedup new
  let r' := removeRows r ks
  enumFrom (minPos r' - ks.length) ks ++ r'

/-- `extend_collection_chain`: remove the new children, then insert them at `max + 1`. -/
def extend (r : Rows) (new : List Nat) : Rows :=
  let ks := dedup new
  let r' := removeRows r ks
  r' ++ enumFrom (maxPos r' + 1) ks

/-- `remove_from_collection_chain`. -/
def remove (r : Rows) (ks : List Nat) : Rows := removeRows r (dedup ks)

/-! ### flattening and search -/

/-- Chain definitions: `some children` for a CHAINED collection, `none` for any other type. -/
abbrev Defs := Nat → Option (List Nat)

/-- Depth-first pre-order expansion of one collection to its non-CHAINED leaves. -/
def expand (ch : Defs) : Nat → Nat → List Nat
  | 0, _ => []
  | fuel + 1, c =>
    match ch c with
    | none => [c]
    | some kids => kids.flatMap (expand ch fuel)

/-- Same, also yielding the CHAINED records themselves (`include_chains=True`). -/
def expandAll (ch : Defs) : Nat → Nat → List Nat
  | 0, _ => []
  | fuel + 1, c =>
    match ch c with
    | none => [c]
    | some kids => c :: kids.flatMap (expandAll ch fuel)

/-- The flattened search path: pre-order expansion, first occurrence wins. -/
def flattenPath (ch : Defs) (fuel : Nat) (path : List Nat) : List Nat :=
  dedup (path.flatMap (expand ch fuel))

/-- Find-first: the match in the first collection of the flattened path that has one. -/
def findFirst {α : Type} (ch : Defs) (fuel : Nat) (path : List Nat) (lookup : Nat → Option α) : Option α :=
  (flattenPath ch fuel path).findSome? lookup

/-- `_sanity_check_collection_cycles(parent, children)`. -/
def wouldCycle (ch : Defs) (fuel : Nat) (parent : Nat) (kids : List Nat) : Bool :=
  (kids.flatMap (expandAll ch fuel)).any fun c => c == parent && (ch c).isSome

end Chain
