/-! Relational model of a dimension query: every dimension element of the requested group that has a
table contributes that table (its key columns, including implied dependencies), every always-join
element whose dimensions are all present contributes its membership table, and when two spatial
families meet, the overlap relation between their finest elements contributes one more table.  The
query is the natural join of these tables.  Columns are numbers, rows are valuations of which only
the table's columns matter.  Core Lean only. -/
namespace Join

structure Tbl where
  cols : List Nat
  rows : List (Nat → Nat)

def agreeOnB (cols : List Nat) (a r : Nat → Nat) : Bool := cols.all (fun c => a c == r c)

/-- `a` satisfies table `T`: some row of `T` has `a`'s values in `T`'s columns. -/
def Sat (a : Nat → Nat) (T : Tbl) : Prop := ∃ r ∈ T.rows, agreeOnB T.cols a r = true

def merge (c1 : List Nat) (r1 r2 : Nat → Nat) : Nat → Nat := fun c => if c ∈ c1 then r1 c else r2 c

/-- natural join -/
def join (T1 T2 : Tbl) : Tbl :=
  { cols := T1.cols ++ T2.cols.filter (fun c => !T1.cols.contains c),
    rows := T1.rows.flatMap fun r1 =>
      (T2.rows.filter fun r2 => agreeOnB (T2.cols.filter (fun c => T1.cols.contains c)) r1 r2).map fun r2 => merge T1.cols r1 r2 }

def unit : Tbl := { cols := [], rows := [fun _ => 0] }

def joinAll (Ts : List Tbl) : Tbl := Ts.foldl join unit

end Join
