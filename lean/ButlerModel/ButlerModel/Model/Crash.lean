/-! Crash model of the repository: the durable state is the committed database plus the files on
disk; an operation is the sequence of atomic effects the real code performs (SQL statements inside
or outside a transaction, commit, file create / complete / rename / link / delete).  The process may
die between any two effects (and between `fcreate` and `fdone`, i.e. in the middle of a write): the
open transaction is lost, everything else stays.

The effect sequences are not written by hand: the harness records them from the real code on every
run (SQLAlchemy cursor / commit events and the `os` / `shutil` primitives under `lsst.resources`),
so the *order* of effects — artifact before records before commit; commit of the trash before file
deletion before row deletion — is checked against the discipline below on the current source.
Core Lean only. -/
namespace Crash

structure DB where
  reg : List Nat := []             -- `dataset`
  loc : List Nat := []             -- `dataset_location`: the datastore holds the dataset
  trash : List Nat := []           -- `dataset_location_trash`
  recs : List (Nat × Nat) := []    -- `file_datastore_records`: (dataset id, artifact path)
  deriving Repr

abbrev Files := Nat → Option Bool   -- path ↦ none (absent) | some false (incomplete) | some true (complete)

structure S where
  db : DB := {}                    -- committed
  pend : Option DB := none         -- the open transaction's view
  files : Files := fun _ => none

inductive Eff where
  | begin | commit | rollback
  | regAdd (ids : List Nat) | regDel (ids : List Nat)
  | locAdd (ids : List Nat) | locDel (ids : List Nat)
  | trashAdd (ids : List Nat) | trashDel (ids : List Nat)
  | recAdd (rs : List (Nat × Nat)) | recDel (ids : List Nat)
  | fcreate (p : Nat) | fdone (p : Nat)
  | rename (a b : Nat) | link (a b : Nat) | fdel (p : Nat)
  | other
  deriving Repr

def fset (f : Files) (p : Nat) (v : Option Bool) : Files := fun q => if q = p then v else f q

def view (s : S) : DB := s.pend.getD s.db

def applyDB (d : DB) : Eff → DB
  | .regAdd ids => { d with reg := ids ++ d.reg }
  | .regDel ids => { d with reg := d.reg.filter (fun i => !ids.contains i) }
  | .locAdd ids => { d with loc := ids ++ d.loc }
  | .locDel ids => { d with loc := d.loc.filter (fun i => !ids.contains i) }
  | .trashAdd ids => { d with trash := ids ++ d.trash }
  | .trashDel ids => { d with trash := d.trash.filter (fun i => !ids.contains i) }
  | .recAdd rs => { d with recs := rs ++ d.recs }
  | .recDel ids => { d with recs := d.recs.filter (fun r => !ids.contains r.1) }
  | _ => d

def isDBEff : Eff → Bool
  | .regAdd _ | .regDel _ | .locAdd _ | .locDel _ | .trashAdd _ | .trashDel _ | .recAdd _ | .recDel _ => true
  | _ => false

def apply (s : S) (e : Eff) : S :=
  match e with
  | .begin => match s.pend with
      | none => { s with pend := some s.db }
      | some _ => s                                   -- nested: same transaction
  | .commit => match s.pend with
      | some d => { s with db := d, pend := none }
      | none => s
  | .rollback => { s with pend := none }
  | .fcreate p => { s with files := fset s.files p (some false) }
  | .fdone p => { s with files := fset s.files p (some true) }
  | .rename a b => { s with files := fset (fset s.files b (s.files a)) a none }
  | .link a b => { s with files := fset s.files b (s.files a) }
  | .fdel p => { s with files := fset s.files p none }
  | .other => s
  | e => match s.pend with
      | some d => { s with pend := some (applyDB d e) }
      | none => { s with db := applyDB s.db e }        -- autocommit

/-- Does some record of `d` name path `p`? / some record of a dataset the datastore holds? -/
def named (d : DB) (p : Nat) : Bool := d.recs.any (fun r => r.2 == p)
def namedLive (d : DB) (p : Nat) : Bool := d.recs.any (fun r => r.2 == p && d.loc.contains r.1)

/-- The local discipline: what each effect may assume about the state it is applied to. -/
def guard (s : S) : Eff → Bool
  | .recAdd rs =>
      -- a record is only written for an artifact that is completely there
      rs.all (fun r => s.files r.2 == some true)
  | .locAdd ids =>
      -- the datastore only claims a dataset whose recorded artifacts are completely there
      (view s).recs.all (fun r => !ids.contains r.1 || s.files r.2 == some true)
  | .fcreate p =>
      -- never start writing in place under a name some record uses
      !named s.db p && !named (view s) p
  | .fdel p =>
      -- never delete what a dataset the datastore holds refers to (committed or about to be)
      !namedLive s.db p && !namedLive (view s) p
  | .rename a b =>
      -- only a complete file may be moved onto a name some record uses; the source must not be in use
      (s.files a == some true || (!named s.db b && !named (view s) b)) &&
      a != b && !namedLive s.db a && !namedLive (view s) a
  | .link a b => s.files a == some true || (!named s.db b && !named (view s) b)
  | _ => true

/-- Consistency of a database view with the files: no record names a half-written file, and every
dataset the datastore holds has its artifacts completely there. -/
def RecsOK (d : DB) (f : Files) : Prop :=
  ∀ r ∈ d.recs, f r.2 ≠ some false ∧ (r.1 ∈ d.loc → f r.2 = some true)

def Inv (s : S) : Prop := RecsOK s.db s.files ∧ RecsOK (view s) s.files

/-- What a fresh process finds after a crash: the open transaction is gone. -/
def recover (s : S) : S := { s with pend := none }

def runAll (s : S) (es : List Eff) : S := es.foldl apply s

/-- The whole trace obeys the discipline. -/
def disciplined : S → List Eff → Bool
  | _, [] => true
  | s, e :: es => guard s e && disciplined (apply s e) es

end Crash
