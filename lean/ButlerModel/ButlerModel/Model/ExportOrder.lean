/-! Helpers for the order in which an export writes collections (`transfers/_context.py` `_computeSortedCollections`;
the function itself is generated into `Gen/ExportOrderPy.lean`).  Core Lean only. -/
namespace ExportOrder

/-- the chains still to be written: name ↦ children (a Python dict: names are distinct) -/
abbrev Chains := List (Nat × List Nat)

/-- `c in chains` -/
def isKey (cs : Chains) (c : Nat) : Bool := cs.any (fun pc => pc.1 == c)
def ins (x : Nat) : List Nat → List Nat
  | [] => [x]
  | y :: r => if x ≤ y then x :: y :: r else y :: ins x r
/-- `sorted(...)` (insertion sort: structural, so that concrete cases reduce in the kernel) -/
def sorted (l : List Nat) : List Nat := l.foldr ins []

end ExportOrder
