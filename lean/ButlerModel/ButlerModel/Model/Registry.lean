/-! Model of the dataset registry tables (`registry/datasets/byDimensions/_manager.py`,
`registry/collections/_base.py`, `sql_registry.py`): collections, dataset types, the `dataset`
table, and the tag table — which, as in the real schema, holds one row per (collection, dataset)
for RUN membership *and* TAGGED membership, with the UNIQUE (collection, dataset type, data ID)
constraint.  Every operation is all-or-nothing (`@transactional`): on an error the old state is
returned.  Collections, dataset types, data IDs and datasets are numbered by the harness. -/
namespace Registry

inductive CType where
  | run | tagged | chained | calib
  deriving DecidableEq, Repr

structure Dataset where
  id : Nat
  ty : Nat
  key : Nat
  run : Nat
  deriving DecidableEq, Repr

/-- A tag-table row: ((collection, dataset type, data ID), dataset id). -/
abbrev Row := (Nat × Nat × Nat) × Nat

structure St where
  colls : List (Nat × CType) := []
  types : List (Nat × Nat) := []        -- dataset type → definition
  datasets : List Dataset := []
  mem : List Row := []
  chains : List (Nat × List Nat) := []  -- CHAINED parent → children
  stored : List Nat := []               -- datasets with a `dataset_location` row (a datastore holds them)
  deriving Repr

def St.ctype (s : St) (c : Nat) : Option CType := (s.colls.find? (·.1 == c)).map (·.2)
def St.ds (s : St) (id : Nat) : Option Dataset := s.datasets.find? (·.id == id)
def St.lookup (s : St) (c ty key : Nat) : Option Nat := (s.mem.find? (·.1 == (c, ty, key))).map (·.2)
def St.members (s : St) (c : Nat) : List Nat := (s.mem.filter (·.1.1 == c)).map (·.2)

inductive Op where
  | regColl (c : Nat) (t : CType)
  | regType (t defn : Nat)
  | insert (id ty key run : Nat)
  | importDs (id ty key run : Nat)
  | associate (c : Nat) (ds : List Nat)
  | disassociate (c : Nat) (ds : List Nat)
  | removeDatasets (ds : List Nat)
  | removeCollection (c : Nat)
  | setChain (c : Nat) (kids : List Nat)
  | store (id : Nat)        -- a datastore records the dataset (dataset_location row)
  | unstore (id : Nat)
  deriving Repr

/-- `associate`: one dataset at a time inside one transaction (`db.replace` keyed on (dataset,
collection); the UNIQUE (collection, type, data ID) constraint and the FK to `dataset` raise). -/
def assocAll (s : St) (c : Nat) : List Nat → Except String (List Row)
  | [] => .ok s.mem
  | d :: rest =>
    match assocAll s c rest with
    | .error e => .error e
    | .ok mem =>
      match s.ds d with
      | none => .error "ConflictingDefinitionError"          -- FK violation is reported as a conflict
      | some ds =>
        match (mem.find? (·.1 == (c, ds.ty, ds.key))).map (·.2) with
        | none => .ok (((c, ds.ty, ds.key), d) :: mem)
        | some d' => if d' == d then .ok mem else .error "ConflictingDefinitionError"

def regColl (s : St) (c : Nat) (t : CType) : St × String :=
  match s.ctype c with
  | some t' => if t' == t then (s, "False") else (s, "err ConflictingDefinitionError")   -- get-or-create; another type is a conflict
  | none => ({ s with colls := (c, t) :: s.colls }, "True")

def regType (s : St) (t defn : Nat) : St × String :=
  match (s.types.find? (·.1 == t)).map (·.2) with
  | some d => if d == defn then (s, "False") else (s, "err ConflictingDefinitionError")
  | none => ({ s with types := (t, defn) :: s.types }, "True")

def addDataset (s : St) (id ty key run : Nat) : St :=
  { s with datasets := ⟨id, ty, key, run⟩ :: s.datasets, mem := ((run, ty, key), id) :: s.mem }

def insert (s : St) (id ty key run : Nat) : St × String :=
  if !(s.types.any (·.1 == ty)) then (s, "err MissingDatasetTypeError")
  else match s.ctype run with
    | none => (s, "err MissingCollectionError")
    | some .run =>
      if (s.lookup run ty key).isSome || (s.ds id).isSome then (s, "err ConflictingDefinitionError")
      else (addDataset s id ty key run, "ok")
    | some _ => (s, "err CollectionTypeError")

def importDs (s : St) (id ty key run : Nat) : St × String :=
  if !(s.types.any (·.1 == ty)) then (s, "err MissingDatasetTypeError")
  else match s.ctype run with
    | none => (s, "err MissingCollectionError")
    | some .run =>
      match s.ds id with
      | some d =>
        -- already there: idempotent if identical, conflict otherwise (`_validate_import`)
        if d.ty == ty && d.key == key && d.run == run then (s, "ok") else (s, "err ConflictingDefinitionError")
      | none =>
        if (s.lookup run ty key).isSome then (s, "err ConflictingDefinitionError")
        else (addDataset s id ty key run, "ok")
    | some _ => (s, "err CollectionTypeError")

def associate (s : St) (c : Nat) (ds : List Nat) : St × String :=
  if ds.isEmpty then (match s.ctype c with | none => (s, "err MissingCollectionError") | some _ => (s, "ok"))
  else match s.ctype c with
  | none => (s, "err MissingCollectionError")
  | some .tagged =>
    match assocAll s c ds.reverse with
    | .ok mem => ({ s with mem := mem }, "ok")
    | .error e => (s, "err " ++ e)
  | some _ => (s, "err CollectionTypeError")

def disassociate (s : St) (c : Nat) (ds : List Nat) : St × String :=
  if ds.isEmpty then (match s.ctype c with | none => (s, "err MissingCollectionError") | some _ => (s, "ok"))
  else match s.ctype c with
  | none => (s, "err MissingCollectionError")
  | some .tagged => ({ s with mem := s.mem.filter fun r => !(r.1.1 == c && ds.contains r.2) }, "ok")
  | some _ => (s, "err CollectionTypeError")

def removeDatasets (s : St) (ds : List Nat) : St × String :=
  if ds.any (fun d => s.stored.contains d) then (s, "err OrphanedRecordError")
  else ({ s with datasets := s.datasets.filter (fun d => !ds.contains d.id),
                 mem := s.mem.filter (fun r => !ds.contains r.2) }, "ok")

def removeCollection (s : St) (c : Nat) : St × String :=
  match s.ctype c with
  | none => (s, "err MissingCollectionError")
  | some t =>
    if s.chains.any (fun p => p.2.contains c) then (s, "err IntegrityError")      -- FK from collection_chain.child
    else
      let gone := if t == .run then (s.datasets.filter (·.run == c)).map (·.id) else []
      if gone.any (fun d => s.stored.contains d) then (s, "err IntegrityError")   -- FK from dataset_location
      else
        ({ s with colls := s.colls.filter (·.1 != c),
                  datasets := s.datasets.filter (fun d => !gone.contains d.id),
                  mem := s.mem.filter (fun r => !(r.1.1 == c) && !gone.contains r.2),
                  chains := s.chains.filter (·.1 != c) }, "ok")

def setChain (s : St) (c : Nat) (kids : List Nat) : St × String :=
  match s.ctype c with
  | some .chained => ({ s with chains := (c, kids) :: s.chains.filter (·.1 != c) }, "ok")
  | _ => (s, "err CollectionTypeError")

def store (s : St) (id : Nat) : St × String :=
  if (s.ds id).isSome && !s.stored.contains id then ({ s with stored := id :: s.stored }, "ok") else (s, "ok")

def unstore (s : St) (id : Nat) : St × String := ({ s with stored := s.stored.filter (· != id) }, "ok")

def step (s : St) : Op → St × String
  | .regColl c t => regColl s c t
  | .regType t defn => regType s t defn
  | .insert id ty key run => insert s id ty key run
  | .importDs id ty key run => importDs s id ty key run
  | .associate c ds => associate s c ds
  | .disassociate c ds => disassociate s c ds
  | .removeDatasets ds => removeDatasets s ds
  | .removeCollection c => removeCollection s c
  | .setChain c kids => setChain s c kids
  | .store id => store s id
  | .unstore id => unstore s id

def run (s : St) (ops : List Op) : St := ops.foldl (fun st op => (step st op).1) s

end Registry

/-! ### registry + datastore: removal and existence reports (C10)
`artifacts` = datasets whose file is actually present under the datastore root. -/
namespace Registry

structure Repo where
  reg : St := {}
  artifacts : List Nat := []
  deriving Repr

/-- `Butler.put`: insert into the registry, write the artifact, record it in the datastore. -/
def Repo.put (r : Repo) (id ty key run : Nat) : Repo × String :=
  match insert r.reg id ty key run with
  | (s, "ok") => ({ reg := (store s id).1, artifacts := id :: r.artifacts }, "ok")
  | (_, e) => (r, e)

/-- `pruneDatasets(refs, unstore=True)` (+ trash emptying): the datastore forgets them and their artifacts go. -/
def Repo.unstoreMany (r : Repo) (ids : List Nat) : Repo :=
  { reg := { r.reg with stored := r.reg.stored.filter (fun d => !ids.contains d) },
    artifacts := r.artifacts.filter (fun d => !ids.contains d) }

/-- `pruneDatasets(refs, purge=True, unstore=True, disassociate=True)`. -/
def Repo.purge (r : Repo) (ids : List Nat) : Repo × String :=
  let r1 := r.unstoreMany ids
  match removeDatasets r1.reg ids with
  | (s, "ok") => ({ r1 with reg := s }, "ok")
  | (_, e) => (r, e)

/-- `removeRuns([run], unstore=True)`. -/
def Repo.removeRun (r : Repo) (c : Nat) : Repo × String :=
  match r.reg.ctype c with
  | some .run =>
    let ids := (r.reg.datasets.filter (·.run == c)).map (·.id)
    let r1 := r.unstoreMany ids
    match removeCollection r1.reg c with
    | (s, "ok") => ({ r1 with reg := s }, "ok")
    | (_, e) => (r, e)
  | some _ => (r, "err CollectionTypeError")
  | none => (r, "err MissingCollectionError")

/-- Somebody deletes the file behind the datastore's back. -/
def Repo.extDelete (r : Repo) (id : Nat) : Repo := { r with artifacts := r.artifacts.filter (· != id) }

/-- `Butler.exists(ref, full_check=True)` as (RECORDED, DATASTORE, _ARTIFACT). -/
def Repo.existsFlags (r : Repo) (id : Nat) : Bool × Bool × Bool :=
  ((r.reg.ds id).isSome, r.reg.stored.contains id, r.reg.stored.contains id && r.artifacts.contains id)

end Registry
