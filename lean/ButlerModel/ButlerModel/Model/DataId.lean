import ButlerModel.Model.Universe
/-! Model of data IDs (`dimensions/_coordinate.py` `DataCoordinate.standardize`, equality / hash,
subset) and of `SqlRegistry.expandDataId` (walk over `lookup_order`, `setdefault`-and-compare of
implied values, the three documented error classes).  Dimensions are element indices of a
`Dim.Universe`; values are natural numbers (the harness numbers the actual values). -/
namespace DataId
open Dim

abbrev Assoc := List (Nat × Nat)

def getv (m : Assoc) (k : Nat) : Option Nat := (m.find? (·.1 == k)).map (·.2)

/-- `dict.update`: entries of `b` override those of `a`. -/
def update (a b : Assoc) : Assoc := b ++ a
/-- `setdefault` for every entry of `d`. -/
def withDefaults (m d : Assoc) : Assoc := m ++ d

structure DataId where
  group : List Nat             -- dimension names (closed, sorted)
  vals : List (Nat × Nat)      -- required values, or all values (`hasFull`)
  full : Bool
  deriving DecidableEq, Repr

inductive Err where
  | dimensionName | dataIdValue | inconsistent
  deriving DecidableEq, Repr

/-- `DataCoordinate.standardize(mapping, dimensions=…, defaults=…, **kwargs)` for a plain mapping. -/
def standardize (U : Universe) (mapping kwargs : Assoc) (dims : Option (List Nat)) (defaults : Assoc) :
    Except Err DataId :=
  let m0 := update mapping kwargs
  let g := match dims with
    | some d => closeFast U d
    | none => closeFast U (m0.map (fun (p : Nat × Nat) => p.1))
  if g.isEmpty then .ok ⟨[], [], true⟩
  else
    let m := withDefaults m0 defaults
    if g.all (fun d => (getv m d).isSome) then
      .ok ⟨g, (required U g ++ implied U g).map (fun d => (d, (getv m d).getD 0)), true⟩
    else if (required U g).all (fun d => (getv m d).isSome) then
      .ok ⟨g, (required U g).map (fun d => (d, (getv m d).getD 0)), false⟩
    else .error .dimensionName

/-- `==` / `hash`: same dimensions and same required values. -/
def eqv (U : Universe) (a b : DataId) : Bool :=
  a.group == b.group && (required U a.group).all (fun d => getv a.vals d == getv b.vals d)

/-- `subset(dims)`. `none` = KeyError (implied value needed but only required values known). -/
def subset (U : Universe) (a : DataId) (dims : List Nat) : Option DataId :=
  let g := closeFast U dims
  if (required U g).all (fun d => (getv a.vals d).isSome) then
    some ⟨g, (required U g).map (fun d => (d, (getv a.vals d).getD 0)), false⟩
  else none

/-! ### expansion -/

/-- A stored dimension record: the values of the element's implied dimensions. -/
abbrev Record := Assoc

/-- Record store: element → key values (of the element's required dimensions, itself included) → record. -/
abbrev Store := Nat → Assoc → Option Record

/-- Keys identifying an element's record: its required dimensions plus itself if it is a dimension. -/
def elemKeys (U : Universe) (e : Nat) : List Nat := (elemAt U e).req ++ (if (elemAt U e).isDim then [e] else [])

/-- `for d in element.implied: if keys.setdefault(d, value) != value: raise InconsistentDataIdError`. -/
def mergeImplied (rec : Record) : List Nat → Assoc → Except Err Assoc
  | [], ks => .ok ks
  | d :: ds, ks =>
    let v := (getv rec d).getD 0
    match getv ks d with
    | none => mergeImplied rec ds (ks ++ [(d, v)])
    | some v' => if v' == v then mergeImplied rec ds ks else .error .inconsistent

/-- One iteration of the `for element_name in lookup_order` loop. `definesRel e` = the element is
marked `defines_relationships`. State = accumulated `keys`. -/
def expandStep (U : Universe) (store : Store) (definesRel : Nat → Bool) (g : List Nat)
    (keys : Assoc) (e : Nat) : Except Err Assoc :=
  if (elemAt U e).isDim && (getv keys e).isNone then .error .dimensionName
  else
    match store e ((elemKeys U e).map fun k => (k, (getv keys k).getD 0)) with
    | some rec => mergeImplied rec (elemAt U e).imp keys
    | none =>
      if g.contains e then .error .dataIdValue
      else if definesRel e then .error .inconsistent
      else .ok keys

/-- The loop over the lookup order. -/
def expandAll (U : Universe) (store : Store) (definesRel : Nat → Bool) (g : List Nat) :
    List Nat → Assoc → Except Err Assoc
  | [], ks => .ok ks
  | e :: es, ks =>
    match expandStep U store definesRel g ks e with
    | .ok ks' => expandAll U store definesRel g es ks'
    | .error err => .error err

/-- `expandDataId` after standardisation: walk the lookup order. Returns the full key map. -/
def expand (U : Universe) (store : Store) (definesRel : Nat → Bool) (d : DataId) : Except Err Assoc :=
  expandAll U store definesRel d.group (lookupOrder U d.group) d.vals

def renderAssoc (m : Assoc) : String :=
  if m.isEmpty then "-" else ",".intercalate (m.map fun p => s!"{p.1}={p.2}")

end DataId

namespace DataId
/-- `dict.setdefault(k, v)` (used by the translation of `standardize`, `Gen/StandardizePy.lean`) -/
def setdefault (m : Assoc) (k v : Nat) : Assoc := if (getv m k).isSome then m else m ++ [(k, v)]
end DataId
