import ButlerModel.Model.K3
/-! Model of the legacy normaliser `registry/queries/expressions/normalForm.py`
(`TransformationWrapper` hierarchy with its double dispatch, `NormalForm.allows`, `flatten`,
`NormalFormExpression.fromTree`).  Operators and forms are booleans as in the source
(`AND = True`, `OR = False`, `CONJUNCTIVE = True`, `DISJUNCTIVE = False`).

`normalize` recurses on freshly built terms, so it is given a fuel argument; when the fuel runs out
the term is returned *unchanged*, which makes semantic preservation provable for every fuel value
without a termination argument.  (The correspondence check runs with ample fuel and compares the
result structurally with the Python implementation.) -/
namespace NF

/-- A parse tree restricted to its boolean skeleton; everything else is an opaque atom. -/
inductive Tree where
  | atom (k : Nat)
  | not (t : Tree)
  | and (l r : Tree)
  | or (l r : Tree)
  | parens (t : Tree)
  deriving DecidableEq, Repr, Inhabited

/-- `TransformationWrapper`: `Opaque`, `LogicalNot(Opaque)`, `LogicalBinaryOperation`. -/
inductive W where
  | atom (k : Nat)
  | natom (k : Nat)
  | bin (op : Bool) (l r : W)
  deriving DecidableEq, Repr, Inhabited

/-- `not_()`. -/
def W.not_ : W → W
  | .atom k => .natom k
  | .natom k => .atom k
  | .bin op l r => .bin (!op) l.not_ r.not_

/-- `TransformationVisitor`. -/
def toW : Tree → W
  | .atom k => .atom k
  | .not t => (toW t).not_
  | .and l r => .bin true (toW l) (toW r)
  | .or l r => .bin false (toW l) (toW r)
  | .parens t => toW t

/-- `NormalForm.allows(inner=, outer=)`: `inner == outer or outer is self.outer`. -/
def allows (form inner outer : Bool) : Bool := inner == outer || outer == form

/-- `lhs._satisfiesDispatch(operator, rhs, form=form)` with both dispatch levels inlined. -/
def satDispatch (form : Bool) (l : W) (op : Bool) (r : W) : Bool :=
  match l, r with
  | .bin o1 _ _, .bin o2 _ _ => allows form o1 op && allows form o2 op
  | .bin o1 _ _, _ => allows form o1 op
  | _, .bin o2 _ _ => allows form o2 op
  | _, _ => true

/-- `satisfies(form)`. -/
def satisfies (form : Bool) : W → Bool
  | .bin op l r => satisfies form l && satisfies form r && satDispatch form l op r
  | _ => true

/-- `lhs._normalizeDispatch(operator, rhs, form=form)` with both dispatch levels inlined;
`norm` is the recursive call to `normalize(form)`. -/
def normDispatch (form : Bool) (norm : W → W) (l : W) (op : Bool) (r : W) : W :=
  match l, r with
  | .bin o1 a b, .bin o2 c d =>
      if allows form o1 op then
        if allows form o2 op then .bin op l r
        else .bin o2 (norm (.bin op l c)) (norm (.bin op l d))
      else
        if allows form o2 op then .bin o1 (norm (.bin op a r)) (norm (.bin op b r))
        else .bin o2 (.bin o1 (norm (.bin op a c)) (norm (.bin op a d)))
                     (.bin o1 (norm (.bin op b c)) (norm (.bin op b d)))
  | .bin o1 a b, _ =>
      if allows form o1 op then .bin op l r
      else .bin o1 (norm (.bin op a r)) (norm (.bin op b r))
  | _, .bin o2 c d =>
      if allows form o2 op then .bin op l r
      else .bin o2 (norm (.bin op l c)) (norm (.bin op l d))
  | _, _ => .bin op l r

/-- `normalize(form)`. -/
def normalize (form : Bool) : Nat → W → W
  | 0, w => w
  | fuel + 1, w =>
    match w with
    | .bin op l r =>
        if satisfies form w then w
        else normDispatch form (normalize form fuel) (normalize form fuel l) op (normalize form fuel r)
    | _ => w

/-- `flatten(operator)`. -/
def flatten (op : Bool) : W → List W
  | .bin o l r => if o == op then flatten op l ++ flatten op r else [.bin o l r]
  | w => [w]

/-- The nested node lists built by `NormalFormExpression.fromTree`
(outer operator = `form`, inner operator = `not form`). -/
def fromTree (form : Bool) (fuel : Nat) (t : Tree) : List (List W) :=
  (flatten form (normalize form fuel (toW t))).map (flatten (!form))

/-! ### semantics -/
open K3
def op3 (op : Bool) : K3 → K3 → K3 := if op then and3 else or3
def unit3 (op : Bool) : K3 := if op then .tt else .ff

def evalT (σ : Nat → K3) : Tree → K3
  | .atom k => σ k
  | .not t => not3 (evalT σ t)
  | .and l r => and3 (evalT σ l) (evalT σ r)
  | .or l r => or3 (evalT σ l) (evalT σ r)
  | .parens t => evalT σ t

def evalW (σ : Nat → K3) : W → K3
  | .atom k => σ k
  | .natom k => not3 (σ k)
  | .bin op l r => op3 op (evalW σ l) (evalW σ r)

/-- Meaning of a flattened operand list. -/
def evalList (σ : Nat → K3) (op : Bool) (ws : List W) : K3 :=
  ws.foldr (fun w acc => op3 op (evalW σ w) acc) (unit3 op)

/-- Meaning of a `NormalFormExpression` (outer operator `form` over inner operator `not form`). -/
def evalNF (σ : Nat → K3) (form : Bool) (nodes : List (List W)) : K3 :=
  nodes.foldr (fun ws acc => op3 form (evalList σ (!form) ws) acc) (unit3 form)

/-- Structural check that a wrapper is in the requested normal form (used by the correspondence
oracle, independent of `satisfies`): no `outer` operator below an `inner` one. -/
def inForm (form : Bool) : W → Bool
  | .bin op l r =>
      inForm form l && inForm form r &&
        (op == form || (flatten (!form) (.bin op l r)).all (fun w => match w with | .bin _ _ _ => false | _ => true))
  | _ => true

partial def W.render : W → String
  | .atom k => s!"a{k}"
  | .natom k => s!"n{k}"
  | .bin op l r => (if op then "(and " else "(or ") ++ l.render ++ " " ++ r.render ++ ")"

end NF
