/-! Model of the PLY lexer of the expression language (`parser/parserLex.py`).
PLY tries the alternatives of one master regex, in rule order, at the current position and takes
the *first* alternative that matches (not the longest).  Each rule's regex is modelled by a
hand-written matcher over `List Char` (ASCII input; `re.IGNORECASE`).  The rule order and regex
sources are pinned by a kernel-checked fact (`Gen/Grammar.lean`, `masterRegex_expected`). -/
namespace Lexer

structure Tok where
  ty : String
  val : String
  deriving DecidableEq, Repr, Inhabited

def isDigit (c : Char) : Bool := '0' ≤ c && c ≤ '9'
def isAlpha_ (c : Char) : Bool := ('a' ≤ c && c ≤ 'z') || ('A' ≤ c && c ≤ 'Z') || c == '_'
def isAlnum_ (c : Char) : Bool := isAlpha_ c || isDigit c
/-- `\s` (ASCII part). -/
def isSpace (c : Char) : Bool := c == ' ' || c == '\t' || c == '\n' || c == '\r' || c == '\x0b' || c == '\x0c'

/-- longest prefix satisfying `p` (greedy `p*`), and the rest. -/
def span (p : Char → Bool) : List Char → List Char × List Char
  | [] => ([], [])
  | c :: cs => if p c then let (a, b) := span p cs; (c :: a, b) else ([], c :: cs)

def upper (s : String) : String := s.map Char.toUpper

/-- `.*?'` : up to the first quote, not crossing a newline. Returns (content, rest after quote). -/
def untilQuote : List Char → Option (List Char × List Char)
  | [] => none
  | c :: cs =>
    if c == '\'' then some ([], cs)
    else if c == '\n' then none
    else match untilQuote cs with
      | some (a, b) => some (c :: a, b)
      | none => none

/-- `[a-zA-Z_][a-zA-Z0-9_]*` -/
def ident : List Char → Option (List Char × List Char)
  | c :: cs => if isAlpha_ c then let (a, b) := span isAlnum_ cs; some (c :: a, b) else none
  | [] => none

/-- `-?\d+` -/
def signedInt (s : List Char) : Option (List Char × List Char) :=
  let (sign, rest) := match s with
    | '-' :: r => (['-'], r)
    | _ => ([], s)
  let (ds, rest') := span isDigit rest
  if ds.isEmpty then none else some (sign ++ ds, rest')

/-- the decimal text of `int(text)`: leading zeros dropped, `-0` is `0` -/
def canonInt (cs : List Char) : List Char :=
  let (neg, ds) := match cs with
    | '-' :: r => (true, r)
    | _ => (false, cs)
  let ds' := ds.dropWhile (· == '0')
  if ds'.isEmpty then ['0'] else if neg then '-' :: ds' else ds'

/-- `t_RANGE_LITERAL`: `-?\d+\s*\.\.\s*-?\d+(\s*:\s*[1-9]\d*)?` → value `start,stop,stride|None` (the ends converted
with `int`). -/
def range (s : List Char) : Option (Tok × List Char) :=
  match signedInt s with
  | none => none
  | some (a, r1) =>
    let (_, r2) := span isSpace r1
    match r2 with
    | '.' :: '.' :: r3 =>
      let (_, r4) := span isSpace r3
      match signedInt r4 with
      | none => none
      | some (b, r5) =>
        let (_, r6) := span isSpace r5
        let a := canonInt a
        let b := canonInt b
        let noStride := some (⟨"RANGE_LITERAL", String.ofList a ++ "," ++ String.ofList b ++ ",None"⟩, r5)
        match r6 with
        | ':' :: r7 =>
          let (_, r8) := span isSpace r7
          match r8 with
          | c :: _ =>
            if isDigit c && c != '0' then
              let (ds, r9) := span isDigit r8
              some (⟨"RANGE_LITERAL", String.ofList a ++ "," ++ String.ofList b ++ "," ++ String.ofList ds⟩, r9)
            else noStride
          | [] => noStride
        | _ => noStride
    | _ => none

/-- optional exponent `(e[-+]?\d+)?` -/
def exponent (s : List Char) : List Char × List Char :=
  match s with
  | e :: r =>
    if e == 'e' || e == 'E' then
      let (sign, r') := match r with
        | '-' :: q => (['-'], q)
        | '+' :: q => (['+'], q)
        | _ => ([], r)
      let (ds, r'') := span isDigit r'
      if ds.isEmpty then ([], s) else (e :: sign ++ ds, r'')
    else ([], s)
  | [] => ([], s)

/-- `t_NUMERIC_LITERAL`: `\d+(\.\d*)?(e[-+]?\d+)? | \.\d+(e[-+]?\d+)?` -/
def numeric (s : List Char) : Option (Tok × List Char) :=
  let (ds, r1) := span isDigit s
  if !ds.isEmpty then
    let (frac, r2) := match r1 with
      | '.' :: q => let (fs, q') := span isDigit q; ('.' :: fs, q')
      | _ => ([], r1)
    let (ex, r3) := exponent r2
    some (⟨"NUMERIC_LITERAL", String.ofList (ds ++ frac ++ ex)⟩, r3)
  else match s with
    | '.' :: q =>
      let (fs, q') := span isDigit q
      if fs.isEmpty then none
      else let (ex, r3) := exponent q'; some (⟨"NUMERIC_LITERAL", String.ofList ('.' :: fs ++ ex)⟩, r3)
    | _ => none

/-- `t_QUALIFIED_IDENTIFIER`: `ident(\.ident){1,2}` -/
def qualified (s : List Char) : Option (Tok × List Char) :=
  match ident s with
  | none => none
  | some (a, r1) =>
    match r1 with
    | '.' :: r2 =>
      match ident r2 with
      | none => none
      | some (b, r3) =>
        match r3 with
        | '.' :: r4 =>
          match ident r4 with
          | some (c, r5) => some (⟨"QUALIFIED_IDENTIFIER", String.ofList (a ++ '.' :: b ++ '.' :: c)⟩, r5)
          | none => some (⟨"QUALIFIED_IDENTIFIER", String.ofList (a ++ '.' :: b)⟩, r3)
        | _ => some (⟨"QUALIFIED_IDENTIFIER", String.ofList (a ++ '.' :: b)⟩, r3)
    | _ => none

def reserved : List String := ["IN", "OR", "AND", "NOT", "OVERLAPS"]

/-- `t_SIMPLE_IDENTIFIER` with the case-insensitive reserved-word check. -/
def simple (s : List Char) : Option (Tok × List Char) :=
  match ident s with
  | none => none
  | some (a, r) =>
    let w := String.ofList a
    if reserved.contains (upper w) then some (⟨upper w, upper w⟩, r) else some (⟨"SIMPLE_IDENTIFIER", w⟩, r)

/-- The operator / punctuation rules, in PLY's order (longer regexes first). -/
def punct (s : List Char) : Option (Tok × List Char) :=
  match s with
  | '+' :: r => some (⟨"ADD", "+"⟩, r)
  | '>' :: '=' :: r => some (⟨"GE", ">="⟩, r)
  | '<' :: '=' :: r => some (⟨"LE", "<="⟩, r)
  | '(' :: r => some (⟨"LPAREN", "("⟩, r)
  | '*' :: r => some (⟨"MUL", "*"⟩, r)
  | '!' :: '=' :: r => some (⟨"NE", "!="⟩, r)
  | ')' :: r => some (⟨"RPAREN", ")"⟩, r)
  | ',' :: r => some (⟨"COMMA", ","⟩, r)
  | '/' :: r => some (⟨"DIV", "/"⟩, r)
  | '=' :: r => some (⟨"EQ", "="⟩, r)
  | '>' :: r => some (⟨"GT", ">"⟩, r)
  | '<' :: r => some (⟨"LT", "<"⟩, r)
  | '%' :: r => some (⟨"MOD", "%"⟩, r)
  | '-' :: r => some (⟨"SUB", "-"⟩, r)
  | _ => none

inductive Step where
  | tok (t : Tok) (rest : List Char)
  | skip (rest : List Char)
  | error
  | done
  deriving DecidableEq, Repr

/-- `t_TIME_LITERAL`: `T'.*?'` -/
def timeLit (s : List Char) : Option (Tok × List Char) :=
  match s with
  | t :: '\'' :: r => if t == 'T' || t == 't' then (untilQuote r).map fun (a, b) => (⟨"TIME_LITERAL", String.ofList a⟩, b) else none
  | _ => none

/-- `t_STRING_LITERAL`: `'.*?'` -/
def strLit (s : List Char) : Option (Tok × List Char) :=
  match s with
  | '\'' :: r => (untilQuote r).map fun (a, b) => (⟨"STRING_LITERAL", String.ofList a⟩, b)
  | _ => none

/-- `t_BIND_NAME`: `[:][a-zA-Z_][a-zA-Z0-9_]*` -/
def bindName (s : List Char) : Option (Tok × List Char) :=
  match s with
  | ':' :: r => (ident r).map fun (a, b) => (⟨"BIND_NAME", String.ofList a⟩, b)
  | _ => none

/-- The token rules in the order of PLY's master regex: the *first* alternative that matches wins. -/
def tokenAt (s : List Char) : Option (Tok × List Char) :=
  match timeLit s with
  | some x => some x
  | none =>
  match strLit s with
  | some x => some x
  | none =>
  match range s with
  | some x => some x
  | none =>
  match numeric s with
  | some x => some x
  | none =>
  match qualified s with
  | some x => some x
  | none =>
  match simple s with
  | some x => some x
  | none =>
  match bindName s with
  | some x => some x
  | none => punct s

/-- One step of the PLY lexer at the head of the input. -/
def step (s : List Char) : Step :=
  match s with
  | [] => .done
  | c :: cs =>
    if c == ' ' || c == '\t' then .skip cs                       -- t_ignore
    else if c == '\n' then .skip (span (· == '\n') s).2          -- t_newline (discarded)
    else
      match tokenAt s with
      | some (t, r) => .tok t r
      | none => .error

/-- Tokenise the whole input (fuel = input length + 1 suffices: every step consumes input). -/
def lexAll : Nat → List Char → Option (List Tok)
  | 0, _ => none
  | fuel + 1, s =>
    match step s with
    | .done => some []
    | .error => none
    | .skip r => lexAll fuel r
    | .tok t r => (lexAll fuel r).map (t :: ·)

def lex (s : String) : Option (List Tok) := lexAll (s.length + 1) s.toList

end Lexer
