/-! Model of hierarchical `Config` keys (`_config.py`): `names()` (join with escaping),
`_splitIntoKeys`, and lookup in a dict/list tree (`_findInHierarchy` / `_checkNextItem`).
Strings are `List Char`. Core Lean only. -/
namespace ConfigKeys

abbrev Str := List Char

/-- `s.split(d)` for a single-character delimiter. -/
def splitOn (d : Char) : Str → List Str
  | [] => [[]]
  | c :: cs =>
    if c == d then [] :: splitOn d cs
    else match splitOn d cs with
      | [] => [[c]]          -- unreachable: splitOn never returns []
      | h :: t => (c :: h) :: t

/-- `d.join(parts)`. -/
def joinWith (d : Char) : List Str → Str
  | [] => []
  | [x] => x
  | x :: y :: r => x ++ d :: joinWith d (y :: r)

/-- `s.replace(d, "\\" + d)`. -/
def escape (d : Char) : Str → Str
  | [] => []
  | c :: cs => if c == d then '\\' :: c :: escape d cs else c :: escape d cs

/-- `names()`: `delimiter + delimiter.join(escape(k) for k in keys)`. -/
def join (d : Char) (ks : List Str) : Str := d :: joinWith d (ks.map (escape d))

/-- Does `\\d` occur in `s`? -/
def hasEscaped (d : Char) : Str → Bool
  | [] => false
  | [_] => false
  | a :: b :: r => (a == '\\' && b == d) || hasEscaped d (b :: r)

def hasDoubled (d : Char) : Str → Bool
  | a :: b :: c :: r => (a == '\\' && b == '\\' && c == d) || hasDoubled d (b :: c :: r)
  | _ => false

/-- `s.replace("\\" + d, "\r")`. -/
def unescapeToTemp (d : Char) : Str → Str
  | [] => []
  | [a] => [a]
  | a :: b :: r => if a == '\\' && b == d then '\r' :: unescapeToTemp d r else a :: unescapeToTemp d (b :: r)

def isAlnum (c : Char) : Bool := c.isAlphanum

/-- `Config._splitIntoKeys(key)` for a string key. -/
def split (key : Str) : Except String (List Str) :=
  match key with
  | [] => .error "IndexError"
  | d :: rest =>
    if isAlnum d then .ok [key]
    else if hasEscaped d rest then
      if hasDoubled d rest then .error "ValueError"
      else if rest.contains '\r' || d == '\r' then .error "ValueError"
      else .ok ((splitOn d (unescapeToTemp d rest)).map fun h => h.map fun c => if c == '\r' then d else c)
    else .ok (splitOn d rest)

/-! ### the configuration tree -/

inductive Key where
  | s (k : Str)      -- dict key (string)
  | i (n : Nat)      -- list index
  deriving DecidableEq, Repr

inductive Tree where
  | leaf (v : Nat)
  | dict (items : List (Str × Tree))
  | list (items : List Tree)
  deriving Repr

/-- `_findInHierarchy`: follow the keys; `none` = incomplete (KeyError). -/
def find : Tree → List Key → Option Tree
  | t, [] => some t
  | .dict items, .s k :: rest =>
    match items.find? (·.1 == k) with
    | some (_, sub) => find sub rest
    | none => none
  | .list items, .i n :: rest =>
    match items[n]? with
    | some sub => find sub rest
    | none => none
  | _, _ => none

mutual
/-- `nameTuples()`: every path to every node (pre-order), as key lists. -/
def paths : Tree → List (List Key)
  | .leaf _ => []
  | .dict items => pathsDict items
  | .list items => pathsList 0 items
def pathsDict : List (Str × Tree) → List (List Key)
  | [] => []
  | (k, sub) :: rest => ([.s k] :: (paths sub).map (.s k :: ·)) ++ pathsDict rest
def pathsList : Nat → List Tree → List (List Key)
  | _, [] => []
  | n, sub :: rest => ([.i n] :: (paths sub).map (.i n :: ·)) ++ pathsList (n + 1) rest
end

/-- dataset type names: `nameWithComponent` / `splitDatasetTypeName` (split at the first dot). -/
def nameWithComponent (name comp : Str) : Str := name ++ '.' :: comp
def splitFirstDot : Str → Str × Option Str
  | [] => ([], none)
  | c :: cs =>
    if c == '.' then ([], some cs)
    else let (a, b) := splitFirstDot cs; (c :: a, b)

end ConfigKeys

/-! Generic string helpers the translation of `_splitIntoKeys` (`Gen/ConfigPy.lean`) is expressed with. -/
namespace ConfigKeys

def head (s : Str) : Char := s.headD ' '

/-- `p in s` for strings -/
def isInfixB (p : Str) : Str → Bool
  | [] => p.isEmpty
  | c :: cs => p.isPrefixOf (c :: cs) || isInfixB p cs

/-- `s.replace(p, r)`: non-overlapping occurrences, left to right (`p` non-empty; an empty pattern leaves `s` as it is) -/
def replaceSub (p r : Str) (s : Str) : Str :=
  if hp : p.isEmpty then s else
  match s with
  | [] => []
  | c :: cs =>
    if p.isPrefixOf (c :: cs) then r ++ replaceSub p r ((c :: cs).drop p.length)
    else c :: replaceSub p r cs
termination_by s.length
decreasing_by
  · have : 0 < p.length := by
      cases p with
      | nil => simp at hp
      | cons _ _ => simp
    simp only [List.length_drop, List.length_cons]; omega
  · simp

def replaceChar (a b : Char) (s : Str) : Str := s.map fun c => if c == a then b else c

end ConfigKeys
