/-! Model of the registry's read-through caches inside a caching context
(`registry/_caching_context.py`, `_collection_summary_cache.py`, `_collection_record_cache.py`,
`registry/datasets/byDimensions/summaries.py`): per key (a collection) the database holds a value
(its summary / record), the cache — when a caching context is open — may hold a copy.

* `read k` returns the cached copy if there is one, otherwise reads the database and (context open)
  keeps a copy;
* `write k v` updates the database and, as repaired (C17-b), discards the cached copy of `k`;
  `discardOnWrite = false` is the earlier code, kept for the regression witness;
* `exitCtx` drops everything; a rolled-back transaction restores the database to `snapshot` and
  (as repaired, C07-d) drops everything.
Core Lean only. -/
namespace RegCache

structure S where
  db : Nat → Nat := fun _ => 0
  cache : Nat → Option Nat := fun _ => none
  ctx : Bool := false

def upd {α : Type} (f : Nat → α) (k : Nat) (v : α) : Nat → α := fun q => if q = k then v else f q

inductive Op where
  | enter | exit
  | write (k v : Nat)
  | read (k : Nat)
  | rollback (snapshot : Nat → Nat)

/-- Returns the new state and what a `read` answers (0 for the other operations). -/
def step (discardOnWrite clearOnRollback : Bool) (s : S) : Op → S × Nat
  | .enter => ({ s with ctx := true }, 0)
  | .exit => ({ s with ctx := false, cache := fun _ => none }, 0)
  | .write k v => ({ s with db := upd s.db k v, cache := if discardOnWrite then upd s.cache k none else s.cache }, 0)
  | .read k => match s.cache k with
      | some v => (s, v)
      | none => if s.ctx then ({ s with cache := upd s.cache k (some (s.db k)) }, s.db k) else (s, s.db k)
  | .rollback snap => ({ s with db := snap, cache := if clearOnRollback then (fun _ => none) else s.cache }, 0)

/-- The cache never disagrees with the database. -/
def Coherent (s : S) : Prop := ∀ k, s.cache k = none ∨ s.cache k = some (s.db k)

def run (d c : Bool) (s : S) : List Op → S
  | [] => s
  | op :: ops => run d c (step d c s op).1 ops

end RegCache
