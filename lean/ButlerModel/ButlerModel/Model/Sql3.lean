/-! SQL three-valued expression semantics (the fragment daf_butler's SQLAlchemy code uses).
Core Lean only.  `%` is SQL's truncating remainder (`Int.tmod`). -/
namespace Sql

/-- A SQL scalar: NULL, an integer or a boolean. -/
inductive V where
  | null
  | int (i : Int)
  | bool (b : Bool)
  deriving DecidableEq, Repr, Inhabited

/-- Expressions.  Columns are numbered. -/
inductive E where
  | col (n : Nat)
  | lit (i : Int)
  | null
  | lt (a b : E) | le (a b : E) | gt (a b : E) | ge (a b : E) | eq (a b : E) | ne (a b : E)
  | and (a b : E) | or (a b : E) | not (a : E)
  | add (a b : E) | sub (a b : E) | mul (a b : E) | mod (a b : E)
  | isNull (a : E)
  | coalesce (a b : E)
  | between (a lo hi : E)
  deriving Repr, Inhabited

def cmp (f : Int → Int → Bool) : V → V → V
  | .int a, .int b => .bool (f a b)
  | _, _ => .null

def arith (f : Int → Int → Int) : V → V → V
  | .int a, .int b => .int (f a b)
  | _, _ => .null

/-- Kleene conjunction. -/
def and3 : V → V → V
  | .bool false, _ => .bool false
  | _, .bool false => .bool false
  | .bool true, .bool true => .bool true
  | _, _ => .null

/-- Kleene disjunction. -/
def or3 : V → V → V
  | .bool true, _ => .bool true
  | _, .bool true => .bool true
  | .bool false, .bool false => .bool false
  | _, _ => .null

def not3 : V → V
  | .bool b => .bool (!b)
  | _ => .null

def eval (env : Nat → V) : E → V
  | .col n => env n
  | .lit i => .int i
  | .null => .null
  | .lt a b => cmp (fun x y => decide (x < y)) (eval env a) (eval env b)
  | .le a b => cmp (fun x y => decide (x ≤ y)) (eval env a) (eval env b)
  | .gt a b => cmp (fun x y => decide (x > y)) (eval env a) (eval env b)
  | .ge a b => cmp (fun x y => decide (x ≥ y)) (eval env a) (eval env b)
  | .eq a b => cmp (fun x y => decide (x = y)) (eval env a) (eval env b)
  | .ne a b => cmp (fun x y => decide (x ≠ y)) (eval env a) (eval env b)
  | .and a b => and3 (eval env a) (eval env b)
  | .or a b => or3 (eval env a) (eval env b)
  | .not a => not3 (eval env a)
  | .add a b => arith (· + ·) (eval env a) (eval env b)
  | .sub a b => arith (· - ·) (eval env a) (eval env b)
  | .mul a b => arith (· * ·) (eval env a) (eval env b)
  | .mod a b => match eval env a, eval env b with
      | .int x, .int y => if y = 0 then .null else .int (Int.tmod x y)
      | _, _ => .null
  | .isNull a => match eval env a with
      | .null => .bool true
      | _ => .bool false
  | .coalesce a b => match eval env a with
      | .null => eval env b
      | v => v
  | .between a lo hi =>
      and3 (cmp (fun x y => decide (x ≥ y)) (eval env a) (eval env lo))
           (cmp (fun x y => decide (x ≤ y)) (eval env a) (eval env hi))

def V.render : V → String
  | .null => "null"
  | .int i => toString i
  | .bool true => "true"
  | .bool false => "false"

end Sql
