/-! The end of a failed `Butler.transaction()` block of client A, against client B's `put` into the same slot
(same dataset type, data ID and run, hence the same artifact path).

`DirectButler.transaction` nests the datastore transaction *inside* the registry transaction, so a failing block is undone
in two steps: first the datastore's undo log (it deletes the artifact A wrote), then the registry rollback (it discards A's
row and releases SQLite's write lock, held since `BEGIN IMMEDIATE`).  B's `put` is one step under the same lock (row, file,
records in one transaction): it can only run while the lock is free and otherwise waits for it.
Core Lean only; the state is finite, so schedules are decided by evaluation. -/
namespace Lock

inductive Who where
  | a | b
  deriving DecidableEq, Repr

structure S where
  locked : Bool            -- A's registry transaction holds the write lock
  row : Option Who         -- whose dataset is registered in the slot
  file : Option Who        -- whose content is at the slot's artifact path
  deriving DecidableEq, Repr

/-- after A's `put` inside its block, before the block fails -/
def start : S := { locked := true, row := some .a, file := some .a }

inductive AStep where
  | undo      -- DatastoreTransaction.rollback: `_removeFileExists(path)`
  | unlock    -- registry ROLLBACK: A's row is gone, the lock is free
  deriving DecidableEq, Repr

def applyA (s : S) : AStep → S
  | .undo => { s with file := none }
  | .unlock => { s with locked := false, row := if s.row = some .a then none else s.row }

/-- B's put: insert the row, write the artifact (refused if the slot is taken) -/
def putB (s : S) : S := if s.row.isNone then { s with row := some .b, file := some .b } else s

/-- Run A's remaining steps; B arrives before A's `arrival`-th remaining step and runs as soon as the lock is free
(`bDone` = B has run).  When A is finished B runs if it has not yet. -/
def exec : List AStep → Nat → Bool → S → S
  | [], _, bDone, s => if bDone then s else putB s
  | st :: rest, arrival, bDone, s =>
    let runB := !bDone && arrival == 0 && !s.locked
    let s1 := if runB then putB s else s
    exec rest (arrival - 1) (bDone || runB) (applyA s1 st)

/-- the order of the source: undo the artifact, then release the registry -/
def sourceOrder : List AStep := [.undo, .unlock]
/-- the other order (what swapping the two context managers gives) -/
def swappedOrder : List AStep := [.unlock, .undo]

/-- what any sequential order (A's failed block, B's put) leaves: B's dataset with B's content -/
def sequential : S := { locked := false, row := some .b, file := some .b }

end Lock
