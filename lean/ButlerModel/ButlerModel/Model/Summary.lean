/-! Helpers for collection summaries (`registry/_collection_summary.py`; `add_data_ids_generator` and `is_compatible_with` are
generated into `Gen/SummaryPy.lean`): a summary keeps the dataset types present in a collection and, per governor dimension, the
set of values its datasets have.  Core Lean only. -/
namespace Summ

/-- governor ↦ set of values (a Python `dict[str, set[str]]`) -/
abbrev Gov := List (Nat × List Nat)

def keys (g : Gov) : List Nat := g.map (·.1)
/-- the set at a key (empty when the key is absent) -/
def vals (g : Gov) (k : Nat) : List Nat := match g.find? (·.1 == k) with | some e => e.2 | none => []
/-- `d.setdefault(k, set()).add(v)` -/
def addVal : Gov → Nat → Nat → Gov
  | [], k, v => [(k, [v])]
  | (k', vs) :: r, k, v => if k' == k then (k', if vs.contains v then vs else v :: vs) :: r else (k', vs) :: addVal r k v
def addType (ts : List Nat) (t : Nat) : List Nat := if ts.contains t then ts else t :: ts
/-- a data ID as the list of its (governor, value) pairs -/
def govsOf (d : List (Nat × Nat)) : List Nat := d.map (·.1)
def valOf (d : List (Nat × Nat)) (g : Nat) : Nat := match d.find? (·.1 == g) with | some e => e.2 | none => 0
/-- `a.isdisjoint(b)` -/
def disjoint (a b : List Nat) : Bool := a.all fun x => !b.contains x

end Summ
