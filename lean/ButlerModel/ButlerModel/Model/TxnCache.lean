/-! Second transaction model: what a `Butler.transaction()` block does to the *registry-side*
state that sits behind read-through caches (`DimensionRecordCache`, `DatasetTypeCache`, the
collection-record cache of a caching context), and what `pruneDatasets` does inside a block.

* `rows`  — the cached kind of registry rows (dimension records / dataset types / collections);
* `cache` — the in-memory copy: `none` = not loaded, `some l` = loaded with `l`;
* `ds`    — registered datasets (not cached);
* `files` — artifacts under the datastore root.

`SqlRegistry.insertDimensionData` resets the cache *before* inserting, any cached read loads it when
empty (`DimensionRecordCache.preload_cache`), the database rolls `rows`/`ds` back to the state at the
start of a failed block (transaction / SAVEPOINT), and `SqlRegistry.transaction` (as repaired) drops the
caches when the block fails — `resetOnRollback = false` is the earlier code, kept for the regression
witness.  `pruneDatasets(unstore)` moves the dataset to the trash inside the transaction and then
empties the trash, which deletes the artifact at once and cannot be undone.  Core Lean only. -/
namespace TxnCache

inductive Prog where
  | ins (id : Nat)               -- insert a cached-kind row (cache reset, then INSERT)
  | read                         -- any read through the cache (expandDataId, getDatasetType, ...)
  | prune (id : Nat)             -- pruneDatasets([id], purge=True, unstore=True)
  | fail
  | block (body : List Prog)
  | tryBlock (body : List Prog)
  deriving Repr

structure S where
  rows : List Nat := []
  cache : Option (List Nat) := none
  ds : List Nat := []
  files : List Nat := []
  deriving DecidableEq, Repr

/-- What a user sees through the cached interface. -/
def view (s : S) : List Nat := match s.cache with
  | some c => c
  | none => s.rows

def doIns (s : S) (id : Nat) : S := { s with cache := none, rows := id :: s.rows }
def doRead (s : S) : S := match s.cache with
  | some _ => s
  | none => { s with cache := some s.rows }
def doPrune (s : S) (id : Nat) : S :=
  if s.ds.contains id then { s with ds := s.ds.filter (· != id), files := s.files.filter (· != id) } else s

mutual
def run (resetOnRollback : Bool) : Nat → Prog → S → S × Bool
  | 0, _, s => (s, true)
  | _ + 1, .ins id, s => (doIns s id, false)
  | _ + 1, .read, s => (doRead s, false)
  | _ + 1, .prune id, s => (doPrune s id, false)
  | _ + 1, .fail, s => (s, true)
  | fuel + 1, .block body, s =>
    let (s2, failed) := runList resetOnRollback fuel body s
    if failed then
      ({ rows := s.rows, ds := s.ds, files := s2.files,
         cache := if resetOnRollback then none else s2.cache }, true)
    else (s2, false)
  | fuel + 1, .tryBlock body, s => ((run resetOnRollback fuel (.block body) s).1, false)
def runList (resetOnRollback : Bool) : Nat → List Prog → S → S × Bool
  | 0, _, s => (s, true)
  | _ + 1, [], s => (s, false)
  | fuel + 1, p :: ps, s =>
    let (s1, failed) := run resetOnRollback fuel p s
    if failed then (s1, true) else runList resetOnRollback fuel ps s1
end

mutual
def prunes : Prog → List Nat
  | .prune id => [id]
  | .block body => prunesL body
  | .tryBlock body => prunesL body
  | _ => []
def prunesL : List Prog → List Nat
  | [] => []
  | p :: ps => prunes p ++ prunesL ps
end

/-- The cache, when loaded, is a copy of the rows. -/
def Coherent (s : S) : Prop := s.cache = none ∨ s.cache = some s.rows

end TxnCache
