import ButlerModel.Model.Lexer
import ButlerModel.Gen.Grammar
/-! Model of the expression parser: parse trees (`exprTree.py`), a table-driven LR driver over the
LALR tables **extracted from the live PLY parser** (`Gen/Grammar.lean`), with the semantic action of
every production written by hand, lexing lazily exactly as PLY does (including PLY's
"defaulted states", which reduce without looking at the next token), and the printer (`__str__`). -/
namespace Parser
open Lexer

inductive Node where
  | binary (lhs : Node) (op : String) (rhs : Node)
  | unary (op : String) (operand : Node)
  | str (v : String)
  | time (v : String)
  | num (v : String)
  | ident (n : String)
  | bind (n : String)
  | range (v : String)                       -- "start,stop,stride|None"
  | isIn (lhs : Node) (vals : List Node) (notIn : Bool)
  | parens (e : Node)
  | tuple (a b : Node)
  | func (name : String) (args : List Node)
  | point (ra dec : Node)
  deriving Repr, Inhabited

/-- A value on the parser's value stack. -/
inductive Val where
  | tok (t : Tok)
  | node (n : Node)
  | list (l : List Node)
  | none                                      -- `empty`
  deriving Inhabited

def lookup {α : Type} (k : String) : List (String × α) → Option α
  | [] => none
  | (k', v) :: r => if k == k' then some v else lookup k r

def actionOf (st : Nat) (la : String) : Option (Nat × Nat) :=
  match Gen.Grammar.action.find? (·.1 == st) with
  | some (_, row) => lookup la row
  | none => none
def gotoOf (st : Nat) (nt : String) : Option Nat :=
  match Gen.Grammar.goto.find? (·.1 == st) with
  | some (_, row) => lookup nt row
  | none => none
def defaultedOf (st : Nat) : Option Nat := (Gen.Grammar.defaulted.find? (·.1 == st)).map (·.2)

inductive Err where
  | lex | parse | eof | value | internal (msg : String)
  deriving Repr, DecidableEq

/-- Semantic actions, keyed by the production *index* in PLY's production table (children in source
order); the comment behind each case is the production, and `C14.productions_expected` pins the table's
order to exactly this numbering on every run. -/
def actI (prod : Nat) (c : List Val) : Except Err Val :=
  match prod, c with
  | 0, /- S' -> input -/ [v] => .ok v
  | 1, /- input -> expr -/ [v] => .ok v
  | 2, /- input -> empty -/ [v] => .ok v
  | 3, /- empty -> ε -/ [] => .ok .none
  | 4, /- expr -> expr OR expr -/ [.node a, .tok o, .node b] => .ok (.node (.binary a (upper o.val) b))
  | 5, /- expr -> expr AND expr -/ [.node a, .tok o, .node b] => .ok (.node (.binary a (upper o.val) b))
  | 6, /- expr -> NOT expr -/ [.tok o, .node a] => .ok (.node (.unary (upper o.val) a))
  | 7, /- expr -> bool_primary -/ [v] => .ok v
  | 8, /- bool_primary -> bool_primary EQ predicate -/ [.node a, .tok o, .node b] => .ok (.node (.binary a o.val b))
  | 9, /- bool_primary -> bool_primary NE predicate -/ [.node a, .tok o, .node b] => .ok (.node (.binary a o.val b))
  | 10, /- bool_primary -> bool_primary LT predicate -/ [.node a, .tok o, .node b] => .ok (.node (.binary a o.val b))
  | 11, /- bool_primary -> bool_primary LE predicate -/ [.node a, .tok o, .node b] => .ok (.node (.binary a o.val b))
  | 12, /- bool_primary -> bool_primary GE predicate -/ [.node a, .tok o, .node b] => .ok (.node (.binary a o.val b))
  | 13, /- bool_primary -> bool_primary GT predicate -/ [.node a, .tok o, .node b] => .ok (.node (.binary a o.val b))
  | 14, /- bool_primary -> bool_primary OVERLAPS predicate -/ [.node a, .tok o, .node b] => .ok (.node (.binary a o.val b))
  | 15, /- bool_primary -> predicate -/ [v] => .ok v
  | 16, /- predicate -> bit_expr IN LPAREN literal_or_id_list RPAREN -/ [.node a, _, _, .list l, _] => .ok (.node (.isIn a l false))
  | 17, /- predicate -> bit_expr NOT IN LPAREN literal_or_id_list RPAREN -/ [.node a, _, _, _, .list l, _] => .ok (.node (.isIn a l true))
  | 18, /- predicate -> bit_expr -/ [v] => .ok v
  | 19, /- identifier -> SIMPLE_IDENTIFIER -/ [.tok t] => .ok (.node (.ident t.val))
  | 20, /- identifier -> QUALIFIED_IDENTIFIER -/ [.tok t] => .ok (.node (.ident t.val))
  | 21, /- literal_or_id_list -> literal_or_id_list COMMA literal -/ [.list l, _, .node x] => .ok (.list (l ++ [x]))
  | 22, /- literal_or_id_list -> literal_or_id_list COMMA identifier -/ [.list l, _, .node x] => .ok (.list (l ++ [x]))
  | 23, /- literal_or_id_list -> literal_or_id_list COMMA bind_name -/ [.list l, _, .node x] => .ok (.list (l ++ [x]))
  | 24, /- literal_or_id_list -> literal -/ [.node x] => .ok (.list [x])
  | 25, /- literal_or_id_list -> identifier -/ [.node x] => .ok (.list [x])
  | 26, /- literal_or_id_list -> bind_name -/ [.node x] => .ok (.list [x])
  | 27, /- bind_name -> BIND_NAME -/ [.tok t] => .ok (.node (.bind t.val))
  | 28, /- bit_expr -> bit_expr ADD bit_expr -/ [.node a, .tok o, .node b] => .ok (.node (.binary a o.val b))
  | 29, /- bit_expr -> bit_expr SUB bit_expr -/ [.node a, .tok o, .node b] => .ok (.node (.binary a o.val b))
  | 30, /- bit_expr -> bit_expr MUL bit_expr -/ [.node a, .tok o, .node b] => .ok (.node (.binary a o.val b))
  | 31, /- bit_expr -> bit_expr DIV bit_expr -/ [.node a, .tok o, .node b] => .ok (.node (.binary a o.val b))
  | 32, /- bit_expr -> bit_expr MOD bit_expr -/ [.node a, .tok o, .node b] => .ok (.node (.binary a o.val b))
  | 33, /- bit_expr -> simple_expr -/ [v] => .ok v
  | 34, /- simple_expr -> literal -/ [v] => .ok v
  | 35, /- simple_expr -> identifier -/ [v] => .ok v
  | 36, /- simple_expr -> bind_name -/ [v] => .ok v
  | 37, /- simple_expr -> function_call -/ [v] => .ok v
  | 38, /- simple_expr -> ADD simple_expr -/ [.tok o, .node a] => .ok (.node (.unary o.val a))
  | 39, /- simple_expr -> SUB simple_expr -/ [.tok o, .node a] => .ok (.node (.unary o.val a))
  | 40, /- simple_expr -> LPAREN expr RPAREN -/ [_, .node a, _] => .ok (.node (.parens a))
  | 41, /- simple_expr -> LPAREN expr COMMA expr RPAREN -/ [_, .node a, _, .node b, _] => .ok (.node (.tuple a b))
  | 42, /- literal -> NUMERIC_LITERAL -/ [.tok t] => .ok (.node (.num t.val))
  | 43, /- literal -> ADD NUMERIC_LITERAL -/ [.tok s, .tok t] => .ok (.node (.num (s.val ++ t.val)))
  | 44, /- literal -> SUB NUMERIC_LITERAL -/ [.tok s, .tok t] => .ok (.node (.num (s.val ++ t.val)))
  | 45, /- literal -> STRING_LITERAL -/ [.tok t] => .ok (.node (.str t.val))
  | 46, /- literal -> TIME_LITERAL -/ [.tok t] => .ok (.node (.time t.val))
  | 47, /- literal -> RANGE_LITERAL -/ [.tok t] => .ok (.node (.range t.val))
  | 48, /- function_call -> SIMPLE_IDENTIFIER LPAREN expr_list RPAREN -/ [.tok f, _, .list args, _] =>
      if upper f.val == "POINT" then
        match args with
        | [a, b] => .ok (.node (.point a b))
        | _ => .error .value                   -- ValueError("POINT requires two arguments")
      else .ok (.node (.func f.val args))
  | 49, /- expr_list -> expr_list COMMA expr -/ [.list l, _, .node x] => .ok (.list (l ++ [x]))
  | 50, /- expr_list -> expr -/ [.node x] => .ok (.list [x])
  | 51, /- expr_list -> empty -/ [.none] => .ok (.list [])
  | p, _ => .error (.internal ("no semantic action for production " ++ toString p))

/-- The semantic action of a production given by its text (what PLY binds through the docstrings). -/
def act (prod : String) (c : List Val) : Except Err Val :=
  match Gen.Grammar.productions.findIdx? (·.1 == prod) with
  | some i => actI i c
  | none => .error (.internal ("no semantic action for production " ++ prod))

/-- Fetch the next token lazily (PLY calls the lexer only when it needs a lookahead). -/
def nextTok : Nat → List Char → Except Err (Option Tok × List Char)
  | 0, _ => .error (.internal "lexer fuel")
  | fuel + 1, s =>
    match step s with
    | .done => .ok (none, [])
    | .error => .error .lex
    | .skip r => nextTok fuel r
    | .tok t r => .ok (some t, r)

structure PState where
  states : List Nat          -- state stack, top first
  vals : List Val            -- value stack, top first
  la : Option (Option Tok)   -- lookahead if already fetched (`some none` = `$end`)
  input : List Char

def reduce (ps : PState) (prodIdx : Nat) : Except Err PState :=
  match Gen.Grammar.productions[prodIdx]? with
  | none => .error (.internal "bad production index")
  | some (_, lhs, len) =>
    let children := (ps.vals.take len).reverse
    let vals' := ps.vals.drop len
    let states' := ps.states.drop len
    match actI prodIdx children with
    | .error e => .error e
    | .ok v =>
      match states'.head? with
      | none => .error (.internal "empty state stack")
      | some st =>
        match gotoOf st lhs with
        | none => .error (.internal "no goto")
        | some st' => .ok { ps with states := st' :: states', vals := v :: vals' }

/-- The LR loop. -/
def run : Nat → PState → Except Err Val
  | 0, _ => .error (.internal "parser fuel")
  | fuel + 1, ps =>
    match ps.states.head? with
    | none => .error (.internal "empty state stack")
    | some st =>
      match (if ps.la.isNone then defaultedOf st else none) with
      | some prodIdx =>
        match reduce ps prodIdx with
        | .error e => .error e
        | .ok ps' => run fuel ps'
      | none =>
        -- need a lookahead
        let fetched : Except Err (Option Tok × List Char) :=
          match ps.la with
          | some t => .ok (t, ps.input)
          | none => nextTok (ps.input.length + 1) ps.input
        match fetched with
        | .error e => .error e
        | .ok (t, rest) =>
          let laTy := match t with | some t => t.ty | none => "$end"
          match actionOf st laTy with
          | none => .error (if t.isNone then .eof else .parse)
          | some (0, n) =>   -- shift
            run fuel { states := n :: ps.states, vals := (match t with | some t => .tok t | none => .none) :: ps.vals,
                       la := none, input := rest }
          | some (1, n) =>   -- reduce
            match reduce { ps with la := some t, input := rest } n with
            | .error e => .error e
            | .ok ps' => run fuel ps'
          | some (_, _) =>   -- accept
            match ps.vals.head? with
            | some v => .ok v
            | none => .error (.internal "accept with empty stack")

def parse (s : String) : Except Err (Option Node) :=
  match run (20 * s.length + 100) { states := [0], vals := [], la := none, input := s.toList } with
  | .error e => .error e
  | .ok (.node n) => .ok (some n)
  | .ok .none => .ok none
  | .ok _ => .error (.internal "unexpected top value")

/-! ### canonical S-expression (for the correspondence) and the printer (`__str__`) -/
mutual
partial def sexp : Node → String
  | .binary a o b => s!"(B {sexp a} {o} {sexp b})"
  | .unary o a => s!"(U {o} {sexp a})"
  | .str v => s!"(S {v.length}:{v})"
  | .time _ => "(T)"
  | .num v => s!"(N {v})"
  | .ident n => s!"(ID {n})"
  | .bind n => s!"(: {n})"
  | .range v => s!"(R {v})"
  | .isIn a l n => s!"({if n then "!IN" else "IN"} {sexp a} [{sexpL l}])"
  | .parens e => s!"(P {sexp e})"
  | .tuple a b => s!"(TUP {sexp a} {sexp b})"
  | .func f args => s!"(F {f} [{sexpL args}])"
  | .point a b => s!"(POINT {sexp a} {sexp b})"
partial def sexpL : List Node → String
  | [] => ""
  | [x] => sexp x
  | x :: xs => sexp x ++ " " ++ sexpL xs
end

def rangeStr (v : String) : String :=
  match v.splitOn "," with
  | [a, b, s] => a ++ ".." ++ b ++ (if s == "None" then "" else ":" ++ s)
  | _ => v

mutual
/-- `__str__` of every node class, as written in `exprTree.py` (bind names print with their colon;
time literals are printed by astropy and are not modelled: `T'…'` placeholder). -/
partial def print : Node → String
  | .binary a o b => s!"{print a} {o} {print b}"
  | .unary o a => s!"{o} {print a}"
  | .str v => s!"'{v}'"
  | .time v => s!"T'{v}'"
  | .num v => v
  | .ident n => n
  | .bind n => ":" ++ n
  | .range v => rangeStr v
  | .isIn a l n => s!"{print a} {if n then "NOT " else ""}IN ({printL l})"
  | .parens e => s!"({print e})"
  | .tuple a b => s!"({print a}, {print b})"
  | .func f args => s!"{f}({printL args})"
  | .point a b => s!"POINT({print a}, {print b})"
partial def printL : List Node → String
  | [] => ""
  | [x] => print x
  | x :: xs => print x ++ ", " ++ printL xs
end

end Parser
