/-! Kleene three-valued logic (SQL's truth values). Core Lean only. -/
inductive K3 where
  | tt | ff | nn
  deriving DecidableEq, Repr, Inhabited

namespace K3
def and3 : K3 → K3 → K3
  | .ff, _ => .ff
  | _, .ff => .ff
  | .tt, .tt => .tt
  | _, _ => .nn
def or3 : K3 → K3 → K3
  | .tt, _ => .tt
  | _, .tt => .tt
  | .ff, .ff => .ff
  | _, _ => .nn
def not3 : K3 → K3
  | .tt => .ff
  | .ff => .tt
  | .nn => .nn
def render : K3 → String
  | .tt => "T" | .ff => "F" | .nn => "N"
def ofChar : Char → K3
  | 'T' => .tt | 'F' => .ff | _ => .nn

@[simp] theorem and3_t_left (a : K3) : and3 .tt a = a := by cases a <;> rfl
@[simp] theorem and3_t_right (a : K3) : and3 a .tt = a := by cases a <;> rfl
@[simp] theorem and3_f_left (a : K3) : and3 .ff a = .ff := by cases a <;> rfl
@[simp] theorem and3_f_right (a : K3) : and3 a .ff = .ff := by cases a <;> rfl
@[simp] theorem or3_f_left (a : K3) : or3 .ff a = a := by cases a <;> rfl
@[simp] theorem or3_f_right (a : K3) : or3 a .ff = a := by cases a <;> rfl
@[simp] theorem or3_t_left (a : K3) : or3 .tt a = .tt := by cases a <;> rfl
@[simp] theorem or3_t_right (a : K3) : or3 a .tt = .tt := by cases a <;> rfl
theorem and3_comm (a b : K3) : and3 a b = and3 b a := by cases a <;> cases b <;> rfl
theorem or3_comm (a b : K3) : or3 a b = or3 b a := by cases a <;> cases b <;> rfl
theorem and3_assoc (a b c : K3) : and3 (and3 a b) c = and3 a (and3 b c) := by
  cases a <;> cases b <;> cases c <;> rfl
theorem or3_assoc (a b c : K3) : or3 (or3 a b) c = or3 a (or3 b c) := by
  cases a <;> cases b <;> cases c <;> rfl
theorem or3_and3_distrib_left (a b c : K3) : or3 a (and3 b c) = and3 (or3 a b) (or3 a c) := by
  cases a <;> cases b <;> cases c <;> rfl
theorem or3_and3_distrib_right (a b c : K3) : or3 (and3 a b) c = and3 (or3 a c) (or3 b c) := by
  cases a <;> cases b <;> cases c <;> rfl
theorem and3_or3_distrib_left (a b c : K3) : and3 a (or3 b c) = or3 (and3 a b) (and3 a c) := by
  cases a <;> cases b <;> cases c <;> rfl
theorem and3_or3_distrib_right (a b c : K3) : and3 (or3 a b) c = or3 (and3 a c) (and3 b c) := by
  cases a <;> cases b <;> cases c <;> rfl
theorem not3_and3 (a b : K3) : not3 (and3 a b) = or3 (not3 a) (not3 b) := by cases a <;> cases b <;> rfl
theorem not3_or3 (a b : K3) : not3 (or3 a b) = and3 (not3 a) (not3 b) := by cases a <;> cases b <;> rfl
@[simp] theorem not3_not3 (a : K3) : not3 (not3 a) = a := by cases a <;> rfl
end K3
