import ButlerModel.Model.K3
/-! Model of `queries/tree/_predicate.py`: a predicate is a conjunction (outer list) of
disjunctions (inner lists) of leaves; `logical_and / logical_or / logical_not` exactly as written
(`_impl_and`, `_impl_or`, the `if not all(operands)` simplification, `from_bool`). -/
namespace Pred

/-- A leaf: an opaque atom or `LogicalNot` of one (`invert` never nests NOTs). -/
inductive Leaf where
  | pos (n : Nat)
  | neg (n : Nat)
  deriving DecidableEq, Repr, Inhabited

def Leaf.invert : Leaf → Leaf
  | .pos n => .neg n
  | .neg n => .pos n

abbrev Operands := List (List Leaf)

/-- `_impl_and`: `a + b` (the `a is b` shortcut returns `a`, same meaning; see `eval_and_self`). -/
def implAnd (a b : Operands) : Operands := a ++ b

/-- `_impl_or`: `tuple(x + y for x, y in itertools.product(a, b))`. -/
def implOr (a b : Operands) : Operands := a.flatMap (fun x => b.map (fun y => x ++ y))

/-- `Predicate.from_bool`. -/
def fromBool (v : Bool) : Operands := if v then [] else [[]]

/-- `Predicate.logical_and(self, *args)`. -/
def logicalAnd (self : Operands) (args : List Operands) : Operands :=
  let ops := args.foldl implAnd self
  if !(ops.all (fun g => !g.isEmpty)) then [[]] else ops

/-- `_impl_and` with its object-identity shortcut made explicit: the flag says "the operand *is* the
accumulated tuple" (`a is b`), in which case `a` is returned instead of `a + a`. -/
def implAndId (a : Operands) (b : Bool × Operands) : Operands := if b.1 then a else a ++ b.2

/-- `Predicate.logical_and(self, *args)` with identity flags. -/
def logicalAndId (self : Operands) (args : List (Bool × Operands)) : Operands :=
  let ops := args.foldl implAndId self
  if !(ops.all (fun g => !g.isEmpty)) then [[]] else ops

/-- `Predicate.logical_or(self, *args)`. -/
def logicalOr (self : Operands) (args : List Operands) : Operands :=
  args.foldl implOr self

/-- `Predicate.logical_not(self)`. -/
def logicalNot (self : Operands) : Operands :=
  self.foldl (fun acc g => implOr acc (g.foldl (fun ng leaf => implAnd ng [[leaf.invert]]) [])) [[]]

/-! ### semantics -/
open K3
def evalLeaf (σ : Nat → K3) : Leaf → K3
  | .pos k => σ k
  | .neg k => not3 (σ k)
def evalGroup (σ : Nat → K3) (g : List Leaf) : K3 := g.foldr (fun l acc => or3 (evalLeaf σ l) acc) .ff
def eval (σ : Nat → K3) (p : Operands) : K3 := p.foldr (fun g acc => and3 (evalGroup σ g) acc) .tt

def Leaf.render : Leaf → String
  | .pos k => s!"{k}"
  | .neg k => s!"!{k}"
def render (p : Operands) : String :=
  "[" ++ ",".intercalate (p.map fun g => "[" ++ ",".intercalate (g.map Leaf.render) ++ "]") ++ "]"

end Pred

/-! ### rewriting visitors (`queries/visitors.py`: `PredicateVisitor._visit_*` + `SimplePredicateVisitor.apply_*`)
A visitor may return a replacement predicate for a leaf (`none` = keep). -/
namespace Pred

/-- `leaf.visit(visitor, flags)`: a positive leaf is offered to the visitor; for `LogicalNot` the
operand is visited and `apply_logical_not` rebuilds `NOT original` whenever the visit produced
something (the replacement of an operand under NOT is not used). -/
def visitLeaf (f : Nat → Option Operands) : Leaf → Option Operands
  | .pos k => f k
  | .neg k => match f k with
    | none => none
    | some _ => some (logicalNot [[.pos k]])

/-- `_visit_logical_or` + `apply_logical_or`. -/
def visitOr (f : Nat → Option Operands) (g : List Leaf) : Option Operands :=
  let rs := g.map (visitLeaf f)
  if rs.all Option.isNone then none
  else some (logicalOr (fromBool false) (List.zipWith (fun o r => r.getD [[o]]) g rs))

/-- `_visit_logical_and` + `apply_logical_and`. -/
def visitAnd (f : Nat → Option Operands) (p : Operands) : Option Operands :=
  let rs := p.map (visitOr f)
  if rs.all Option.isNone then none
  else some (logicalAnd (fromBool true) (List.zipWith (fun o r => r.getD [o]) p rs))

/-- `predicate.visit(visitor) or predicate`. -/
def rewrite (f : Nat → Option Operands) (p : Operands) : Operands := (visitAnd f p).getD p

end Pred
