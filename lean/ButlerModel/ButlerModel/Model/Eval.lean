import ButlerModel.Model.K3
/-! Model of what a `where` expression means on one candidate row, in two layers:

* `denote` — the **documented** meaning (doc/lsst.daf.butler/queries.rst): comparisons and arithmetic
  over integers and strings under SQL three-valued logic, `= NULL` / `!= NULL` as null tests,
  `IN` over literals and inclusive ranges `a..b:s` = {a, a+s, a+2s, … ≤ b};
* `sql` — what the code **compiles** it to (`direct_query_driver/_sql_column_visitor.py`): the same
  except for ranges, which become `BETWEEN a AND b` plus a remainder test with SQL's truncating `%`
  (`Int.tmod`).  `fixed = true` is the formula as repaired (`(m - a) % s = 0`), `false` the earlier one
  (`m % s = a mod s`, Python's floor-mod on the literal side), kept for the regression witness.
Core Lean only. -/
namespace Eval
open K3

inductive V where
  | int (n : Int)
  | str (s : String)
  | null
  deriving DecidableEq, Repr

/-- scalar expressions -/
inductive Sc where
  | lit (v : V)
  | col (name : String)
  | neg (e : Sc)
  | add (a b : Sc) | sub (a b : Sc) | mul (a b : Sc) | mod (a b : Sc)
  deriving Repr

structure Rng where
  a : Int
  b : Int
  s : Int
  deriving Repr

inductive P where
  | cmp (op : String) (a b : Sc)          -- = != < <= > >=
  | isNull (a : Sc) (negated : Bool)      -- a = NULL / a != NULL
  | flag (name : String)                  -- a bare boolean column (NULL = unknown)
  | inSet (a : Sc) (lits : List V) (rngs : List Rng) (notIn : Bool)
  | not (p : P) | and (p q : P) | or (p q : P)
  deriving Repr

abbrev Row := String → V

def arith (f : Int → Int → Int) : V → V → V
  | .int x, .int y => .int (f x y)
  | _, _ => .null

def sc (row : Row) : Sc → V
  | .lit v => v
  | .col n => row n
  | .neg e => match sc row e with | .int x => .int (-x) | _ => .null
  | .add a b => arith (· + ·) (sc row a) (sc row b)
  | .sub a b => arith (· - ·) (sc row a) (sc row b)
  | .mul a b => arith (· * ·) (sc row a) (sc row b)
  | .mod a b => match sc row a, sc row b with
      | .int x, .int y => if y = 0 then .null else .int (x.tmod y)     -- SQL remainder truncates
      | _, _ => .null

def ofBool (b : Bool) : K3 := if b then .tt else .ff

def cmpV (op : String) : V → V → K3
  | .int x, .int y => ofBool (match op with
      | "=" => x == y | "!=" => x != y | "<" => x < y | "<=" => x ≤ y | ">" => x > y | _ => x ≥ y)
  | .str x, .str y => ofBool (match op with
      | "=" => x == y | "!=" => x != y | "<" => x < y | "<=" => x ≤ y | ">" => x > y | _ => x ≥ y)
  | _, _ => .nn

/-- documented membership of an inclusive strided range -/
def inRangeDoc (m : Int) (r : Rng) : Bool := decide (r.a ≤ m ∧ m ≤ r.b ∧ (m - r.a) % r.s = 0)

/-- the compiled form: BETWEEN plus a truncating-remainder test -/
def inRangeSql (fixed : Bool) (m : Int) (r : Rng) : Bool :=
  decide (r.a ≤ m ∧ m ≤ r.b) &&
    (if r.s = 1 then true
     else if fixed then (m - r.a).tmod r.s == 0 else m.tmod r.s == r.a % r.s)

def orAll : List K3 → K3
  | [] => .ff
  | x :: xs => or3 x (orAll xs)

def member (rangeTest : Int → Rng → Bool) (v : V) (lits : List V) (rngs : List Rng) : K3 :=
  match v with
  | .null => if lits.isEmpty && rngs.isEmpty then .ff else .nn
  | .int m => orAll (lits.map (cmpV "=" (.int m)) ++ rngs.map (fun r => ofBool (rangeTest m r)))
  | .str s => orAll (lits.map (cmpV "=" (.str s)))

def evalWith (rangeTest : Int → Rng → Bool) (row : Row) : P → K3
  | .cmp op a b => cmpV op (sc row a) (sc row b)
  | .isNull a negated => let isn := (sc row a == .null); ofBool (if negated then !isn else isn)
  | .flag n => match row n with
      | .int 0 => .ff
      | .int _ => .tt
      | _ => .nn
  | .inSet a lits rngs notIn =>
      let r := member rangeTest (sc row a) lits rngs
      if notIn then not3 r else r
  | .not p => not3 (evalWith rangeTest row p)
  | .and p q => and3 (evalWith rangeTest row p) (evalWith rangeTest row q)
  | .or p q => or3 (evalWith rangeTest row p) (evalWith rangeTest row q)

def denote (row : Row) (p : P) : K3 := evalWith inRangeDoc row p
def sql (fixed : Bool) (row : Row) (p : P) : K3 := evalWith (inRangeSql fixed) row p

/-- The rows a query returns: those for which the predicate is *true* (null drops the row). -/
def select (f : Row → P → K3) (p : P) (rows : List Row) : List Row := rows.filter (fun r => f r p == .tt)

/-- All ranges of the expression are well formed (`a ≤ b`, positive stride) — what the parser accepts. -/
def WellFormed : P → Prop
  | .inSet _ _ rngs _ => ∀ r ∈ rngs, 0 < r.s
  | .not p => WellFormed p
  | .and p q => WellFormed p ∧ WellFormed q
  | .or p q => WellFormed p ∧ WellFormed q
  | _ => True

end Eval
