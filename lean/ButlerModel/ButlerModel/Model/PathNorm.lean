/-! Model of how the file datastore turns user-supplied names into a path inside its root:
`FileTemplate.format` for the default template (`datastore/file_templates.py`: spaces → `_`,
`/` → `_` except in the leading `{run:/}` field, `.` → `_` and `#` → `HASH` in the file name,
`os.path.normpath`, absolute results re-rooted) and the containment test of `Location`
(`_location.py`: a path that “jumps out” of the root is refused).  Core Lean only. -/
namespace PathNorm

/-- One component of `posixpath.normpath`'s loop; `stack` holds the components kept so far, last
first. -/
def stepc (isAbs : Bool) (stack : List String) (c : String) : List String :=
  if c = "" ∨ c = "." then stack
  else if c ≠ ".." then c :: stack
  else match stack with
    | [] => if isAbs then [] else [".."]
    | top :: rest => if top = ".." then ".." :: stack else rest

/-- Components of `normpath(path)`, first first (`[]` stands for `.`). -/
def normComps (isAbs : Bool) (comps : List String) : List String := (comps.foldl (stepc isAbs) []).reverse

/-- `value.replace(" ", "_")` and, unless the field is written `{field:/}`, `value.replace("/", "_")`. -/
def sanitizeL (keepSlash : Bool) (v : List Char) : List Char :=
  v.map (fun c => if c = ' ' then '_' else if c = '/' ∧ keepSlash = false then '_' else c)

def sanitize (keepSlash : Bool) (v : String) : String := String.ofList (sanitizeL keepSlash v.toList)

/-- `FileTemplate.format` for a template of the shape
`{run:/}/<dir fields…>/<file fields…>_{run}`; result = components of the relative path. -/
def format (run : String) (dirs files : List String) : List String :=
  let file := "_".intercalate ((files ++ [run]).map (sanitize false))
  let file := (file.replace "." "_").replace "#" "HASH"
  let out := sanitize true run ++ "/" ++ "/".intercalate (dirs.map (sanitize false)) ++ "/" ++ file
  normComps (out.startsWith "/") (out.splitOn "/")

/-- `Location(root, path)`: refused when the path leaves the root. -/
def escapes (comps : List String) : Bool := comps.head? == some ".."

def place (run : String) (dirs files : List String) : Except Unit (List String) :=
  let p := format run dirs files
  if escapes p then .error () else .ok p

end PathNorm
