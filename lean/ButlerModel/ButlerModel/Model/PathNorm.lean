/-! Model of how the file datastore turns user-supplied names into a path inside its root:
`FileTemplate.format` for the default template (`datastore/file_templates.py`: spaces → `_`,
`/` → `_` except in the leading `{run:/}` field, `.` → `_` in the file name, `#` → `HASH` everywhere,
`os.path.normpath`, absolute results re-rooted) and the containment test of `Location`
(`_location.py`: a path that “jumps out” of the root is refused).  Core Lean only. -/
namespace PathNorm

/-- One component of `posixpath.normpath`'s loop; `stack` holds the components kept so far, last
first. -/
def stepc (isAbs : Bool) (stack : List String) (c : String) : List String :=
  if c = "" ∨ c = "." then stack
  else if c ≠ ".." then c :: stack
  else match stack with
    | [] => if isAbs then [] else [".."]
    | top :: rest => if top = ".." then ".." :: stack else rest

/-- Components of `normpath(path)`, first first (`[]` stands for `.`). -/
def normComps (isAbs : Bool) (comps : List String) : List String := (comps.foldl (stepc isAbs) []).reverse

/-- `value.replace(" ", "_")` and, unless the field is written `{field:/}`, `value.replace("/", "_")`. -/
def sanitizeL (keepSlash : Bool) (v : List Char) : List Char :=
  v.map (fun c => if c = ' ' then '_' else if c = '/' ∧ keepSlash = false then '_' else c)

def sanitize (keepSlash : Bool) (v : String) : String := String.ofList (sanitizeL keepSlash v.toList)

/-- `FileTemplate.format` for a template of the shape
`{run:/}/<dir fields…>/<file fields…>_{run}`; result = components of the relative path. -/
def format (run : String) (dirs files : List String) : List String :=
  let file := "_".intercalate ((files ++ [run]).map (sanitize false))
  let file := (file.replace "." "_").replace "#" "HASH"
  let head := (sanitize true run ++ "/" ++ "/".intercalate (dirs.map (sanitize false))).replace "#" "HASH"
  let out := head ++ "/" ++ file
  normComps (out.startsWith "/") (out.splitOn "/")

/-- `Location(root, path)`: the path is joined to the root and normalised (`..` may well step out of
the root *and back in*); it is refused unless the result lies below the root.  `root` = the components
of the root's absolute path. -/
def place (root : List String) (run : String) (dirs files : List String) : Except Unit (List String) :=
  let full := normComps true (root ++ format run dirs files)
  if root.isPrefixOf full then .ok (full.drop root.length) else .error ()

end PathNorm
