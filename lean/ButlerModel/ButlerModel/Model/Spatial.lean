/-! Spatial joins through the common skypix system (`registry/dimensions/static.py`,
`direct_query_driver/_postprocessing.py`, `_driver.py::_Cursor`).

Every spatial element (visit, visit_detector_region, tract, patch) has a record table
`key ↦ region or NULL` and a materialised overlap table `(key, pixel)` holding the common-skypix
envelope of the record's region.  The overlap rows are written by the same calls that write the
records: `insert` (plain, `skip_existing=True`, `replace=True`) for a batch and `sync` for one record.
A query that joins two spatial families joins the two overlap tables on the pixel (the candidates),
fetches the candidates in raw pages and drops, page by page, every candidate whose two regions are
disjoint, counting down an optional limit across the pages.

Geometry is a parameter: `env r` is the list of pixels of the envelope of region `r`, `ovl r r'` says
that the regions are not disjoint.  Core Lean only. -/
namespace Spatial

structure Geo where
  env : Nat → List Nat
  ovl : Nat → Nat → Bool

/-- a record: key and region (`none` = NULL region) -/
abbrev Rec := Nat × Option Nat

structure Elem where
  recs : List Rec := []
  ov   : List (Nat × Nat) := []      -- (key, pixel)

def hasKey (e : Elem) (k : Nat) : Bool := e.recs.any (·.1 == k)
def lookup (e : Elem) (k : Nat) : Option (Option Nat) := (e.recs.find? (·.1 == k)).map (·.2)

/-- `_compute_common_skypix_overlap_inserts`: a record without region contributes nothing
(`continue`), the others one row per pixel of the envelope. -/
def rowsOf (g : Geo) : Rec → List (Nat × Nat)
  | (_, none) => []
  | (k, some r) => (g.env r).map fun t => (k, t)

def insertRows (g : Geo) (batch : List Rec) : List (Nat × Nat) := batch.flatMap (rowsOf g)

def keysOf (batch : List Rec) : List Nat := batch.map (·.1)

def distinctKeys : List Rec → Bool
  | [] => true
  | b :: bs => !(bs.any (·.1 == b.1)) && distinctKeys bs

/-- `insert(element, *records)`: the main rows are inserted in one statement, which fails as a whole
(and the transaction with it) when a key is already there; then the overlap rows. -/
def insert (g : Geo) (e : Elem) (batch : List Rec) : Option Elem :=
  if batch.any (fun b => hasKey e b.1) || !distinctKeys batch then none
  else some { recs := e.recs ++ batch, ov := e.ov ++ insertRows g batch }

/-- `insert(..., skip_existing=True)`: an existing record keeps its region *and its overlap rows*;
the main rows are written one by one with "insert or ignore" and overlap rows are computed for the
records actually inserted. -/
def insertSkip (g : Geo) (e : Elem) (batch : List Rec) : Elem :=
  { recs := e.recs ++ batch.filter (fun b => !hasKey e b.1),
    ov := e.ov ++ insertRows g (batch.filter (fun b => !hasKey e b.1)) }

/-- the code as it was given (finding C06-a): main rows and overlap rows were *both* written with
"insert or ignore", so the envelope rows of the offered region were added to a record that kept its
old (possibly NULL) region. -/
def insertSkipOld (g : Geo) (e : Elem) (batch : List Rec) : Elem :=
  { recs := e.recs ++ batch.filter (fun b => !hasKey e b.1),
    ov := e.ov ++ (insertRows g batch).filter (fun row => !e.ov.contains row) }

/-- `insert(..., replace=True)`: main rows are upserted; all overlap rows of the batch's keys are
deleted and the new ones inserted. -/
def replace (g : Geo) (e : Elem) (batch : List Rec) : Elem :=
  { recs := e.recs.filter (fun r => !(keysOf batch).contains r.1) ++ batch,
    ov := e.ov.filter (fun row => !(keysOf batch).contains row.1) ++ insertRows g batch }

inductive SyncOut where
  | inserted | same | updated | conflict
  deriving DecidableEq, Repr

/-- `sync(record, update)`: insert when new (overlaps inserted); nothing when equal; with `update`
the region is replaced and the overlaps recomputed, without it the call is refused. -/
def sync (g : Geo) (e : Elem) (b : Rec) (update : Bool) : Elem × SyncOut :=
  match lookup e b.1 with
  | none => ({ recs := e.recs ++ [b], ov := e.ov ++ rowsOf g b }, .inserted)
  | some r => if r == b.2 then (e, .same)
              else if update then (replace g e [b], .updated) else (e, .conflict)

inductive Op where
  | insert (batch : List Rec)
  | insertSkip (batch : List Rec)
  | replace (batch : List Rec)
  | sync (b : Rec) (update : Bool)

def apply (g : Geo) (e : Elem) : Op → Elem
  | .insert batch => (insert g e batch).getD e
  | .insertSkip batch => insertSkip g e batch
  | .replace batch => if distinctKeys batch then replace g e batch else e
  | .sync b u => (sync g e b u).1

def run (g : Geo) (e : Elem) (ops : List Op) : Elem := ops.foldl (apply g) e

/-! ## the query -/

/-- the SQL part: the distinct pairs of keys whose overlap rows share a pixel. -/
def candidates (e1 e2 : Elem) : List (Nat × Nat) :=
  (e1.ov.flatMap fun (row1 : Nat × Nat) => (e2.ov.filter fun row2 => row2.2 == row1.2).map fun row2 => (row1.1, row2.1)).eraseDups

/-- the test applied in post-processing to one candidate row (the regions travel with the row):
`m[a].overlaps(m[b])`.  `none` = the code cannot evaluate it (a NULL region raises `AttributeError` /
`TypeError`; a key without record cannot occur in a join with the record table). -/
def exact? (g : Geo) (e1 e2 : Elem) (p : Nat × Nat) : Option Bool :=
  match lookup e1 p.1, lookup e2 p.2 with
  | some (some r1), some (some r2) => some (g.ovl r1 r2)
  | _, _ => none

def exact (g : Geo) (e1 e2 : Elem) (p : Nat × Nat) : Bool := (exact? g e1 e2 p).getD false

/-- the query raises instead of answering: some candidate cannot be evaluated -/
def raises (g : Geo) (e1 e2 : Elem) : Bool := (candidates e1 e2).any fun p => (exact? g e1 e2 p).isNone

/-- `Postprocessing.apply` on one raw page: the remaining limit is threaded through; rows failing
`keep` are skipped; a kept row is yielded and decrements the limit; at zero the loop returns. -/
def applyPage (keep : α → Bool) : Option Nat → List α → List α × Option Nat
  | some 0, _ => ([], some 0)
  | lim, [] => ([], lim)
  | none, x :: xs =>
    let (out, l) := applyPage keep none xs
    (if keep x then x :: out else out, l)
  | some (n + 1), x :: xs =>
    if keep x then
      let (out, l) := applyPage keep (some n) xs
      (x :: out, l)
    else applyPage keep (some (n + 1)) xs

/-- `_Cursor.next` over all raw pages, in order. -/
def applyPages (keep : α → Bool) : Option Nat → List (List α) → List α
  | _, [] => []
  | lim, p :: ps =>
    let (out, l) := applyPage keep lim p
    out ++ applyPages keep l ps

/-- the raw pages: consecutive chunks of `n` rows (`fuel` bounds the recursion; `n = 0` gives one page) -/
def chunks (n : Nat) : Nat → List α → List (List α)
  | 0, l => if l.isEmpty then [] else [l]
  | fuel + 1, l =>
    if l.isEmpty then []
    else if n == 0 then [l]
    else l.take n :: chunks n fuel (l.drop n)

def pagesOf (n : Nat) (l : List α) : List (List α) := chunks n l.length l

/-- raw page size as `_driver.py::execute` computes it -/
def rawPageSize (factor dflt : Nat) : Option Nat → Nat
  | none => dflt
  | some l => min (factor * l) dflt

/-- the whole spatial-join query: candidates, paged, post-processed with an optional limit -/
def query (g : Geo) (e1 e2 : Elem) (pageSize : Nat) (lim : Option Nat) : List (Nat × Nat) :=
  applyPages (exact g e1 e2) lim (pagesOf pageSize (candidates e1 e2))

/-- `Query.materialize()` stores the candidates; reading back applies the same post-processing. -/
def materialize (e1 e2 : Elem) : List (Nat × Nat) := candidates e1 e2
def readBack (g : Geo) (e1 e2 : Elem) (m : List (Nat × Nat)) (pageSize : Nat) (lim : Option Nat) : List (Nat × Nat) :=
  applyPages (exact g e1 e2) lim (pagesOf pageSize m)

end Spatial
