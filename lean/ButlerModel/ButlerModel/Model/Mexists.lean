/-! `FileDatastore._process_mexists_records` / `_mexists` (datastores/fileDatastore.py): existence of many
datasets at once.  The records of the requested datasets are turned into a map from artifact URI to the
datasets stored there (several datasets can share one artifact, one dataset can have several
artifacts); every URI is checked once — a local cache hit stands in for the check, an answer already in
`artifact_existence` is reused — and the answer is handed to every dataset at that URI, combined with
AND (`all_required`) or OR over a dataset's artifacts.  Core Lean only. -/
namespace Mexists

structure In where
  records : List (Nat × List Nat)      -- dataset ↦ uris of its stored artifacts
  cacheNonEmpty : Bool
  cached : Nat → Nat → Bool
  known : Nat → Option Bool             -- `artifact_existence` handed in
  fs : Nat → Bool                       -- `ResourcePath.mexists`

def pairs (i : In) : List (Nat × Nat) := i.records.flatMap fun r => r.2.map fun u => (r.1, u)
def proxied (i : In) (p : Nat × Nat) : Bool := i.cacheNonEmpty && i.cached p.1 p.2
def toCheck (i : In) : List Nat := ((pairs i).filter fun p => !proxied i p).map (·.2)
/-- final content of `uri_existence` for a uri that is in it -/
def val (i : In) (u : Nat) : Bool :=
  if (toCheck i).contains u then (match i.known u with | some b => b | none => i.fs u) else true
/-- the keys of `uri_existence` -/
def keys (i : In) : List Nat := ((pairs i).map (·.2)).eraseDups
def locationMap (i : In) (u : Nat) : List Nat := ((pairs i).filter fun p => p.2 == u).map (·.1)

def upd (acc : Nat → Option Bool) (d : Nat) (b : Bool) : Nat → Option Bool := fun x => if x = d then some b else acc x

def comb (allRequired : Bool) (prev v : Bool) : Bool := if allRequired then prev && v else prev || v

def inner (allRequired : Bool) (v : Bool) (acc : Nat → Option Bool) (d : Nat) : Nat → Option Bool :=
  upd acc d (match acc d with | some prev => comb allRequired prev v | none => v)

def process (i : In) (allRequired : Bool) : Nat → Option Bool :=
  (keys i).foldl (fun acc u => (locationMap i u).foldl (inner allRequired (val i u)) acc) (fun _ => none)

/-- `_mexists` for a requested dataset when the datastore does not guess locations: datasets the
records say nothing about do not exist -/
def mexists (i : In) (d : Nat) : Bool := (process i true d).getD false

/-- the code as it was given (finding C10-a): `location_map` kept ONE dataset per URI (the last one
listed), so the other datasets sharing the artifact got no answer at all -/
def locationMapOld (i : In) (u : Nat) : List Nat :=
  match (((pairs i).filter fun p => p.2 == u).map (·.1)).getLast? with
  | some d => [d]
  | none => []
def processOld (i : In) (allRequired : Bool) : Nat → Option Bool :=
  (keys i).foldl (fun acc u => (locationMapOld i u).foldl (inner allRequired (val i u)) acc) (fun _ => none)

end Mexists
