/-! Model of artifact ownership in the file datastore (`datastores/fileDatastore.py`
`emptyTrash`, `_refs_associated_with_artifacts`, `_delete_artifact`;
`registry/bridge/monolithic.py` `moveToTrash`, `emptyTrash`).

A record of `file_datastore_records` is `(dataset id, path, fragment?, absolute?)`.  Several
records may name one path: multi-dataset ingests share a plain file (no fragment), zip ingests
share a zip through `path#zip-path=member` (fragment), a direct ingest records an absolute URI
that the datastore does not own.  `live` / `trash` are the `dataset_location` /
`dataset_location_trash` tables.  Paths are numbers; `disk` are the artifacts under the root,
`ext` the files outside it that absolute URIs point at.  Core Lean only. -/
namespace Artifacts

structure Rec where
  id : Nat
  path : Nat
  frag : Option Nat := none     -- `#zip-path=…` member
  abs : Bool := false           -- absolute URI: never deleted
  deriving DecidableEq, Repr

structure S where
  recs : List Rec := []
  live : List Nat := []
  trash : List Nat := []
  disk : List Nat := []
  ext : List Nat := []
  deriving DecidableEq, Repr

inductive Kind where | plain | zip | direct
  deriving DecidableEq, Repr

/-- put / ingest(copy, move, shared file) / ingest_zip / ingest(direct): one artifact, one record
per dataset.  Refused (unchanged state) when an id is already known or — for an owned artifact —
the path is taken: the harness only generates fresh ones, as the template guarantees. -/
def store (s : S) (ids : List Nat) (path : Nat) (k : Kind) : S :=
  if ids.any (fun i => s.live.contains i || s.trash.contains i) then s
  else if k != .direct && (s.recs.any (fun r => r.path == path) || s.disk.contains path) then s
  else if k == .direct && s.recs.any (fun r => r.path == path && !r.abs) then s
  else match k with
    | .plain => { s with recs := ids.map (fun i => { id := i, path := path }) ++ s.recs,
                         live := ids ++ s.live, disk := path :: s.disk }
    | .zip => { s with recs := ids.map (fun i => { id := i, path := path, frag := some i }) ++ s.recs,
                       live := ids ++ s.live, disk := path :: s.disk }
    | .direct => { s with recs := ids.map (fun i => { id := i, path := path, abs := true }) ++ s.recs,
                          live := ids ++ s.live }

/-- `Datastore.trash(refs)` → `bridge.moveToTrash`: known datasets move from `dataset_location`
to `dataset_location_trash`; unknown ones are ignored. -/
def trash (s : S) (ids : List Nat) : S :=
  let moved := (s.live.filter (fun i => ids.contains i))
  { s with live := s.live.filter (fun i => !ids.contains i), trash := moved ++ s.trash }

def key (r : Rec) : Nat × Option Nat := (r.path, r.frag)

def trashed (s : S) : List Rec := s.recs.filter (fun r => s.trash.contains r.id)
def liveRecs (s : S) : List Rec := s.recs.filter (fun r => s.live.contains r.id)

/-- bridge: full path strings (fragment included) referenced both from the trash and from outside. -/
def preserved (s : S) : List (Nat × Option Nat) :=
  ((trashed s).map key).filter (fun k => ((liveRecs s).map key).contains k)

/-- datastore: when a trashed record has a fragment, recount per artifact: all datasets recorded with
`path#…`, minus the trashed ones; whatever keeps a dataset is kept. -/
def slowKeep (s : S) : List Nat :=
  if (trashed s).any (fun r => r.frag.isSome) then
    (((trashed s).filter (fun r => r.frag.isSome)).map (·.path)).filter (fun p =>
      (s.recs.filter (fun r => r.frag.isSome && r.path == p)).any (fun r =>
        !((trashed s).any (fun t => t.path == p && t.id == r.id))))
  else []

/-- `artifacts_to_keep`, compared against fragment-less artifact paths. -/
def keepPaths (s : S) : List Nat :=
  (((preserved s).filter (fun k => k.2.isNone)).map (·.1)) ++ slowKeep s

/-- Paths whose artifact `emptyTrash` deletes. -/
def doomed (s : S) : List Nat :=
  (((trashed s).filter (fun r => !(keepPaths s).contains r.path && !r.abs)).map (·.path))

def emptyTrash (s : S) : S :=
  { s with disk := s.disk.filter (fun p => !(doomed s).contains p),
           recs := s.recs.filter (fun r => !s.trash.contains r.id),
           trash := [] }

inductive Op where
  | store (ids : List Nat) (path : Nat) (k : Kind)
  | trash (ids : List Nat)
  | emptyTrash
  deriving Repr

def step (s : S) : Op → S
  | .store ids p k => store s ids p k
  | .trash ids => trash s ids
  | .emptyTrash => emptyTrash s

/-- Is dataset `i` stored with all its artifacts present? -/
def readable (s : S) (i : Nat) : Bool :=
  s.live.contains i && (s.recs.filter (fun r => r.id == i)).all (fun r => if r.abs then s.ext.contains r.path else s.disk.contains r.path)

end Artifacts

/-! The map `emptyTrash` recounts with (`Gen/TrashPy.lean` is expressed with these). -/
namespace Artifacts

/-- `path_map` of `emptyTrash`: a `defaultdict(set)` from artifact path to the ids of the datasets recorded there — its keys, and a
lookup that answers `[]` for a path that is not a key. -/
structure PM where
  keys : List Nat
  get : Nat → List Nat

def pmGet (m : PM) (p : Nat) : List Nat := if m.keys.contains p then m.get p else []
def pmSet (m : PM) (p : Nat) (v : List Nat) : PM :=
  { keys := if m.keys.contains p then m.keys else p :: m.keys, get := fun q => if q = p then v else m.get q }
def pmDel (m : PM) (p : Nat) : PM := { m with keys := m.keys.filter (· != p) }
def pmKeys (m : PM) : List Nat := m.keys

end Artifacts
