import ButlerModel.Model.Registry
/-! Stateful handlers for the registry table model (C02, C10). -/
namespace Driver.C02
open Registry

def parseList (s : String) : Option (List Nat) :=
  if s == "-" then some [] else (s.splitOn ",").mapM String.toNat?
def r (l : List Nat) : String :=
  let a := (l.toArray.qsort (· < ·)).toList
  if a.isEmpty then "-" else ",".intercalate (a.map toString)

def parseCT : String → Option CType
  | "R" => some .run | "T" => some .tagged | "C" => some .chained | "K" => some .calib | _ => none

def handle (s : St) (toks : List String) : St × String :=
  match toks with
  | ["new"] => ({}, "ok")
  | ["regcoll", c, t] => match c.toNat?, parseCT t with
      | some c, some t => step s (.regColl c t)
      | _, _ => (s, "bad-op")
  | ["regtype", t, d] => match t.toNat?, d.toNat? with
      | some t, some d => step s (.regType t d)
      | _, _ => (s, "bad-op")
  | ["insert", id, ty, key, run] => match id.toNat?, ty.toNat?, key.toNat?, run.toNat? with
      | some id, some ty, some key, some run => step s (.insert id ty key run)
      | _, _, _, _ => (s, "bad-op")
  | ["import", id, ty, key, run] => match id.toNat?, ty.toNat?, key.toNat?, run.toNat? with
      | some id, some ty, some key, some run => step s (.importDs id ty key run)
      | _, _, _, _ => (s, "bad-op")
  | ["assoc", c, ds] => match c.toNat?, parseList ds with
      | some c, some ds => step s (.associate c ds)
      | _, _ => (s, "bad-op")
  | ["disassoc", c, ds] => match c.toNat?, parseList ds with
      | some c, some ds => step s (.disassociate c ds)
      | _, _ => (s, "bad-op")
  | ["rmds", ds] => match parseList ds with
      | some ds => step s (.removeDatasets ds)
      | none => (s, "bad-op")
  | ["rmcoll", c] => match c.toNat? with
      | some c => step s (.removeCollection c)
      | none => (s, "bad-op")
  | ["chain", c, kids] => match c.toNat?, parseList kids with
      | some c, some kids => step s (.setChain c kids)
      | _, _ => (s, "bad-op")
  | ["store", id] => match id.toNat? with
      | some id => step s (.store id)
      | none => (s, "bad-op")
  | ["unstore", id] => match id.toNat? with
      | some id => step s (.unstore id)
      | none => (s, "bad-op")
  | ["members", c, ty] => match c.toNat?, ty.toNat? with
      | some c, some ty => match s.ctype c with
          | none => (s, "err MissingCollectionError")
          | some _ => (s, r ((s.mem.filter fun row => row.1.1 == c && row.1.2.1 == ty).map (·.2)))
      | _, _ => (s, "bad-op")
  | ["colls"] => (s, r (s.colls.map (·.1)))
  | ["stored"] => (s, r s.stored)
  | _ => (s, "bad-op")

end Driver.C02
