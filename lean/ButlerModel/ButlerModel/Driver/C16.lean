import ButlerModel.Model.Paging
/-! Stateful handlers for the paging / limit model (C16): rows are numbered, a page is a string of
0/1 flags (does the row pass the post-filter). -/
namespace Driver.C16
open Paging

structure St where
  limit : Option Nat := none
  next : Nat := 0          -- number of the next raw row

def handle (s : St) (toks : List String) : St × String :=
  match toks with
  | ["new", l] => ({ limit := if l == "none" then none else l.toNat?, next := 0 }, "ok")
  | ["apply", bits] =>
      let flags := if bits == "-" then [] else bits.toList.map (· == '1')
      let rows := (List.range flags.length).map (· + s.next)
      let pass : Nat → Bool := fun i => flags.getD (i - s.next) false
      let (out, st) := applyPage pass s.limit rows
      ({ limit := st, next := s.next + flags.length },
       "yield=" ++ (if out.isEmpty then "-" else ",".intercalate (out.map toString)) ++
       " limit=" ++ (match st with | none => "none" | some n => toString n))
  | ["wrap", l, n] =>
      -- a convenience wrapper with limit `l` (`none` or an integer) over a query that has `n` rows
      match (if l == "none" then some none else l.toInt?.map some), n.toNat? with
      | some lim, some n =>
        let (rows, warn) := wrapper lim (List.range n)
        (s, s!"rows={rows.length} first={rows.length == (rows.zip (List.range n)).countP (fun p => p.1 == p.2)} warn={warn}")
      | _, _ => (s, "bad-op")
  | _ => (s, "bad-op")

end Driver.C16
