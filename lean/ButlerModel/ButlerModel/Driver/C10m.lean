import ButlerModel.Model.Mexists
/-! Handler for `mexists` (C10): `mx run <allRequired 0|1> <cacheNonEmpty 0|1> <records d:u,u;d:u> <cached d.u,d.u|-> <known u=1,u=0|-> <present u,u|->`
reply: `d=1,d=0,…` for the datasets that get an answer, sorted by dataset. -/
namespace Driver.C10m
open Mexists

def nums (s : String) : Option (List Nat) := if s == "-" then some [] else (s.splitOn ",").mapM (·.toNat?)

def parseRecords (s : String) : Option (List (Nat × List Nat)) :=
  if s == "-" then some [] else (s.splitOn ";").mapM fun e => match e.splitOn ":" with
    | [d, us] => match d.toNat?, nums us with
        | some d, some us => some (d, us)
        | _, _ => none
    | _ => none

def parsePairs (sep : String) (s : String) : Option (List (Nat × Nat)) :=
  if s == "-" then some [] else (s.splitOn ",").mapM fun e => match e.splitOn sep with
    | [a, b] => match a.toNat?, b.toNat? with
        | some a, some b => some (a, b)
        | _, _ => none
    | _ => none

def handle (toks : List String) : String :=
  match toks with
  | ["run", ar, cne, recs, cached, known, present] =>
    match parseRecords recs, parsePairs "." cached, parsePairs "=" known, nums present with
    | some recs, some cached, some known, some present =>
      let i : In := { records := recs, cacheNonEmpty := cne == "1", cached := fun d u => cached.contains (d, u),
                      known := fun u => (known.find? (·.1 == u)).map (·.2 == 1), fs := fun u => present.contains u }
      let res := process i (ar == "1")
      let ds := ((recs.map (·.1)).eraseDups.toArray.qsort (· < ·)).toList
      let out := ds.filterMap fun d => (res d).map fun b => s!"{d}={if b then 1 else 0}"
      if out.isEmpty then "-" else ",".intercalate out
    | _, _, _, _ => "bad-op"
  | _ => "bad-op"

end Driver.C10m
