import ButlerModel.Model.Front
/-! Handler for the front-end model (C13):
`fr holds c:v,v;c:- | mk <colls> <0|1> <v|-> | clone <colls|=> <0|1|=> <v|-|=> | complete <v|->
 | recs id:f=v,f=-;id:… | rewrite <k|-> f=v,f=v` -/
namespace Driver.C13f
open Front

structure St where
  holds : List (Nat × List Nat) := []
  d : Defaults := { colls := [], infer := true, explicit := none, value := none }
  recs : List Rec := []

def St.h (s : St) : Holds := fun c => match s.holds.find? (·.1 == c) with | some (_, l) => l | none => []

def nums (s : String) : Option (List Nat) := if s == "-" then some [] else (s.splitOn ",").mapM (·.toNat?)
def optNat (s : String) : Option (Option Nat) := if s == "-" then some none else s.toNat?.map some
def showOpt : Option Nat → String
  | none => "-"
  | some v => toString v

def parseHolds (s : String) : Option (List (Nat × List Nat)) :=
  if s == "-" then some [] else (s.splitOn ";").mapM fun e => match e.splitOn ":" with
    | [c, vs] => match c.toNat?, nums vs with
        | some c, some vs => some (c, vs)
        | _, _ => none
    | _ => none

def parseField (s : String) : Option (Nat × Option Nat) := match s.splitOn "=" with
  | [f, v] => match f.toNat?, optNat v with
      | some f, some v => some (f, v)
      | _, _ => none
  | _ => none

def parseRecs (s : String) : Option (List Rec) :=
  if s == "-" then some [] else (s.splitOn ";").mapM fun e => match e.splitOn ":" with
    | [k, fs] => do
        let k ← k.toNat?
        let fs ← if fs == "-" then some [] else (fs.splitOn ",").mapM parseField
        pure { id := k, fields := fs }
    | _ => none

def parseVals (s : String) : Option (List (Nat × Nat)) :=
  if s == "-" then some [] else (s.splitOn ",").mapM fun e => match e.splitOn "=" with
    | [f, v] => match f.toNat?, v.toNat? with
        | some f, some v => some (f, v)
        | _, _ => none
    | _ => none

def handle (s : St) (toks : List String) : St × String :=
  match toks with
  | ["holds", h] => match parseHolds h with
      | some h => ({ s with holds := h }, "ok")
      | none => (s, "bad-op")
  | ["mk", c, i, x] => match nums c, optNat x with
      | some c, some x => let d := mk s.h c (i == "1") x; ({ s with d := d }, showOpt d.value)
      | _, _ => (s, "bad-op")
  | ["clone", c, i, x] =>
      let c? : Option (Option (List Nat)) := if c == "=" then some none else (nums c).map some
      let i? : Option Bool := if i == "=" then none else some (i == "1")
      let x? : Option (Option (Option Nat)) := if x == "=" then some none else (optNat x).map some
      match c?, x? with
      | some c, some x => let d := clone s.h s.d c i? x; ({ s with d := d }, showOpt d.value)
      | _, _ => (s, "bad-op")
  | ["complete", g] => match optNat g with
      | some g => (s, showOpt (complete s.d g))
      | none => (s, "bad-op")
  | ["recs", r] => match parseRecs r with
      | some r => ({ s with recs := r }, "ok")
      | none => (s, "bad-op")
  | ["rewrite", k, vs] => match optNat k, parseVals vs with
      | some k, some vs => (s, match rewrite s.recs k vs with | some v => toString v | none => "rejected")
      | _, _ => (s, "bad-op")
  | _ => (s, "bad-op")

end Driver.C13f
