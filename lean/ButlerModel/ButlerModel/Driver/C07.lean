import ButlerModel.Model.Txn
import ButlerModel.Model.TxnCache
/-! Handlers for transaction programs (C07). Program syntax (prefix tokens):
`P id` put, `F` fail, `B n <n programs>` block, `T n <n programs>` try-block. -/
namespace Driver.C07
open Txn

mutual
partial def parseProg : List String → Option (Prog × List String)
  | "P" :: id :: rest => id.toNat?.map fun i => (.put i, rest)
  | "F" :: rest => some (.fail, rest)
  | "B" :: n :: rest => match n.toNat? with
      | some n => (parseN n rest).map fun (ps, r) => (.block ps, r)
      | none => none
  | "T" :: n :: rest => match n.toNat? with
      | some n => (parseN n rest).map fun (ps, r) => (.tryBlock ps, r)
      | none => none
  | _ => none
partial def parseN : Nat → List String → Option (List Prog × List String)
  | 0, rest => some ([], rest)
  | n + 1, toks => match parseProg toks with
      | some (p, r) => (parseN n r).map fun (ps, r') => (p :: ps, r')
      | none => none
end

def r (l : List Nat) : String :=
  let a := (l.toArray.qsort (· < ·)).toList
  if a.isEmpty then "-" else ",".intercalate (a.map toString)

def handle (toks : List String) : String :=
  match toks with
  | "run" :: fix :: prog => match parseProg prog with
      | some (p, []) =>
        let (s, failed) := run (fix == "1") 1000 p {}
        s!"failed={failed} files={r s.files} reg={r s.reg} depth={s.stack.length}"
      | _ => "bad-op"
  | _ => "bad-op"

end Driver.C07

/-! Cache / prune programs: `I id` insert row, `R` cached read, `U id` prune, `F`, `B n …`, `T n …`.
Request: `txc run <fix> <rows csv|-> <ds csv|-> <program>` (files start equal to ds). -/
namespace Driver.C07c
open TxnCache

mutual
partial def parseProg : List String → Option (Prog × List String)
  | "I" :: id :: rest => id.toNat?.map fun i => (.ins i, rest)
  | "R" :: rest => some (.read, rest)
  | "U" :: id :: rest => id.toNat?.map fun i => (.prune i, rest)
  | "F" :: rest => some (.fail, rest)
  | "B" :: n :: rest => match n.toNat? with
      | some n => (parseN n rest).map fun (ps, r) => (.block ps, r)
      | none => none
  | "T" :: n :: rest => match n.toNat? with
      | some n => (parseN n rest).map fun (ps, r) => (.tryBlock ps, r)
      | none => none
  | _ => none
partial def parseN : Nat → List String → Option (List Prog × List String)
  | 0, rest => some ([], rest)
  | n + 1, toks => match parseProg toks with
      | some (p, r) => (parseN n r).map fun (ps, r') => (p :: ps, r')
      | none => none
end

def csv (s : String) : Option (List Nat) :=
  if s == "-" then some [] else (s.splitOn ",").mapM (·.toNat?)

def handle (toks : List String) : String :=
  match toks with
  | "run" :: fix :: rows :: ds :: prog => match parseProg prog, csv rows, csv ds with
      | some (p, []), some rows, some ds =>
        let (s, failed) := run (fix == "1") 1000 p { rows := rows, ds := ds, files := ds }
        s!"failed={failed} view={Driver.C07.r (view s)} rows={Driver.C07.r s.rows} ds={Driver.C07.r s.ds} files={Driver.C07.r s.files}"
      | _, _, _ => "bad-op"
  | _ => "bad-op"

end Driver.C07c
