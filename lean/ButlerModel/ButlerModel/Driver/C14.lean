import ButlerModel.Model.Parser
/-! Line-protocol handlers for the lexer / parser / printer model (C14). Strings are hex-encoded UTF-8. -/
namespace Driver.C14
open Lexer Parser

def hexVal (c : Char) : Option Nat :=
  if '0' ≤ c && c ≤ '9' then some (c.toNat - '0'.toNat)
  else if 'a' ≤ c && c ≤ 'f' then some (c.toNat - 'a'.toNat + 10)
  else none

def unhexBytes : List Char → Option (List UInt8)
  | [] => some []
  | a :: b :: r => match hexVal a, hexVal b, unhexBytes r with
      | some x, some y, some rest => some (UInt8.ofNat (16 * x + y) :: rest)
      | _, _, _ => none
  | _ => none

def unhex (s : String) : Option String :=
  if s == "-" then some "" else
  match unhexBytes s.toList with
  | some bs => String.fromUTF8? (ByteArray.mk bs.toArray)
  | none => none

def hexDigit (n : Nat) : Char := if n < 10 then Char.ofNat (48 + n) else Char.ofNat (87 + n)
def hex (s : String) : String :=
  if s.isEmpty then "-" else
  String.ofList (s.toUTF8.toList.flatMap fun b => [hexDigit (b.toNat / 16), hexDigit (b.toNat % 16)])

def errName : Err → String
  | .lex => "Lex" | .parse => "Parse" | .eof => "EOF" | .value => "Value" | .internal m => "INTERNAL:" ++ m

def handle (toks : List String) : String :=
  match toks with
  | ["lex", h] => match unhex h with
      | some s => match lex s with
          | some ts => if ts.isEmpty then "ok" else "ok " ++ " ".intercalate (ts.map fun t => t.ty ++ ":" ++ hex t.val)
          | none => "err Lex"
      | none => "bad-op"
  | ["parse", h] => match unhex h with
      | some s => match parse s with
          | .ok (some n) => "ok " ++ sexp n
          | .ok none => "ok EMPTY"
          | .error e => "err " ++ errName e
      | none => "bad-op"
  | ["print", h] => match unhex h with
      | some s => match parse s with
          | .ok (some n) => "ok " ++ hex (print n)
          | .ok none => "ok EMPTY"
          | .error e => "err " ++ errName e
      | none => "bad-op"
  | _ => "bad-op"

end Driver.C14
