import ButlerModel.Model.RegCache
/-! Handler for registry-cache histories (C17): `rc new | enter | exit | write k v | read k | rollback k@v,k@v` -/
namespace Driver.C17r
open RegCache

def handle (s : S) (toks : List String) : S × String :=
  match toks with
  | ["new"] => ({}, "ok")
  | ["enter"] => ((step true true s .enter).1, "ok")
  | ["exit"] => ((step true true s .exit).1, "ok")
  | ["write", k, v] => match k.toNat?, v.toNat? with
      | some k, some v => ((step true true s (.write k v)).1, "ok")
      | _, _ => (s, "bad-op")
  | ["read", k] => match k.toNat? with
      | some k => let (s', v) := step true true s (.read k); (s', toString v)
      | none => (s, "bad-op")
  | ["rollback", snap] =>
    let pairs := if snap == "-" then some [] else (snap.splitOn ",").mapM fun t => match t.splitOn "@" with
      | [a, b] => match a.toNat?, b.toNat? with
          | some a, some b => some (a, b)
          | _, _ => none
      | _ => none
    match pairs with
    | some ps => ((step true true s (.rollback fun k => match ps.find? (·.1 == k) with | some (_, v) => v | none => 0)).1, "ok")
    | none => (s, "bad-op")
  | _ => (s, "bad-op")

end Driver.C17r
