import ButlerModel.Model.Spatial
/-! Handler for spatial-overlap histories (C06):
`sp new | old | reg <rid> <pixels> | rel <rid1> <rid2> | ins|skip|repl <el> <k:r,k:-,…> | sync <el> <k:r> <0|1>
 | ov <el> | recs <el> | query <pageSize> <limit|-> | geosound` -/
namespace Driver.C06s
open Spatial

structure St where
  envs : List (Nat × List Nat) := []
  rels : List (Nat × Nat) := []
  e1 : Elem := {}
  e2 : Elem := {}
  old : Bool := false     -- `sp old`: skip-existing as the code was given (C06-a), for replaying the witness

def St.geo (s : St) : Geo :=
  { env := fun r => match s.envs.find? (·.1 == r) with | some (_, l) => l | none => [],
    ovl := fun a b => s.rels.contains (a, b) }

def nums (s : String) : Option (List Nat) := if s == "-" then some [] else (s.splitOn ",").mapM (·.toNat?)

def recOf (t : String) : Option Rec := match t.splitOn ":" with
  | [k, "-"] => k.toNat?.map fun k => (k, none)
  | [k, r] => match k.toNat?, r.toNat? with
      | some k, some r => some (k, some r)
      | _, _ => none
  | _ => none

def batchOf (s : String) : Option (List Rec) := if s == "-" then some [] else (s.splitOn ",").mapM recOf

def sortNat (l : List Nat) : List Nat := (l.toArray.qsort (· < ·)).toList
def pairLt (a b : Nat × Nat) : Bool := a.1 < b.1 || (a.1 == b.1 && a.2 < b.2)
def sortPairs (l : List (Nat × Nat)) : List (Nat × Nat) := (l.eraseDups.toArray.qsort pairLt).toList

def withEl (s : St) (el : String) (f : Elem → Elem × String) : St × String :=
  match el with
  | "1" => let (e, o) := f s.e1; ({ s with e1 := e }, o)
  | "2" => let (e, o) := f s.e2; ({ s with e2 := e }, o)
  | _ => (s, "bad-op")

def showOv (e : Elem) : String :=
  let keys := sortNat (e.ov.map (·.1)).eraseDups
  if keys.isEmpty then "-" else
  ";".intercalate (keys.map fun k => s!"{k}:" ++ ",".intercalate ((sortNat ((e.ov.filter (·.1 == k)).map (·.2)).eraseDups).map toString))

def showRecs (e : Elem) : String :=
  let rs := (e.recs.toArray.qsort (fun a b => a.1 < b.1)).toList
  if rs.isEmpty then "-" else ";".intercalate (rs.map fun (k, r) => s!"{k}:" ++ (match r with | none => "-" | some r => toString r))

def handle (s : St) (toks : List String) : St × String :=
  match toks with
  | ["new"] => ({}, "ok")
  | ["old"] => ({ s with old := true }, "ok")
  | ["reg", rid, px] => match rid.toNat?, nums px with
      | some rid, some px => ({ s with envs := (rid, px) :: s.envs.filter (·.1 != rid) }, "ok")
      | _, _ => (s, "bad-op")
  | ["rel", a, b] => match a.toNat?, b.toNat? with
      | some a, some b => ({ s with rels := (a, b) :: s.rels }, "ok")
      | _, _ => (s, "bad-op")
  | ["ins", el, b] => match batchOf b with
      | some b => withEl s el fun e => match Spatial.insert s.geo e b with
          | some e' => (e', "ok")
          | none => (e, "refused")
      | none => (s, "bad-op")
  | ["skip", el, b] => match batchOf b with
      | some b => if distinctKeys b then withEl s el fun e => ((if s.old then insertSkipOld s.geo e b else insertSkip s.geo e b), "ok") else (s, "unmodelled")
      | none => (s, "bad-op")
  | ["repl", el, b] => match batchOf b with
      | some b => if distinctKeys b then withEl s el fun e => (replace s.geo e b, "ok") else (s, "unmodelled")
      | none => (s, "bad-op")
  | ["sync", el, b, u] => match recOf b with
      | some b => withEl s el fun e =>
          let (e', o) := sync s.geo e b (u == "1")
          (e', match o with | .inserted => "inserted" | .same => "same" | .updated => "updated" | .conflict => "conflict")
      | none => (s, "bad-op")
  | ["ov", el] => withEl s el fun e => (e, showOv e)
  | ["recs", el] => withEl s el fun e => (e, showRecs e)
  | ["query", n, lim] => match n.toNat? with
      | some n =>
        if raises s.geo s.e1 s.e2 then (s, "error") else
        if lim == "-" then
          let out := sortPairs (query s.geo s.e1 s.e2 n none)
          (s, if out.isEmpty then "-" else ";".intercalate (out.map fun (a, b) => s!"{a}.{b}"))
        else match lim.toNat? with
          | some l => (s, s!"count={(query s.geo s.e1 s.e2 n (some l)).length}")
          | none => (s, "bad-op")
      | none => (s, "bad-op")
  | ["geosound"] =>
    -- the premise `GeoSound`, on the declared regions: every related pair shares a pixel of its envelopes
    match s.rels.find? fun (a, b) => !((s.geo.env a).any fun t => (s.geo.env b).contains t) with
    | some (a, b) => (s, s!"violated {a} {b}")
    | none => (s, "ok")
  | _ => (s, "bad-op")

end Driver.C06s
