import ButlerModel.Model.Calib
/-! Stateful line-protocol handlers for the calibration table model (C04). -/
namespace Driver.C04
open Calib

def parseTS (s : String) : Option TS :=
  match s.splitOn "," with
  | [b, e] => match b.toInt?, e.toInt? with
      | some b, some e => some ⟨b, e⟩
      | _, _ => none
  | _ => none

def parseBatch (s : String) : Option (List (Nat × Nat)) :=
  if s == "-" then some [] else
  (s.splitOn ",").mapM fun kv => match kv.splitOn ":" with
    | [k, d] => match k.toNat?, d.toNat? with
        | some k, some d => some (k, d)
        | _, _ => none
    | _ => none

def parseSel (s : String) : Option (Option (List Nat)) :=
  if s == "*" then some none
  else if s == "-" then some (some [])
  else ((s.splitOn ",").mapM String.toNat?).map some

def rowLt (a b : Row) : Bool :=
  if a.key != b.key then a.key < b.key
  else if a.ds != b.ds then a.ds < b.ds
  else if a.ts.b != b.ts.b then a.ts.b < b.ts.b
  else a.ts.e < b.ts.e

def renderSorted (s : State) : String :=
  let a := (s.toArray.qsort rowLt).toList
  if a.isEmpty then "-" else render a

def handle (st : State) (toks : List String) : State × String :=
  match toks with
  | ["new"] => ([], "ok")
  | ["certify", ts, batch] => match parseTS ts, parseBatch batch with
      | some ts, some b => match certify st b ts with
          | .ok s' => (s', "ok")
          | .error e => (st, "err " ++ e)
      | _, _ => (st, "bad-op")
  | ["decertify", ts, sel] => match parseTS ts, parseSel sel with
      | some ts, some sel => (decertify st ts sel, "ok")
      | _, _ => (st, "bad-op")
  | ["remove", d] => match d.toNat? with
      | some d => (removeDataset st d, "ok")
      | none => (st, "bad-op")
  | ["rows"] => (st, renderSorted st)
  | ["lookup", k, q, fb] => match k.toNat?, parseTS q, fb.toNat? with
      | some k, some q, some fb => (st, match lookup st k q with
          -- nothing in the CALIBRATION collection: the RUN next in the path answers (it is valid at every
          -- instant, so it overlaps every timespan but the empty one)
          | .none => if Gen.TsPy.isEmpty q then "none" else s!"one {fb}"
          | .one d => s!"one {d}" | .ambiguous => "ambiguous")
      | _, _, _ => (st, "bad-op")
  | ["lookup", k, q] => match k.toNat?, parseTS q with
      | some k, some q => (st, match lookup st k q with
          | .none => "none" | .one d => s!"one {d}" | .ambiguous => "ambiguous")
      | _, _ => (st, "bad-op")
  | _ => (st, "bad-op")

end Driver.C04
