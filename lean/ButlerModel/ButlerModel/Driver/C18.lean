import ButlerModel.Model.ConfigKeys
import ButlerModel.Driver.C14
/-! Handlers for Config key splitting / joining (C18). Strings hex-encoded. -/
namespace Driver.C18
open ConfigKeys

def handle (toks : List String) : String :=
  match toks with
  | ["split", h] => match Driver.C14.unhex h with
      | some s => match split s.toList with
          | .ok ks => "ok " ++ " ".intercalate (ks.map fun k => Driver.C14.hex (String.ofList k))
          | .error e => "err " ++ e
      | none => "bad-op"
  | "join" :: d :: keys => match Driver.C14.unhex d, keys.mapM Driver.C14.unhex with
      | some d, some ks => match d.toList with
          | [c] => Driver.C14.hex (String.ofList (join c (ks.map String.toList)))
          | _ => "bad-op"
      | _, _ => "bad-op"
  | _ => "bad-op"

end Driver.C18
