import ButlerModel.Model.Transfer
import ButlerModel.Driver.C08
/-! Handlers for import / transfer (C19). -/
namespace Driver.C19
open Transfer

def kv := Driver.C08.kv
def pairs := Driver.C08.pairs

def rngs (s : String) : Option (List Rng) :=
  if s == "-" || s == "" then some [] else (s.splitOn ",").mapM fun t => match (t.splitOn "/").mapM (·.toNat?) with
    | some [a, b, c, d] => some { slot := a, ds := b, b := c, e := d }
    | _ => none

def showTbl (t : Tbl) : String :=
  let a := (t.map (fun x => x.1 * 1000000 + x.2)).toArray.qsort (· < ·) |>.toList.eraseDups
  if a.isEmpty then "-" else ",".intercalate (a.map fun x => s!"{x / 1000000}@{x % 1000000}")

def showRngs (t : List Rng) : String :=
  let a := (t.map (fun x => ((x.slot * 1000 + x.ds) * 1000 + x.b) * 1000 + x.e)).toArray.qsort (· < ·) |>.toList
  if a.isEmpty then "-" else ",".intercalate (a.map fun x => s!"{x / 1000000000}/{x / 1000000 % 1000}/{x / 1000 % 1000}/{x % 1000}")

/-- the effective table: first entry per key -/
def eff (t : Tbl) : Tbl := (t.map (·.1)).eraseDups.filterMap fun k => (lookup t k).map fun v => (k, v)

def parseRepo (toks : List String) : Option Repo := do
  let types ← pairs (kv toks "types")
  let dims ← pairs (kv toks "dims")
  let ds ← pairs (kv toks "ds")
  let slots ← pairs (kv toks "slots")
  let tags ← pairs (kv toks "tags")
  let chains ← pairs (kv toks "chains")
  let calibs ← rngs (kv toks "calibs")
  pure { types := types, dims := dims, ds := ds, slots := slots, tags := tags, chains := chains, calibs := calibs }

def handle (t : Repo) (toks : List String) : Repo × String :=
  match toks with
  | "new" :: rest => match parseRepo rest with
      | some r => (r, "ok")
      | none => (t, "bad-op")
  | "import" :: rest => match parseRepo rest with
      | some e => match importInto t e with
          | some r => (r, "ok")
          | none => (t, "refused")
      | none => (t, "bad-op")
  | ["state"] => (t, s!"types={showTbl (eff t.types)} dims={showTbl (eff t.dims)} ds={showTbl (eff t.ds)} slots={showTbl (eff t.slots)} tags={showTbl (eff t.tags)} chains={showTbl (eff t.chains)} calibs={showRngs t.calibs}")
  | _ => (t, "bad-op")

end Driver.C19
