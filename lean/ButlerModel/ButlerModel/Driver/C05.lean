import ButlerModel.Model.Eval
import ButlerModel.Driver.C09
/-! Handler for where-expression evaluation (C05).
`ev sel <fixed 0|1> <predicate, prefix tokens> ROWS <row> <row> …` with row = `name=val,name=val`,
val = `i:<int>` | `s:<hex>` | `n`; reply: one of T/F/N per row. -/
namespace Driver.C05
open Eval

def parseV (t : String) : Option V :=
  if t == "n" then some .null
  else if t.startsWith "i:" then ((t.drop 2).toString.toInt?).map .int
  else if t.startsWith "s:" then (Driver.C09.unhex (t.drop 2).toString).map .str
  else none

partial def parseSc : List String → Option (Sc × List String)
  | "lit" :: v :: r => (parseV v).map fun x => (.lit x, r)
  | "col" :: n :: r => some (.col n, r)
  | "neg" :: r => (parseSc r).map fun (e, r') => (.neg e, r')
  | op :: r => if op ∈ ["add", "sub", "mul", "mod"] then do
      let (a, r1) ← parseSc r
      let (b, r2) ← parseSc r1
      pure ((match op with | "add" => Sc.add a b | "sub" => .sub a b | "mul" => .mul a b | _ => .mod a b), r2)
    else none
  | [] => none

def takeVs : Nat → List String → Option (List V × List String)
  | 0, r => some ([], r)
  | n + 1, t :: r => do
    let v ← parseV t
    let (vs, r') ← takeVs n r
    pure (v :: vs, r')
  | _, [] => none

def takeRs : Nat → List String → Option (List Rng × List String)
  | 0, r => some ([], r)
  | n + 1, a :: b :: s :: r => do
    let a ← a.toInt?
    let b ← b.toInt?
    let s ← s.toInt?
    let (rs, r') ← takeRs n r
    pure (⟨a, b, s⟩ :: rs, r')
  | _, _ => none

partial def parseP : List String → Option (P × List String)
  | "cmp" :: op :: r => do
    let (a, r1) ← parseSc r
    let (b, r2) ← parseSc r1
    pure (.cmp op a b, r2)
  | "flag" :: n :: r => some (.flag n, r)
  | "isnull" :: n :: r => do
    let (a, r1) ← parseSc r
    pure (.isNull a (n == "1"), r1)
  | "in" :: n :: r => do
    let (a, r1) ← parseSc r
    match r1 with
    | nl :: r2 => do
      let nl ← nl.toNat?
      let (ls, r3) ← takeVs nl r2
      match r3 with
      | nr :: r4 => do
        let nr ← nr.toNat?
        let (rs, r5) ← takeRs nr r4
        pure (.inSet a ls rs (n == "1"), r5)
      | [] => none
    | [] => none
  | "not" :: r => (parseP r).map fun (p, r') => (.not p, r')
  | "and" :: r => do
    let (p, r1) ← parseP r
    let (q, r2) ← parseP r1
    pure (.and p q, r2)
  | "or" :: r => do
    let (p, r1) ← parseP r
    let (q, r2) ← parseP r1
    pure (.or p q, r2)
  | _ => none

def parseRow (t : String) : Option Row := do
  let kvs ← (t.splitOn ",").mapM fun kv => match kv.splitOn "=" with
    | [k, v] => (parseV v).map fun x => (k, x)
    | _ => none
  pure fun n => match kvs.find? (·.1 == n) with
    | some (_, v) => v
    | none => .null

def handle (toks : List String) : String :=
  match toks with
  | "sel" :: fixed :: rest =>
    let predT := rest.takeWhile (· != "ROWS")
    let rowT := (rest.dropWhile (· != "ROWS")).drop 1
    match parseP predT, rowT.mapM parseRow with
    | some (p, []), some rows => String.join (rows.map fun r => (sql (fixed == "1") r p).render)
    | _, _ => "bad-op"
  | _ => "bad-op"

end Driver.C05
