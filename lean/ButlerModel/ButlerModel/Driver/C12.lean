import ButlerModel.Model.Universe
import ButlerModel.Gen.Universe
/-! Line-protocol handlers for dimension groups (C12, C13). Indices are element positions in
universe order; the harness translates names. -/
namespace Driver.C12
open Dim

def parseList (s : String) : Option (List Nat) :=
  if s == "-" then some [] else (s.splitOn ",").mapM String.toNat?

def r (l : List Nat) : String := if l.isEmpty then "-" else renderList l

def handle (toks : List String) : String :=
  match toks with
  | [tag, "group", names] => match Gen.universeByTag tag, parseList names with
      | some U, some s =>
        let g := closeFast U s
        s!"names={r g} req={r (required U g)} imp={r (implied U g)} elems={r (elements U g)} order={r (lookupOrder U g)}"
      | _, _ => "bad-op"
  | [tag, "union", a, b] => match Gen.universeByTag tag, parseList a, parseList b with
      | some U, some a, some b => r (closeFast U (a ++ b))
      | _, _, _ => "bad-op"
  | [tag, "inter", a, b] => match Gen.universeByTag tag, parseList a, parseList b with
      | some U, some a, some b => r (closeFast U (a.filter fun x => b.contains x))
      | _, _, _ => "bad-op"
  | [tag, "cmp", a, b] => match Gen.universeByTag tag, parseList a, parseList b with
      | some U, some a, some b =>
        let ga := closeFast U a
        let gb := closeFast U b
        s!"le={leB ga gb} ge={geB ga gb} lt={ltB ga gb} gt={gtB ga gb} eq={eqB ga gb} disjoint={disjointB ga gb}"
      | _, _, _ => "bad-op"
  | [tag, "wf"] => match Gen.universeByTag tag with
      | some U => toString (wfB U)
      | none => "bad-op"
  | _ => "bad-op"

end Driver.C12
