import ButlerModel.Model.Join
/-! Handler for dimension joins (C06): `jn run OUT c1,c2 T c1,c2 R v1,v2 R v1,v2 T …`;
reply: the distinct rows of the natural join projected on the OUT columns, sorted, `v.v.v;v.v.v`. -/
namespace Driver.C06
open Join

def nums (s : String) : Option (List Nat) := if s == "-" then some [] else (s.splitOn ",").mapM (·.toNat?)

def mkRow (cols vals : List Nat) : Nat → Nat := fun c => match (cols.zip vals).find? (·.1 == c) with
  | some (_, v) => v
  | none => 0

partial def parseTables : List String → Option (List Tbl)
  | [] => some []
  | "T" :: cs :: rest => do
    let cols ← nums cs
    let rowToks := rest.takeWhile (· != "T")
    let rest' := rest.dropWhile (· != "T")
    let rec rows : List String → Option (List (Nat → Nat))
      | [] => some []
      | "R" :: vs :: r => do
        let v ← nums vs
        let more ← rows r
        pure (mkRow cols v :: more)
      | _ => none
    let rs ← rows rowToks
    let more ← parseTables rest'
    pure ({ cols := cols, rows := rs } :: more)
  | _ => none

def lexLt : List Nat → List Nat → Bool
  | [], [] => false
  | [], _ => true
  | _, [] => false
  | a :: as, b :: bs => a < b || (a == b && lexLt as bs)

def handle (toks : List String) : String :=
  match toks with
  | "run" :: "OUT" :: out :: rest => match nums out, parseTables rest with
      | some out, some ts =>
        let j := joinAll ts
        let rows := (j.rows.map fun r => out.map r).eraseDups
        let sorted := (rows.toArray.qsort lexLt).toList
        if sorted.isEmpty then "-" else ";".intercalate (sorted.map fun r => ".".intercalate (r.map toString))
      | _, _ => "bad-op"
  | _ => "bad-op"

end Driver.C06
