import ButlerModel.Model.Cache
/-! Stateful line-protocol handlers for the file cache model (C17). Two clients share one disk. -/
namespace Driver.C17
open Cache

structure St where
  mode : Mode := .files
  thr : Int := 0
  disk : List Entry := []
  regs : List Reg := [{}, {}]

def parseMode : String → Option Mode
  | "files" => some .files | "datasets" => some .datasets | "size" => some .size | "age" => some .age | _ => none

def parseList (s : String) : Option (List Nat) :=
  if s == "-" then some [] else (s.splitOn ",").mapM String.toNat?

def St.reg (s : St) (c : Nat) : Reg := s.regs.getD c {}
def St.setReg (s : St) (c : Nat) (r : Reg) : St := { s with regs := s.regs.set c r }

def out (s : St) (c : Nat) : String := renderReg (s.reg c) ++ " disk=" ++ renderDisk s.disk

def handle (s : St) (toks : List String) : St × String :=
  match toks with
  | ["new", m, t] => match parseMode m, t.toInt? with
      | some m, some t => ({ mode := m, thr := t }, "ok")
      | _, _ => (s, "bad-op")
  | ["move", c, now, k, rf, sz, ct] =>
      match c.toNat?, now.toInt?, k.toNat?, rf.toNat?, sz.toNat?, ct.toInt? with
      | some c, some now, some k, some rf, some sz, some ct =>
        let (d, r) := moveToCache s.mode s.thr now ⟨k, rf, sz, ct⟩ s.disk (s.reg c)
        let s' := { s with disk := d }.setReg c r
        (s', out s' c)
      | _, _, _, _, _, _ => (s, "bad-op")
  | ["remove", c, refs] => match c.toNat?, parseList refs with
      | some c, some refs =>
        let (d, r) := removeRefs s.disk (s.reg c) refs
        let s' := { s with disk := d }.setReg c r
        (s', out s' c)
      | _, _ => (s, "bad-op")
  | ["expire", c, now] => match c.toNat?, now.toInt? with
      | some c, some now =>
        let (d, r) := expire s.mode s.thr now s.disk (s.reg c)
        let s' := { s with disk := d }.setReg c r
        (s', out s' c)
      | _, _ => (s, "bad-op")
  | ["extrm", k] => match k.toNat? with   -- a file disappears behind the clients' back
      | some k => ({ s with disk := s.disk.filter (·.key != k) }, "ok")
      | none => (s, "bad-op")
  | _ => (s, "bad-op")

end Driver.C17
