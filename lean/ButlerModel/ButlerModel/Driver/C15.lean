import ButlerModel.Model.Predicate
import ButlerModel.Model.NormalForm
/-! Line-protocol handlers for the predicate algebra and the legacy normaliser (C15). -/
namespace Driver.C15

/-- `T` = `()`, otherwise groups separated by `;`, leaves by `,`, `~k` = NOT atom k, `-` = empty group. -/
def parseLeaf (s : String) : Option Pred.Leaf :=
  if s.startsWith "~" then (s.drop 1).toString.toNat?.map Pred.Leaf.neg else s.toNat?.map Pred.Leaf.pos

def parseGroup (s : String) : Option (List Pred.Leaf) :=
  if s == "-" then some [] else (s.splitOn ",").mapM parseLeaf

def parsePred (s : String) : Option Pred.Operands :=
  if s == "T" then some [] else (s.splitOn ";").mapM parseGroup

def renderLeaf : Pred.Leaf → String
  | .pos k => toString k
  | .neg k => "~" ++ toString k

def renderPred (p : Pred.Operands) : String :=
  if p.isEmpty then "T" else
  ";".intercalate (p.map fun g => if g.isEmpty then "-" else ",".intercalate (g.map renderLeaf))

def assignment (s : String) : Nat → K3 := fun k => (s.toList.getD k 'N') |> K3.ofChar

/-- prefix tree syntax: `A k` | `N t` | `& l r` | `| l r` | `P t` -/
def parseTree : Nat → List String → Option (NF.Tree × List String)
  | 0, _ => none
  | fuel + 1, toks =>
    match toks with
    | "A" :: k :: rest => k.toNat?.map fun k => (NF.Tree.atom k, rest)
    | "N" :: rest => (parseTree fuel rest).map fun (t, r) => (NF.Tree.not t, r)
    | "P" :: rest => (parseTree fuel rest).map fun (t, r) => (NF.Tree.parens t, r)
    | "&" :: rest => match parseTree fuel rest with
        | some (l, r1) => (parseTree fuel r1).map fun (r, r2) => (NF.Tree.and l r, r2)
        | none => none
    | "|" :: rest => match parseTree fuel rest with
        | some (l, r1) => (parseTree fuel r1).map fun (r, r2) => (NF.Tree.or l r, r2)
        | none => none
    | _ => none

/-- Rendered exactly like the Python wrappers' `__str__` (`and(x0, not(x1))`). -/
partial def renderW : NF.W → String
  | .atom k => s!"x{k}"
  | .natom k => s!"not(x{k})"
  | .bin op l r => (if op then "and(" else "or(") ++ renderW l ++ ", " ++ renderW r ++ ")"

def renderNodes (n : List (List NF.W)) : String :=
  ";".intercalate (n.map fun g => ",".intercalate (g.map renderW))

def FUEL : Nat := 100000

def handle (toks : List String) : String :=
  match toks with
  | "and" :: self :: args =>
      -- an argument prefixed with `=` *is* (object identity) the accumulated operand tuple at that point
      let parsed := args.mapM fun a =>
        if a.startsWith "=" then (parsePred (a.drop 1).toString).map fun o => (true, o)
        else (parsePred a).map fun o => (false, o)
      match parsePred self, parsed with
      | some s, some a => renderPred (Pred.logicalAndId s a)
      | _, _ => "bad-op"
  | "or" :: self :: args => match parsePred self, args.mapM parsePred with
      | some s, some a => renderPred (Pred.logicalOr s a)
      | _, _ => "bad-op"
  | ["not", self] => match parsePred self with
      | some s => renderPred (Pred.logicalNot s)
      | none => "bad-op"
  | ["rewrite", p, spec] =>
      -- spec: `k=operands|k=operands` (atoms the visitor replaces), `-` for none
      let pairs : Option (List (Nat × Pred.Operands)) :=
        if spec == "-" then some [] else
        (spec.splitOn "|").mapM fun kv => match kv.splitOn "=" with
          | [k, ops] => match k.toNat?, parsePred ops with
              | some k, some o => some (k, o)
              | _, _ => none
          | _ => none
      match parsePred p, pairs with
      | some p, some pairs =>
        renderPred (Pred.rewrite (fun k => (pairs.find? (·.1 == k)).map (·.2)) p)
      | _, _ => "bad-op"
  | ["frombool", v] => renderPred (Pred.fromBool (v == "1"))
  | ["eval", p, asg] => match parsePred p with
      | some p => (Pred.eval (assignment asg) p).render
      | none => "bad-op"
  | "norm" :: form :: tree => match parseTree (tree.length + 1) tree with
      | some (t, []) => renderW (NF.normalize (form == "C") FUEL (NF.toW t))
      | _ => "bad-op"
  | "wrap" :: tree => match parseTree (tree.length + 1) tree with
      | some (t, []) => renderW (NF.toW t)
      | _ => "bad-op"
  | "sat" :: form :: tree => match parseTree (tree.length + 1) tree with
      | some (t, []) => toString (NF.satisfies (form == "C") (NF.toW t))
      | _ => "bad-op"
  | "fromtree" :: form :: tree => match parseTree (tree.length + 1) tree with
      | some (t, []) => renderNodes (NF.fromTree (form == "C") FUEL t)
      | _ => "bad-op"
  | "evaltree" :: asg :: tree => match parseTree (tree.length + 1) tree with
      | some (t, []) => (NF.evalT (assignment asg) t).render
      | _ => "bad-op"
  | _ => "bad-op"

end Driver.C15
