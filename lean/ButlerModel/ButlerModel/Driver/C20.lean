import ButlerModel.Model.Conc
import ButlerModel.Model.Lock
/-! Handler for interleaved schedules (C20): `conc run <init items> S <steps>`. -/
namespace Driver.C20
open Conc

def nums (s : String) (sep : String) : Option (List Nat) := (s.splitOn sep).mapM (·.toNat?)

structure Acc where
  s : S := {}
  slots : List Nat := []
  ids : List Nat := []
  paths : List Nat := []
  colls : List Nat := []
  tslots : List Nat := []
  chains : List Nat := []

def initItem (a : Acc) (t : String) : Option Acc :=
  match t.splitOn ":" with
  | ["sl", x] => match nums x "@" with
      | some [k, v] => some { a with s := { a.s with slots := upd a.s.slots k (some v) }, slots := k :: a.slots, ids := v :: a.ids }
      | _ => none
  | ["rc", x] => match nums x "@" with
      | some [k, v] => some { a with s := { a.s with recs := upd a.s.recs k (some v), users := upd a.s.users v (a.s.users v + 1) },
                                     ids := k :: a.ids, paths := v :: a.paths }
      | _ => none
  | ["fl", x] => match nums x "@" with
      | some [k, v] => some { a with s := { a.s with files := upd a.s.files k (some v) }, paths := k :: a.paths }
      | _ => none
  | ["cl", x] => match nums x "@" with
      | some [k, v] => some { a with s := { a.s with colls := upd a.s.colls k (some v) }, colls := k :: a.colls }
      | _ => none
  | ["tg", x] => match nums x "@" with
      | some [k, v] => some { a with s := { a.s with tags := upd a.s.tags k (some v) }, tslots := k :: a.tslots }
      | _ => none
  | ["ch", x] => match x.splitOn "@" with
      | [k, kids] => match k.toNat?, (if kids == "" then some [] else nums kids ",") with
          | some k, some kids => some { a with s := { a.s with chain := upd a.s.chain k kids }, chains := k :: a.chains }
          | _, _ => none
      | _ => none
  | _ => none

def parseStep (t : String) : Option Step :=
  match t.splitOn ":" with
  | ["reg", x] => match nums x "@" with | some [n, ty] => some (.regColl n ty) | _ => none
  | ["put", x] => match nums x "@" with | some [a, b, c, d] => some (.put a b c d) | _ => none
  | ["as", x] => match nums x "@" with | some [a, b] => some (.assoc a b) | _ => none
  | ["ca", x] => match nums x "@" with | some [a, b] => some (.chainAdd a b) | _ => none
  | ["p1", x] => match nums x "@" with | some [a, b, c] => some (.prune1 a b c) | _ => none
  | ["p2q", x] => match nums x "@" with | some [a, b] => some (.prune2q a b) | _ => none
  | ["p2d", x] => match nums x "@" with | some [a, b] => some (.prune2d a b) | _ => none
  | ["p3", x] => x.toNat?.map .prune3
  | _ => none

def keysOf : Step → Acc → Acc
  | .regColl n _, a => { a with colls := n :: a.colls }
  | .put sl id p _, a => { a with slots := sl :: a.slots, ids := id :: a.ids, paths := p :: a.paths }
  | .assoc ts _, a => { a with tslots := ts :: a.tslots }
  | .chainAdd ch _, a => { a with chains := ch :: a.chains }
  | .prune1 sl id p, a => { a with slots := sl :: a.slots, ids := id :: a.ids, paths := p :: a.paths }
  | .prune2q id p, a => { a with ids := id :: a.ids, paths := p :: a.paths }
  | .prune2d id p, a => { a with ids := id :: a.ids, paths := p :: a.paths }
  | .prune3 id, a => { a with ids := id :: a.ids }

def sorted (l : List Nat) : List Nat := (l.eraseDups.toArray.qsort (· < ·)).toList

def showOpt (keys : List Nat) (f : Nat → Option Nat) : String :=
  let xs := (sorted keys).filterMap fun k => (f k).map fun v => s!"{k}@{v}"
  if xs.isEmpty then "-" else ",".intercalate xs

def whoStr : Option Lock.Who → String
  | none => "-"
  | some .a => "A"
  | some .b => "B"

def handle (toks : List String) : String :=
  match toks with
  | ["lock", "order"] =>
    -- the order in which the model undoes a failed block
    ",".intercalate (Lock.sourceOrder.map fun st => match st with | .undo => "undo" | .unlock => "unlock")
  | ["lock", order, k] =>
    let steps : Option (List Lock.AStep) := (order.splitOn ",").mapM fun t =>
      if t == "undo" then some Lock.AStep.undo else if t == "unlock" then some Lock.AStep.unlock else none
    match steps, k.toNat? with
    | some steps, some k =>
      let s := Lock.exec steps k false Lock.start
      s!"row={whoStr s.row} file={whoStr s.file}"
    | _, _ => "bad-op"
  | "run" :: rest =>
    let initT := rest.takeWhile (· != "S")
    let stepT := (rest.dropWhile (· != "S")).drop 1
    match initT.foldlM initItem ({} : Acc), stepT.mapM parseStep with
    | some a, some steps =>
      let a := steps.foldl (fun acc st => keysOf st acc) a
      let s := run a.s steps
      let tr := (sorted a.ids).filter (fun i => s.trash i)
      let ch := (sorted a.chains).map fun c => s!"{c}:" ++ ",".intercalate ((s.chain c).map toString)
      s!"slots={showOpt a.slots s.slots} recs={showOpt a.ids s.recs} files={showOpt a.paths s.files} trash={if tr.isEmpty then "-" else ",".intercalate (tr.map toString)} colls={showOpt a.colls s.colls} tags={showOpt a.tslots s.tags} chains={if ch.isEmpty then "-" else ";".intercalate ch}"
    | _, _ => "bad-op"
  | _ => "bad-op"

end Driver.C20
