import ButlerModel.Model.DataId
import ButlerModel.Gen.Universe
/-! Stateful handlers for data IDs (C13). The harness numbers dimension values; records are
registered with `did rec`. -/
namespace Driver.C13
open Dim DataId

structure St where
  recs : List (Nat × Assoc × Assoc) := []      -- (element, key values, implied values)
  defRel : List Nat := []

def parseList (s : String) : Option (List Nat) :=
  if s == "-" then some [] else (s.splitOn ",").mapM String.toNat?

def parseAssoc (s : String) : Option Assoc :=
  if s == "-" then some [] else
  (s.splitOn ",").mapM fun kv => match kv.splitOn "=" with
    | [k, v] => match k.toNat?, v.toNat? with
        | some k, some v => some (k, v)
        | _, _ => none
    | _ => none

def sameAssoc (a b : Assoc) : Bool := a.all (fun p => getv b p.1 == some p.2) && b.all (fun p => getv a p.1 == some p.2)

def St.store (s : St) : Store := fun e keys =>
  (s.recs.find? fun r => r.1 == e && sameAssoc r.2.1 keys).map (·.2.2)

def errName : Err → String
  | .dimensionName => "DimensionNameError" | .dataIdValue => "DataIdValueError" | .inconsistent => "InconsistentDataIdError"

def sortAssoc (m : Assoc) : Assoc := (m.toArray.qsort (fun a b => a.1 < b.1)).toList

def renderId (d : DataId) : String :=
  s!"dims={Dim.renderList d.group} full={d.full} vals={renderAssoc (sortAssoc d.vals)}"

def handle (s : St) (toks : List String) : St × String :=
  match toks with
  | ["new"] => ({}, "ok")
  | ["rec", e, keys, imp] => match e.toNat?, parseAssoc keys, parseAssoc imp with
      | some e, some k, some i => ({ s with recs := (e, k, i) :: s.recs }, "ok")
      | _, _, _ => (s, "bad-op")
  | ["defrel", l] => match parseList l with
      | some l => ({ s with defRel := l }, "ok")
      | none => (s, "bad-op")
  | ["std", tag, dims, m, kw, df] =>
      match Gen.universeByTag tag, parseAssoc m, parseAssoc kw, parseAssoc df with
      | some U, some m, some kw, some df =>
        let dims := if dims == "*" then none else parseList dims
        (s, match standardize U m kw dims df with
            | .ok d => "ok " ++ renderId d
            | .error e => "err " ++ errName e)
      | _, _, _, _ => (s, "bad-op")
  | ["expand", tag, dims, m] =>
      match Gen.universeByTag tag, parseList dims, parseAssoc m with
      | some U, some dims, some m =>
        (s, match standardize U m [] (some dims) [] with
            | .error e => "err " ++ errName e
            | .ok d => match expand U s.store (fun e => s.defRel.contains e) d with
                | .ok keys => "ok " ++ renderAssoc (sortAssoc (keys.filter fun p => d.group.contains p.1))
                | .error e => "err " ++ errName e)
      | _, _, _ => (s, "bad-op")
  | _ => (s, "bad-op")

end Driver.C13
