import ButlerModel.Model.Artifacts
import ButlerModel.Model.PathNorm
import ButlerModel.Driver.C02
import ButlerModel.Driver.C07
/-! Handlers for artifact ownership histories and path placement (C09). -/
namespace Driver.C09
open Artifacts

def r := Driver.C07.r

def handle (s : S) (toks : List String) : S × String :=
  match toks with
  | ["new"] => ({}, "ok")
  | ["store", ids, path, kind] =>
    match Driver.C02.parseList ids, path.toNat?, (match kind with
        | "plain" => some Kind.plain | "zip" => some Kind.zip | "direct" => some Kind.direct | _ => none) with
    | some ids, some p, some k => (store s ids p k, "ok")
    | _, _, _ => (s, "bad-op")
  | ["trash", ids] => match Driver.C02.parseList ids with
      | some ids => (trash s ids, "ok")
      | none => (s, "bad-op")
  | ["empty"] => (emptyTrash s, "ok")
  | ["state"] => (s, s!"disk={r s.disk} live={r s.live} trash={r s.trash} recs={s.recs.length}")
  | ["readable", id] => match id.toNat? with
      | some id => (s, toString (readable s id))
      | none => (s, "bad-op")
  | _ => (s, "bad-op")

/-- Strings travel hex-encoded (`-` = empty string). -/
def hexVal (c : Char) : Option Nat :=
  if '0' ≤ c ∧ c ≤ '9' then some (c.toNat - '0'.toNat)
  else if 'a' ≤ c ∧ c ≤ 'f' then some (c.toNat - 'a'.toNat + 10) else none

def unhexL : List Char → Option (List Char)
  | [] => some []
  | a :: b :: rest => do
    let x ← hexVal a
    let y ← hexVal b
    let t ← unhexL rest
    pure (Char.ofNat (16 * x + y) :: t)
  | _ => none

def unhex (s : String) : Option String := if s == "-" then some "" else (unhexL s.toList).map String.ofList

def unhexList (s : String) : Option (List String) :=
  if s == "." then some [] else (s.splitOn ",").mapM unhex

def handlePath (toks : List String) : String :=
  match toks with
  | ["place", root, run, dirs, files] => match unhexList root, unhex run, unhexList dirs, unhexList files with
      | some root, some run, some dirs, some files => match PathNorm.place root run dirs files with
          | .ok p => "ok " ++ "/".intercalate p
          | .error _ => "refused"
      | _, _, _, _ => "bad-op"
  | _ => "bad-op"

end Driver.C09
