import ButlerModel.Model.Crash
import ButlerModel.Driver.C07
/-! Handlers for crash traces (C08). -/
namespace Driver.C08
open Crash

structure St where
  init : S := {}
  trace : List Eff := []
  paths : List Nat := []

def r := Driver.C07.r

def nats (s : String) : Option (List Nat) := if s == "-" || s == "" then some [] else (s.splitOn ",").mapM (·.toNat?)

def pairs (s : String) : Option (List (Nat × Nat)) :=
  if s == "-" || s == "" then some [] else (s.splitOn ",").mapM fun t => match t.splitOn "@" with
    | [a, b] => match a.toNat?, b.toNat? with
        | some a, some b => some (a, b)
        | _, _ => none
    | _ => none

def two (s : String) : Option (Nat × Nat) := match s.splitOn ">" with
  | [a, b] => match a.toNat?, b.toNat? with
      | some a, some b => some (a, b)
      | _, _ => none
  | _ => none

def parseEff (t : String) : Option Eff :=
  match t.splitOn ":" with
  | ["B"] => some .begin
  | ["C"] => some .commit
  | ["R"] => some .rollback
  | ["o"] => some .other
  | ["reg+", x] => (nats x).map .regAdd
  | ["reg-", x] => (nats x).map .regDel
  | ["loc+", x] => (nats x).map .locAdd
  | ["loc-", x] => (nats x).map .locDel
  | ["tr+", x] => (nats x).map .trashAdd
  | ["tr-", x] => (nats x).map .trashDel
  | ["rec+", x] => (pairs x).map .recAdd
  | ["rec-", x] => (nats x).map .recDel
  | ["fc", x] => x.toNat?.map .fcreate
  | ["fd", x] => x.toNat?.map .fdone
  | ["rm", x] => x.toNat?.map .fdel
  | ["mv", x] => (two x).map fun (a, b) => .rename a b
  | ["ln", x] => (two x).map fun (a, b) => .link a b
  | _ => none

def effPaths : Eff → List Nat
  | .recAdd rs => rs.map (·.2)
  | .fcreate p | .fdone p | .fdel p => [p]
  | .rename a b | .link a b => [a, b]
  | _ => []

def kv (toks : List String) (k : String) : String :=
  match toks.find? (fun t => t.startsWith (k ++ "=")) with
  | some t => (t.drop (k.length + 1)).toString
  | none => "-"

def firstBad (s : S) : List Eff → Nat → Option Nat
  | [], _ => none
  | e :: es, i => if Crash.guard s e then firstBad (apply s e) es (i + 1) else some i

def showState (st : St) (s : S) : String :=
  let d := s.db
  let ps := st.paths.eraseDups
  let complete := ps.filter (fun p => s.files p == some true)
  let partial_ := ps.filter (fun p => s.files p == some false)
  let recs := (d.recs.map (fun x => x.1 * 100000 + x.2)).toArray.qsort (· < ·) |>.toList
  let recsS := if recs.isEmpty then "-" else ",".intercalate (recs.map fun x => s!"{x / 100000}@{x % 100000}")
  s!"reg={r d.reg.eraseDups} loc={r d.loc.eraseDups} trash={r d.trash.eraseDups} recs={recsS} files={r complete} partial={r partial_}"

def handle (st : St) (toks : List String) : St × String :=
  match toks with
  | "init" :: rest =>
    match nats (kv rest "reg"), nats (kv rest "loc"), nats (kv rest "trash"), pairs (kv rest "recs"), nats (kv rest "files") with
    | some reg, some loc, some trash, some recs, some files =>
      let s : S := { db := { reg := reg, loc := loc, trash := trash, recs := recs },
                     files := fun q => if files.contains q then some true else none }
      ({ init := s, trace := [], paths := files ++ recs.map (·.2) }, "ok")
    | _, _, _, _, _ => (st, "bad-op")
  | "trace" :: rest =>
    match rest.mapM parseEff with
    | some es =>
      let st' := { st with trace := es, paths := st.paths ++ es.flatMap effPaths }
      match firstBad st.init es 0 with
      | none => (st', s!"disciplined=true n={es.length}")
      | some i => (st', s!"disciplined=false at={i} {rest.getD i "?"}")
    | none => (st, "bad-op")
  | ["at", k] => match k.toNat? with
      | some k => (st, showState st (recover (runAll st.init (st.trace.take k))))
      | none => (st, "bad-op")
  | _ => (st, "bad-op")

end Driver.C08
