import ButlerModel.Gen.TimespanPy
import ButlerModel.Gen.TimespanSql
/-! Line-protocol handlers for the Timespan model (C11, C04). -/
namespace Driver.C11
open Gen

def renderL (l : List TS) : String := "[" ++ ",".intercalate (l.map TS.render) ++ "]"

def parseBound (s : String) : Option Bound :=
  match s.splitOn ":" with
  | ["N"] => some .none
  | ["E"] => some .empty
  | ["O"] => some .other
  | ["T", n, b, a] => match n.toInt? with
      | some n => some (.time n (b == "1") (a == "1"))
      | none => none
  | _ => none

def parseTS? (s : String) : Option (Option TS) :=
  if s == "NULL" then some none else
  match s.splitOn "," with
  | [b, e] => match b.toInt?, e.toInt? with
      | some b, some e => some (some ⟨b, e⟩)
      | _, _ => none
  | _ => none

def envOf (a b : Option TS) (t : Option Int) : Nat → Sql.V
  | 0 => match a with | some a => .int a.b | none => .null
  | 1 => match a with | some a => .int a.e | none => .null
  | 2 => match b with | some b => .int b.b | none => .null
  | 3 => match b with | some b => .int b.e | none => .null
  | 4 => match t with | some t => .int t | none => .null
  | _ => .null

def colA : Sql.E × Sql.E := (.col 0, .col 1)
def colB : Sql.E × Sql.E := (.col 2, .col 3)

def handle (toks : List String) : String :=
  match toks with
  | ["ctorNsec", x, y] => match x.toInt?, y.toInt? with
      | some x, some y => (TsPy.ctorNsec (x, y)).render
      | _, _ => "bad-op"
  | ["ctor", b, e, pad] => match parseBound b, parseBound e with
      | some b, some e => match TsPy.ctor b e (pad == "1") with
          | .ok t => "ok " ++ t.render
          | .error m => "err " ++ m
      | _, _ => "bad-op"
  | ["makeEmpty"] => TsPy.makeEmpty.render
  | ["op", name, b1, e1, b2, e2] =>
      match b1.toInt?, e1.toInt?, b2.toInt?, e2.toInt? with
      | some b1, some e1, some b2, some e2 =>
        let a : TS := ⟨b1, e1⟩; let b : TS := ⟨b2, e2⟩
        match name with
        | "overlaps" => toString (TsPy.overlaps a b)
        | "contains" => toString (TsPy.contains a b)
        | "lt" => toString (TsPy.lt a b)
        | "gt" => toString (TsPy.gt a b)
        | "eq" => toString (TsPy.eq a b)
        | "intersection" => (TsPy.intersection a [b]).render
        | "difference" => renderL (TsPy.difference a b)
        | _ => "bad-op"
      | _, _, _, _ => "bad-op"
  | ["op3", "intersection", b1, e1, b2, e2, b3, e3] =>
      match b1.toInt?, e1.toInt?, b2.toInt?, e2.toInt?, b3.toInt?, e3.toInt? with
      | some b1, some e1, some b2, some e2, some b3, some e3 =>
        (TsPy.intersection ⟨b1, e1⟩ [⟨b2, e2⟩, ⟨b3, e3⟩]).render
      | _, _, _, _, _, _ => "bad-op"
  | ["op1", name, b1, e1] =>
      match b1.toInt?, e1.toInt? with
      | some b1, some e1 =>
        let a : TS := ⟨b1, e1⟩
        match name with
        | "isEmpty" => toString (TsPy.isEmpty a)
        | "intersection0" => (TsPy.intersection a []).render
        | _ => "bad-op"
      | _, _ => "bad-op"
  | ["opT", name, b1, e1, n] =>
      match b1.toInt?, e1.toInt?, n.toInt? with
      | some b1, some e1, some n =>
        let a : TS := ⟨b1, e1⟩
        match name with
        | "overlaps" => toString (TsPy.overlapsT a n)
        | "contains" => toString (TsPy.containsT a n)
        | "lt" => toString (TsPy.ltT a n)
        | "gt" => toString (TsPy.gtT a n)
        | _ => "bad-op"
      | _, _, _ => "bad-op"
  | ["sql", name, a, b, t] =>
      match parseTS? a, parseTS? b with
      | some a, some b =>
        let t := if t == "NULL" then none else t.toInt?
        let env := envOf a b t
        let e : Option Sql.E := match name with
          | "overlaps" => some (TsSql.overlaps colA colB)
          | "contains" => some (TsSql.contains colA colB)
          | "lt" => some (TsSql.lt colA colB)
          | "gt" => some (TsSql.gt colA colB)
          | "overlapsT" => some (TsSql.overlapsT colA (.col 4))
          | "containsT" => some (TsSql.containsT colA (.col 4))
          | "ltT" => some (TsSql.ltT colA (.col 4))
          | "gtT" => some (TsSql.gtT colA (.col 4))
          | "isEmpty" => some (TsSql.isEmpty colA)
          | "isNull" => some (TsSql.isNull colA)
          | "lower" => some (TsSql.lower colA)
          | "upper" => some (TsSql.upper colA)
          | _ => none
        match e with
        | some e => (Sql.eval env e).render
        | none => "bad-op"
      | _, _ => "bad-op"
  | _ => "bad-op"

end Driver.C11
