import ButlerModel.Model.Store
/-! Handlers for the read-back model (C01). -/
namespace Driver.C01
open Store

def handle (s : S) (toks : List String) : S × String :=
  match toks with
  | ["new"] => ({}, "ok")
  | ["put", id, p, c, sz] => match id.toNat?, p.toNat?, c.toNat?, sz.toNat? with
      | some id, some p, some c, some sz => (put s id p c sz, "ok")
      | _, _, _, _ => (s, "bad-op")
  | ["remove", id] => match id.toNat? with
      | some id => (remove s id, "ok")
      | none => (s, "bad-op")
  | ["get", id] => match id.toNat? with
      | some id => (s, match Store.get s id with | some (.ok c) => toString c | some .integrity => "integrity" | none => "none")
      | none => (s, "bad-op")
  | _ => (s, "bad-op")

end Driver.C01
