import ButlerModel.Model.Chain
/-! Stateful line-protocol handlers for CHAINED collections and find-first (C03). -/
namespace Driver.C03
open Chain

structure St where
  kinds : List (Nat × Char) := []          -- collection id → 'R' | 'T' | 'C'
  rows : List (Nat × Rows) := []           -- chain id → its rows
  tags : List (Nat × Nat × Nat) := []      -- (collection, key, dataset)

def FUEL : Nat := 64

def St.kind (s : St) (c : Nat) : Option Char := (s.kinds.find? (·.1 == c)).map (·.2)
def St.rowsOf (s : St) (c : Nat) : Rows := ((s.rows.find? (·.1 == c)).map (·.2)).getD []
def St.defs (s : St) : Defs := fun c => if s.kind c == some 'C' then some (children (s.rowsOf c)) else none
def St.setRows (s : St) (c : Nat) (r : Rows) : St := { s with rows := (c, r) :: s.rows.filter (·.1 != c) }

def parseList (s : String) : Option (List Nat) :=
  if s == "-" then some [] else (s.splitOn ",").mapM String.toNat?
def r (l : List Nat) : String := if l.isEmpty then "-" else ",".intercalate (l.map toString)

/-- Error discipline of `_modify_collection_chain` (order: unknown child, cycle, unknown parent, parent type). -/
def edit (s : St) (op : String) (p : Nat) (kids : List Nat) : St × String :=
  if kids.any (fun k => (s.kind k).isNone) then (s, "err MissingCollectionError")
  else if op != "remove" && wouldCycle s.defs FUEL p kids then (s, "err CollectionCycleError")
  else match s.kind p with
    | none => (s, "err MissingCollectionError")
    | some 'C' =>
      let old := s.rowsOf p
      let new := match op with
        | "redefine" => redefine old kids
        | "prepend" => prepend old kids
        | "extend" => extend old kids
        | _ => remove old kids
      (s.setRows p new, "ok")
    | some _ => (s, "err CollectionTypeError")

def handle (s : St) (toks : List String) : St × String :=
  match toks with
  | ["new"] => ({}, "ok")
  | ["coll", c, k] => match c.toNat? with
      | some c => ({ s with kinds := (c, k.front) :: s.kinds }, "ok")
      | none => (s, "bad-op")
  | [op, p, kids] =>
      if op == "redefine" || op == "prepend" || op == "extend" || op == "remove" then
        match p.toNat?, parseList kids with
        | some p, some kids => edit s op p kids
        | _, _ => (s, "bad-op")
      else if op == "put" then (s, "bad-op")
      else if op == "find" then
        match p.toNat?, parseList kids with
        | some key, some path =>
          (s, match findFirst s.defs FUEL path (fun c => (s.tags.find? (fun t => t.1 == c && t.2.1 == key)).map (·.2.2)) with
              | some d => toString d
              | none => "none")
        | _, _ => (s, "bad-op")
      else (s, "bad-op")
  | ["tag", c, key, d] => match c.toNat?, key.toNat?, d.toNat? with
      | some c, some key, some d => ({ s with tags := (c, key, d) :: s.tags }, "ok")
      | _, _, _ => (s, "bad-op")
  | ["children", p] => match p.toNat? with
      | some p => (s, r (children (s.rowsOf p)))
      | none => (s, "bad-op")
  | ["rows", p] => match p.toNat? with
      | some p => (s, let rs := s.rowsOf p
          if rs.isEmpty then "-" else ";".intercalate (rs.map fun q => s!"{q.1}:{q.2}"))
      | none => (s, "bad-op")
  | ["flatten", path] => match parseList path with
      | some path => (s, r (flattenPath s.defs FUEL path))
      | none => (s, "bad-op")
  | _ => (s, "bad-op")

end Driver.C03
