import ButlerModel.Model.Registry
import ButlerModel.Driver.C02
/-! Stateful handlers for registry + datastore removal / existence (C10). -/
namespace Driver.C10
open Registry

def flags (r : Repo) (id : Nat) : String :=
  let (a, b, c) := r.existsFlags id
  s!"{if a then "R" else "-"}{if b then "D" else "-"}{if c then "A" else "-"}"

def handle (r : Repo) (toks : List String) : Repo × String :=
  match toks with
  | ["new"] => ({}, "ok")
  | ["put", id, ty, key, run] => match id.toNat?, ty.toNat?, key.toNat?, run.toNat? with
      | some id, some ty, some key, some run => r.put id ty key run
      | _, _, _, _ => (r, "bad-op")
  | ["unstore", ids] => match Driver.C02.parseList ids with
      | some ids => (r.unstoreMany ids, "ok")
      | none => (r, "bad-op")
  | ["purge", ids] => match Driver.C02.parseList ids with
      | some ids => r.purge ids
      | none => (r, "bad-op")
  | ["rmrun", c] => match c.toNat? with
      | some c => r.removeRun c
      | none => (r, "bad-op")
  | ["extrm", id] => match id.toNat? with
      | some id => (r.extDelete id, "ok")
      | none => (r, "bad-op")
  | ["flags", id] => match id.toNat? with
      | some id => (r, flags r id)
      | none => (r, "bad-op")
  | "reg" :: rest => let (s, out) := Driver.C02.handle r.reg rest; ({ r with reg := s }, out)
  | _ => (r, "bad-op")

end Driver.C10
