import ButlerModel.Model.DataId
import ButlerModel.Props.C12
import ButlerModel.Model.Front
import ButlerModel.Gen.StandardizePy
/-! # C13 — data IDs mean one thing: standardisation and expansion are consistent -/
namespace C13
open Dim DataId

theorem get_append (a b : Assoc) (k : Nat) : getv (a ++ b) k = (getv a k).or (getv b k) := by
  unfold getv
  rw [List.find?_append]
  cases List.find? (fun x => x.1 == k) a <;> simp

theorem all_congr_mem {α : Type} (l : List α) (p q : α → Bool) (h : ∀ x ∈ l, p x = q x) : l.all p = l.all q := by
  induction l with
  | nil => rfl
  | cons a as ih =>
    simp only [List.all_cons, h a List.mem_cons_self, ih (fun x hx => h x (List.mem_cons_of_mem _ hx))]

theorem get_update (a b : Assoc) (k : Nat) : getv (update a b) k = (getv b k).or (getv a k) := get_append b a k

/-- With explicit dimensions, standardisation looks at its inputs only through key lookup:
entry order, repeated keys and how the pairs are split between the mapping and the keyword
arguments are irrelevant. -/
theorem standardize_lookup_only (U : Universe) (m kw m' kw' : Assoc) (d : List Nat) (df : Assoc)
    (h : ∀ k, getv (update m kw) k = getv (update m' kw') k) :
    standardize U m kw (some d) df = standardize U m' kw' (some d) df := by
  unfold standardize
  simp only []
  have hw : ∀ k, getv (withDefaults (update m kw) df) k = getv (withDefaults (update m' kw') df) k := by
    intro k; unfold withDefaults; rw [get_append, get_append, h k]
  simp only [hw]

/-- Keys outside the requested dimensions never matter. -/
theorem standardize_extra_keys_irrelevant (U : Universe) (m kw : Assoc) (d : List Nat) (df : Assoc)
    (k v : Nat) (hk : ¬ k ∈ closeFast U d) :
    standardize U ((k, v) :: m) kw (some d) df = standardize U m kw (some d) df := by
  unfold standardize
  simp only []
  have hget : ∀ x, x ∈ closeFast U d →
      getv (withDefaults (update ((k, v) :: m) kw) df) x = getv (withDefaults (update m kw) df) x := by
    intro x hx
    have hxk : (k == x) = false := by
      simp; intro hc; subst hc; exact hk hx
    unfold withDefaults update getv
    simp only [List.append_assoc, List.find?_append, List.find?_cons, hxk]
  have hreq : ∀ x, x ∈ required U (closeFast U d) → x ∈ closeFast U d := by
    intro x hx; unfold required at hx; exact (List.mem_filter.mp hx).1
  have himp : ∀ x, x ∈ implied U (closeFast U d) → x ∈ closeFast U d := by
    intro x hx; unfold implied at hx; exact (List.mem_filter.mp hx).1
  have e1 : (closeFast U d).all (fun x => (getv (withDefaults (update ((k, v) :: m) kw) df) x).isSome) =
      (closeFast U d).all (fun x => (getv (withDefaults (update m kw) df) x).isSome) := by
    apply all_congr_mem
    intro x hx
    rw [hget x hx]
  have e2 : (required U (closeFast U d)).all (fun x => (getv (withDefaults (update ((k, v) :: m) kw) df) x).isSome) =
      (required U (closeFast U d)).all (fun x => (getv (withDefaults (update m kw) df) x).isSome) := by
    apply all_congr_mem
    intro x hx; rw [hget x (hreq x hx)]
  have e3 : (required U (closeFast U d) ++ implied U (closeFast U d)).map
        (fun x => (x, (getv (withDefaults (update ((k, v) :: m) kw) df) x).getD 0)) =
      (required U (closeFast U d) ++ implied U (closeFast U d)).map
        (fun x => (x, (getv (withDefaults (update m kw) df) x).getD 0)) := by
    apply List.map_congr_left
    intro x hx
    rcases List.mem_append.mp hx with hx | hx
    · rw [hget x (hreq x hx)]
    · rw [hget x (himp x hx)]
  have e4 : (required U (closeFast U d)).map
        (fun x => (x, (getv (withDefaults (update ((k, v) :: m) kw) df) x).getD 0)) =
      (required U (closeFast U d)).map (fun x => (x, (getv (withDefaults (update m kw) df) x).getD 0)) := by
    apply List.map_congr_left
    intro x hx; rw [hget x (hreq x hx)]
  rw [e1, e2, e3, e4]

/-- Defaults only ever fill keys that are missing. -/
theorem defaults_only_fill (m df : Assoc) (k v : Nat) (h : getv m k = some v) : getv (withDefaults m df) k = some v := by
  unfold withDefaults; rw [get_append, h]; rfl

/-- `==` is an equivalence determined by the dimensions and the required values. -/
theorem eqv_refl (U : Universe) (a : DataId) : eqv U a a = true := by
  unfold eqv; simp

theorem eqv_symm (U : Universe) (a b : DataId) (h : eqv U a b = true) : eqv U b a = true := by
  unfold eqv at *
  simp only [Bool.and_eq_true, beq_iff_eq, List.all_eq_true] at *
  refine ⟨h.1.symm, ?_⟩
  intro d hd
  rw [← h.1] at hd
  exact (h.2 d hd).symm

/-- Extra (implied) values or a different full/required state never affect equality. -/
theorem eqv_ignores_implied (U : Universe) (a b : DataId) (hg : a.group = b.group)
    (hr : ∀ d ∈ required U a.group, getv a.vals d = getv b.vals d) : eqv U a b = true := by
  unfold eqv
  simp only [Bool.and_eq_true, beq_iff_eq, List.all_eq_true]
  exact ⟨hg, hr⟩

/-! ## expansion -/

/-- `setdefault` semantics: a key that has a value keeps it. -/
theorem merge_keeps (rec : Record) : ∀ (imp : List Nat) (ks ks' : Assoc) (k v : Nat),
    mergeImplied rec imp ks = .ok ks' → getv ks k = some v → getv ks' k = some v := by
  intro imp
  induction imp with
  | nil => intro ks ks' k v h hk; simp [mergeImplied] at h; subst h; exact hk
  | cons d ds ih =>
    intro ks ks' k v h hk
    unfold mergeImplied at h
    simp only [] at h
    split at h
    · refine ih _ ks' k v h ?_
      rw [get_append, hk]; rfl
    · split at h
      · exact ih _ ks' k v h hk
      · cases h

/-- After the implied values of a record have been merged successfully, every implied dimension
has exactly the record's value. -/
theorem merge_sound (rec : Record) : ∀ (imp : List Nat) (ks ks' : Assoc),
    mergeImplied rec imp ks = .ok ks' → ∀ d ∈ imp, getv ks' d = some ((getv rec d).getD 0) := by
  intro imp
  induction imp with
  | nil => intro ks ks' _ d hd; cases hd
  | cons x xs ih =>
    intro ks ks' h d hd
    unfold mergeImplied at h
    simp only [] at h
    split at h
    · rename_i hx
      rcases List.mem_cons.mp hd with hdx | hdx
      · subst hdx
        apply merge_keeps rec xs _ ks' d _ h
        rw [get_append, hx]; simp [getv]
      · exact ih _ ks' h d hdx
    · rename_i v' hx
      split at h
      · rename_i heq
        rcases List.mem_cons.mp hd with hdx | hdx
        · subst hdx
          apply merge_keeps rec xs _ ks' d _ h
          rw [hx]; simp at heq; rw [heq]
        · exact ih _ ks' h d hdx
      · cases h

/-- **A contradiction between a key value and a fetched record is always rejected** with
`InconsistentDataIdError` (whatever else the record implies). -/
theorem merge_rejects (rec : Record) : ∀ (imp : List Nat) (ks : Assoc) (d v' : Nat),
    d ∈ imp → getv ks d = some v' → v' ≠ (getv rec d).getD 0 →
    mergeImplied rec imp ks = .error .inconsistent := by
  intro imp
  induction imp with
  | nil => intro ks d v' hd; cases hd
  | cons x xs ih =>
    intro ks d v' hd hk hne
    unfold mergeImplied
    simp only []
    rcases List.mem_cons.mp hd with hdx | hdx
    · subst hdx
      simp only [hk]
      have : (v' == (getv rec d).getD 0) = false := by simp [hne]
      simp [this]
    · split
      · apply ih _ d v' hdx _ hne
        rw [get_append, hk]; rfl
      · split
        · exact ih _ d v' hdx hk hne
        · rfl

/-- One loop step of `expandDataId`, success case: the implied values now in `keys` are the stored
record's, and every earlier key is untouched. -/
theorem expandStep_sound (U : Universe) (store : Store) (dr : Nat → Bool) (g : List Nat) (keys keys' : Assoc)
    (e : Nat) (h : expandStep U store dr g keys e = .ok keys') :
    (∀ k v, getv keys k = some v → getv keys' k = some v) ∧
    (∀ rec, store e ((elemKeys U e).map fun k => (k, (getv keys k).getD 0)) = some rec →
      ∀ d ∈ (elemAt U e).imp, getv keys' d = some ((getv rec d).getD 0)) := by
  unfold expandStep at h
  split at h
  · cases h
  · cases hs : store e ((elemKeys U e).map fun k => (k, (getv keys k).getD 0)) with
    | some rec =>
      simp only [hs] at h
      exact ⟨fun k v hk => merge_keeps rec _ keys keys' k v h hk,
             fun rec' hrec => by cases hrec; exact merge_sound rec _ keys keys' h⟩
    | none =>
      simp only [hs] at h
      split at h
      · cases h
      · split at h
        · cases h
        · simp only [Except.ok.injEq] at h; subst h
          exact ⟨fun _ _ hk => hk, fun rec hrec => by cases hrec⟩

/-- Whole expansion: values that were given (or learnt) are never changed later. -/
theorem expand_keeps (U : Universe) (store : Store) (dr : Nat → Bool) (g : List Nat) :
    ∀ (order : List Nat) (keys keys' : Assoc),
      expandAll U store dr g order keys = .ok keys' →
      ∀ k v, getv keys k = some v → getv keys' k = some v := by
  intro order
  induction order with
  | nil => intro keys keys' h k v hk; simp [expandAll] at h; subst h; exact hk
  | cons e es ih =>
    intro keys keys' h k v hk
    unfold expandAll at h
    split at h
    · rename_i k1 hs
      exact ih k1 keys' h k v ((expandStep_sound U store dr g keys k1 e hs).1 k v hk)
    · cases h

/-- Every record found along the way is reflected exactly in the result. -/
theorem expand_records (U : Universe) (store : Store) (dr : Nat → Bool) (g : List Nat) :
    ∀ (order : List Nat) (keys keys' : Assoc),
      expandAll U store dr g order keys = .ok keys' →
      ∀ e ∈ order, ∃ ks, (∀ k v, getv ks k = some v → getv keys' k = some v) ∧
        ∀ rec, store e ((elemKeys U e).map fun k => (k, (getv ks k).getD 0)) = some rec →
          ∀ d ∈ (elemAt U e).imp, getv keys' d = some ((getv rec d).getD 0) := by
  intro order
  induction order with
  | nil => intro keys keys' _ e he; cases he
  | cons x xs ih =>
    intro keys keys' h e he
    unfold expandAll at h
    split at h
    · rename_i k1 hs
      rcases List.mem_cons.mp he with hex | hex
      · subst hex
        have hstep := expandStep_sound U store dr g keys k1 e hs
        have hkeep := expand_keeps U store dr g xs k1 keys' h
        refine ⟨keys, fun k v hk => hkeep k v (hstep.1 k v hk), ?_⟩
        intro rec hrec d hd
        exact hkeep d _ (hstep.2 rec hrec d hd)
      · exact ih k1 keys' h e hex
    · cases h

/-- **Expansion is sound**: when `expandDataId` succeeds, the required values are the ones given,
and for every element of the lookup order whose record was found, the implied values of the result
equal the stored record's values. -/
theorem expand_sound (U : Universe) (store : Store) (dr : Nat → Bool) (d : DataId) (keys' : Assoc)
    (h : expand U store dr d = .ok keys') :
    (∀ k v, getv d.vals k = some v → getv keys' k = some v) := by
  unfold expand at h
  exact expand_keeps U store dr d.group _ d.vals keys' h

/-- **…and it rejects contradictions**: if, at the step for element `e`, a key already holds a value
different from what `e`'s stored record implies, that step fails with `InconsistentDataIdError`. -/
theorem expandStep_rejects (U : Universe) (store : Store) (dr : Nat → Bool) (g : List Nat) (keys : Assoc)
    (e : Nat) (rec : Record) (d v' : Nat)
    (hdim : ((elemAt U e).isDim && (getv keys e).isNone) = false)
    (hrec : store e ((elemKeys U e).map fun k => (k, (getv keys k).getD 0)) = some rec)
    (hd : d ∈ (elemAt U e).imp) (hk : getv keys d = some v') (hne : v' ≠ (getv rec d).getD 0) :
    expandStep U store dr g keys e = .error .inconsistent := by
  unfold expandStep
  simp only [hdim, Bool.false_eq_true, ↓reduceIte, hrec]
  exact merge_rejects rec _ keys d v' hd hk hne

/-- A missing record for a dimension of the data ID is `DataIdValueError`; a missing record of a
relationship-defining element is `InconsistentDataIdError`. -/
theorem expandStep_missing (U : Universe) (store : Store) (dr : Nat → Bool) (g : List Nat) (keys : Assoc) (e : Nat)
    (hdim : ((elemAt U e).isDim && (getv keys e).isNone) = false)
    (hrec : store e ((elemKeys U e).map fun k => (k, (getv keys k).getD 0)) = none) :
    expandStep U store dr g keys e =
      if g.contains e then .error .dataIdValue else if dr e then .error .inconsistent else .ok keys := by
  unfold expandStep
  simp only [hdim, Bool.false_eq_true, ↓reduceIte, hrec]


/-! ### completeness: a data ID that agrees with the stored records is never called inconsistent -/

/-- `keys` only holds values of the assignment `full`. -/
def Within (full : Nat → Nat) (ks : Assoc) : Prop := ∀ k v, getv ks k = some v → v = full k

theorem get_singleton (d v k : Nat) : getv [(d, v)] k = if d = k then some v else none := by
  unfold getv
  by_cases h : d = k
  · simp [h]
  · have : (d == k) = false := by simp [h]
    simp [List.find?, this, h]

/-- Merging a record that agrees with `full` into keys within `full` succeeds and stays within `full`. -/
theorem merge_accepts (full : Nat → Nat) (rec : Record) : ∀ (imp : List Nat) (ks : Assoc),
    (∀ d ∈ imp, (getv rec d).getD 0 = full d) → Within full ks →
    ∃ ks', mergeImplied rec imp ks = .ok ks' ∧ Within full ks' := by
  intro imp
  induction imp with
  | nil => intro ks _ hw; exact ⟨ks, rfl, hw⟩
  | cons x xs ih =>
    intro ks hrec hw
    unfold mergeImplied
    simp only []
    have hx := hrec x List.mem_cons_self
    have hxs : ∀ d ∈ xs, (getv rec d).getD 0 = full d := fun d hd => hrec d (List.mem_cons_of_mem _ hd)
    cases hk : getv ks x with
    | none =>
      simp only []
      apply ih _ hxs
      intro k v hkv
      rw [get_append, get_singleton] at hkv
      cases hkk : getv ks k with
      | some w => rw [hkk] at hkv; simp at hkv; rw [← hkv]; exact hw k w hkk
      | none =>
        rw [hkk] at hkv
        by_cases hxk : x = k
        · subst hxk; simp at hkv; rw [← hkv, hx]
        · simp [hxk] at hkv
    | some v' =>
      simp only []
      have : v' = (getv rec x).getD 0 := by rw [hx]; exact hw x v' hk
      simp only [this, beq_self_eq_true, ↓reduceIte]
      exact ih ks hxs hw

/-- **Completeness.** If every stored record agrees with one assignment `full` of values to
dimensions and the given keys are within `full`, then `expandDataId` never answers
`InconsistentDataIdError` because of a record it found: the walk over the lookup order either
succeeds with keys within `full`, or stops for a *missing* key or record. -/
theorem expandAll_complete (U : Universe) (store : Store) (dr : Nat → Bool) (g : List Nat) (full : Nat → Nat)
    (hstore : ∀ e kv rec, store e kv = some rec → ∀ d ∈ (elemAt U e).imp, (getv rec d).getD 0 = full d) :
    ∀ (es : List Nat) (ks : Assoc), Within full ks →
      (∃ ks', expandAll U store dr g es ks = .ok ks' ∧ Within full ks') ∨
      (∃ e ∈ es, ∃ ks0, Within full ks0 ∧
        (((elemAt U e).isDim && (getv ks0 e).isNone) = true ∨
          store e ((elemKeys U e).map fun k => (k, (getv ks0 k).getD 0)) = none)) := by
  intro es
  induction es with
  | nil => intro ks hw; exact Or.inl ⟨ks, rfl, hw⟩
  | cons e es ih =>
    intro ks hw
    unfold expandAll
    by_cases hdim : ((elemAt U e).isDim && (getv ks e).isNone) = true
    · exact Or.inr ⟨e, List.mem_cons_self, ks, hw, Or.inl hdim⟩
    · have hdim' : ((elemAt U e).isDim && (getv ks e).isNone) = false := Bool.eq_false_iff.mpr hdim
      cases hrec : store e ((elemKeys U e).map fun k => (k, (getv ks k).getD 0)) with
      | none => exact Or.inr ⟨e, List.mem_cons_self, ks, hw, Or.inr hrec⟩
      | some rec =>
        obtain ⟨ks', hm, hw'⟩ := merge_accepts full rec _ ks (hstore e _ rec hrec) hw
        have hstep : expandStep U store dr g ks e = .ok ks' := by
          unfold expandStep
          simp only [hdim', Bool.false_eq_true, ↓reduceIte, hrec, hm]
        simp only [hstep]
        rcases ih ks' hw' with h | ⟨e', he', ks0, hw0, hc⟩
        · exact Or.inl h
        · exact Or.inr ⟨e', List.mem_cons_of_mem _ he', ks0, hw0, hc⟩

end C13

/-! # Defaulted keys and record-style keys (the Butler front end) -/
namespace C13.Front
open _root_.Front

/-! ## defaults -/

/-- the state a `Defaults` object is always in: its value is what `finish` computes from its own
collections, inference flag and explicit default — nothing is carried over from an earlier object -/
def WF (h : Holds) (d : Defaults) : Prop := d.value = finish h d.colls d.infer d.explicit

theorem mk_wf (h : Holds) (c : List Nat) (i : Bool) (x : Option Nat) : WF h (mk h c i x) := rfl

theorem clone_wf (h : Holds) (d : Defaults) (c : Option (List Nat)) (i : Option Bool) (x : Option (Option Nat)) :
    WF h (clone h d c i x) := rfl

/-- **No stale default survives `clone()`**, however long the chain of clones: the value is determined
by the collections, flag and explicit default the last object ended up with. -/
theorem clones_wf (h : Holds) : ∀ (cs : List CloneArgs) (d : Defaults), WF h d → WF h (clones h d cs)
  | [], _, hd => hd
  | c :: cs, d, _ => by
    simp only [clones, List.foldl_cons]
    exact clones_wf h cs _ (clone_wf h d c.colls c.infer c.dataId)

/-- an explicit default always wins -/
theorem explicit_wins (h : Holds) (c : List Nat) (i : Bool) (v : Nat) : (mk h c i (some v)).value = some v := rfl

/-- an explicit default given to `clone` wins; one given earlier is kept when `clone` is not told otherwise -/
theorem clone_explicit (h : Holds) (d : Defaults) (c : Option (List Nat)) (i : Option Bool) (v : Nat) :
    (clone h d c i (some (some v))).value = some v := rfl
theorem clone_keeps_explicit (h : Holds) (d : Defaults) (c : Option (List Nat)) (i : Option Bool) (v : Nat) (hd : d.explicit = some v) :
    (clone h d c i none).value = some v := by simp [clone, mk, finish, hd]

theorem mem_eraseDups_iff (l : List Nat) (x : Nat) : x ∈ l.eraseDups ↔ x ∈ l := List.mem_eraseDups

/-- **An inferred default is the value all default collections agree on**: every value any of them
lists is that value, and at least one lists it. -/
theorem inferred_sound (h : Holds) (colls : List Nat) (v : Nat) (hi : inferred h colls = some v) :
    (∀ c ∈ colls, ∀ w ∈ h c, w = v) ∧ ∃ c ∈ colls, v ∈ h c := by
  unfold inferred at hi
  split at hi
  · rename_i v' heq
    injection hi with hi
    subst hi
    have hm : ∀ w, w ∈ colls.flatMap h ↔ w = v' := by
      intro w
      rw [← mem_eraseDups_iff, heq]
      simp
    refine ⟨fun c hc w hw => (hm w).mp (List.mem_flatMap.mpr ⟨c, hc, hw⟩), ?_⟩
    obtain ⟨c, hc, hv⟩ := List.mem_flatMap.mp ((hm v').mpr rfl)
    exact ⟨c, hc, hv⟩
  · exact absurd hi (by simp)

/-- no default is inferred when two collections disagree -/
theorem inferred_none_of_disagreement (h : Holds) (colls : List Nat) (c1 c2 : Nat) (v1 v2 : Nat)
    (h1 : c1 ∈ colls) (h2 : c2 ∈ colls) (m1 : v1 ∈ h c1) (m2 : v2 ∈ h c2) (hne : v1 ≠ v2) : inferred h colls = none := by
  cases hi : inferred h colls with
  | none => rfl
  | some v =>
    obtain ⟨hall, _⟩ := inferred_sound h colls v hi
    exact absurd ((hall c1 h1 v1 m1).trans (hall c2 h2 v2 m2).symm) hne

/-- nor when none of them lists a value -/
theorem inferred_none_of_empty (h : Holds) (colls : List Nat) (he : ∀ c ∈ colls, h c = []) : inferred h colls = none := by
  cases hi : inferred h colls with
  | none => rfl
  | some v =>
    obtain ⟨_, c, hc, hv⟩ := inferred_sound h colls v hi
    rw [he c hc] at hv
    simp at hv

/-- a key the caller wrote is never replaced by a default; a missing one is completed by it or rejected -/
theorem complete_given (d : Defaults) (v : Nat) : complete d (some v) = some v := rfl
theorem complete_missing (d : Defaults) : complete d none = d.value := by simp [complete]

example : (clones (fun c => if c = 1 then [7] else if c = 2 then [8] else [])
    (mk (fun c => if c = 1 then [7] else if c = 2 then [8] else []) [1] true none)
    [{ colls := some [2] }, {}, { colls := some [2, 1] }]).value = none := by decide
example : (clones (fun c => if c = 1 then [7] else if c = 2 then [8] else [])
    (mk (fun c => if c = 1 then [7] else if c = 2 then [8] else []) [1] true none) [{ colls := some [2, 3] }]).value = some 8 := by decide

/-! ## record-style keys -/

theorem find_id {recs : List Rec} {k : Nat} {r : Rec} (h : recs.find? (·.id == k) = some r) : r ∈ recs ∧ r.id = k :=
  ⟨List.mem_of_find?_eq_some h, by simpa using List.find?_some h⟩

/-- **Accepted means consistent**: the dimension value that comes out names a stored record that
carries every field value the caller gave; with an explicit value it is that value. -/
theorem rewrite_sound (recs : List Rec) (explicit : Option Nat) (vals : List (Nat × Nat)) (k : Nat) (hv : vals ≠ [])
    (h : rewrite recs explicit vals = some k) :
    (∃ r ∈ recs, r.id = k ∧ carries r vals = true) ∧ (∀ e, explicit = some e → e = k) := by
  unfold rewrite at h
  split at h
  · rename_i e
    split at h
    · rename_i r hf
      split at h
      · rename_i hc
        injection h with h
        subst h
        exact ⟨⟨r, (find_id hf).1, (find_id hf).2, hc⟩, fun e' he => by injection he with he; exact he.symm⟩
      · exact absurd h (by simp)
    · split at h
      · rename_i hemp
        exact absurd (List.isEmpty_iff.mp hemp) hv
      · exact absurd h (by simp)
  · split at h
    · rename_i r hf
      injection h with h
      subst h
      have hm : r ∈ recs.filter (carries · vals) := by rw [hf]; simp
      rw [List.mem_filter] at hm
      exact ⟨⟨r, hm.1, rfl, hm.2⟩, fun e he => by cases he⟩
    · exact absurd h (by simp)

/-- **A self-contradictory data ID is rejected**: an explicit value whose record does not carry a
given field value — whatever is stored there, 0 and NULL included. -/
theorem contradiction_rejected (recs : List Rec) (k : Nat) (vals : List (Nat × Nat)) (r : Rec)
    (hf : recs.find? (·.id == k) = some r) (hc : carries r vals = false) : rewrite recs (some k) vals = none := by
  simp [rewrite, hf, hc]

/-- a stored NULL never equals a given value -/
theorem null_field_contradicts (r : Rec) (f v : Nat) (vals : List (Nat × Nat)) (hn : fieldOf r f = some none) (hm : (f, v) ∈ vals) :
    carries r vals = false := by
  cases hc : carries r vals with
  | false => rfl
  | true =>
    simp only [carries, List.all_eq_true] at hc
    have := hc (f, v) hm
    simp [hn] at this

/-- without the value: rejected unless exactly one record carries the fields -/
theorem ambiguous_rejected (recs : List Rec) (vals : List (Nat × Nat)) (r1 r2 : Rec) (rest : List Rec)
    (h : recs.filter (carries · vals) = r1 :: r2 :: rest) : rewrite recs none vals = none := by
  simp [rewrite, h]
theorem unmatched_rejected (recs : List Rec) (vals : List (Nat × Nat)) (h : recs.filter (carries · vals) = []) :
    rewrite recs none vals = none := by
  simp [rewrite, h]
theorem unique_accepted (recs : List Rec) (vals : List (Nat × Nat)) (r : Rec) (h : recs.filter (carries · vals) = [r]) :
    rewrite recs none vals = some r.id := by
  simp [rewrite, h]

def demoRecs : List Rec := [⟨10, [(1, some 0), (2, none)]⟩, ⟨11, [(1, some 1), (2, some 5)]⟩, ⟨12, [(1, some 1), (2, some 6)]⟩]
example : rewrite demoRecs (some 10) [(1, 0)] = some 10 ∧ rewrite demoRecs (some 10) [(1, 1)] = none ∧ rewrite demoRecs (some 10) [(2, 5)] = none
    ∧ rewrite demoRecs none [(1, 0)] = some 10 ∧ rewrite demoRecs none [(1, 1)] = none ∧ rewrite demoRecs none [(1, 1), (2, 6)] = some 12 := by decide

end C13.Front

/-! ### `DataCoordinate.standardize` (plain mapping) as translated from the source on every run (`Gen/StandardizePy.lean`, `translate/gen_standardize.py`) -/
namespace C13.Translated
open DataId Dim

theorem getv_single (k v x : Nat) : getv [(k, v)] x = if k = x then some v else none := by
  simp [getv, List.find?]
  split <;> simp_all

theorem getv_setdefault (m : Assoc) (k v x : Nat) : getv (setdefault m k v) x = (getv m x).or (getv [(k, v)] x) := by
  unfold setdefault
  by_cases h : (getv m k).isSome = true
  · simp only [h, if_true, getv_single]
    by_cases hkx : k = x
    · subst hkx
      obtain ⟨w, hw⟩ := Option.isSome_iff_exists.mp h
      simp [hw]
    · simp [hkx]
  · simp only [h, Bool.false_eq_true, if_false]
    exact C13.get_append m [(k, v)] x

theorem getv_fold_setdefault (d : Assoc) : ∀ (m : Assoc) (x : Nat),
    getv (d.foldl (fun m (p : Nat × Nat) => setdefault m p.1 p.2) m) x = (getv m x).or (getv d x) := by
  induction d with
  | nil => intro m x; simp [getv]
  | cons e r ih =>
    intro m x
    obtain ⟨k, v⟩ := e
    simp only [List.foldl_cons]
    rw [ih, getv_setdefault]
    have : getv ((k, v) :: r) x = (getv [(k, v)] x).or (getv r x) := C13.get_append [(k, v)] r x
    rw [this, Option.or_assoc]

/-- what the model's error becomes in the translation's `Except String` -/
def viewOf (r : Except Err DataId.DataId) : Except String DataId.DataId :=
  match r with
  | .ok d => .ok d
  | .error _ => .error "DimensionNameError"

/-- the part of the translation after the group is known, for a merged mapping `m0` -/
theorem tail_eq (U : Universe) (g : List Nat) (m0 df : Assoc) (hg : g.isEmpty = false) :
    (let new_mapping := (df).foldl (fun new_mapping (x : Nat × Nat) => setdefault new_mapping x.1 x.2) m0
     (if (g.all (fun d => (getv new_mapping d).isSome)) then
        (Except.ok (⟨g, (required U g ++ implied U g).map (fun d => (d, (getv new_mapping d).getD 0)), true⟩ : DataId.DataId))
      else
        (if (!(required U g).all (fun d => (getv new_mapping d).isSome)) then (Except.error "DimensionNameError") else
          (Except.ok (⟨g, (required U g).map (fun d => (d, (getv new_mapping d).getD 0)), false⟩ : DataId.DataId))) : Except String DataId.DataId)) =
    viewOf (if g.all (fun d => (getv (withDefaults m0 df) d).isSome) then
        .ok ⟨g, (required U g ++ implied U g).map (fun d => (d, (getv (withDefaults m0 df) d).getD 0)), true⟩
      else if (required U g).all (fun d => (getv (withDefaults m0 df) d).isSome) then
        .ok ⟨g, (required U g).map (fun d => (d, (getv (withDefaults m0 df) d).getD 0)), false⟩
      else .error .dimensionName) := by
  have hget : ∀ x, getv ((df).foldl (fun new_mapping (x : Nat × Nat) => setdefault new_mapping x.1 x.2) m0) x = getv (withDefaults m0 df) x := by
    intro x; rw [getv_fold_setdefault]; exact (C13.get_append m0 df x).symm
  simp only [hget]
  by_cases h1 : g.all (fun d => (getv (withDefaults m0 df) d).isSome) = true
  · simp [h1, viewOf]
  · by_cases h2 : (required U g).all (fun d => (getv (withDefaults m0 df) d).isSome) = true
    · simp [h1, h2, viewOf]
    · simp [h1, h2, viewOf]

theorem full_eq (U : Universe) (g : List Nat) (m0 df : Assoc) :
    ((if g.isEmpty = true then (Except.ok (⟨[], [], true⟩ : DataId.DataId)) else
     (let new_mapping := (df).foldl (fun new_mapping (x : Nat × Nat) => setdefault new_mapping x.1 x.2) m0
     (if (g.all (fun d => (getv new_mapping d).isSome)) then
        (Except.ok (⟨g, (required U g ++ implied U g).map (fun d => (d, (getv new_mapping d).getD 0)), true⟩ : DataId.DataId))
      else
        (if (!(required U g).all (fun d => (getv new_mapping d).isSome)) then (Except.error "DimensionNameError") else
          (Except.ok (⟨g, (required U g).map (fun d => (d, (getv new_mapping d).getD 0)), false⟩ : DataId.DataId))))) : Except String DataId.DataId)) =
    viewOf (if g.isEmpty = true then .ok ⟨[], [], true⟩ else
      if g.all (fun d => (getv (withDefaults m0 df) d).isSome) then
        .ok ⟨g, (required U g ++ implied U g).map (fun d => (d, (getv (withDefaults m0 df) d).getD 0)), true⟩
      else if (required U g).all (fun d => (getv (withDefaults m0 df) d).isSome) then
        .ok ⟨g, (required U g).map (fun d => (d, (getv (withDefaults m0 df) d).getD 0)), false⟩
      else .error .dimensionName) := by
  by_cases hg : g.isEmpty = true
  · rw [if_pos hg, if_pos hg]; rfl
  · have hg' : g.isEmpty = false := by simpa using hg
    rw [if_neg hg, if_neg hg]
    exact tail_eq U g m0 df hg'

/-- **`DataCoordinate.standardize` (plain mapping) as translated from the source on every run is the model's `standardize`** — the
function `standardize_lookup_only`, `standardize_extra_keys_irrelevant` and `defaults_only_fill` are about. -/
theorem translated_standardize (U : Universe) (m kw : Assoc) (dims : Option (List Nat)) (df : Assoc) :
    Gen.StandardizePy.standardizePy U m kw dims.isNone (dims.getD []) df = viewOf (standardize U m kw dims df) := by
  have hfold : ∀ (m0 : Assoc), (df).foldl (fun new_mapping (x : Nat × Nat) =>
        match x with
        | (k, v) => setdefault new_mapping k v) m0 =
      (df).foldl (fun new_mapping (x : Nat × Nat) => setdefault new_mapping x.1 x.2) m0 := by
    intro m0; congr 1
  cases dims with
  | none =>
    simp only [Gen.StandardizePy.standardizePy, Option.isNone_none, Bool.not_true, Bool.false_eq_true, if_false, if_true, standardize,
      DataId.update, List.append_nil, hfold]
    exact full_eq U _ (kw ++ m) df
  | some d =>
    simp only [Gen.StandardizePy.standardizePy, Option.isNone_some, Bool.not_false, if_true, Bool.false_eq_true, if_false, standardize,
      DataId.update, List.append_nil, Option.getD_some, hfold]
    exact full_eq U _ (kw ++ m) df

end C13.Translated
