import ButlerModel.Model.Calib
import ButlerModel.Gen.DecertifyPy
import ButlerModel.Props.C11
/-! # C04 — validity ranges never overlap; decertify removes exactly the requested range -/
namespace C04
open Calib Gen Gen.TsPy C11

/-- Every stored timespan is a constructible one. -/
def RowsWF (s : State) : Prop := ∀ r ∈ s, WF r.ts

/-- At every instant at most one dataset is valid per data ID. -/
def NoOverlap (s : State) : Prop := ∀ k t, (validAt s k t).length ≤ 1

theorem validAt_append (a b : State) (k : Nat) (t : Int) :
    validAt (a ++ b) k t = validAt a k t ++ validAt b k t := by
  unfold validAt; simp

theorem filter_length_zero {α : Type} (p : α → Bool) (l : List α) (h : (l.filter p).length = 0) :
    ∀ x ∈ l, p x = false := by
  intro x hx
  cases hp : p x
  · rfl
  · have : x ∈ l.filter p := List.mem_filter.mpr ⟨hx, hp⟩
    have : 0 < (l.filter p).length := List.length_pos_of_mem this
    omega

/-- Keys of a batch are pairwise distinct (no two datasets with one data ID in a single call). -/
def BatchDistinct (batch : List (Nat × Nat)) : Prop := batch.Pairwise (fun a b => a.1 ≠ b.1)

theorem batch_valid_le_one (batch : List (Nat × Nat)) (ts : TS) (k : Nat) (t : Int)
    (hd : BatchDistinct batch) : (validAt (batch.map fun b => ⟨b.1, b.2, ts⟩) k t).length ≤ 1 := by
  induction batch with
  | nil => simp [validAt]
  | cons b bs ih =>
    have hb := List.pairwise_cons.mp hd
    have ih' := ih hb.2
    unfold validAt at *
    simp only [List.map_cons, List.filter_cons]
    split
    · rename_i hk
      simp only [Bool.and_eq_true, beq_iff_eq] at hk
      -- no other element of the batch has this key
      have : (List.filter (fun r => r.key == k && containsT r.ts t)
          (List.map (fun b => ({ key := b.1, ds := b.2, ts := ts } : Row)) bs)) = [] := by
        apply List.filter_eq_nil_iff.mpr
        intro r hr
        simp only [List.mem_map] at hr
        obtain ⟨b', hb', rfl⟩ := hr
        have := hb.1 b' hb'
        simp only [Bool.and_eq_true, beq_iff_eq, not_and]
        intro h1; exact absurd (hk.1.trans h1.symm) this
      simp [this]
    · exact ih'

/-- The check-then-insert core keeps validity ranges disjoint when the batch has distinct data IDs. -/
theorem certifyCore_preserves_noOverlap (s s' : State) (batch : List (Nat × Nat)) (ts : TS)
    (hwf : RowsWF s) (hts : WF ts) (hno : NoOverlap s) (hd : BatchDistinct batch)
    (h : certifyCore s batch ts = .ok s') : NoOverlap s' := by
  unfold certifyCore at h
  simp only [] at h
  split at h
  · cases h
  · rename_i hc
    simp only [Except.ok.injEq] at h; subst h
    intro k t
    rw [validAt_append, List.length_append]
    have hnew := batch_valid_le_one batch ts k t hd
    by_cases hold : (validAt s k t).length = 0
    · omega
    · -- some existing row of key k is valid at t: then no new row can be valid at t
      have hz : (s.filter fun r => TsPy.overlaps r.ts ts && batch.any (fun b => b.1 == r.key)).length = 0 := by omega
      have hall := filter_length_zero _ _ hz
      have : (validAt (batch.map fun b => ({ key := b.1, ds := b.2, ts := ts } : Row)) k t) = [] := by
        unfold validAt
        apply List.filter_eq_nil_iff.mpr
        intro r hr
        simp only [List.mem_map] at hr
        obtain ⟨b, hb, rfl⟩ := hr
        simp only [Bool.and_eq_true, beq_iff_eq, not_and]
        intro hbk hct
        have hpos : 0 < (validAt s k t).length := by omega
        obtain ⟨r0, hr0⟩ := List.exists_mem_of_length_pos hpos
        unfold validAt at hr0
        simp only [List.mem_filter, Bool.and_eq_true, beq_iff_eq] at hr0
        have h0 := hall r0 hr0.1
        have hov : TsPy.overlaps r0.ts ts = true := by
          rw [overlaps_iff _ _ (hwf r0 hr0.1) hts]
          exact ⟨t, (containsT_iff _ _).mp hr0.2.2, (containsT_iff _ _).mp hct⟩
        have hany : batch.any (fun b => b.1 == r0.key) = true := by
          rw [List.any_eq_true]; exact ⟨b, hb, by simp [hbk, hr0.2.1]⟩
        simp [hov, hany] at h0
      rw [this]; have := hno k t; simp; omega

/-- Without the distinct-data-ID guard the core alone is **not** safe (this was the behaviour of
`certify` on SQLite before the `fix:` commit): one call with two datasets of the same data ID is
accepted and leaves two datasets valid at the same instant.  Kept as the regression witness. -/
theorem certifyCore_overlap_witness :
    ∃ s', certifyCore [] [(0, 1), (0, 2)] ⟨10, 20⟩ = .ok s' ∧ ¬ NoOverlap s' := by
  refine ⟨[⟨0, 1, ⟨10, 20⟩⟩, ⟨0, 2, ⟨10, 20⟩⟩], by rfl, ?_⟩
  intro h
  have := h 0 15
  revert this; decide

theorem distinctKeys_pairwise (batch : List (Nat × Nat)) (h : distinctKeys batch = true) : BatchDistinct batch := by
  induction batch with
  | nil => exact List.Pairwise.nil
  | cons b bs ih =>
    unfold distinctKeys at h
    simp only [Bool.and_eq_true, Bool.not_eq_eq_eq_not, Bool.not_true, List.any_eq_false, beq_iff_eq] at h
    refine List.pairwise_cons.mpr ⟨?_, ih h.2⟩
    intro b' hb' heq
    exact h.1 b' hb' heq.symm

/-- **certify keeps validity ranges disjoint — full statement, any batch** (with the guard the
`fix:` commit added): whenever certify accepts, at every instant at most one dataset is valid. -/
theorem certify_preserves_noOverlap (s s' : State) (batch : List (Nat × Nat)) (ts : TS)
    (hwf : RowsWF s) (hts : WF ts) (hno : NoOverlap s)
    (h : certify s batch ts = .ok s') : NoOverlap s' := by
  unfold certify at h
  split at h
  · simp only [Except.ok.injEq] at h; subst h; exact hno
  · split at h
    · cases h
    · rename_i hg
      simp only [Bool.and_eq_true, Bool.not_eq_eq_eq_not, Bool.not_true, not_and, Bool.not_eq_false] at hg
      by_cases hd : distinctKeys batch = true
      · exact certifyCore_preserves_noOverlap s s' batch ts hwf hts hno (distinctKeys_pairwise _ hd) h
      · -- repeated data IDs are only let through for the empty timespan, which is valid nowhere
        have hd' : distinctKeys batch = false := by simpa using hd
        have hem : TsPy.isEmpty ts = true := hg hd'
        unfold certifyCore at h
        simp only [] at h
        split at h
        · cases h
        · simp only [Except.ok.injEq] at h; subst h
          intro k t
          rw [validAt_append, List.length_append]
          have : validAt (batch.map fun b => ({ key := b.1, ds := b.2, ts := ts } : Row)) k t = [] := by
            unfold validAt
            apply List.filter_eq_nil_iff.mpr
            intro r hr
            simp only [List.mem_map] at hr
            obtain ⟨b, _, rfl⟩ := hr
            simp only [Bool.and_eq_true, not_and]
            intro _ hct
            have hm := (containsT_iff _ _).mp hct
            exact (isEmpty_iff ts hts).mp hem t hm
          rw [this]; have := hno k t; simp; omega

/-- certify is refused exactly when a validity range would overlap: an existing row of one of the
batch's data IDs overlaps the timespan, or (non-empty timespan) two datasets of the batch share a
data ID.  A refusal changes nothing (the state is returned only on success). -/
theorem certify_refused_iff (s : State) (batch : List (Nat × Nat)) (ts : TS) (hne : batch ≠ []) :
    (∃ e, certify s batch ts = .error e) ↔
      ((distinctKeys batch = false ∧ TsPy.isEmpty ts = false) ∨
        ∃ r ∈ s, TsPy.overlaps r.ts ts = true ∧ ∃ b ∈ batch, b.1 = r.key) := by
  unfold certify certifyCore
  have : batch.isEmpty = false := by cases batch <;> simp_all
  simp only [this, Bool.false_eq_true, ↓reduceIte]
  constructor
  · intro ⟨e, he⟩
    split at he
    · rename_i hg
      left; simpa using hg
    · right
      split at he
      · rename_i hc
        obtain ⟨r, hr⟩ := List.exists_mem_of_length_pos hc
        simp only [List.mem_filter, Bool.and_eq_true, List.any_eq_true, beq_iff_eq] at hr
        exact ⟨r, hr.1, hr.2.1, hr.2.2⟩
      · cases he
  · intro h
    split
    · exact ⟨_, rfl⟩
    · rename_i hg
      rcases h with h | ⟨r, hr, hov, b, hb, hbk⟩
      · exfalso; apply hg; simp [h.1, h.2]
      · have hm : r ∈ s.filter fun r => TsPy.overlaps r.ts ts && batch.any (fun b => b.1 == r.key) := by
          simp only [List.mem_filter, Bool.and_eq_true, List.any_eq_true, beq_iff_eq]
          exact ⟨hr, hov, b, hb, hbk⟩
        have := List.length_pos_of_mem hm
        simp [this]

/-! ## decertify -/

def cnt (s : State) (k : Nat) (t : Int) : Nat := (validAt s k t).length

theorem cnt_append (a b : State) (k : Nat) (t : Int) : cnt (a ++ b) k t = cnt a k t + cnt b k t := by
  unfold cnt; rw [validAt_append, List.length_append]

/-- Number of pieces of `difference a b` that contain `t`: one iff `t ∈ a \ b`. -/
theorem pieces_count (r : Row) (ts : TS) (k : Nat) (t : Int) (hr : WF r.ts) (hts : WF ts) :
    cnt ((TsPy.difference r.ts ts).map fun d => ({ key := r.key, ds := r.ds, ts := d } : Row)) k t =
      if r.key = k ∧ Mem t r.ts ∧ ¬ Mem t ts then 1 else 0 := by
  have hc := consts
  rw [difference_closed _ _ hr hts]
  obtain ⟨rk, rd, ⟨ab, ae⟩⟩ := r
  obtain ⟨bb, be⟩ := ts
  unfold WF at hr hts
  simp only [cnt, validAt, Mem, containsT] at *
  by_cases hk : rk = k
  · subst hk
    by_cases h0 : max ab bb ≥ min ae be
    · simp only [h0, ↓reduceIte, List.map_cons, List.map_nil, List.filter_cons, List.filter_nil]
      split <;> split <;> simp_all <;> omega
    · by_cases h1 : ab < bb <;> by_cases h2 : be < ae <;>
        simp only [h0, h1, h2, ↓reduceIte, List.map_cons, List.map_nil, List.filter_cons, List.filter_nil,
          List.nil_append, List.cons_append, List.map_append] <;>
        (repeat' split) <;> simp_all <;> omega
  · have : (rk == k) = false := by simp [hk]
    simp [this, hk, List.filter_map]

theorem cnt_decertify_cons (r : Row) (s : State) (ts : TS) (sel : Option (List Nat)) (k : Nat) (t : Int) :
    cnt (decertify (r :: s) ts sel) k t =
      cnt (decertify s ts sel) k t +
        (if hit ts sel r then
            cnt ((TsPy.difference r.ts ts).map fun d => ({ key := r.key, ds := r.ds, ts := d } : Row)) k t
          else cnt [r] k t) := by
  unfold decertify
  by_cases h : hit ts sel r = true
  · simp only [List.filter_cons, h, Bool.not_true, Bool.false_eq_true, ↓reduceIte, List.flatMap_cons, cnt_append]
    omega
  · have h' : hit ts sel r = false := by simpa using h
    simp only [List.filter_cons, h', Bool.not_false, ↓reduceIte, Bool.false_eq_true, cnt_append]
    have : cnt (r :: List.filter (fun r => !hit ts sel r) s) k t =
        cnt [r] k t + cnt (List.filter (fun r => !hit ts sel r) s) k t := by
      rw [← cnt_append]; rfl
    omega

/-- **decertify is exact at every instant**: inside the decertified timespan (for the selected data
IDs) nothing is valid any more; everywhere else exactly the rows that were valid before. -/
theorem decertify_exact (s : State) (ts : TS) (sel : Option (List Nat)) (k : Nat) (t : Int)
    (hwf : RowsWF s) (hts : WF ts) :
    cnt (decertify s ts sel) k t = if Mem t ts ∧ selected sel k = true then 0 else cnt s k t := by
  induction s with
  | nil => simp [decertify, cnt, validAt]
  | cons r s ih =>
    have hwf' : RowsWF s := fun x hx => hwf x (List.mem_cons_of_mem _ hx)
    have hr : WF r.ts := hwf r List.mem_cons_self
    rw [cnt_decertify_cons, ih hwf']
    have hsplit : cnt (r :: s) k t = cnt [r] k t + cnt s k t := by
      have : r :: s = [r] ++ s := rfl
      rw [this, cnt_append]
    rw [hsplit]
    have hone : cnt [r] k t = if r.key = k ∧ Mem t r.ts then 1 else 0 := by
      unfold cnt validAt
      simp only [List.filter_cons, List.filter_nil]
      by_cases hk : r.key = k <;> by_cases hm : Mem t r.ts <;>
        simp [hk, hm, containsT_iff]
    by_cases hh : hit ts sel r = true
    · simp only [hh, ↓reduceIte]
      rw [pieces_count r ts k t hr hts, hone]
      unfold hit at hh
      simp only [Bool.and_eq_true] at hh
      by_cases hk : r.key = k
      · subst hk
        by_cases hmt : Mem t ts <;> by_cases hmr : Mem t r.ts <;> simp [hmt, hmr, hh.2] <;> omega
      · simp [hk]
    · have hh' : hit ts sel r = false := by simpa using hh
      simp only [hh', Bool.false_eq_true, ↓reduceIte]
      rw [hone]
      unfold hit at hh'
      by_cases hk : r.key = k
      · subst hk
        by_cases hsel : selected sel r.key = true
        · -- selected but not overlapping: then t ∈ ts excludes t ∈ r.ts
          have hov : TsPy.overlaps r.ts ts = false := by simpa [hsel] using hh'
          by_cases hmt : Mem t ts <;> by_cases hmr : Mem t r.ts
          · exfalso
            have : TsPy.overlaps r.ts ts = true := (overlaps_iff _ _ hr hts).mpr ⟨t, hmr, hmt⟩
            simp [hov] at this
          · simp [hmt, hmr, hsel]
          · simp [hmt, hmr, hsel]; omega
          · simp [hmt, hmr, hsel]
        · have : selected sel r.key = false := by simpa using hsel
          simp [this]; omega
      · simp [hk]

/-- Hence decertify keeps the ranges disjoint. -/
theorem decertify_preserves_noOverlap (s : State) (ts : TS) (sel : Option (List Nat))
    (hwf : RowsWF s) (hts : WF ts) (hno : NoOverlap s) : NoOverlap (decertify s ts sel) := by
  intro k t
  have := decertify_exact s ts sel k t hwf hts
  unfold cnt at this
  rw [this]
  split
  · omega
  · exact hno k t

/-- Stored timespans stay constructible (needed to iterate the theorems along a history). -/
theorem decertify_rowsWF (s : State) (ts : TS) (sel : Option (List Nat)) (hwf : RowsWF s) (hts : WF ts) :
    RowsWF (decertify s ts sel) := by
  intro r hr
  unfold decertify at hr
  simp only [List.mem_append, List.mem_filter, List.mem_flatMap, List.mem_map] at hr
  rcases hr with hr | ⟨r0, hr0, d, hd, rfl⟩
  · exact hwf r hr.1
  · exact difference_pieces_wf _ _ (hwf r0 hr0.1) hts d hd

theorem certify_rowsWF (s s' : State) (batch : List (Nat × Nat)) (ts : TS) (hwf : RowsWF s) (hts : WF ts)
    (h : certify s batch ts = .ok s') : RowsWF s' := by
  unfold certify at h
  split at h
  · simp only [Except.ok.injEq] at h; subst h; exact hwf
  · split at h
    · cases h
    · unfold certifyCore at h
      simp only [] at h
      split at h
      · cases h
      · simp only [Except.ok.injEq] at h; subst h
        intro r hr
        simp only [List.mem_append, List.mem_map] at hr
        rcases hr with hr | ⟨b, _, rfl⟩
        · exact hwf r hr
        · exact hts

theorem removeDataset_preserves (s : State) (d : Nat) (hno : NoOverlap s) : NoOverlap (removeDataset s d) := by
  intro k t
  have := hno k t
  unfold validAt removeDataset at *
  have hcomm : List.filter (fun r => r.key == k && containsT r.ts t) (List.filter (fun r => r.ds != d) s) =
      List.filter (fun r => r.ds != d) (List.filter (fun r => r.key == k && containsT r.ts t) s) := by
    simp [List.filter_filter, Bool.and_comm]
  rw [hcomm]
  have := List.length_filter_le (fun r : Row => r.ds != d) (List.filter (fun r => r.key == k && containsT r.ts t) s)
  omega

/-- A timespan lookup returns the unique overlapping dataset, or reports ambiguity iff two or more
rows overlap — never an arbitrary one. -/
theorem lookup_unique_or_ambiguous (s : State) (k : Nat) (q : TS) :
    let m := s.filter (fun r => r.key == k && TsPy.overlaps r.ts q)
    (lookup s k q = .none ↔ m.length = 0) ∧
    (lookup s k q = .ambiguous ↔ m.length ≥ 2) ∧
    (∀ d, lookup s k q = .one d ↔ ∃ r, m = [r] ∧ r.ds = d) := by
  simp only [lookup]
  generalize s.filter (fun r => r.key == k && TsPy.overlaps r.ts q) = m
  match m with
  | [] => simp
  | [r] => simp
  | _ :: _ :: _ => simp

/-! non-vacuity -/
example : decertify [⟨0, 1, ⟨0, 100⟩⟩] ⟨40, 60⟩ none = [⟨0, 1, ⟨0, 40⟩⟩, ⟨0, 1, ⟨60, 100⟩⟩] := by decide
example : certify [⟨0, 1, ⟨0, 100⟩⟩] [(0, 2)] ⟨99, 200⟩ = .error "ConflictingDefinitionError" := by rfl

end C04

/-! ## T-tie: the Python half of `decertify` **as translated from `byDimensions/_manager.py` on every run**
(`translate/gen_decertify.py`: `decertify` from `rows_to_delete = []` on — the loop over the rows of the overlap query, the pieces
`Timespan.difference` leaves, the DELETE and the INSERT).  The overlap query itself stays tied by the correspondence. -/
namespace C04.Translated
open Calib Gen

abbrev IdRow := Nat × Row

def pieces (ts : TS) (r : IdRow) : List IdRow :=
  (TsPy.difference r.2.ts ts).map fun d => ((0 : Nat), (⟨r.2.key, r.2.ds, d⟩ : Row))

theorem inner_fold (k ds : Nat) : ∀ (l : List TS) (acc : List IdRow),
    l.foldl (fun acc d => acc ++ [((0 : Nat), (⟨k, ds, d⟩ : Row))]) acc = acc ++ l.map fun d => ((0 : Nat), (⟨k, ds, d⟩ : Row)) := by
  intro l
  induction l with
  | nil => intro acc; simp
  | cons d ds' ih => intro acc; simp only [List.foldl_cons, ih, List.map_cons, List.append_assoc, List.singleton_append]

theorem outer_fold (ts : TS) : ∀ (rows : List IdRow) (del : List Nat) (ins : List IdRow),
    rows.foldl (fun (acc : List Nat × List IdRow) row =>
        (acc.1 ++ [row.1], (TsPy.difference row.2.ts ts).foldl (fun a d => a ++ [((0 : Nat), (⟨row.2.key, row.2.ds, d⟩ : Row))]) acc.2)) (del, ins) =
      (del ++ rows.map (·.1), ins ++ rows.flatMap (pieces ts)) := by
  intro rows
  induction rows with
  | nil => intro del ins; simp
  | cons r rs ih =>
    intro del ins
    rw [List.foldl_cons, ih]
    simp only [inner_fold, List.map_cons, List.flatMap_cons, pieces, List.append_assoc, List.singleton_append]

theorem gen_shape (ts : TS) (rows s : List IdRow) :
    Gen.DecertifyPy.decertifyPy ts rows s =
      s.filter (fun r => !(rows.map (·.1)).contains r.1) ++ rows.flatMap (pieces ts) := by
  have h := outer_fold ts rows [] []
  simp only [List.nil_append] at h
  unfold Gen.DecertifyPy.decertifyPy
  simp only []
  have h2 : (rows.foldl (fun (x : List Nat × List IdRow) row =>
        match x with
        | (rows_to_delete, rows_to_insert) =>
          (rows_to_delete ++ [row.1],
            (TsPy.difference row.2.ts ts).foldl (fun rows_to_insert diff_timespan => rows_to_insert ++ [((0 : Nat), (⟨row.2.key, row.2.ds, diff_timespan⟩ : Row))]) rows_to_insert))
        ([], [])) = (rows.map (·.1), rows.flatMap (pieces ts)) := h
  rw [h2]

theorem mem_ids_iff (s : List IdRow) (hn : (s.map (·.1)).Nodup) (P : IdRow → Bool) (r : IdRow) (hr : r ∈ s) :
    r.1 ∈ (s.filter P).map (·.1) ↔ P r = true := by
  constructor
  · intro h
    obtain ⟨r', hr', heq⟩ := List.mem_map.mp h
    have hr's : r' ∈ s := (List.mem_filter.mp hr').1
    -- two rows of `s` with the same id are the same row
    have : r' = r := by
      clear h
      induction s with
      | nil => cases hr
      | cons x xs ih =>
        simp only [List.map_cons, List.nodup_cons, List.mem_map, not_exists, not_and] at hn
        rcases List.mem_cons.mp hr with h1 | h1 <;> rcases List.mem_cons.mp hr's with h2 | h2
        · rw [h1, h2]
        · exact absurd (by rw [h1] at heq; exact heq) (hn.1 r' h2)
        · exact absurd (by rw [h2] at heq; exact heq.symm) (hn.1 r h1)
        · exact ih hn.2 h1 (List.mem_filter.mpr ⟨h2, (List.mem_filter.mp hr').2⟩) h2
    rw [← this]; exact (List.mem_filter.mp hr').2
  · intro h
    exact List.mem_map.mpr ⟨r, List.mem_filter.mpr ⟨hr, h⟩, rfl⟩

/-- **The Python half of `decertify` as translated from the source on every run** — collect the primary keys of the rows the
overlap query returned, per row what `Timespan.difference` leaves of its validity range, DELETE, INSERT — does to the calibs
table what `Calib.decertify` (the model the interval-map theorems are about) does: for every table with distinct primary keys,
every timespan and every data-ID selection. -/
theorem translated_decertify (s : List IdRow) (hn : (s.map (·.1)).Nodup) (ts : TS) (sel : Option (List Nat)) :
    (Gen.DecertifyPy.decertifyPy ts (s.filter fun r => hit ts sel r.2) s).map (·.2) = decertify (s.map (·.2)) ts sel := by
  rw [gen_shape]
  unfold decertify
  simp only [List.map_append, List.map_flatMap]
  congr 1
  · -- the rows that stay
    rw [List.filter_map]
    congr 1
    apply List.filter_congr
    intro r hr
    have := mem_ids_iff s hn (fun r => hit ts sel r.2) r hr
    simp only [Function.comp]
    by_cases hh : hit ts sel r.2 = true
    · have hm : r.1 ∈ (s.filter fun r => hit ts sel r.2).map (·.1) := this.mpr hh
      simp [hm, hh]
    · have hm : ¬ r.1 ∈ (s.filter fun r => hit ts sel r.2).map (·.1) := fun h => hh (this.mp h)
      simp [hm, hh]
  · -- the pieces that are inserted
    rw [List.filter_map, List.flatMap_map]
    congr 1
    · funext r
      simp [pieces, Function.comp]

/-- non-vacuity: [0,10) of dataset 7 with [3,5) decertified -/
example : (Gen.DecertifyPy.decertifyPy ⟨3, 5⟩ [(1, ⟨1, 7, ⟨0, 10⟩⟩)] [(1, ⟨1, 7, ⟨0, 10⟩⟩), (2, ⟨2, 8, ⟨0, 10⟩⟩)]).map (·.2) =
    [⟨2, 8, ⟨0, 10⟩⟩, ⟨1, 7, ⟨0, 3⟩⟩, ⟨1, 7, ⟨5, 10⟩⟩] := by decide

/-! ### the Python half of `certify` -/

section Certify
open Py
def addKeys (acc : List Nat) (batch : List (Nat × Nat)) : List Nat := batch.foldl (fun a b => setAdd a b.1) acc

theorem setAdd_len (l : List Nat) (x : Nat) : (setAdd l x).length = if l.contains x then l.length else l.length + 1 := by
  unfold setAdd; split <;> simp

theorem setAdd_mem (l : List Nat) (x y : Nat) : y ∈ setAdd l x ↔ y ∈ l ∨ y = x := by
  unfold setAdd
  split
  · rename_i h
    have : x ∈ l := by simpa using h
    constructor
    · intro hy; exact Or.inl hy
    · rintro (hy | hy)
      · exact hy
      · subst hy; exact this
  · simp

theorem addKeys_le : ∀ (batch : List (Nat × Nat)) (acc : List Nat), (addKeys acc batch).length ≤ acc.length + batch.length := by
  intro batch
  induction batch with
  | nil => intro acc; simp [addKeys]
  | cons b bs ih =>
    intro acc
    have h := ih (setAdd acc b.1)
    have hl := setAdd_len acc b.1
    simp only [addKeys, List.foldl_cons, List.length_cons] at h ⊢
    split at hl <;> omega

theorem addKeys_mem : ∀ (batch : List (Nat × Nat)) (acc : List Nat) (y : Nat), y ∈ acc → y ∈ addKeys acc batch := by
  intro batch
  induction batch with
  | nil => intro acc y h; simpa [addKeys] using h
  | cons b bs ih =>
    intro acc y h
    simp only [addKeys, List.foldl_cons]
    exact ih _ y ((setAdd_mem acc b.1 y).mpr (Or.inl h))

/-- the number of distinct data IDs equals the number of rows exactly when no data ID is repeated (and none was there before) -/
theorem addKeys_len_iff : ∀ (batch : List (Nat × Nat)) (acc : List Nat),
    (addKeys acc batch).length = acc.length + batch.length ↔ (distinctKeys batch = true ∧ ∀ b ∈ batch, b.1 ∉ acc) := by
  intro batch
  induction batch with
  | nil => intro acc; simp [addKeys, distinctKeys]
  | cons b bs ih =>
    intro acc
    have hle := addKeys_le bs (setAdd acc b.1)
    have hl := setAdd_len acc b.1
    have hih := ih (setAdd acc b.1)
    simp only [addKeys, List.foldl_cons, List.length_cons] at hle hih ⊢
    by_cases hb : acc.contains b.1 = true
    · -- the key was there already: one short for ever
      simp only [hb, if_true] at hl
      constructor
      · intro h; exfalso; omega
      · rintro ⟨_, h2⟩
        exact absurd (by simpa using hb) (h2 b (List.mem_cons_self))
    · simp only [hb, Bool.false_eq_true, if_false] at hl
      have hb' : b.1 ∉ acc := by simpa using hb
      constructor
      · intro h
        have h' : (List.foldl (fun a b => setAdd a b.1) (setAdd acc b.1) bs).length = (setAdd acc b.1).length + bs.length := by omega
        obtain ⟨hd, hn⟩ := hih.mp h'
        refine ⟨?_, ?_⟩
        · simp only [distinctKeys, Bool.and_eq_true, Bool.not_eq_true', hd, and_true]
          rw [List.any_eq_false]
          intro b' hb'mem
          have := hn b' hb'mem
          rw [setAdd_mem] at this
          simp only [not_or] at this
          simpa using this.2
        · intro b' hb'mem
          rcases List.mem_cons.mp hb'mem with h1 | h1
          · rw [h1]; exact hb'
          · have := hn b' h1
            rw [setAdd_mem] at this
            exact fun hc => this (Or.inl hc)
      · rintro ⟨hd, hn⟩
        simp only [distinctKeys, Bool.and_eq_true, Bool.not_eq_true'] at hd
        have hany := List.any_eq_false.mp hd.1
        have : (List.foldl (fun a b => setAdd a b.1) (setAdd acc b.1) bs).length = (setAdd acc b.1).length + bs.length := by
          apply hih.mpr
          refine ⟨hd.2, ?_⟩
          intro b' hb'mem
          rw [setAdd_mem]
          rintro (hc | hc)
          · exact hn b' (List.mem_cons_of_mem _ hb'mem) hc
          · have := hany b' hb'mem
            simp at this
            exact this hc
        omega

theorem certify_fold (ts : TS) : ∀ (batch : List (Nat × Nat)) (rows : List Row) (ids : List Nat),
    batch.foldl (fun (acc : List Row × List Nat) dataset =>
        (acc.1 ++ [(⟨dataset.1, dataset.2, ts⟩ : Row)], setAdd acc.2 dataset.1)) (rows, ids) =
      (rows ++ batch.map (fun b => (⟨b.1, b.2, ts⟩ : Row)), addKeys ids batch) := by
  intro batch
  induction batch with
  | nil => intro rows ids; simp [addKeys]
  | cons b bs ih =>
    intro rows ids
    rw [List.foldl_cons, ih]
    simp [addKeys]

/-- the SELECT COUNT of `certify`: rows of the table that overlap the timespan and carry one of the call's data IDs -/
def conflictCount (ts : TS) (tbl : List IdRow) (rows : List Row) : Nat :=
  (tbl.filter fun r => TsPy.overlaps r.2.ts ts && rows.any (fun x => x.key == r.2.key)).length

/-- **The Python half of `certify` (SQLite branch) as translated from the source on every run** — build the rows, count the
distinct data IDs, refuse a call that repeats one, refuse when the overlap query finds a row, INSERT — is `Calib.certify`, the
model the no-overlap theorems are about: for every table, batch and timespan. -/
theorem translated_certify (s : List IdRow) (batch : List (Nat × Nat)) (ts : TS) :
    (Gen.DecertifyPy.certifyPy ts batch (conflictCount ts) s).map (fun t => t.map (·.2)) = certify (s.map (·.2)) batch ts := by
  have hgen : Gen.DecertifyPy.certifyPy ts batch (conflictCount ts) s =
      (let r := batch.foldl (fun (acc : List Row × List Nat) dataset =>
          (acc.1 ++ [(⟨dataset.1, dataset.2, ts⟩ : Row)], setAdd acc.2 dataset.1)) ([], [])
       if r.1.isEmpty then Except.ok s
       else if (decide (r.2.length ≠ r.1.length) && !(TsPy.isEmpty ts)) then Except.error "ConflictingDefinitionError"
       else if decide (((conflictCount ts s r.1 : Nat) : Int) > 0) then Except.error "ConflictingDefinitionError"
       else Except.ok (s ++ r.1.map fun x => ((0 : Nat), x))) := rfl
  rw [hgen, certify_fold]
  simp only [List.nil_append]
  unfold certify
  cases batch with
  | nil => simp [Except.map]
  | cons b bs =>
    have hne : ((b :: bs).map (fun b => (⟨b.1, b.2, ts⟩ : Row))).isEmpty = false := by simp
    simp only [hne, Bool.false_eq_true, if_false, List.isEmpty_cons]
    have hlen := addKeys_len_iff (b :: bs) []
    simp only [List.length_nil, Nat.zero_add, List.not_mem_nil, not_false_eq_true, implies_true, and_true] at hlen
    have hdec : decide ((addKeys [] (b :: bs)).length ≠ ((b :: bs).map (fun b => (⟨b.1, b.2, ts⟩ : Row))).length) = !distinctKeys (b :: bs) := by
      rw [List.length_map]
      by_cases hd : distinctKeys (b :: bs) = true
      · simp [hd, hlen.mpr hd]
      · have : ¬ (addKeys [] (b :: bs)).length = (b :: bs).length := fun h => hd (hlen.mp h)
        have this' : ¬ (addKeys [] (b :: bs)).length = bs.length + 1 := by simpa using this
        simp [hd, this']
    rw [hdec]
    by_cases h1 : (!distinctKeys (b :: bs) && !TsPy.isEmpty ts) = true
    · simp [h1, Except.map]
    · simp only [h1, Bool.false_eq_true, if_false]
      unfold certifyCore conflictCount
      have hcount : (s.filter fun r => TsPy.overlaps r.2.ts ts && ((b :: bs).map (fun b => (⟨b.1, b.2, ts⟩ : Row))).any (fun x => x.key == r.2.key)).length =
          ((s.map (·.2)).filter fun r => TsPy.overlaps r.ts ts && (b :: bs).any (fun b => b.1 == r.key)).length := by
        rw [List.filter_map, List.length_map]
        congr 1
        apply List.filter_congr
        intro r _
        simp only [Function.comp, List.any_map]
        have hany : ∀ l : List (Nat × Nat), l.any ((fun x : Row => x.key == r.2.key) ∘ fun b => (⟨b.1, b.2, ts⟩ : Row)) = l.any (fun b => b.1 == r.2.key) := by
          intro l
          induction l with
          | nil => rfl
          | cons x xs ihx => simp only [List.any_cons, ihx, Function.comp]
        rw [hany]
      simp only [hcount]
      generalize ((s.map (·.2)).filter fun r => TsPy.overlaps r.ts ts && (b :: bs).any (fun b => b.1 == r.key)).length = N
      by_cases h2 : N > 0
      · have : ((N : Nat) : Int) > 0 := by omega
        simp [h2, this, Except.map]
      · have : ¬ ((N : Nat) : Int) > 0 := by omega
        simp [h2, this, Except.map, Function.comp]

/-- non-vacuity: two datasets with one data ID in one call are refused, whatever the table holds -/
example : (Gen.DecertifyPy.certifyPy ⟨0, 10⟩ [(1, 7), (1, 8)] (conflictCount ⟨0, 10⟩) []).toOption = none := by decide

end Certify

end C04.Translated

