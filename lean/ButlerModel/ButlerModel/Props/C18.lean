import ButlerModel.Model.ConfigKeys
import ButlerModel.Gen.ConfigPy
/-! # C18 — configuration keys: every reported name retrieves its value (algebraic core) -/
namespace C18
open ConfigKeys

theorem splitOn_ne_nil (d : Char) (s : Str) : splitOn d s ≠ [] := by
  induction s with
  | nil => simp [splitOn]
  | cons c cs ih =>
    unfold splitOn
    split
    · simp
    · split
      · simp
      · simp

/-- Splitting a delimiter-free string gives that string. -/
theorem splitOn_free (d : Char) (s : Str) (h : ¬ d ∈ s) : splitOn d s = [s] := by
  induction s with
  | nil => rfl
  | cons c cs ih =>
    have hc : (c == d) = false := by
      simp only [List.mem_cons, not_or] at h
      simp; intro hcd; exact h.1 hcd.symm
    have hcs : ¬ d ∈ cs := fun hh => h (List.mem_cons_of_mem _ hh)
    unfold splitOn
    simp [hc, ih hcs]

theorem splitOn_append_free (d : Char) (a : Str) (rest : Str) (h : ¬ d ∈ a) :
    splitOn d (a ++ d :: rest) = a :: splitOn d rest := by
  induction a with
  | nil => simp [splitOn]
  | cons c cs ih =>
    have hc : (c == d) = false := by
      simp only [List.mem_cons, not_or] at h
      simp; intro hcd; exact h.1 hcd.symm
    have hcs : ¬ d ∈ cs := fun hh => h (List.mem_cons_of_mem _ hh)
    have e : splitOn d (c :: (cs ++ d :: rest)) =
        (match splitOn d (cs ++ d :: rest) with | [] => [[c]] | hd :: tl => (c :: hd) :: tl) := by
      conv => lhs; unfold splitOn
      simp only [hc, Bool.false_eq_true, ↓reduceIte]
      rfl
    rw [List.cons_append, e, ih hcs]

/-- `split(d.join(parts)) = parts` for delimiter-free parts. -/
theorem splitOn_joinWith (d : Char) (ks : List Str) (hne : ks ≠ []) (h : ∀ k ∈ ks, ¬ d ∈ k) :
    splitOn d (joinWith d ks) = ks := by
  induction ks with
  | nil => exact absurd rfl hne
  | cons x xs ih =>
    cases xs with
    | nil => simp only [joinWith]; exact splitOn_free d x (h x (by simp))
    | cons y r =>
      simp only [joinWith]
      rw [splitOn_append_free d x _ (h x (by simp))]
      rw [ih (by simp) (fun k hk => h k (List.mem_cons_of_mem _ hk))]

theorem escape_free (d : Char) (s : Str) (h : ¬ d ∈ s) : escape d s = s := by
  induction s with
  | nil => rfl
  | cons c cs ih =>
    have hc : (c == d) = false := by
      simp only [List.mem_cons, not_or] at h
      simp; intro hcd; exact h.1 hcd.symm
    have hcs : ¬ d ∈ cs := fun hh => h (List.mem_cons_of_mem _ hh)
    simp [escape, hc, ih hcs]

/-- No key component ends in a backslash. -/
def NoTrailingBackslash (ks : List Str) : Prop := ∀ k ∈ ks, k.getLast? ≠ some '\\'

theorem hasEscaped_head (d : Char) (rest : Str) (hd : d ≠ '\\') : hasEscaped d (d :: rest) = hasEscaped d rest := by
  cases rest with
  | nil => rfl
  | cons r rs =>
    have : (d == '\\') = false := by simp [hd]
    simp [hasEscaped, this]

theorem hasEscaped_append (d : Char) (a rest : Str) (ha : ¬ d ∈ a) (hl : a.getLast? ≠ some '\\') :
    hasEscaped d (a ++ d :: rest) = hasEscaped d (d :: rest) := by
  induction a with
  | nil => rfl
  | cons c cs ih =>
    have hcs : ¬ d ∈ cs := fun hh => ha (List.mem_cons_of_mem _ hh)
    cases cs with
    | nil =>
      have hcb : (c == '\\') = false := by
        have : c ≠ '\\' := by simpa using hl
        simp [this]
      simp [hasEscaped, hcb]
    | cons c2 r2 =>
      have hl2 : (c2 :: r2).getLast? ≠ some '\\' := by simpa [List.getLast?_cons_cons] using hl
      have hc2 : (c2 == d) = false := by
        simp; intro hh; exact hcs (by simp [hh])
      have := ih hcs hl2
      simp only [List.cons_append] at this ⊢
      simp only [hasEscaped, hc2, Bool.and_false, Bool.false_or]
      exact this

theorem hasEscaped_free (d : Char) (a : Str) (ha : ¬ d ∈ a) : hasEscaped d a = false := by
  induction a with
  | nil => rfl
  | cons c cs ih =>
    have hcs : ¬ d ∈ cs := fun hh => ha (List.mem_cons_of_mem _ hh)
    cases cs with
    | nil => rfl
    | cons c2 r2 =>
      have hc2 : (c2 == d) = false := by
        simp; intro hh; exact hcs (by simp [hh])
      simp only [hasEscaped, hc2, Bool.and_false, Bool.false_or]
      exact ih hcs

theorem hasEscaped_joinWith (d : Char) (hd : d ≠ '\\') (ks : List Str) (h : ∀ k ∈ ks, ¬ d ∈ k) (hb : NoTrailingBackslash ks) :
    hasEscaped d (joinWith d ks) = false := by
  induction ks with
  | nil => rfl
  | cons x xs ih =>
    cases xs with
    | nil => simp only [joinWith]; exact hasEscaped_free d x (h x (by simp))
    | cons y r =>
      simp only [joinWith]
      rw [hasEscaped_append d x _ (h x (by simp)) (hb x (by simp)), hasEscaped_head d _ hd]
      exact ih (fun k hk => h k (List.mem_cons_of_mem _ hk)) (fun k hk => hb k (List.mem_cons_of_mem _ hk))

/-- **Every name `names()` reports splits back into the key tuple it was made from**, when the
delimiter (as `names()` chooses it) occurs in no key and no key ends in a backslash. -/
theorem split_join_partial (d : Char) (ks : List Str) (hd : isAlnum d = false) (hd2 : d ≠ '\\') (hne : ks ≠ [])
    (h : ∀ k ∈ ks, ¬ d ∈ k) (hb : NoTrailingBackslash ks) : split (join d ks) = .ok ks := by
  unfold split join
  have hmap : ∀ l : List Str, (∀ k ∈ l, ¬ d ∈ k) → l.map (escape d) = l := by
    intro l
    induction l with
    | nil => intro _; rfl
    | cons x xs ih =>
      intro hl
      simp only [List.map_cons, escape_free d x (hl x (by simp)), ih (fun k hk => hl k (List.mem_cons_of_mem _ hk))]
  simp only [hd, Bool.false_eq_true, ↓reduceIte, hmap ks h, hasEscaped_joinWith d hd2 ks h hb]
  rw [splitOn_joinWith d ks hne h]

/-- The full statement (any keys) is **false**: a key ending in a backslash makes the reported name
unusable (the delimiter after it reads as an escaped delimiter). Witness: `{"a\\": {"b": 1}}`, whose
name `.a\\.b` splits into the single key `a.b`. -/
theorem split_join_refuted :
    ∃ (d : Char) (ks : List Str), isAlnum d = false ∧ d ≠ '\\' ∧ (∀ k ∈ ks, ¬ d ∈ k) ∧ split (join d ks) ≠ .ok ks := by
  refine ⟨'.', [['a', '\\'], ['b']], by decide, by decide, by decide, ?_⟩
  have : split (join '.' [['a', '\\'], ['b']]) = .ok [['a', '.', 'b']] := by rfl
  rw [this]
  intro h
  simp at h

/-! ## lookup in the tree -/

theorem find_cons_dict (items : List (Str × Tree)) (k : Str) (sub : Tree) (rest : List Key)
    (h : items.find? (·.1 == k) = some (k, sub)) : find (.dict items) (.s k :: rest) = find sub rest := by
  simp [find, h]

/-- Dict keys are distinct at every level (as in a Python `dict`). -/
inductive WFTree : Tree → Prop where
  | leaf (v : Nat) : WFTree (.leaf v)
  | dict (items : List (Str × Tree)) : (items.map (·.1)).Nodup → (∀ p ∈ items, WFTree p.2) → WFTree (.dict items)
  | list (items : List Tree) : (∀ t ∈ items, WFTree t) → WFTree (.list items)

theorem find_first_key (items : List (Str × Tree)) (k : Str) (sub : Tree) (hmem : (k, sub) ∈ items)
    (hn : (items.map (·.1)).Nodup) : items.find? (·.1 == k) = some (k, sub) := by
  induction items with
  | nil => cases hmem
  | cons x xs ih =>
    have hx : x.1 ∉ xs.map (·.1) ∧ (xs.map (·.1)).Nodup := by
      rw [List.map_cons] at hn; exact List.nodup_cons.mp hn
    rcases List.mem_cons.mp hmem with h | h
    · subst h; simp
    · have hne : (x.1 == k) = false := by
        simp; intro hc
        apply hx.1
        simp only [List.mem_map]
        exact ⟨(k, sub), h, hc.symm⟩
      simp only [List.find?_cons, hne]
      exact ih h hx.2

mutual
/-- **Every key tuple reported for a configuration tree retrieves a value** (`nameTuples()` /
`names()` → `__getitem__`), for every tree with string dict keys and lists, at any depth. -/
theorem paths_find : ∀ (t : Tree), WFTree t → ∀ p ∈ paths t, (find t p).isSome = true
  | .leaf _, _, p, hp => by simp [paths] at hp
  | .dict items, hwf, p, hp => by
    cases hwf with
    | dict _ hn hsub =>
      simp only [paths] at hp
      exact pathsDict_find items items (fun _ h => h) hn hsub p hp
  | .list items, hwf, p, hp => by
    cases hwf with
    | list _ hsub =>
      simp only [paths] at hp
      exact pathsList_find items 0 [] items rfl (by simp) hsub p hp
theorem pathsDict_find : ∀ (all items : List (Str × Tree)), (∀ x ∈ items, x ∈ all) → (all.map (·.1)).Nodup →
    (∀ q ∈ all, WFTree q.2) → ∀ p ∈ pathsDict items, (find (.dict all) p).isSome = true
  | _, [], _, _, _, p, hp => by simp [pathsDict] at hp
  | all, (k, sub) :: rest, hsubset, hn, hwf, p, hp => by
    simp only [pathsDict, List.mem_append, List.mem_cons, List.mem_map] at hp
    have hmem : (k, sub) ∈ all := hsubset _ (by simp)
    have hf := find_first_key all k sub hmem hn
    rcases hp with (hp | ⟨q, hq, rfl⟩) | hp
    · subst hp; simp [find, hf]
    · simp only [find, hf]
      exact paths_find sub (hwf _ hmem) q hq
    · exact pathsDict_find all rest (fun x hx => hsubset x (List.mem_cons_of_mem _ hx)) hn hwf p hp
theorem pathsList_find : ∀ (items : List Tree) (n : Nat) (pre all : List Tree), all = pre ++ items → pre.length = n →
    (∀ t ∈ all, WFTree t) → ∀ p ∈ pathsList n items, (find (.list all) p).isSome = true
  | [], _, _, _, _, _, _, p, hp => by simp [pathsList] at hp
  | sub :: rest, n, pre, all, hall, hlen, hwf, p, hp => by
    simp only [pathsList, List.mem_append, List.mem_cons, List.mem_map] at hp
    have hget : all[n]? = some sub := by
      subst hall; subst hlen; simp
    have hmem : sub ∈ all := by subst hall; simp
    rcases hp with (hp | ⟨q, hq, rfl⟩) | hp
    · subst hp; simp [find, hget]
    · simp only [find, hget]
      exact paths_find sub (hwf _ hmem) q hq
    · exact pathsList_find rest (n + 1) (pre ++ [sub]) all (by subst hall; simp) (by simp [hlen]) hwf p hp
end

/-! ## dataset type names -/

/-- `splitDatasetTypeName(nameWithComponent(name, comp)) = (name, comp)` for names without a dot. -/
theorem dstype_name_roundtrip (name comp : Str) (h : ¬ '.' ∈ name) :
    splitFirstDot (nameWithComponent name comp) = (name, some comp) := by
  unfold nameWithComponent
  induction name with
  | nil => simp [splitFirstDot]
  | cons c cs ih =>
    have hc : (c == '.') = false := by
      simp only [List.mem_cons, not_or] at h
      simp; intro hh; exact h.1 hh.symm
    have hcs : ¬ '.' ∈ cs := fun hh => h (List.mem_cons_of_mem _ hh)
    simp only [List.cons_append, splitFirstDot, hc, Bool.false_eq_true, ↓reduceIte, ih hcs]

/-! non-vacuity -/
example : split (join '.' [['a'], ['b', 'c']]) = .ok [['a'], ['b', 'c']] := by rfl
example : paths (.dict [(['a'], .list [.leaf 1, .dict [(['b'], .leaf 2)]])]) =
    [[.s ['a']], [.s ['a'], .i 0], [.s ['a'], .i 1], [.s ['a'], .i 1, .s ['b']]] := by decide

end C18

/-! ### `Config._splitIntoKeys` as translated from the source on every run (`Gen/ConfigPy.lean`, `translate/gen_config.py`) -/
namespace C18.Translated
open ConfigKeys

theorem isInfixB_escaped (d : Char) (s : Str) : isInfixB ['\\', d] s = hasEscaped d s := by
  induction s with
  | nil => simp [isInfixB, hasEscaped]
  | cons a r ih =>
    cases r with
    | nil => simp [isInfixB, hasEscaped, List.isPrefixOf]
    | cons b r' =>
      simp only [isInfixB, hasEscaped] at ih ⊢
      rw [ih]
      simp only [List.isPrefixOf, Bool.and_true]
      congr 1
      rw [BEq.comm (a := '\\'), BEq.comm (a := d), Bool.and_comm]

theorem isInfixB_doubled (d : Char) (s : Str) : isInfixB ['\\', '\\', d] s = hasDoubled d s := by
  induction s with
  | nil => simp [isInfixB, hasDoubled]
  | cons a r ih =>
    match r, ih with
    | [], _ => simp [isInfixB, hasDoubled, List.isPrefixOf]
    | [b], _ => simp [isInfixB, hasDoubled, List.isPrefixOf]
    | b :: c :: r', ih =>
      simp only [isInfixB, hasDoubled] at ih ⊢
      rw [ih]
      simp only [List.isPrefixOf, Bool.and_true]
      congr 1
      rw [BEq.comm (a := '\\') (b := a), BEq.comm (a := '\\') (b := b), BEq.comm (a := d)]
      cases (a == '\\') <;> cases (b == '\\') <;> cases (c == d) <;> rfl

theorem replaceSub_escaped (d : Char) : ∀ (s : Str), replaceSub ['\\', d] ['\r'] s = unescapeToTemp d s := by
  intro s
  fun_induction unescapeToTemp d s with
  | case1 => simp [replaceSub]
  | case2 a => rw [replaceSub]; simp [List.isPrefixOf, replaceSub]
  | case3 a b r h ih =>
    rw [replaceSub]
    simp only [Bool.and_eq_true, beq_iff_eq] at h
    obtain ⟨ha, hb⟩ := h
    subst ha; subst hb
    simp [List.isPrefixOf, ih]
  | case4 a b r h ih =>
    rw [replaceSub]
    have hp : List.isPrefixOf ['\\', d] (a :: b :: r) = false := by
      simp only [List.isPrefixOf, Bool.and_true]
      rw [BEq.comm (a := '\\'), BEq.comm (a := d)]
      simpa using h
    simp [hp, ih]

/-- **`Config._splitIntoKeys` (string keys) as translated from the source on every run is the model's `split`** — the function the
round-trip theorems and refutations of this file are about. -/
theorem translated_split (key : Str) : Gen.ConfigPy.splitIntoKeys key = split key := by
  cases key with
  | nil => rfl
  | cons d rest =>
    simp only [Gen.ConfigPy.splitIntoKeys, split, head, List.isEmpty_cons, List.headD_cons, List.tail_cons, Bool.false_eq_true, if_false,
      isInfixB_escaped, isInfixB_doubled, replaceSub_escaped, Option.isSome_some, Option.isSome_none, if_true]
    have hrc : replaceChar '\r' d = fun h => h.map fun c => if c == '\r' then d else c := rfl
    cases isAlnum d <;> simp [hrc]

end C18.Translated
