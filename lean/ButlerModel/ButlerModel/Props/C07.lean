import ButlerModel.Model.Txn
import ButlerModel.Model.TxnCache
import ButlerModel.Gen.DsTxnPy
/-! # C07 — a failed transaction block leaves registry and datastore untouched -/
namespace C07
open Txn

theorem rollback_exact (A files : List Nat) (h : ∀ a ∈ A, a ∉ files) : rollbackFiles A (A ++ files) = files := by
  unfold rollbackFiles
  rw [List.filter_append]
  have h1 : A.filter (fun f => !A.contains f) = [] := by
    apply List.filter_eq_nil_iff.mpr
    intro a ha; simp [ha]
  have h2 : files.filter (fun f => !A.contains f) = files := by
    apply List.filter_eq_self.mpr
    intro f hf
    simp only [Bool.not_eq_eq_eq_not, Bool.not_true, List.contains_eq_mem, decide_eq_false_iff_not]
    intro hc; exact h f hc hf
  rw [h1, h2]; rfl

/-- What a program does to a state whose transaction stack is `log :: rest`: it prepends the ids it
wrote (and did not roll back) to both the artifacts and the current undo log, and leaves the outer
transactions alone. -/
def Effect (fix : Bool) (res : S × Bool) (s : S) (log : List Nat) (rest : List (List Nat)) (allowed : List Nat) : Prop :=
  ∃ A, res.1.stack = (A ++ log) :: rest ∧ res.1.files = A ++ s.files ∧ (∀ a ∈ A, a ∈ allowed)

theorem effect_all (fuel : Nat) :
    (∀ (p : Prog) (s : S) (log : List Nat) (rest : List (List Nat)),
        s.stack = log :: rest → (puts p).Nodup → (∀ a ∈ puts p, a ∉ s.files) →
        Effect true (run true fuel p s) s log rest (puts p)) ∧
    (∀ (ps : List Prog) (s : S) (log : List Nat) (rest : List (List Nat)),
        s.stack = log :: rest → (putsL ps).Nodup → (∀ a ∈ putsL ps, a ∉ s.files) →
        Effect true (runList true fuel ps s) s log rest (putsL ps)) := by
  induction fuel with
  | zero =>
    constructor
    · intro p s log rest hs _ _
      exact ⟨[], by simp [run, hs], by simp [run], by simp⟩
    · intro ps s log rest hs _ _
      exact ⟨[], by simp [runList, hs], by simp [runList], by simp⟩
  | succ n ih =>
    have blockCase : ∀ (body : List Prog) (s : S) (log : List Nat) (rest : List (List Nat)),
        s.stack = log :: rest → (putsL body).Nodup → (∀ a ∈ putsL body, a ∉ s.files) →
        Effect true (run true (n + 1) (.block body) s) s log rest (putsL body) := by
      intro body s log rest hs hn hf
      have hl := ih.2 body { s with stack := [] :: s.stack } [] (log :: rest) (by simp [hs]) hn hf
      obtain ⟨A, hA1, hA2, hA3⟩ := hl
      simp only [run]
      generalize hr : runList true n body { s with stack := [] :: s.stack } = res at hA1 hA2
      obtain ⟨s2, failed⟩ := res
      simp only at hA1 hA2
      simp only []
      cases failed with
      | true =>
        simp only [↓reduceIte, hA1, hA2]
        refine ⟨[], by simp [hs], ?_, by simp⟩
        simp only [List.append_nil, List.nil_append]
        exact rollback_exact A s.files (fun a ha => hf a (hA3 a ha))
      | false =>
        simp only [Bool.false_eq_true, ↓reduceIte, hA1]
        exact ⟨A, by simp, by simp [hA2], hA3⟩
    constructor
    · intro p s log rest hs hn hf
      cases p with
      | put id =>
        refine ⟨[id], ?_, ?_, ?_⟩
        · simp [run, doPut, hs]
        · simp [run, doPut, hs]
        · simp [puts]
      | fail => exact ⟨[], by simp [run, hs], by simp [run], by simp⟩
      | block body => exact blockCase body s log rest hs hn hf
      | tryBlock body =>
        have := blockCase body s log rest hs hn hf
        obtain ⟨A, h1, h2, h3⟩ := this
        cases n with
        | zero =>
          exact ⟨[], by simp [run, hs], by simp [run], by simp⟩
        | succ m =>
          -- tryBlock at fuel n+1 runs block at fuel n: use the induction hypothesis directly
          have hb := ih.1 (.block body) s log rest hs hn hf
          obtain ⟨B, g1, g2, g3⟩ := hb
          exact ⟨B, by simpa [run] using g1, by simpa [run] using g2, g3⟩
    · intro ps s log rest hs hn hf
      cases ps with
      | nil => exact ⟨[], by simp [runList, hs], by simp [runList], by simp⟩
      | cons p ps =>
        have hn' : (puts p ++ putsL ps).Nodup := hn
        have hn1 := (List.nodup_append.mp hn').1
        have hn2 := (List.nodup_append.mp hn').2.1
        have hdis := (List.nodup_append.mp hn').2.2
        have hf1 : ∀ a ∈ puts p, a ∉ s.files := fun a ha => hf a (by simp [putsL, ha])
        have hf2 : ∀ a ∈ putsL ps, a ∉ s.files := fun a ha => hf a (by simp [putsL, ha])
        obtain ⟨A, hA1, hA2, hA3⟩ := ih.1 p s log rest hs hn1 hf1
        simp only [runList]
        generalize hr : run true n p s = res at hA1 hA2
        obtain ⟨s1, failed⟩ := res
        simp only at hA1 hA2
        simp only []
        cases failed with
        | true =>
          simp only [↓reduceIte]
          exact ⟨A, hA1, hA2, fun a ha => by simp [putsL, hA3 a ha]⟩
        | false =>
          simp only [Bool.false_eq_true, ↓reduceIte]
          have hf2' : ∀ a ∈ putsL ps, a ∉ s1.files := by
            intro a ha hc
            rw [hA2] at hc
            rcases List.mem_append.mp hc with h | h
            · exact hdis _ (hA3 a h) a ha rfl
            · exact hf2 a ha h
          obtain ⟨B, hB1, hB2, hB3⟩ := ih.2 ps s1 (A ++ log) rest hA1 hn2 hf2'
          refine ⟨B ++ A, by simp [hB1], by simp [hB2, hA2], ?_⟩
          intro a ha
          rcases List.mem_append.mp ha with h | h
          · simp [putsL, hB3 a h]
          · simp [putsL, hA3 a h]

/-- Freshness: the program only writes datasets that are not there yet, each once. -/
def Fresh (body : List Prog) (s : S) : Prop := (putsL body).Nodup ∧ ∀ a ∈ putsL body, a ∉ s.files

/-- **A failed `Butler.transaction()` block restores everything** — the artifacts under the root,
the registry rows and the datastore's own transaction state — for every program, at every nesting
depth, also when inner failures were caught and the outer block went on to fail. -/
theorem failed_block_restores (fuel : Nat) (body : List Prog) (s : S) (hfresh : Fresh body s)
    (h : (run true (fuel + 1) (.block body) s).2 = true) :
    (run true (fuel + 1) (.block body) s).1 = s := by
  obtain ⟨A, hA1, hA2, hA3⟩ :=
    (effect_all fuel).2 body { s with stack := [] :: s.stack } [] s.stack (by simp) hfresh.1 hfresh.2
  simp only [run] at h ⊢
  generalize hr : runList true fuel body { s with stack := [] :: s.stack } = res at hA1 hA2 h
  obtain ⟨s2, failed⟩ := res
  simp only at hA1 hA2 h
  simp only [] at h ⊢
  cases failed with
  | true =>
    simp only [↓reduceIte, hA1, hA2, List.append_nil]
    rw [rollback_exact A s.files (fun a ha => hfresh.2 a (hA3 a ha))]
  | false =>
    simp only [Bool.false_eq_true, ↓reduceIte, hA1] at h
    cases hs : s.stack <;> simp [hs] at h

/-- The datastore's transaction state is restored after **any** block, succeeded or failed. -/
theorem txn_state_restored (fuel : Nat) (body : List Prog) (s : S) (hfresh : Fresh body s) :
    ((run true (fuel + 1) (.block body) s).1.stack).length = s.stack.length := by
  obtain ⟨A, hA1, hA2, hA3⟩ :=
    (effect_all fuel).2 body { s with stack := [] :: s.stack } [] s.stack (by simp) hfresh.1 hfresh.2
  simp only [run]
  generalize hr : runList true fuel body { s with stack := [] :: s.stack } = res at hA1 hA2
  obtain ⟨s2, failed⟩ := res
  simp only at hA1 hA2
  simp only []
  cases failed with
  | true => simp [hA1]
  | false =>
    simp only [Bool.false_eq_true, ↓reduceIte, hA1]
    cases hs : s.stack <;> simp

/-- The earlier code (parent restored only on success) did **not** have this property: the
regression witness `outer{ put 1; try: inner{ put 2; raise }; put 3; raise }` leaves artifact 1 behind
and the transaction state dangling. -/
def witness : List Prog := [.put 1, .tryBlock [.put 2, .fail], .put 3, .fail]

theorem old_code_leaks : (run false 10 (.block witness) {}).1.files = [1] ∧
    (run false 10 (.block witness) {}).1.stack ≠ [] := by decide

theorem new_code_restores_witness : (run true 10 (.block witness) {}).1 = {} := by decide

example : Fresh witness {} := by unfold Fresh witness; decide

end C07

/-! ## Registry rows behind read-through caches, and `pruneDatasets` inside a block
(model `TxnCache`) -/
namespace C07.Cache
open TxnCache

/-- The caches never disagree with the database: coherence is preserved by every program, at every
depth, whether blocks fail, are caught, or commit. -/
theorem coherent_all (fuel : Nat) :
    (∀ (p : Prog) (s : S), Coherent s → Coherent (run true fuel p s).1) ∧
    (∀ (ps : List Prog) (s : S), Coherent s → Coherent (runList true fuel ps s).1) := by
  induction fuel with
  | zero => exact ⟨fun p s h => by simpa [run] using h, fun ps s h => by simpa [runList] using h⟩
  | succ n ih =>
    have blockCase : ∀ (body : List Prog) (s : S), Coherent s → Coherent (run true (n + 1) (.block body) s).1 := by
      intro body s h
      have := ih.2 body s h
      simp only [run]
      generalize runList true n body s = res at this
      obtain ⟨s2, failed⟩ := res
      cases failed with
      | true => simp [Coherent]
      | false => simpa using this
    constructor
    · intro p s h
      cases p with
      | ins id => simp [run, doIns, Coherent]
      | read =>
        simp only [run, doRead]
        rcases h with h | h
        · simp [h, Coherent]
        · simp only [h]; exact Or.inr h
      | prune id =>
        simp only [run, doPrune]
        split
        · exact h
        · exact h
      | fail => simpa [run] using h
      | block body => exact blockCase body s h
      | tryBlock body =>
        simp only [run]
        exact ih.1 (.block body) s h
    · intro ps s h
      cases ps with
      | nil => simpa [runList] using h
      | cons p ps =>
        have h1 := ih.1 p s h
        simp only [runList]
        generalize run true n p s = res at h1
        obtain ⟨s1, failed⟩ := res
        cases failed with
        | true => simpa using h1
        | false => simpa using ih.2 ps s1 h1

/-- Artifacts: a program only ever *removes* artifacts, and only those it prunes. -/
theorem files_filter_all (b : Bool) (fuel : Nat) :
    (∀ (p : Prog) (s : S), ∃ P : Nat → Bool, (run b fuel p s).1.files = s.files.filter P ∧
        ∀ f, f ∉ prunes p → P f = true) ∧
    (∀ (ps : List Prog) (s : S), ∃ P : Nat → Bool, (runList b fuel ps s).1.files = s.files.filter P ∧
        ∀ f, f ∉ prunesL ps → P f = true) := by
  have triv : ∀ (l : List Nat), l = l.filter (fun _ => true) :=
    fun l => (List.filter_eq_self.mpr (fun _ _ => rfl)).symm
  induction fuel with
  | zero =>
    exact ⟨fun p s => ⟨fun _ => true, by simp only [run]; exact triv _, fun _ _ => rfl⟩,
           fun ps s => ⟨fun _ => true, by simp only [runList]; exact triv _, fun _ _ => rfl⟩⟩
  | succ n ih =>
    have blockCase : ∀ (body : List Prog) (s : S), ∃ P : Nat → Bool,
        (run b (n + 1) (.block body) s).1.files = s.files.filter P ∧ ∀ f, f ∉ prunesL body → P f = true := by
      intro body s
      obtain ⟨P, h1, h2⟩ := ih.2 body s
      refine ⟨P, ?_, h2⟩
      simp only [run]
      generalize runList b n body s = res at h1
      obtain ⟨s2, failed⟩ := res
      cases failed <;> simpa using h1
    constructor
    · intro p s
      cases p with
      | ins id => exact ⟨fun _ => true, by simp only [run, doIns]; exact triv _, fun _ _ => rfl⟩
      | read =>
        refine ⟨fun _ => true, ?_, fun _ _ => rfl⟩
        simp only [run, doRead]
        split <;> exact triv _
      | prune id =>
        simp only [run, doPrune]
        split
        · exact ⟨fun f => f != id, rfl, fun f hf => by simpa [prunes] using hf⟩
        · exact ⟨fun _ => true, triv _, fun _ _ => rfl⟩
      | fail => exact ⟨fun _ => true, by simp only [run]; exact triv _, fun _ _ => rfl⟩
      | block body => simpa [prunes] using blockCase body s
      | tryBlock body =>
        obtain ⟨P, h1, h2⟩ := ih.1 (.block body) s
        exact ⟨P, by simpa [run] using h1, by simpa [prunes] using h2⟩
    · intro ps s
      cases ps with
      | nil => exact ⟨fun _ => true, by simp only [runList]; exact triv _, fun _ _ => rfl⟩
      | cons p ps =>
        obtain ⟨P1, h1, g1⟩ := ih.1 p s
        simp only [runList]
        generalize run b n p s = res at h1
        obtain ⟨s1, failed⟩ := res
        cases failed with
        | true =>
          exact ⟨P1, by simpa using h1, fun f hf => g1 f (fun hc => hf (by simp [prunesL, hc]))⟩
        | false =>
          obtain ⟨P2, h2, g2⟩ := ih.2 ps s1
          refine ⟨fun f => P1 f && P2 f, ?_, ?_⟩
          · simp only [Bool.false_eq_true, ↓reduceIte]
            rw [h2]
            simp only at h1
            rw [h1, List.filter_filter]
            congr 1
            funext f
            exact Bool.and_comm _ _
          · intro f hf
            have a1 := g1 f (fun hc => hf (by simp [prunesL, hc]))
            have a2 := g2 f (fun hc => hf (by simp [prunesL, hc]))
            simp [a1, a2]

/-- **A failed block leaves the registry as it was**, as the database has it *and* as the cached
interfaces show it — at every nesting depth. -/
theorem failed_block_registry_restored (fuel : Nat) (body : List Prog) (s : S) (hc : Coherent s)
    (h : (run true (fuel + 1) (.block body) s).2 = true) :
    let s' := (run true (fuel + 1) (.block body) s).1
    s'.rows = s.rows ∧ s'.ds = s.ds ∧ view s' = view s := by
  simp only [run] at h ⊢
  generalize runList true fuel body s = res at h
  obtain ⟨s2, failed⟩ := res
  cases failed with
  | false => simp at h
  | true =>
    refine ⟨rfl, rfl, ?_⟩
    simp only [view, ↓reduceIte]
    rcases hc with hc | hc <;> simp [hc]

/-- Artifacts after a failed block: nothing new, and everything that no `pruneDatasets` in the
block named is still there. -/
theorem failed_block_files (b : Bool) (fuel : Nat) (body : List Prog) (s : S) :
    let s' := (run b (fuel + 1) (.block body) s).1
    (∀ f ∈ s'.files, f ∈ s.files) ∧ (∀ f ∈ s.files, f ∉ prunesL body → f ∈ s'.files) := by
  obtain ⟨P, h1, h2⟩ := (files_filter_all b (fuel + 1)).1 (.block body) s
  simp only [h1]
  refine ⟨fun f hf => (List.mem_filter.mp hf).1, fun f hf hn => List.mem_filter.mpr ⟨hf, h2 f (by simpa [prunes] using hn)⟩⟩

/-- `_partial`: the artifacts are restored exactly by a failed block **that contains no
pruneDatasets**.  The full statement (for every program) is false of the code — see
`prune_in_failed_block_loses_artifact`. -/
theorem failed_block_files_restored_partial (b : Bool) (fuel : Nat) (body : List Prog) (s : S)
    (hnp : prunesL body = []) : (run b (fuel + 1) (.block body) s).1.files = s.files := by
  obtain ⟨P, h1, h2⟩ := (files_filter_all b (fuel + 1)).1 (.block body) s
  rw [h1]
  apply List.filter_eq_self.mpr
  intro f _
  exact h2 f (by simp [prunes, hnp])

/-- Known finding C07-c, as a theorem about the model: `with butler.transaction():
pruneDatasets([1], purge, unstore); raise` keeps dataset 1 registered and loses its artifact. -/
theorem prune_in_failed_block_loses_artifact :
    (run true 5 (.block [.prune 1, .fail]) { ds := [1], files := [1] }).1 = { ds := [1], files := [] } := by decide

/-- Regression witness of the earlier code (caches not dropped on rollback): insert a row, read it
through the cache, fail — the cached interface keeps showing the rolled-back row. -/
theorem old_code_stale_cache :
    let s' := (run false 5 (.block [.ins 2, .read, .fail]) { rows := [1] }).1
    s'.rows = [1] ∧ view s' = [2, 1] := by decide

example : Coherent { rows := [1] } := Or.inl rfl

end C07.Cache

/-! ### The datastore's undo-log transactions as translated from the source on every run (`Gen/DsTxnPy.lean`)

`Datastore.transaction`, `DatastoreTransaction.registerUndo / rollback / commit` are translated by `translate/gen_dstxn.py`; the
theorems below are about those translations, for every stack of enclosing transactions and every list of registered events. -/
namespace C07.Translated
open Gen.DsTxnPy

def registerAll (evs : List Nat) (s : St) : St := evs.foldl (fun s e => register e s) s

theorem registerAll_cons (log : List Nat) (rest : Tx) (u evs : List Nat) :
    registerAll evs (log :: rest, u) = ((log ++ evs) :: rest, u) := by
  induction evs generalizing log with
  | nil => simp [registerAll]
  | cons e r ih =>
    simp only [registerAll, List.foldl_cons, register, registerUndo] at ih ⊢
    rw [ih]; simp

/-- **A failed block undoes everything it registered, newest first, and nothing else; the enclosing transaction is current again
with its log untouched** (whatever the enclosing stack). -/
theorem failed_block (st : Tx) (u evs : List Nat) :
    leave true (registerAll evs (enter (st, u))) = (st, u ++ evs.reverse) := by
  simp [enter, registerAll_cons, leave, handlerReraises, finallyBlock, onException, rollbackTop, restoreParent, rollbackOrder]

/-- **A block that ends normally undoes nothing and hands its events, in order, to the enclosing transaction** -/
theorem committed_block (p : List Nat) (rest : Tx) (u evs : List Nat) :
    leave false (registerAll evs (enter (p :: rest, u))) = ((p ++ evs) :: rest, u) := by
  simp [enter, registerAll_cons, leave, afterTry, finallyBlock, onSuccess, commitTop, restoreParent, commitInto]

/-- … and an outermost block that ends normally leaves no transaction behind -/
theorem committed_outermost (u evs : List Nat) :
    leave false (registerAll evs (enter ([], u))) = ([], u) := by
  simp [enter, registerAll_cons, leave, afterTry, finallyBlock, onSuccess, commitTop, restoreParent]

/-- **Nesting**: what an inner block committed is undone with the outer block when that fails later — all of it, newest first. -/
theorem inner_commit_then_outer_failure (st : Tx) (u a evs b : List Nat) :
    leave true (registerAll b (leave false (registerAll evs (enter (registerAll a (enter (st, u))))))) =
      (st, u ++ (a ++ evs ++ b).reverse) := by
  have h1 : registerAll a (enter (st, u)) = (a :: st, u) := by simp [enter, registerAll_cons]
  rw [h1, committed_block]
  have h2 : ((a ++ evs) :: st, u) = registerAll (a ++ evs) (enter (st, u)) := by simp [enter, registerAll_cons]
  have h3 : registerAll b (registerAll (a ++ evs) (enter (st, u))) = registerAll (a ++ evs ++ b) (enter (st, u)) := by
    simp [registerAll, List.foldl_append]
  rw [h2, h3, failed_block]

/-- **Nesting**: an inner block that fails and is caught inside the outer one undoes its own events only; the outer block goes on
and commits what *it* registered, before and after. -/
theorem inner_failure_caught_then_outer_commit (p : List Nat) (rest : Tx) (u a evs b : List Nat) :
    leave false (registerAll b (leave true (registerAll evs (enter (registerAll a (enter (p :: rest, u))))))) =
      ((p ++ (a ++ b)) :: rest, u ++ evs.reverse) := by
  have h1 : registerAll a (enter (p :: rest, u)) = (a :: p :: rest, u) := by simp [enter, registerAll_cons]
  rw [h1, failed_block]
  have h2 : registerAll b (a :: p :: rest, u ++ evs.reverse) = registerAll (a ++ b) (enter (p :: rest, u ++ evs.reverse)) := by
    simp [enter, registerAll_cons]
  rw [h2, committed_block]

/-- the hand-written model's `rollbackFiles` (which the fault-enumeration theorems of this file use) removes exactly the artifacts of
the events the translated `rollback` undoes -/
theorem model_rollback (evs files : List Nat) :
    Txn.rollbackFiles evs files = files.filter (fun f => !(rollbackOrder evs).contains f) := by
  simp [Txn.rollbackFiles, rollbackOrder]

/-- non-vacuity / witness of the order: three events, undone 3, 2, 1 -/
example : leave true (registerAll [1, 2, 3] (enter ([[9]], []))) = ([[9]], [3, 2, 1]) := by decide

end C07.Translated
