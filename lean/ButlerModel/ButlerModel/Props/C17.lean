import ButlerModel.Model.RegCache
import ButlerModel.Model.Cache
import ButlerModel.Gen.CachePy
import ButlerModel.Gen.TogglePy
/-! # C17 — the file cache stays within its configured bounds, and its bookkeeping is exact

Theorems about `_expire_cache` (all four modes) and `CacheRegistry` for every registry content,
every threshold and every clock value. -/
namespace C17
open Cache

/-! ## `_sort_cache` is a sorted permutation -/

def Sorted (l : List Entry) : Prop := l.Pairwise (fun a b => a.ctime ≤ b.ctime)

theorem insertSorted_perm (e : Entry) (l : List Entry) : (insertSorted e l).Perm (e :: l) := by
  induction l with
  | nil => exact List.Perm.refl _
  | cons x xs ih =>
    unfold insertSorted
    split
    · exact List.Perm.refl _
    · exact (List.Perm.cons x ih).trans (List.Perm.swap e x xs)

theorem sortCache_perm (es : List Entry) : (sortCache es).Perm es := by
  induction es with
  | nil => exact List.Perm.refl _
  | cons e es ih =>
    unfold sortCache
    simp only [List.foldr_cons]
    exact (insertSorted_perm e _).trans (List.Perm.cons e ih)

theorem insertSorted_sorted (e : Entry) (l : List Entry) (h : Sorted l) : Sorted (insertSorted e l) := by
  induction l with
  | nil => exact List.pairwise_singleton _ _
  | cons x xs ih =>
    have hx := List.pairwise_cons.mp h
    unfold insertSorted
    split
    · rename_i hlt
      refine List.pairwise_cons.mpr ⟨?_, h⟩
      intro y hy
      rcases List.mem_cons.mp hy with hy | hy
      · subst hy; omega
      · have := hx.1 y hy; omega
    · rename_i hlt
      refine List.pairwise_cons.mpr ⟨?_, ih hx.2⟩
      intro y hy
      have hy' := (insertSorted_perm e xs).mem_iff.mp hy
      rcases List.mem_cons.mp hy' with hy' | hy'
      · subst hy'; omega
      · exact hx.1 y hy'

theorem sortCache_sorted (es : List Entry) : Sorted (sortCache es) := by
  induction es with
  | nil => exact List.Pairwise.nil
  | cons e es ih =>
    unfold sortCache
    simp only [List.foldr_cons]
    exact insertSorted_sorted e _ ih

/-! ## `CacheRegistry` bookkeeping: tracked size = sum of the entry sizes -/

def sumSizes (es : List Entry) : Nat := (es.map (·.size)).sum

/-- Keys are distinct and the tracked size is exact. -/
def RegOK (r : Reg) : Prop := (r.entries.map (·.key)).Nodup ∧ r.size = sumSizes r.entries

theorem pop_entries (r : Reg) (k : Nat) : (r.pop k).entries = r.entries.filter (·.key != k) := by
  unfold Reg.pop
  split
  · rename_i h
    symm
    apply List.filter_eq_self.mpr
    intro a ha
    have := List.find?_eq_none.mp h a ha
    simpa using this
  · rfl

theorem foldl_pop_entries (ks : List Nat) (r : Reg) :
    (ks.foldl Reg.pop r).entries = r.entries.filter (fun e => !ks.contains e.key) := by
  induction ks generalizing r with
  | nil =>
    simp only [List.foldl_nil, List.contains_nil, Bool.not_false]
    exact (List.filter_eq_self.mpr (fun _ _ => rfl)).symm
  | cons k ks ih =>
    simp only [List.foldl_cons, ih, pop_entries, List.filter_filter]
    apply List.filter_congr
    intro e _
    simp only [List.contains_cons]
    cases h1 : (e.key == k) <;> cases h2 : ks.contains e.key <;> simp_all [bne, Bool.and_comm]

theorem sumSizes_filter_ne (es : List Entry) (e : Entry) (he : e ∈ es) (hn : (es.map (·.key)).Nodup) :
    sumSizes es = sumSizes (es.filter (·.key != e.key)) + e.size := by
  induction es with
  | nil => cases he
  | cons x xs ih =>
    have hx : x.key ∉ xs.map (·.key) ∧ (xs.map (·.key)).Nodup := by
      rw [List.map_cons] at hn; exact List.nodup_cons.mp hn
    rcases List.mem_cons.mp he with h | h
    · subst h
      have : xs.filter (fun y => y.key != e.key) = xs := by
        apply List.filter_eq_self.mpr
        intro a ha
        simp only [bne_iff_ne, ne_eq]
        intro hc
        exact hx.1 (by simp only [List.mem_map]; exact ⟨a, ha, hc⟩)
      simp [sumSizes, List.filter_cons, this]; omega
    · have hne : x.key ≠ e.key := by
        intro hc
        exact hx.1 (by simp only [List.mem_map]; exact ⟨e, h, hc.symm⟩)
      have := ih h hx.2
      simp only [sumSizes, List.map_cons, List.sum_cons, List.filter_cons, bne_iff_ne, ne_eq, hne,
        not_false_eq_true, decide_true, ↓reduceIte] at this ⊢
      omega

theorem nodup_filter_keys (es : List Entry) (p : Entry → Bool) (h : (es.map (·.key)).Nodup) :
    ((es.filter p).map (·.key)).Nodup :=
  List.Nodup.sublist (List.Sublist.map _ List.filter_sublist) h

/-- `pop` keeps the bookkeeping exact. -/
theorem pop_ok (r : Reg) (k : Nat) (h : RegOK r) : RegOK (r.pop k) := by
  refine ⟨by rw [pop_entries]; exact nodup_filter_keys _ _ h.1, ?_⟩
  unfold Reg.pop
  split
  · exact h.2
  · rename_i e he
    have hmem := List.mem_of_find?_eq_some he
    have hk : e.key = k := by simpa using List.find?_some he
    have := sumSizes_filter_ne r.entries e hmem h.1
    simp only [hk] at this
    simp only [h.2]; omega

theorem foldl_pop_ok (ks : List Nat) (r : Reg) (h : RegOK r) : RegOK (ks.foldl Reg.pop r) := by
  induction ks generalizing r with
  | nil => exact h
  | cons k ks ih => exact ih _ (pop_ok r k h)

/-- `set` of a new key keeps the bookkeeping exact. -/
theorem set_ok (r : Reg) (e : Entry) (h : RegOK r) (hnew : ∀ x ∈ r.entries, x.key ≠ e.key) : RegOK (r.set e) := by
  unfold Reg.set RegOK
  simp only [List.map_append, List.map_cons, List.map_nil, sumSizes, List.sum_append, List.sum_cons, List.sum_nil]
  refine ⟨?_, by have := h.2; unfold sumSizes at this; omega⟩
  apply List.nodup_append.mpr
  refine ⟨h.1, by simp, ?_⟩
  intro a ha b hb hab
  simp only [List.mem_map] at ha
  obtain ⟨x, hx, rfl⟩ := ha
  simp only [List.mem_cons, List.mem_nil_iff, or_false] at hb
  subst hb
  exact hnew x hx hab

/-! ## bounds after expiry (stated for the registry the expiry works on, i.e. after its scan) -/

theorem removeKeys_entries (disk : List Entry) (r : Reg) (ks : List Nat) :
    (removeKeys disk r ks).2.entries = r.entries.filter (fun e => !ks.contains e.key) :=
  foldl_pop_entries ks r

/-- `files` mode: at most `thr` files remain. -/
theorem files_bound (r : Reg) (thr : Int) (disk : List Entry) (hthr : 0 ≤ thr) :
    let nOver : Int := r.entries.length - thr
    let res := if nOver > 0 then removeKeys disk r (((sortCache r.entries).take nOver.toNat).map (·.key)) else (disk, r)
    (res.2.entries.length : Int) ≤ thr := by
  simp only []
  split
  · rename_i hpos
    rw [removeKeys_entries]
    generalize hn : (r.entries.length - thr : Int).toNat = n
    have hperm := sortCache_perm r.entries
    have hlen := hperm.length_eq
    let p : Entry → Bool := fun e => !(((sortCache r.entries).take n).map (·.key)).contains e.key
    have h1 : (r.entries.filter p).length = ((sortCache r.entries).filter p).length :=
      (hperm.filter p).length_eq.symm
    have hsplit : sortCache r.entries = (sortCache r.entries).take n ++ (sortCache r.entries).drop n :=
      (List.take_append_drop n _).symm
    have h2 : ((sortCache r.entries).take n).filter p = [] := by
      apply List.filter_eq_nil_iff.mpr
      intro a ha
      have hc : (((sortCache r.entries).take n).map (·.key)).contains a.key = true := by
        simp only [List.contains_eq_mem, decide_eq_true_eq, List.mem_map]
        exact ⟨a, ha, rfl⟩
      show ¬ (!(((sortCache r.entries).take n).map (·.key)).contains a.key) = true
      rw [hc]; simp
    have h3 : ((sortCache r.entries).filter p).length ≤ ((sortCache r.entries).drop n).length := by
      conv => lhs; rw [hsplit]
      rw [List.filter_append, h2, List.nil_append]
      exact List.length_filter_le _ _
    have h4 : ((sortCache r.entries).drop n).length = r.entries.length - n := by
      rw [List.length_drop, hlen]
    show ((r.entries.filter p).length : Int) ≤ thr
    omega
  · rename_i hneg
    simp only; omega

/-- `age` mode: after expiry no remaining entry is older than the threshold — for every clock value
(also ages beyond one day). -/
theorem age_bound (r : Reg) (thr now : Int) (disk : List Entry) :
    ∀ e ∈ (removeKeys disk r (((sortCache r.entries).takeWhile (tooOld now thr)).map (·.key))).2.entries,
      now - e.ctime ≤ thr := by
  intro e he
  rw [removeKeys_entries] at he
  simp only [List.mem_filter, Bool.not_eq_eq_eq_not, Bool.not_true, List.contains_eq_mem,
    decide_eq_false_iff_not, List.mem_map, not_exists, not_and] at he
  obtain ⟨hmem, hnot⟩ := he
  have hs : e ∈ sortCache r.entries := (sortCache_perm r.entries).mem_iff.mpr hmem
  have hsorted := sortCache_sorted r.entries
  rw [← List.takeWhile_append_dropWhile (p := tooOld now thr) (l := sortCache r.entries)] at hs hsorted
  rcases List.mem_append.mp hs with h | h
  · exact absurd rfl (hnot e h)
  · -- e is in the dropWhile part: its head is young enough and everything after it is younger still
    cases hd : (sortCache r.entries).dropWhile (tooOld now thr) with
    | nil => rw [hd] at h; cases h
    | cons x xs =>
      have hx : tooOld now thr x = false := by
        have := List.head_dropWhile_not (tooOld now thr) (l := sortCache r.entries) (by rw [hd]; simp)
        simpa [hd] using this
      unfold tooOld at hx
      simp only [decide_eq_false_iff_not, Int.not_lt] at hx
      rw [hd] at h hsorted
      have hs2 := (List.pairwise_append.mp hsorted).2.1
      rcases List.mem_cons.mp h with h | h
      · subst h; omega
      · have := (List.pairwise_cons.mp hs2).1 e h; omega

/-- `size` mode: the loop ends with the tracked size within the threshold, or with an empty cache. -/
theorem sizeLoop_spec (thr : Nat) : ∀ (l : List Entry) (disk : List Entry) (r : Reg),
    (sizeLoop thr l (disk, r)).2.size ≤ thr ∨
      ∀ e ∈ (sizeLoop thr l (disk, r)).2.entries, e ∈ r.entries ∧ ¬ e.key ∈ l.map (·.key) := by
  intro l
  induction l with
  | nil => intro disk r; right; intro e he; exact ⟨he, by simp⟩
  | cons x xs ih =>
    intro disk r
    unfold sizeLoop
    simp only []
    split
    · left; assumption
    · rename_i hgt
      rcases ih (removeKeys disk r [x.key]).1 (removeKeys disk r [x.key]).2 with h | h
      · left; exact h
      · right
        intro e he
        have := h e he
        rw [removeKeys_entries] at this
        simp only [List.mem_filter, Bool.not_eq_eq_eq_not, Bool.not_true, List.contains_eq_mem,
          decide_eq_false_iff_not, List.mem_cons, List.mem_nil_iff, or_false] at this
        refine ⟨this.1.1, ?_⟩
        simp only [List.map_cons, List.mem_cons, not_or]
        exact ⟨this.1.2, this.2⟩

theorem size_bound (r : Reg) (thr : Int) (disk : List Entry) :
    let res := if (r.size : Int) > thr then sizeLoop thr.toNat (sortCache r.entries) (disk, r) else (disk, r)
    (res.2.size : Int) ≤ max thr 0 ∨ res.2.entries = [] := by
  simp only []
  split
  · rcases sizeLoop_spec thr.toNat (sortCache r.entries) disk r with h | h
    · left; omega
    · right
      apply List.eq_nil_iff_forall_not_mem.mpr
      intro e he
      have := h e he
      apply this.2
      simp only [List.mem_map]
      exact ⟨e, (sortCache_perm r.entries).mem_iff.mpr this.1, rfl⟩
  · left; simp only; omega

/-! ## `datasets` mode -/

theorem mem_refsInOrder (l : List Entry) (d : Nat) : d ∈ refsInOrder l ↔ ∃ e ∈ l, e.ref = d := by
  induction l with
  | nil => simp [refsInOrder]
  | cons x xs ih =>
    simp only [refsInOrder, List.mem_cons, List.mem_filter, bne_iff_ne, ne_eq, ih]
    constructor
    · rintro (h | ⟨⟨e, he, hed⟩, _⟩)
      · exact ⟨x, Or.inl rfl, h.symm⟩
      · exact ⟨e, Or.inr he, hed⟩
    · rintro ⟨e, he | he, hed⟩
      · subst he; left; exact hed.symm
      · by_cases hd : d = x.ref
        · left; exact hd
        · right; exact ⟨⟨e, he, hed⟩, hd⟩

theorem refsInOrder_nodup (l : List Entry) : (refsInOrder l).Nodup := by
  induction l with
  | nil => simp [refsInOrder]
  | cons x xs ih =>
    simp only [refsInOrder, List.nodup_cons, List.mem_filter, bne_self_eq_false, Bool.false_eq_true, and_false,
      not_false_eq_true, true_and]
    exact List.Nodup.sublist List.filter_sublist ih

theorem refs_len_perm (a b : List Entry) (h : a.Perm b) : (refsInOrder a).length = (refsInOrder b).length := by
  have h1 : ∀ d ∈ refsInOrder a, d ∈ refsInOrder b := by
    intro d hd
    obtain ⟨e, he, hed⟩ := (mem_refsInOrder a d).mp hd
    exact (mem_refsInOrder b d).mpr ⟨e, h.mem_iff.mp he, hed⟩
  have h2 : ∀ d ∈ refsInOrder b, d ∈ refsInOrder a := by
    intro d hd
    obtain ⟨e, he, hed⟩ := (mem_refsInOrder b d).mp hd
    exact (mem_refsInOrder a d).mpr ⟨e, h.mem_iff.mpr he, hed⟩
  have := List.Nodup.length_le_of_subset (refsInOrder_nodup a) h1
  have := List.Nodup.length_le_of_subset (refsInOrder_nodup b) h2
  omega

/-- `datasets` mode: at most `thr` distinct datasets remain cached. -/
theorem datasets_bound (r : Reg) (thr : Int) (disk : List Entry) (hthr : 0 ≤ thr) :
    let sorted := sortCache r.entries
    let refs := refsInOrder sorted
    let nOver : Int := refs.length - thr
    let res := if nOver > 0 then
        removeKeys disk r (((refs.take nOver.toNat).flatMap fun d => sorted.filter (·.ref == d)).map (·.key))
      else (disk, r)
    ((refsInOrder res.2.entries).length : Int) ≤ thr := by
  simp only []
  split
  · rename_i hpos
    rw [removeKeys_entries]
    generalize hn : ((refsInOrder (sortCache r.entries)).length - thr : Int).toNat = n
    generalize hks : (((refsInOrder (sortCache r.entries)).take n).flatMap
      fun d => (sortCache r.entries).filter (·.ref == d)).map (·.key) = ks
    -- every remaining dataset is one of the not-doomed ones
    have hsub : ∀ d ∈ refsInOrder (r.entries.filter fun e => !ks.contains e.key),
        d ∈ (refsInOrder (sortCache r.entries)).drop n := by
      intro d hd
      obtain ⟨e, he, hed⟩ := (mem_refsInOrder _ d).mp hd
      simp only [List.mem_filter, Bool.not_eq_eq_eq_not, Bool.not_true, List.contains_eq_mem,
        decide_eq_false_iff_not] at he
      have hes : e ∈ sortCache r.entries := (sortCache_perm r.entries).mem_iff.mpr he.1
      have hdall : d ∈ refsInOrder (sortCache r.entries) := (mem_refsInOrder _ d).mpr ⟨e, hes, hed⟩
      rw [← List.take_append_drop n (refsInOrder (sortCache r.entries))] at hdall
      rcases List.mem_append.mp hdall with h | h
      · exfalso
        apply he.2
        rw [← hks]
        simp only [List.mem_map, List.mem_flatMap, List.mem_filter, beq_iff_eq]
        exact ⟨e, ⟨d, h, hes, hed⟩, rfl⟩
      · exact h
    have hlen := List.Nodup.length_le_of_subset (refsInOrder_nodup _) hsub
    rw [List.length_drop] at hlen
    omega
  · rename_i hneg
    have := refs_len_perm _ _ (sortCache_perm r.entries)
    simp only; omega

/-! ## the four modes of `_expire_cache` itself (scan included) -/

theorem expire_files (thr now : Int) (disk : List Entry) (r0 : Reg) (hthr : 0 ≤ thr) :
    ((expire .files thr now disk r0).2.entries.length : Int) ≤ thr :=
  files_bound (scan disk r0) thr disk hthr

theorem expire_datasets (thr now : Int) (disk : List Entry) (r0 : Reg) (hthr : 0 ≤ thr) :
    ((refsInOrder (expire .datasets thr now disk r0).2.entries).length : Int) ≤ thr :=
  datasets_bound (scan disk r0) thr disk hthr

theorem expire_size (thr now : Int) (disk : List Entry) (r0 : Reg) :
    ((expire .size thr now disk r0).2.size : Int) ≤ max thr 0 ∨ (expire .size thr now disk r0).2.entries = [] :=
  size_bound (scan disk r0) thr disk

theorem expire_age (thr now : Int) (disk : List Entry) (r0 : Reg) :
    ∀ e ∈ (expire .age thr now disk r0).2.entries, now - e.ctime ≤ thr :=
  age_bound (scan disk r0) thr now disk

/-- The one-entry slack after an insertion: `move_to_cache` expires *before* adding, so in `files`
mode at most `thr + 1` files are cached afterwards. -/
theorem move_files_slack (thr now : Int) (e : Entry) (disk : List Entry) (r0 : Reg) (hthr : 0 ≤ thr) :
    ((moveToCache .files thr now e disk r0).2.entries.length : Int) ≤ thr + 1 := by
  have := expire_files thr now disk r0 hthr
  unfold moveToCache
  generalize expire .files thr now disk r0 = res at this
  obtain ⟨d1, r1⟩ := res
  simp only
  split
  · simp only at this ⊢; omega
  · simp only [Reg.set, List.length_append, List.length_cons, List.length_nil] at this ⊢; omega

/-! non-vacuity -/
example : (expire .files 1 100 [⟨1, 1, 10, 5⟩, ⟨2, 2, 20, 3⟩] { entries := [⟨1, 1, 10, 5⟩, ⟨2, 2, 20, 3⟩], size := 30 }).2.entries
    = [⟨1, 1, 10, 5⟩] := by decide
example : RegOK { entries := [⟨1, 1, 10, 5⟩, ⟨2, 2, 20, 3⟩], size := 30 } := by unfold RegOK sumSizes; decide

end C17

/-! ## Registry caches inside a caching context (model `RegCache`) -/
namespace C17.Reg
open RegCache

theorem coherent_init : Coherent {} := fun _ => Or.inl rfl

/-- **Every operation keeps the caches coherent with the database** (code as repaired). -/
theorem coherent_step (s : S) (op : Op) (h : Coherent s) : Coherent (step true true s op).1 := by
  cases op with
  | enter => exact h
  | exit => intro k; exact Or.inl rfl
  | rollback snap => intro k; exact Or.inl rfl
  | write k v =>
    intro q
    simp only [step, ↓reduceIte, upd]
    by_cases hq : q = k
    · simp [hq]
    · simp only [hq, ↓reduceIte]; exact h q
  | read k =>
    simp only [step]
    cases hc : s.cache k with
    | some v => simpa [hc] using h
    | none =>
      by_cases hx : s.ctx = true
      · simp only [hx, ↓reduceIte]
        intro q
        simp only [upd]
        by_cases hq : q = k
        · simp [hq]
        · simp only [hq, ↓reduceIte]; exact h q
      · simp only [hx, Bool.false_eq_true, ↓reduceIte]; exact h

theorem coherent_run (ops : List Op) (s : S) (h : Coherent s) : Coherent (run true true s ops) := by
  induction ops generalizing s with
  | nil => exact h
  | cons op ops ih => exact ih _ (coherent_step s op h)

/-- **A cached client gets the database's answer**: after any history of context entries and exits,
writes, reads and rolled-back transactions, a read returns exactly what the database holds — the
client always sees its own completed writes, and never a rolled-back or stale value. -/
theorem read_returns_db (ops : List Op) (k : Nat) :
    (step true true (run true true {} ops) (.read k)).2 = (run true true {} ops).db k := by
  have h := coherent_run ops {} coherent_init k
  simp only [step]
  rcases h with h | h
  · simp only [h]; split <;> rfl
  · simp [h]

/-- Regression witness of the earlier code (C17-b): the summary cached before the client's own write
hid that write. -/
theorem old_code_hides_own_write :
    (step false true (run false true {} [.enter, .read 1, .write 1 7]) (.read 1)).2 = 0 ∧
    (run false true {} [.enter, .read 1, .write 1 7]).db 1 = 7 := by decide

/-- Regression witness of C07-d: a value cached inside a transaction that was then rolled back. -/
theorem old_code_keeps_rolled_back_value :
    (step true false (run true false {} [.enter, .write 1 7, .read 1, .rollback (fun _ => 0)]) (.read 1)).2 = 7 := by decide

end C17.Reg

/-! ## T-tie: `_expire_cache` **as translated from `datastore/cache_manager.py` on every run**
(`translate/gen_cache.py`, one definition per mode; `scan_cache`, `_remove_from_cache` and `_sort_cache` are the
hand-modelled effects of `Model/Cache.lean`).  The bound and bookkeeping theorems above are about `Cache.expire`; the
theorems below identify the source's `files`, `datasets`, `size` and `age` branches with it (the dict of lists of the
`datasets` branch is `Py.Groups`). -/
namespace C17.Translated
open Cache

/-- `files` mode as written in the source is the model's. -/
theorem expire_files_eq (thr now : Int) (disk : List Entry) (r : Reg) :
    Gen.CachePy.expire_files thr now disk r = expire .files thr now disk r := by
  simp only [Gen.CachePy.expire_files, expire]
  by_cases h : ((scan disk r).entries.length : Int) - thr > 0 <;> simp [h]

theorem removeKeys_nil (disk : List Entry) (r : Reg) : removeKeys disk r [] = (disk, r) := by
  simp only [removeKeys, List.foldl_nil, List.contains_nil, Bool.not_false]
  congr 1
  induction disk with
  | nil => rfl
  | cons a as ih => simp [List.filter_cons, ih]

theorem removeKeys_cons (disk : List Entry) (r : Reg) (k : Nat) (ks : List Nat) :
    removeKeys disk r (k :: ks) = removeKeys (removeKeys disk r [k]).1 (removeKeys disk r [k]).2 ks := by
  simp only [removeKeys, List.foldl_cons, List.foldl_nil, List.filter_filter]
  congr 1
  apply List.filter_congr
  intro e _
  simp [Bool.and_comm]

/-- the `age` loop of the source, as a function of the fold state -/
def ageStep (thr now : Int) (acc : List Entry × Reg × Bool) (key : Entry) : List Entry × Reg × Bool :=
  let (disk, r, stopped) := acc
  if stopped then (disk, r, stopped) else
  let delta := (now - key.ctime)
  (if (decide (delta > thr)) then
    let (disk, r) := Cache.removeKeys disk r [key.key]
    (disk, r, false)
  else
    (disk, r, true))

theorem age_stopped (thr now : Int) (es : List Entry) (disk : List Entry) (r : Reg) :
    es.foldl (ageStep thr now) (disk, r, true) = (disk, r, true) := by
  induction es with
  | nil => rfl
  | cons e es ih => simp only [List.foldl_cons, ageStep, if_true]; exact ih

theorem age_fold (thr now : Int) : ∀ (es : List Entry) (disk : List Entry) (r : Reg),
    ((es.foldl (ageStep thr now) (disk, r, false)).1, (es.foldl (ageStep thr now) (disk, r, false)).2.1) =
      removeKeys disk r ((es.takeWhile (tooOld now thr)).map (·.key)) := by
  intro es
  induction es with
  | nil => intro disk r; simp [removeKeys_nil]
  | cons e es ih =>
    intro disk r
    simp only [List.foldl_cons, ageStep, Bool.false_eq_true, if_false]
    by_cases h : now - e.ctime > thr
    · simp only [h, decide_true, if_true]
      rw [ih]
      have : tooOld now thr e = true := by simp [tooOld, h]
      simp only [List.takeWhile_cons, this, if_true, List.map_cons]
      exact (removeKeys_cons disk r e.key _).symm
    · simp only [h, decide_false, Bool.false_eq_true, if_false]
      rw [age_stopped]
      have : tooOld now thr e = false := by simp [tooOld, h]
      simp [List.takeWhile_cons, this, removeKeys_nil]

/-- **`age` mode as written in the source** (oldest first, stop at the first entry that is young enough)
removes exactly the model's set: the entries older than the threshold. -/
theorem expire_age_eq (thr now : Int) (disk : List Entry) (r : Reg) :
    Gen.CachePy.expire_age thr now disk r = expire .age thr now disk r := by
  simp only [Gen.CachePy.expire_age, expire]
  exact age_fold thr now _ disk _

/-- the `size` loop of the source -/
def sizeStep (thr : Int) (acc : List Entry × Reg × Bool) (key : Entry) : List Entry × Reg × Bool :=
  let (disk, r, stopped) := acc
  if stopped then (disk, r, stopped) else
  let (disk, r) := Cache.removeKeys disk r [key.key]
  (if (decide ((r.size : Int) ≤ thr)) then (disk, r, true) else (disk, r, false))

theorem size_stopped (thr : Int) (es : List Entry) (disk : List Entry) (r : Reg) :
    es.foldl (sizeStep thr) (disk, r, true) = (disk, r, true) := by
  induction es with
  | nil => rfl
  | cons e es ih => simp only [List.foldl_cons, sizeStep, if_true]; exact ih

theorem size_fold (thr : Int) (h0 : 0 ≤ thr) : ∀ (es : List Entry) (disk : List Entry) (r : Reg),
    ((es.foldl (sizeStep thr) (disk, r, false)).1, (es.foldl (sizeStep thr) (disk, r, false)).2.1) =
      sizeLoop thr.toNat es (disk, r) := by
  intro es
  induction es with
  | nil => intro disk r; rfl
  | cons e es ih =>
    intro disk r
    simp only [List.foldl_cons, sizeStep, Bool.false_eq_true, if_false, sizeLoop]
    have hiff : ((((removeKeys disk r [e.key]).2.size : Nat) : Int) ≤ thr) ↔ (removeKeys disk r [e.key]).2.size ≤ thr.toNat := by
      omega
    by_cases h : (((removeKeys disk r [e.key]).2.size : Nat) : Int) ≤ thr
    · simp only [h, decide_true, if_true, hiff.mp h]
      rw [size_stopped]
    · have h' : ¬ (removeKeys disk r [e.key]).2.size ≤ thr.toNat := fun hc => h (hiff.mpr hc)
      simp only [h, decide_false, Bool.false_eq_true, if_false, h']
      exact ih _ _

/-- **`size` mode as written in the source** (remove oldest first until the tracked size is within the
threshold) is the model's, for every non-negative threshold. -/
theorem expire_size_eq (thr now : Int) (h0 : 0 ≤ thr) (disk : List Entry) (r : Reg) :
    Gen.CachePy.expire_size thr now disk r = expire .size thr now disk r := by
  have key := size_fold thr h0 (sortCache (scan disk r).entries) disk (scan disk r)
  have hgen : Gen.CachePy.expire_size thr now disk r =
      (if decide (((scan disk r).size : Int) > thr) = true then
        ((List.foldl (sizeStep thr) (disk, scan disk r, false) (sortCache (scan disk r).entries)).1,
         (List.foldl (sizeStep thr) (disk, scan disk r, false) (sortCache (scan disk r).entries)).2.1)
       else (disk, scan disk r)) := rfl
  rw [hgen, key]
  simp only [expire]
  by_cases h : ((scan disk r).size : Int) > thr <;> simp [h]

section Datasets
open Py
theorem groupKeys_append (g : Groups) (k v : Nat) :
    groupKeys (groupAppend g k v) = if k ∈ groupKeys g then groupKeys g else groupKeys g ++ [k] := by
  induction g with
  | nil => simp [groupAppend, groupKeys]
  | cons x rest ih =>
    obtain ⟨k', vs⟩ := x
    simp only [groupAppend]
    by_cases h : k' = k
    · subst h; simp [groupKeys]
    · simp only [h, if_false]
      simp only [groupKeys, List.map_cons, List.mem_cons] at ih ⊢
      have hk : ¬ k = k' := fun e => h e.symm
      by_cases hm : k ∈ List.map (fun x => x.1) rest
      · simp [hm, hk] at ih ⊢; exact ih
      · simp [hm, hk] at ih ⊢; exact ih

theorem groupGet_append (g : Groups) (k v d : Nat) :
    groupGet (groupAppend g k v) d = if d = k then groupGet g k ++ [v] else groupGet g d := by
  induction g with
  | nil => by_cases h : d = k <;> simp [groupAppend, groupGet, h] <;> (intro e; exact absurd e.symm h)
  | cons x rest ih =>
    obtain ⟨k', vs⟩ := x
    simp only [groupAppend]
    by_cases h : k' = k
    · subst h
      by_cases hd : d = k'
      · subst hd; simp [groupGet]
      · have hd' : ¬ k' = d := fun e => hd e.symm
        simp [groupGet, hd, hd']
    · simp only [h, if_false, groupGet]
      by_cases hd : k' = d
      · subst hd; simp [h]
      · simp only [hd, if_false]; exact ih

theorem filter_all_true {α : Type} (l : List α) : l.filter (fun _ => true) = l := by
  induction l with
  | nil => rfl
  | cons a as ih => simp [List.filter_cons, ih]

def grp (g : Groups) (es : List Entry) : Groups := es.foldl (fun g e => groupAppend g e.ref e.key) g

theorem grp_keys : ∀ (es : List Entry) (g : Groups),
    groupKeys (grp g es) = groupKeys g ++ (refsInOrder es).filter (fun x => !(groupKeys g).contains x) := by
  intro es
  induction es with
  | nil => intro g; simp [grp, refsInOrder]
  | cons e es ih =>
    intro g
    have hstep : grp g (e :: es) = grp (groupAppend g e.ref e.key) es := rfl
    rw [hstep, ih, groupKeys_append]
    simp only [refsInOrder]
    by_cases hm : e.ref ∈ groupKeys g
    · simp only [hm, if_true, List.filter_cons, List.contains_eq_mem, decide_true, Bool.not_true, Bool.false_eq_true, if_false,
        List.filter_filter]
      congr 1
      apply List.filter_congr
      intro x _
      by_cases hx : x ∈ groupKeys g
      · simp [hx]
      · have : x ≠ e.ref := fun h => hx (h ▸ hm)
        simp [hx, this]
    · simp only [hm, if_false, List.filter_cons, List.contains_eq_mem, decide_false, Bool.not_false, if_true, List.filter_filter,
        List.append_assoc, List.singleton_append]
      congr 2
      apply List.filter_congr
      intro x _
      by_cases hx : x = e.ref
      · subst hx; simp
      · simp [hx]

theorem grp_get : ∀ (es : List Entry) (g : Groups) (d : Nat),
    groupGet (grp g es) d = groupGet g d ++ (es.filter (fun e => e.ref == d)).map (·.key) := by
  intro es
  induction es with
  | nil => intro g d; simp [grp]
  | cons e es ih =>
    intro g d
    have hstep : grp g (e :: es) = grp (groupAppend g e.ref e.key) es := rfl
    rw [hstep, ih, groupGet_append]
    by_cases hd : d = e.ref
    · subst hd; simp
    · have : (e.ref == d) = false := by simp; exact fun h => hd h.symm
      simp [hd, this]

/-- **`datasets` mode as written in the source** (group the keys by dataset in time order, drop the oldest datasets) is the
model's. -/
theorem expire_datasets_eq (thr now : Int) (disk : List Entry) (r : Reg) :
    Gen.CachePy.expire_datasets thr now disk r = expire .datasets thr now disk r := by
  have hgen : Gen.CachePy.expire_datasets thr now disk r =
      (let g := grp [] (sortCache (scan disk r).entries)
       if decide ((g.length : Int) - thr > 0) = true then
         removeKeys disk (scan disk r) (((groupKeys g).take (Int.toNat ((g.length : Int) - thr))).flatMap (fun d => groupGet g d))
       else (disk, scan disk r)) := rfl
  rw [hgen]
  simp only [expire]
  have hk := grp_keys (sortCache (scan disk r).entries) []
  simp only [groupKeys, List.map_nil, List.nil_append, List.contains_nil, Bool.not_false, filter_all_true] at hk
  have hlen : (grp [] (sortCache (scan disk r).entries)).length = (refsInOrder (sortCache (scan disk r).entries)).length := by
    rw [← hk, List.length_map]
  have hget : ∀ d, groupGet (grp [] (sortCache (scan disk r).entries)) d =
      ((sortCache (scan disk r).entries).filter (fun e => e.ref == d)).map (·.key) := by
    intro d; rw [grp_get]; simp [groupGet]
  simp only [hlen]
  by_cases h : ((refsInOrder (sortCache (scan disk r).entries)).length : Int) - thr > 0
  · simp only [h, decide_true, if_true]
    congr 1
    have : groupKeys (grp [] (sortCache (scan disk r).entries)) = refsInOrder (sortCache (scan disk r).entries) := hk
    rw [this, List.map_flatMap]
    congr 1
    funext d
    exact hget d
  · have h' : ¬ thr < ((refsInOrder (sortCache (scan disk r).entries)).length : Int) := by omega
    simp [h, h']

end Datasets

/-- non-vacuity: three files of 10 bytes, threshold 15 bytes: the two oldest go -/
example :
    let es : List Entry := [⟨1, 1, 10, 5⟩, ⟨2, 2, 10, 3⟩, ⟨3, 3, 10, 9⟩]
    (Gen.CachePy.expire_size 15 100 es ⟨es, 30⟩).1.map (·.key) = [3] := by decide

end C17.Translated

/-! ### `_CacheToggle.enable`, translated (`Gen/TogglePy.lean`): once every caching context is left the cache is off

A client's use of caching contexts is a sequence of events: a context is entered, or the innermost open context is left — normally,
or because an exception is passing through it (which may be caught at any outer level, or not at all).  Python runs
`tryBody ∘ beforeTry` on entry; on a normal exit `afterYield`, then the `finally` block, then the statements after the `try`;
on an exceptional exit only the `finally` block. -/
namespace C17.Toggle
open Gen.TogglePy

inductive Ev where
  | enter
  | leave (exc : Bool)
  deriving DecidableEq, Repr

def enter (s : St) : St := tryBody (beforeTry s)
def leave (exc : Bool) (s : St) : St :=
  if exc then finallyBlock s else afterTry (finallyBlock (afterYield s))
def step (s : St) : Ev → St
  | .enter => enter s
  | .leave e => leave e s
def run (s : St) (evs : List Ev) : St := evs.foldl step s

/-- number of contexts open after the events, starting with `d` open ones; `none` when an event leaves a context that is not open -/
def opens : Int → List Ev → Option Int
  | d, [] => some d
  | d, .enter :: r => opens (d + 1) r
  | d, .leave _ :: r => if 0 < d then opens (d - 1) r else none

/-- the counter is the number of open contexts, and the cache is on exactly while one is open -/
def Inv (d : Int) (s : St) : Prop := s.depth = d ∧ 0 ≤ d ∧ (s.on = true ↔ 0 < d)

theorem enter_inv (d : Int) (s : St) (h : Inv d s) : Inv (d + 1) (enter s) := by
  obtain ⟨h1, h2, h3⟩ := h
  simp only [Inv, enter, tryBody, beforeTry]
  by_cases hc : s.depth + 1 = 1
  · simp only [hc, beq_self_eq_true, if_true]
    exact ⟨by omega, by omega, by simp; omega⟩
  · have hb : (s.depth + 1 == 1) = false := by simpa using hc
    have hon : s.on = true := h3.mpr (by omega)
    simp only [hb, Bool.false_eq_true, if_false]
    exact ⟨by omega, by omega, by simp [hon]; omega⟩

theorem leave_inv (d : Int) (s : St) (e : Bool) (h : Inv d s) (hd : 0 < d) : Inv (d - 1) (leave e s) := by
  obtain ⟨h1, h2, h3⟩ := h
  have hon : s.on = true := h3.mpr hd
  have key : Inv (d - 1) (finallyBlock s) := by
    simp only [Inv, finallyBlock]
    by_cases hc : s.depth - 1 = 0
    · simp only [hc, beq_self_eq_true, if_true]
      exact ⟨by omega, by omega, by simp; omega⟩
    · have hb : (s.depth - 1 == 0) = false := by simpa using hc
      simp only [hb, Bool.false_eq_true, if_false]
      exact ⟨by omega, by omega, by simp [hon]; omega⟩
  cases e
  · simpa [leave, afterTry, afterYield] using key
  · simpa [leave] using key

/-- **Every reachable state**: after any sequence of events in which only open contexts are left — whatever mix of normal and
exceptional exits — the counter equals the number of open contexts and the cache is on exactly while one is open. -/
theorem run_inv (evs : List Ev) : ∀ (d : Int) (s : St) (d' : Int), Inv d s → opens d evs = some d' → Inv d' (run s evs) := by
  induction evs with
  | nil => intro d s d' h ho; simp only [opens, Option.some.injEq] at ho; subst ho; exact h
  | cons ev r ih =>
    intro d s d' h ho
    cases ev with
    | enter => exact ih (d + 1) (enter s) d' (enter_inv d s h) (by simpa [opens] using ho)
    | leave e =>
      simp only [opens] at ho
      split at ho
      · rename_i hd
        exact ih (d - 1) (leave e s) d' (leave_inv d s e h hd) ho
      · cases ho

theorem init_inv : Inv 0 init := by simp [Inv, init]

/-- **Once every caching context is left, the cache is off and the counter is back at zero** — also when some (or all) of the
contexts were left by an exception, caught at whatever level. -/
theorem all_left_cache_off (evs : List Ev) (h : opens 0 evs = some 0) : run init evs = init := by
  obtain ⟨h1, _, h3⟩ := run_inv evs 0 init 0 init_inv h
  have hoff : (run init evs).on = false := by
    cases hb : (run init evs).on
    · rfl
    · exact absurd (h3.mp hb) (by omega)
  cases hs : run init evs with
  | mk dp o =>
    rw [hs] at h1 hoff
    simp only at h1 hoff
    simp [init, h1, hoff]

/-- … and while a context is open the cache is on (the cache is what the context is for) -/
theorem open_cache_on (evs : List Ev) (d : Int) (h : opens 0 evs = some d) (hd : 0 < d) : (run init evs).on = true :=
  (run_inv evs 0 init d init_inv h).2.2.mpr hd

/-- non-vacuity: a nested context fails, the exception is caught inside the outer one, which then ends normally -/
example : opens 0 [.enter, .enter, .leave true, .leave false] = some 0 ∧
    run init [.enter, .enter, .leave true] = ⟨1, true⟩ := by decide

end C17.Toggle
