import ButlerModel.Model.Registry
import ButlerModel.Gen.SummaryPy
/-! # C02 — collections hold what the history says, one dataset per type + data ID -/
namespace C02
open Registry

/-- The table invariants. -/
structure Inv (s : St) : Prop where
  /-- UNIQUE (collection, dataset type, data ID) in the tag table. -/
  uniq : (s.mem.map (·.1)).Nodup
  /-- dataset ids are unique. -/
  ids : (s.datasets.map (·.id)).Nodup
  /-- every row describes an existing dataset with that type and data ID. -/
  rows : ∀ r ∈ s.mem, ∃ d ∈ s.datasets, d.id = r.2 ∧ d.ty = r.1.2.1 ∧ d.key = r.1.2.2
  /-- every dataset is a member of its RUN collection… -/
  inRun : ∀ d ∈ s.datasets, ((d.run, d.ty, d.key), d.id) ∈ s.mem
  /-- …which is a registered collection of type RUN. -/
  runType : ∀ d ∈ s.datasets, s.ctype d.run = some .run

theorem inv_init : Inv {} :=
  ⟨by simp, by simp, (fun r hr => by cases hr), (fun d hd => by cases hd), (fun d hd => by cases hd)⟩

theorem nodup_key_eq {α β : Type} (f : α → β) : ∀ (l : List α), (l.map f).Nodup →
    ∀ a b, a ∈ l → b ∈ l → f a = f b → a = b := by
  intro l
  induction l with
  | nil => intro _ a b ha; cases ha
  | cons x xs ih =>
    intro hn a b ha hb hk
    have hx : f x ∉ xs.map f ∧ (xs.map f).Nodup := by
      rw [List.map_cons] at hn; exact List.nodup_cons.mp hn
    rcases List.mem_cons.mp ha with e1 | e1 <;> rcases List.mem_cons.mp hb with e2 | e2
    · rw [e1, e2]
    · subst e1; exfalso; apply hx.1; rw [hk]; exact List.mem_map_of_mem e2
    · subst e2; exfalso; apply hx.1; rw [← hk]; exact List.mem_map_of_mem e1
    · exact ih hx.2 a b e1 e2 hk

/-- **No collection ever holds two datasets with the same dataset type and data ID.** -/
theorem unique_type_dataid (s : St) (h : Inv s) (r1 r2 : Row) (h1 : r1 ∈ s.mem) (h2 : r2 ∈ s.mem)
    (hk : r1.1 = r2.1) : r1 = r2 := nodup_key_eq (·.1) s.mem h.uniq r1 r2 h1 h2 hk

theorem lookup_none_not_mem (s : St) (c ty key : Nat) (h : s.lookup c ty key = none) :
    (c, ty, key) ∉ s.mem.map (·.1) := by
  intro hm
  simp only [List.mem_map] at hm
  obtain ⟨r, hr, hk⟩ := hm
  unfold St.lookup at h
  simp only [Option.map_eq_none_iff] at h
  have := List.find?_eq_none.mp h r hr
  simp [hk] at this

theorem ds_none_not_mem (s : St) (id : Nat) (h : s.ds id = none) : id ∉ s.datasets.map (·.id) := by
  intro hm
  simp only [List.mem_map] at hm
  obtain ⟨d, hd, hk⟩ := hm
  unfold St.ds at h
  have := List.find?_eq_none.mp h d hd
  simp [hk] at this

theorem ds_some_mem (s : St) (id : Nat) (d : Dataset) (h : s.ds id = some d) : d ∈ s.datasets ∧ d.id = id := by
  unfold St.ds at h
  exact ⟨List.mem_of_find?_eq_some h, by simpa using List.find?_some h⟩

theorem nodup_map_filter {α β : Type} (f : α → β) (p : α → Bool) (l : List α) (h : (l.map f).Nodup) :
    ((l.filter p).map f).Nodup := List.Nodup.sublist (List.Sublist.map _ List.filter_sublist) h

theorem ctype_cons_other (s : St) (c c' : Nat) (t : CType) (h : s.ctype c = none) (x : CType) (hx : s.ctype c' = some x) :
    ({ s with colls := (c, t) :: s.colls } : St).ctype c' = some x := by
  unfold St.ctype at *
  have hne : (c == c') = false := by
    simp; intro hc; subst hc; rw [h] at hx; cases hx
  simp only [List.find?_cons, hne]; exact hx

theorem ctype_filter_other (s : St) (c c' : Nat) (hne : c' ≠ c) :
    ({ s with colls := s.colls.filter (·.1 != c) } : St).ctype c' = s.ctype c' := by
  unfold St.ctype
  simp only []
  congr 1
  induction s.colls with
  | nil => rfl
  | cons x xs ih =>
    simp only [List.filter_cons]
    by_cases hx : x.1 = c
    · have h1 : (x.1 != c) = false := by simp [hx]
      have h2 : (x.1 == c') = false := by simp [hx]; exact fun hc => hne hc.symm
      simp only [h1, Bool.false_eq_true, ↓reduceIte, List.find?_cons, h2, ih]
    · have h1 : (x.1 != c) = true := by simp [hx]
      simp only [h1, ↓reduceIte, List.find?_cons, ih]

/-- Adding a dataset whose (run, type, data ID) slot and id are free keeps the invariants. -/
theorem inv_add (s : St) (h : Inv s) (id ty key run : Nat) (hl : s.lookup run ty key = none) (hd : s.ds id = none)
    (hr : s.ctype run = some .run) : Inv (addDataset s id ty key run) := by
  unfold addDataset
  refine ⟨?_, ?_, ?_, ?_, ?_⟩
  · simp only [List.map_cons]; exact List.nodup_cons.mpr ⟨lookup_none_not_mem s run ty key hl, h.uniq⟩
  · simp only [List.map_cons]; exact List.nodup_cons.mpr ⟨ds_none_not_mem s id hd, h.ids⟩
  · intro r hr'
    rcases List.mem_cons.mp hr' with e | e
    · subst e; exact ⟨⟨id, ty, key, run⟩, by simp, rfl, rfl, rfl⟩
    · obtain ⟨d, hd', h1⟩ := h.rows r e
      exact ⟨d, List.mem_cons_of_mem _ hd', h1⟩
  · intro d hd'
    rcases List.mem_cons.mp hd' with e | e
    · subst e; simp
    · exact List.mem_cons_of_mem _ (h.inRun d e)
  · intro d hd'
    rcases List.mem_cons.mp hd' with e | e
    · subst e; exact hr
    · exact h.runType d e

/-- What `associate` adds. -/
theorem assocAll_spec (s : St) (h : Inv s) (c : Nat) : ∀ (l : List Nat) (mem : List Row),
    assocAll s c l = .ok mem →
      (mem.map (·.1)).Nodup ∧ (∀ r ∈ s.mem, r ∈ mem) ∧
      (∀ r ∈ mem, r ∈ s.mem ∨ (r.1.1 = c ∧ ∃ d ∈ s.datasets, d.id = r.2 ∧ d.ty = r.1.2.1 ∧ d.key = r.1.2.2)) := by
  intro l
  induction l with
  | nil => intro mem hm; simp [assocAll] at hm; subst hm; exact ⟨h.uniq, fun r hr => hr, fun r hr => Or.inl hr⟩
  | cons d rest ih =>
    intro mem hm
    unfold assocAll at hm
    split at hm
    · cases hm
    · rename_i mem0 h0
      have ih0 := ih mem0 h0
      split at hm
      · cases hm
      · rename_i ds hds
        have hdm := ds_some_mem s d ds hds
        split at hm
        · rename_i hnone
          simp only [Except.ok.injEq] at hm; subst hm
          refine ⟨?_, fun r hr => List.mem_cons_of_mem _ (ih0.2.1 r hr), ?_⟩
          · simp only [List.map_cons]
            refine List.nodup_cons.mpr ⟨?_, ih0.1⟩
            intro hmem
            simp only [List.mem_map] at hmem
            obtain ⟨r, hr, hk⟩ := hmem
            simp only [Option.map_eq_none_iff] at hnone
            have := List.find?_eq_none.mp hnone r hr
            simp [hk] at this
          · intro r hr
            rcases List.mem_cons.mp hr with e | e
            · subst e; right; exact ⟨rfl, ds, hdm.1, hdm.2, rfl, rfl⟩
            · exact ih0.2.2 r e
        · split at hm
          · simp only [Except.ok.injEq] at hm; subst hm; exact ih0
          · cases hm

theorem inv_regColl (s : St) (h : Inv s) (c : Nat) (t : CType) : Inv (regColl s c t).1 := by
  unfold regColl
  split
  · split <;> exact h
  · rename_i hn
    exact ⟨h.uniq, h.ids, h.rows, h.inRun, fun d hd => ctype_cons_other s c d.run t hn _ (h.runType d hd)⟩

theorem inv_regType (s : St) (h : Inv s) (t defn : Nat) : Inv (regType s t defn).1 := by
  unfold regType
  split
  · split <;> exact h
  · exact ⟨h.uniq, h.ids, h.rows, h.inRun, h.runType⟩

theorem inv_insert (s : St) (h : Inv s) (id ty key run : Nat) : Inv (Registry.insert s id ty key run).1 := by
  unfold Registry.insert
  split
  · exact h
  · split
    · exact h
    · rename_i hrun
      split
      · exact h
      · rename_i hc
        simp only [Bool.or_eq_true, not_or, Bool.not_eq_true, Option.isSome_eq_false_iff, Option.isNone_iff_eq_none] at hc
        exact inv_add s h id ty key run hc.1 hc.2 hrun
    · exact h

theorem inv_importDs (s : St) (h : Inv s) (id ty key run : Nat) : Inv (importDs s id ty key run).1 := by
  unfold importDs
  split
  · exact h
  · split
    · exact h
    · rename_i hrun
      split
      · split <;> exact h
      · rename_i hnone
        split
        · exact h
        · rename_i hc
          simp only [Bool.not_eq_true, Option.isSome_eq_false_iff, Option.isNone_iff_eq_none] at hc
          exact inv_add s h id ty key run hc hnone hrun
    · exact h

theorem inv_associate (s : St) (h : Inv s) (c : Nat) (ds : List Nat) : Inv (associate s c ds).1 := by
  unfold associate
  split
  · split <;> exact h
  split
  · exact h
  · split
    · rename_i mem hm
      have sp := assocAll_spec s h c _ mem hm
      refine ⟨sp.1, h.ids, ?_, fun d hd => sp.2.1 _ (h.inRun d hd), h.runType⟩
      intro r hr
      rcases sp.2.2 r hr with e | e
      · exact h.rows r e
      · exact e.2
    · exact h
  · exact h

theorem inv_disassociate (s : St) (h : Inv s) (c : Nat) (ds : List Nat) : Inv (disassociate s c ds).1 := by
  unfold disassociate
  split
  · split <;> exact h
  split
  · exact h
  · rename_i hct
    refine ⟨nodup_map_filter _ _ _ h.uniq, h.ids, fun r hr => h.rows r (List.mem_filter.mp hr).1, ?_, h.runType⟩
    intro d hd
    apply List.mem_filter.mpr
    refine ⟨h.inRun d hd, ?_⟩
    -- the dataset's run is a RUN collection, `c` is TAGGED: the run row is never touched
    have hne : d.run ≠ c := by
      intro hc; have := h.runType d hd; rw [hc, hct] at this; cases this
    simp [hne]
  · exact h

theorem inv_removeDatasets (s : St) (h : Inv s) (ds : List Nat) : Inv (removeDatasets s ds).1 := by
  unfold removeDatasets
  split
  · exact h
  · refine ⟨nodup_map_filter _ _ _ h.uniq, nodup_map_filter _ _ _ h.ids, ?_, ?_, ?_⟩
    · intro r hr
      have hr' := List.mem_filter.mp hr
      obtain ⟨d, hd, h1⟩ := h.rows r hr'.1
      refine ⟨d, List.mem_filter.mpr ⟨hd, ?_⟩, h1⟩
      rw [h1.1]; exact hr'.2
    · intro d hd
      have hd' := List.mem_filter.mp hd
      exact List.mem_filter.mpr ⟨h.inRun d hd'.1, hd'.2⟩
    · intro d hd
      exact h.runType d (List.mem_filter.mp hd).1

theorem inv_removeCollection (s : St) (h : Inv s) (c : Nat) : Inv (removeCollection s c).1 := by
  unfold removeCollection
  split
  · exact h
  · rename_i t hct
    split
    · exact h
    · simp only []
      generalize hg : (if (t == CType.run) = true then (s.datasets.filter (·.run == c)).map (·.id) else []) = gone
      split
      · exact h
      · -- datasets that survive do not live in `c`
        have surv : ∀ d ∈ s.datasets, (!gone.contains d.id) = true → d.run ≠ c := by
          intro d hd hnot hrun
          have hrt := h.runType d hd
          rw [hrun, hct] at hrt
          simp only [Option.some.injEq] at hrt
          subst hrt
          rw [← hg] at hnot
          simp only [beq_self_eq_true, ↓reduceIte, Bool.not_eq_eq_eq_not, Bool.not_true, List.contains_eq_mem,
            decide_eq_false_iff_not, List.mem_map, List.mem_filter, beq_iff_eq, not_exists, not_and] at hnot
          exact hnot d ⟨hd, hrun⟩ rfl
        refine ⟨nodup_map_filter _ _ _ h.uniq, nodup_map_filter _ _ _ h.ids, ?_, ?_, ?_⟩
        · intro r hr
          have hr' := List.mem_filter.mp hr
          obtain ⟨d, hd, h1⟩ := h.rows r hr'.1
          refine ⟨d, List.mem_filter.mpr ⟨hd, ?_⟩, h1⟩
          have := hr'.2
          simp only [Bool.and_eq_true] at this
          rw [h1.1]; exact this.2
        · intro d hd
          have hd' := List.mem_filter.mp hd
          refine List.mem_filter.mpr ⟨h.inRun d hd'.1, ?_⟩
          have hne := surv d hd'.1 hd'.2
          simp only [Bool.and_eq_true]
          exact ⟨by simp [hne], hd'.2⟩
        · intro d hd
          have hd' := List.mem_filter.mp hd
          have hne := surv d hd'.1 hd'.2
          have := ctype_filter_other s c d.run hne
          unfold St.ctype at this ⊢
          simp only [] at this ⊢
          rw [this]
          exact h.runType d hd'.1

theorem inv_setChain (s : St) (h : Inv s) (c : Nat) (kids : List Nat) : Inv (setChain s c kids).1 := by
  unfold setChain
  split
  · exact ⟨h.uniq, h.ids, h.rows, h.inRun, h.runType⟩
  · exact h

theorem inv_store (s : St) (h : Inv s) (id : Nat) : Inv (store s id).1 := by
  unfold store
  split
  · exact ⟨h.uniq, h.ids, h.rows, h.inRun, h.runType⟩
  · exact h

/-- **Every operation, accepted or refused, keeps the invariants** (for all arguments, valid or not). -/
theorem inv_step (s : St) (h : Inv s) (op : Op) : Inv (step s op).1 := by
  cases op with
  | regColl c t => exact inv_regColl s h c t
  | regType t defn => exact inv_regType s h t defn
  | insert id ty key run => exact inv_insert s h id ty key run
  | importDs id ty key run => exact inv_importDs s h id ty key run
  | associate c ds => exact inv_associate s h c ds
  | disassociate c ds => exact inv_disassociate s h c ds
  | removeDatasets ds => exact inv_removeDatasets s h ds
  | removeCollection c => exact inv_removeCollection s h c
  | setChain c kids => exact inv_setChain s h c kids
  | store id => exact inv_store s h id
  | unstore id => exact ⟨h.uniq, h.ids, h.rows, h.inRun, h.runType⟩

/-- The datasets of the new state: either old ones, or the freshly added one. -/
theorem datasets_step (s : St) (op : Op) :
    ∀ d ∈ (step s op).1.datasets, d ∈ s.datasets ∨
      (s.ds d.id = none ∧ (∃ ty key run, op = .insert d.id ty key run ∨ op = .importDs d.id ty key run)) := by
  intro d hd
  cases op with
  | regColl c t => left; simp only [step, regColl] at hd; split at hd <;> (try split at hd) <;> exact hd
  | regType t defn => left; simp only [step, regType] at hd; split at hd <;> (try split at hd) <;> exact hd
  | insert id ty key run =>
    simp only [step, Registry.insert] at hd
    split at hd
    · left; exact hd
    · split at hd
      · left; exact hd
      · split at hd
        · left; exact hd
        · rename_i hc
          simp only [Bool.or_eq_true, not_or, Bool.not_eq_true, Option.isSome_eq_false_iff, Option.isNone_iff_eq_none] at hc
          simp only [addDataset, List.mem_cons] at hd
          rcases hd with e | e
          · right; subst e; exact ⟨hc.2, ty, key, run, Or.inl rfl⟩
          · left; exact e
      · left; exact hd
  | importDs id ty key run =>
    simp only [step, importDs] at hd
    split at hd
    · left; exact hd
    · split at hd
      · left; exact hd
      · split at hd
        · left; split at hd <;> exact hd
        · rename_i hnone
          split at hd
          · left; exact hd
          · simp only [addDataset, List.mem_cons] at hd
            rcases hd with e | e
            · right; subst e; exact ⟨hnone, ty, key, run, Or.inr rfl⟩
            · left; exact e
      · left; exact hd
  | associate c ds => left; simp only [step, associate] at hd; repeat' split at hd
                      all_goals exact hd
  | disassociate c ds => left; simp only [step, disassociate] at hd; repeat' split at hd
                         all_goals exact hd
  | removeDatasets ds =>
    left; simp only [step, removeDatasets] at hd
    split at hd
    · exact hd
    · exact (List.mem_filter.mp hd).1
  | removeCollection c =>
    left; simp only [step, removeCollection] at hd
    repeat' split at hd
    all_goals first | exact hd | exact (List.mem_filter.mp hd).1
  | setChain c kids => left; simp only [step, setChain] at hd; split at hd <;> exact hd
  | store id => left; simp only [step, store] at hd; split at hd <;> exact hd
  | unstore id => left; exact hd

/-- **A dataset's type, data ID and run never change**: whatever operation is applied, a dataset
id that exists before and after denotes the very same (type, data ID, run). -/
theorem one_run_forever (s : St) (h : Inv s) (op : Op) (d d' : Dataset)
    (hd : d ∈ (step s op).1.datasets) (hd' : d' ∈ s.datasets) (hid : d.id = d'.id) : d = d' := by
  rcases datasets_step s op d hd with e | e
  · exact nodup_key_eq (·.id) s.datasets h.ids d d' e hd' hid
  · exfalso
    exact ds_none_not_mem s d.id e.1 (by rw [hid]; exact List.mem_map_of_mem hd')

/-- **A refused operation changes nothing.** (`isErr` = the reply is one of the error replies.) -/
def isErr (r : String) : Bool := r != "ok" && r != "True" && r != "False"

theorem step_same_or_ok (s : St) (op : Op) :
    (step s op).1 = s ∨ (step s op).2 = "ok" ∨ (step s op).2 = "True" ∨ (step s op).2 = "False" := by
  cases op with
  | regColl c t => simp only [step, regColl]; repeat' split
                   all_goals first | (left; rfl) | (right; simp)
  | regType t defn => simp only [step, regType]; repeat' split
                      all_goals first | (left; rfl) | (right; simp)
  | insert id ty key run => simp only [step, Registry.insert]; repeat' split
                            all_goals first | (left; rfl) | (right; simp)
  | importDs id ty key run => simp only [step, importDs]; repeat' split
                              all_goals first | (left; rfl) | (right; simp)
  | associate c ds => simp only [step, associate]; repeat' split
                      all_goals first | (left; rfl) | (right; simp)
  | disassociate c ds => simp only [step, disassociate]; repeat' split
                         all_goals first | (left; rfl) | (right; simp)
  | removeDatasets ds => simp only [step, removeDatasets]; repeat' split
                         all_goals first | (left; rfl) | (right; simp)
  | removeCollection c => simp only [step, removeCollection]; repeat' split
                          all_goals first | (left; rfl) | (right; simp)
  | setChain c kids => simp only [step, setChain]; repeat' split
                       all_goals first | (left; rfl) | (right; simp)
  | store id => simp only [step, store]; repeat' split
                all_goals first | (left; rfl) | (right; simp)
  | unstore id => right; simp [step, unstore]

theorem refusal_changes_nothing (s : St) (op : Op) (h : isErr (step s op).2 = true) : (step s op).1 = s := by
  rcases step_same_or_ok s op with e | e | e | e
  · exact e
  all_goals (rw [e] at h; simp [isErr] at h)

/-- **TAGGED membership changes only through associate / disassociate / dataset or collection removal**:
registrations, insertions, imports, chain edits and datastore bookkeeping never touch a TAGGED collection. -/
theorem tagged_only_by_associate (s : St) (h : Inv s) (op : Op) (c : Nat) (hc : s.ctype c = some .tagged)
    (hop : match op with
      | .associate _ _ | .disassociate _ _ | .removeDatasets _ | .removeCollection _ => False
      | _ => True) :
    (step s op).1.members c = s.members c := by
  have addm : ∀ id ty key run, s.ctype run = some .run → (addDataset s id ty key run).members c = s.members c := by
    intro id ty key run hr
    have hne : (run == c) = false := by
      simp; intro e; rw [e, hc] at hr; cases hr
    simp [St.members, addDataset, List.filter_cons, hne]
  cases op with
  | regColl c' t => simp only [step, regColl]; split <;> (try split) <;> rfl
  | regType t defn => simp only [step, regType]; split <;> (try split) <;> rfl
  | insert id ty key run =>
    simp only [step, Registry.insert]
    split
    · rfl
    · split
      · rfl
      · rename_i hr
        split
        · rfl
        · exact addm id ty key run hr
      · rfl
  | importDs id ty key run =>
    simp only [step, importDs]
    split
    · rfl
    · split
      · rfl
      · rename_i hr
        split
        · split <;> rfl
        · split
          · rfl
          · exact addm id ty key run hr
      · rfl
  | associate _ _ => exact absurd hop (by simp)
  | disassociate _ _ => exact absurd hop (by simp)
  | removeDatasets _ => exact absurd hop (by simp)
  | removeCollection _ => exact absurd hop (by simp)
  | setChain c' kids => simp only [step, setChain]; split <;> rfl
  | store id => simp only [step, store]; split <;> rfl
  | unstore id => rfl

/-- …hence after **any history** of operations. -/
theorem inv_run (ops : List Op) : ∀ (s : St), Inv s → Inv (run s ops) := by
  induction ops with
  | nil => intro s h; exact h
  | cons op ops ih => intro s h; exact ih _ (inv_step s h op)

theorem inv_history (ops : List Op) : Inv (run {} ops) := inv_run ops {} inv_init

end C02

/-! ### Collection summaries as generated from the source on every run (`Gen/SummaryPy.lean`, `translate/gen_summary.py`) -/
namespace C02.Translated
open Summ Gen.SummaryPy

theorem vals_addVal (g : Gov) (k v k' : Nat) (x : Nat) :
    x ∈ vals (addVal g k v) k' ↔ (x ∈ vals g k' ∨ (k' = k ∧ x = v)) := by
  induction g with
  | nil =>
    simp only [addVal, vals, List.find?]
    by_cases h : k = k'
    · subst h; simp
    · have : (k == k') = false := by simpa using h
      simp [this]; intro h1; exact absurd h1.symm h
  | cons e r ih =>
    obtain ⟨ke, vs⟩ := e
    simp only [addVal]
    by_cases hk : ke = k
    · subst hk
      simp only [beq_self_eq_true, if_true]
      by_cases hk' : ke = k'
      · subst hk'
        simp only [vals, List.find?, beq_self_eq_true]
        by_cases hc : vs.contains v = true
        · simp only [hc, if_true]
          constructor
          · exact Or.inl
          · rintro (h | ⟨_, rfl⟩)
            · exact h
            · simpa using hc
        · simp only [hc, Bool.false_eq_true, if_false, List.mem_cons]
          constructor
          · rintro (h | h)
            · exact Or.inr ⟨trivial, h⟩
            · exact Or.inl h
          · rintro (h | ⟨_, h⟩)
            · exact Or.inr h
            · exact Or.inl h
      · have hb : (ke == k') = false := by simpa using hk'
        simp only [vals, List.find?, hb]
        constructor
        · exact Or.inl
        · rintro (h | ⟨h, _⟩)
          · exact h
          · exact absurd h.symm hk'
    · have hb : (ke == k) = false := by simpa using hk
      simp only [hb, Bool.false_eq_true, if_false]
      by_cases hk' : ke = k'
      · subst hk'
        simp only [vals, List.find?, beq_self_eq_true]
        constructor
        · exact Or.inl
        · rintro (h | ⟨h, _⟩)
          · exact h
          · exact absurd h hk
      · have hb' : (ke == k') = false := by simpa using hk'
        have : vals ((ke, vs) :: addVal r k v) k' = vals (addVal r k v) k' := by simp [vals, List.find?, hb']
        have h2 : vals ((ke, vs) :: r) k' = vals r k' := by simp [vals, List.find?, hb']
        rw [this, h2]; exact ih

theorem keys_addVal (g : Gov) (k v k' : Nat) : k' ∈ keys (addVal g k v) ↔ (k' ∈ keys g ∨ k' = k) := by
  induction g with
  | nil => simp [addVal, keys]
  | cons e r ih =>
    obtain ⟨ke, vs⟩ := e
    simp only [addVal]
    by_cases hk : ke = k
    · subst hk
      simp only [beq_self_eq_true, if_true, keys, List.map_cons, List.mem_cons]
      constructor
      · rintro (h | h)
        · exact Or.inl (Or.inl h)
        · exact Or.inl (Or.inr h)
      · rintro ((h | h) | h)
        · exact Or.inl h
        · exact Or.inr h
        · exact Or.inl h
    · have hb : (ke == k) = false := by simpa using hk
      simp only [hb, Bool.false_eq_true, if_false, keys, List.map_cons, List.mem_cons]
      have ih' : k' ∈ List.map (fun x => x.fst) (addVal r k v) ↔ (k' ∈ List.map (fun x => x.fst) r ∨ k' = k) := ih
      rw [ih']
      constructor
      · rintro (h | h | h)
        · exact Or.inl (Or.inl h)
        · exact Or.inl (Or.inr h)
        · exact Or.inr h
      · rintro ((h | h) | h)
        · exact Or.inl h
        · exact Or.inr (Or.inl h)
        · exact Or.inr (Or.inr h)

/-- adding the governor values of one data ID -/
def addOne (g : Gov) (d : List (Nat × Nat)) : Gov := (govsOf d).foldl (fun g gov => addVal g gov (valOf d gov)) g

theorem addOne_mono_aux (d : List (Nat × Nat)) : ∀ (gs : List Nat) (g : Gov) (k x : Nat),
    x ∈ vals g k → x ∈ vals (gs.foldl (fun g gov => addVal g gov (valOf d gov)) g) k := by
  intro gs
  induction gs with
  | nil => intro g k x h; exact h
  | cons a r ih =>
    intro g k x h
    simp only [List.foldl_cons]
    exact ih _ k x ((vals_addVal g a _ k x).mpr (Or.inl h))

theorem addOne_has_aux (d : List (Nat × Nat)) : ∀ (gs : List Nat) (g : Gov) (k : Nat), k ∈ gs →
    valOf d k ∈ vals (gs.foldl (fun g gov => addVal g gov (valOf d gov)) g) k := by
  intro gs
  induction gs with
  | nil => intro g k h; cases h
  | cons a r ih =>
    intro g k h
    simp only [List.foldl_cons]
    rcases List.mem_cons.mp h with rfl | h'
    · exact addOne_mono_aux d r _ k _ ((vals_addVal g k _ k _).mpr (Or.inr ⟨rfl, rfl⟩))
    · exact ih _ k h'

theorem fold_mono : ∀ (D : List (List (Nat × Nat))) (g : Gov) (k x : Nat), x ∈ vals g k → x ∈ vals (D.foldl addOne g) k := by
  intro D
  induction D with
  | nil => intro g k x h; exact h
  | cons d r ih => intro g k x h; simp only [List.foldl_cons]; exact ih _ k x (addOne_mono_aux d _ g k x h)

theorem fold_has : ∀ (D : List (List (Nat × Nat))) (g : Gov) (d : List (Nat × Nat)) (k : Nat), d ∈ D → k ∈ govsOf d →
    valOf d k ∈ vals (D.foldl addOne g) k := by
  intro D
  induction D with
  | nil => intro g d k h; cases h
  | cons e r ih =>
    intro g d k h hk
    simp only [List.foldl_cons]
    rcases List.mem_cons.mp h with rfl | h'
    · exact fold_mono r _ k _ (addOne_has_aux d _ g k hk)
    · exact ih _ d k h' hk

theorem addDataIds_eq (ts : List Nat) (g : Gov) (t : Nat) (D : List (List (Nat × Nat))) :
    addDataIds ts g t D = (addType ts t, D.foldl addOne g) := rfl

/-- **A summary never hides a dataset**: after the data IDs `D` of datasets of type `t` have been added to a summary (whatever it
held before), `is_compatible_with` answers `True` for every constraint that some dataset of `D` satisfies — so a collection holding
a matching dataset is never pruned from a query.  (`typeDims`: the dataset type's dimensions, whose governors every data ID of the
type has.) -/
theorem summary_never_hides (ts : List Nat) (g : Gov) (t : Nat) (D : List (List (Nat × Nat))) (typeDims : List Nat) (dims : Gov)
    (d : List (Nat × Nat)) (hd : d ∈ D)
    (hgov : ∀ k, k ∈ typeDims → k ∈ keys (addDataIds ts g t D).2 → k ∈ keys dims → k ∈ govsOf d)
    (hsat : ∀ k, k ∈ govsOf d → k ∈ keys dims → valOf d k ∈ vals dims k) :
    isCompatibleWith (addDataIds ts g t D).1 (addDataIds ts g t D).2 t typeDims dims = true := by
  rw [addDataIds_eq] at hgov ⊢
  simp only [isCompatibleWith]
  have ht : (addType ts t).contains t = true := by
    unfold addType
    by_cases h : ts.contains t = true
    · rw [if_pos h]; exact h
    · rw [if_neg h]; simp
  simp only [ht, Bool.not_true, Bool.false_eq_true, if_false, List.all_eq_true, List.mem_filter, Bool.and_eq_true,
    List.contains_eq_mem, decide_eq_true_eq, Bool.not_eq_true']
  rintro k ⟨hk1, hk2, hk3⟩
  have hkd : k ∈ govsOf d := hgov k hk2 hk1 hk3
  have h1 : valOf d k ∈ vals (D.foldl addOne g) k := fold_has D g d k hd hkd
  have h2 : valOf d k ∈ vals dims k := hsat k hkd hk3
  -- not disjoint: the value is on both sides
  cases hdis : disjoint (vals (D.foldl addOne g) k) (vals dims k) with
  | false => rfl
  | true =>
    simp only [disjoint, List.all_eq_true, Bool.not_eq_true', List.contains_eq_mem, decide_eq_false_iff_not] at hdis
    exact absurd h2 (hdis _ h1)

/-- non-vacuity: two datasets of type 7 with instrument (governor 1) values 10 and 11: a query for instrument 11 keeps the
collection, a query for instrument 12 may drop it -/
example :
    let s := addDataIds [] [] 7 [[(1, 10)], [(1, 11)]]
    isCompatibleWith s.1 s.2 7 [1, 2] [(1, [11])] = true ∧ isCompatibleWith s.1 s.2 7 [1, 2] [(1, [12])] = false ∧
    isCompatibleWith s.1 s.2 8 [1, 2] [] = false := by decide

end C02.Translated
