import ButlerModel.Model.Predicate
import ButlerModel.Model.NormalForm
import ButlerModel.Gen.PredicatePy
/-! # C15 — boolean rewriting of predicates preserves their truth table (new query system)

All theorems hold for **every** predicate, every number of operands and every assignment of the
atoms to SQL truth values (Kleene logic; two-valued logic is the special case without `n`). -/
namespace C15
open Pred K3

@[simp] theorem evalGroup_nil (σ) : evalGroup σ [] = .ff := rfl
@[simp] theorem evalGroup_cons (σ) (l : Leaf) (g) : evalGroup σ (l :: g) = or3 (evalLeaf σ l) (evalGroup σ g) := rfl
@[simp] theorem eval_nil (σ) : eval σ [] = .tt := rfl
@[simp] theorem eval_cons (σ) (g : List Leaf) (p) : eval σ (g :: p) = and3 (evalGroup σ g) (eval σ p) := rfl

theorem evalLeaf_invert (σ) (l : Leaf) : evalLeaf σ l.invert = not3 (evalLeaf σ l) := by
  cases l <;> simp [Leaf.invert, evalLeaf]

theorem evalGroup_append (σ) (a b : List Leaf) :
    evalGroup σ (a ++ b) = or3 (evalGroup σ a) (evalGroup σ b) := by
  induction a with
  | nil => simp
  | cons x xs ih => simp [ih, or3_assoc]

theorem eval_append (σ) (a b : Operands) : eval σ (a ++ b) = and3 (eval σ a) (eval σ b) := by
  induction a with
  | nil => simp
  | cons x xs ih => simp [ih, and3_assoc]

/-- `_impl_and` is conjunction. -/
theorem eval_implAnd (σ) (a b : Operands) : eval σ (implAnd a b) = and3 (eval σ a) (eval σ b) :=
  eval_append σ a b

/-- The `a is b` shortcut of `_impl_and` (returning `a` instead of `a + a`) has the same meaning. -/
theorem eval_and_self (σ) (a : Operands) : and3 (eval σ a) (eval σ a) = eval σ a := by
  cases eval σ a <;> rfl

theorem eval_map_append (σ) (x : List Leaf) (b : Operands) :
    eval σ (b.map (fun y => x ++ y)) = or3 (evalGroup σ x) (eval σ b) := by
  induction b with
  | nil => simp
  | cons y ys ih => simp [ih, evalGroup_append, or3_and3_distrib_left]

/-- `_impl_or` (the Cartesian product of OR-groups) is disjunction. -/
theorem eval_implOr (σ) (a b : Operands) : eval σ (implOr a b) = or3 (eval σ a) (eval σ b) := by
  unfold implOr
  induction a with
  | nil => simp
  | cons x xs ih =>
    simp only [List.flatMap_cons, eval_append, eval_map_append, ih, eval_cons]
    rw [or3_and3_distrib_right]

/-- `from_bool`: `()` is TRUE and `((),)` is FALSE. -/
theorem eval_fromBool (σ) (v : Bool) : eval σ (fromBool v) = if v then .tt else .ff := by
  cases v <;> simp [fromBool]

theorem eval_foldl_and (σ) (args : List Operands) (self : Operands) :
    eval σ (args.foldl implAnd self) = args.foldl (fun acc p => and3 acc (eval σ p)) (eval σ self) := by
  induction args generalizing self with
  | nil => rfl
  | cons a as ih => simp [ih, eval_implAnd]

theorem eval_false_of_empty_group (σ) (p : Operands) (h : (p.all (fun g => !g.isEmpty)) = false) :
    eval σ p = .ff := by
  induction p with
  | nil => simp at h
  | cons g gs ih =>
    simp only [List.all_cons, Bool.and_eq_false_iff] at h
    rcases h with h | h
    · cases g with
      | nil => simp
      | cons _ _ => simp at h
    · simp [ih h]

/-- n-ary `logical_and`, including the "some operand is FALSE ⇒ collapse to FALSE" simplification. -/
theorem eval_logicalAnd (σ) (self : Operands) (args : List Operands) :
    eval σ (logicalAnd self args) = args.foldl (fun acc p => and3 acc (eval σ p)) (eval σ self) := by
  unfold logicalAnd
  simp only []
  split
  · rename_i h
    rw [← eval_foldl_and]
    have : (List.foldl implAnd self args).all (fun g => !g.isEmpty) = false := by
      cases hh : (List.foldl implAnd self args).all (fun g => !g.isEmpty) <;> simp_all
    rw [eval_false_of_empty_group σ _ this]; rfl
  · exact eval_foldl_and σ args self

/-- Identity flags are only ever set when the operand really is the accumulated value. -/
def Consistent : Operands → List (Bool × Operands) → Prop
  | _, [] => True
  | acc, b :: bs => (b.1 = true → b.2 = acc) ∧ Consistent (implAndId acc b) bs

theorem eval_foldl_andId (σ) (args : List (Bool × Operands)) (self : Operands) (h : Consistent self args) :
    eval σ (args.foldl implAndId self) = args.foldl (fun acc p => and3 acc (eval σ p.2)) (eval σ self) := by
  induction args generalizing self with
  | nil => rfl
  | cons a as ih =>
    simp only [List.foldl_cons]
    rw [ih _ h.2]
    congr 1
    unfold implAndId
    split
    · rename_i hb
      rw [h.1 hb]; exact (eval_and_self σ self).symm
    · exact eval_append σ self a.2

/-- n-ary `logical_and` *including* the `a is b` shortcut of `_impl_and`. -/
theorem eval_logicalAndId (σ) (self : Operands) (args : List (Bool × Operands)) (h : Consistent self args) :
    eval σ (logicalAndId self args) = args.foldl (fun acc p => and3 acc (eval σ p.2)) (eval σ self) := by
  unfold logicalAndId
  simp only []
  split
  · rename_i hh
    rw [← eval_foldl_andId σ args self h]
    have : (List.foldl implAndId self args).all (fun g => !g.isEmpty) = false := by
      cases hx : (List.foldl implAndId self args).all (fun g => !g.isEmpty) <;> simp_all
    rw [eval_false_of_empty_group σ _ this]; rfl
  · exact eval_foldl_andId σ args self h

/-- n-ary `logical_or`. -/
theorem eval_logicalOr (σ) (self : Operands) (args : List Operands) :
    eval σ (logicalOr self args) = args.foldl (fun acc p => or3 acc (eval σ p)) (eval σ self) := by
  unfold logicalOr
  induction args generalizing self with
  | nil => rfl
  | cons a as ih => simp [ih, eval_implOr]

theorem eval_notGroup (σ) (g : List Leaf) (acc : Operands) :
    eval σ (g.foldl (fun ng leaf => implAnd ng [[leaf.invert]]) acc) =
      and3 (eval σ acc) (not3 (evalGroup σ g)) := by
  induction g generalizing acc with
  | nil => simp [not3]
  | cons l ls ih =>
    simp only [List.foldl_cons, ih, eval_implAnd, eval_cons, evalGroup_cons, evalGroup_nil, eval_nil,
      evalLeaf_invert, not3_or3, or3_f_right, and3_t_right, and3_assoc]

theorem eval_notFold (σ) (p acc : Operands) :
    eval σ (p.foldl (fun acc g => implOr acc (g.foldl (fun ng leaf => implAnd ng [[leaf.invert]]) [])) acc) =
      or3 (eval σ acc) (not3 (eval σ p)) := by
  induction p generalizing acc with
  | nil => simp [not3]
  | cons g gs ih =>
    simp only [List.foldl_cons, ih, eval_implOr, eval_notGroup, eval_nil, and3_t_left, eval_cons, not3_and3,
      or3_assoc]

/-- `logical_not` is negation (De Morgan through `_impl_or`/`_impl_and`), for every predicate. -/
theorem eval_logicalNot (σ) (p : Operands) : eval σ (logicalNot p) = not3 (eval σ p) := by
  unfold logicalNot
  rw [eval_notFold]; simp

theorem not_involutive (σ) (p : Operands) : eval σ (logicalNot (logicalNot p)) = eval σ p := by
  simp [eval_logicalNot]

/-! ## rewriting visitors preserve the truth table when each replacement is equivalent to its leaf -/

theorem foldl_or_zip (σ) (f : Nat → Option Operands) (hf : ∀ k r, f k = some r → eval σ r = σ k) :
    ∀ (g : List Leaf) (acc : K3),
      (List.zipWith (fun o r => (r : Option Operands).getD [[o]]) g (g.map (visitLeaf f))).foldl
          (fun a p => or3 a (eval σ p)) acc = or3 acc (evalGroup σ g) := by
  intro g
  induction g with
  | nil => intro acc; simp
  | cons l ls ih =>
    intro acc
    simp only [List.map_cons, List.zipWith_cons_cons, List.foldl_cons, ih, evalGroup_cons]
    have hl : eval σ ((visitLeaf f l).getD [[l]]) = evalLeaf σ l := by
      cases l with
      | pos k =>
        simp only [visitLeaf]
        cases hk : f k with
        | none => simp [evalLeaf]
        | some r => simp [hf k r hk, evalLeaf]
      | neg k =>
        simp only [visitLeaf]
        cases hk : f k with
        | none => simp [evalLeaf]
        | some r => simp [eval_logicalNot, evalLeaf]
    rw [hl, or3_assoc]

theorem visitOr_preserves (σ) (f : Nat → Option Operands) (hf : ∀ k r, f k = some r → eval σ r = σ k)
    (g : List Leaf) (r : Operands) (h : visitOr f g = some r) : eval σ r = evalGroup σ g := by
  unfold visitOr at h
  simp only [] at h
  split at h
  · cases h
  · simp only [Option.some.injEq] at h
    subst h
    rw [eval_logicalOr, foldl_or_zip σ f hf]
    simp [fromBool]

theorem foldl_and_zip (σ) (f : Nat → Option Operands) (hf : ∀ k r, f k = some r → eval σ r = σ k) :
    ∀ (p : Operands) (acc : K3),
      (List.zipWith (fun o r => (r : Option Operands).getD [o]) p (p.map (visitOr f))).foldl
          (fun a q => and3 a (eval σ q)) acc = and3 acc (eval σ p) := by
  intro p
  induction p with
  | nil => intro acc; simp
  | cons g gs ih =>
    intro acc
    simp only [List.map_cons, List.zipWith_cons_cons, List.foldl_cons, ih, eval_cons]
    have hg : eval σ ((visitOr f g).getD [g]) = evalGroup σ g := by
      cases hv : visitOr f g with
      | none => simp
      | some r => simp [visitOr_preserves σ f hf g r hv]
    rw [hg, and3_assoc]

/-- **A rewriting visitor that replaces leaves by equivalent predicates yields an equivalent
predicate** (also for leaves under NOT, for every predicate and assignment). -/
theorem rewrite_preserves (σ) (f : Nat → Option Operands) (hf : ∀ k r, f k = some r → eval σ r = σ k)
    (p : Operands) : eval σ (rewrite f p) = eval σ p := by
  unfold rewrite
  cases hv : visitAnd f p with
  | none => rfl
  | some r =>
    unfold visitAnd at hv
    simp only [] at hv
    split at hv
    · cases hv
    · simp only [Option.some.injEq] at hv
      subst hv
      simp only [Option.getD_some]
      rw [eval_logicalAnd, foldl_and_zip σ f hf]
      simp [fromBool]

/-! ## what a rewriting visitor computes in general (replacements need not be equivalent) -/

/-- the value a leaf contributes after rewriting: a replaced positive leaf takes the value of its
replacement; a leaf under NOT is rebuilt from the original (`apply_logical_not` ignores the result) -/
def evalLeafR (σ : Nat → K3) (f : Nat → Option Operands) : Leaf → K3
  | .pos k => match f k with
    | none => σ k
    | some r => eval σ r
  | .neg k => not3 (σ k)
def evalGroupR (σ : Nat → K3) (f : Nat → Option Operands) (g : List Leaf) : K3 := g.foldr (fun l acc => or3 (evalLeafR σ f l) acc) .ff
def evalR (σ : Nat → K3) (f : Nat → Option Operands) (p : Operands) : K3 := p.foldr (fun g acc => and3 (evalGroupR σ f g) acc) .tt

theorem evalLeafR_getD (σ) (f : Nat → Option Operands) (l : Leaf) : eval σ ((visitLeaf f l).getD [[l]]) = evalLeafR σ f l := by
  cases l with
  | pos k =>
    simp only [visitLeaf, evalLeafR]
    cases hk : f k with
    | none => simp [evalLeaf]
    | some r => simp
  | neg k =>
    simp only [visitLeaf, evalLeafR]
    cases hk : f k with
    | none => simp [evalLeaf]
    | some r => simp [eval_logicalNot, evalLeaf]

theorem foldl_or_zipR (σ) (f : Nat → Option Operands) :
    ∀ (g : List Leaf) (acc : K3),
      (List.zipWith (fun o r => (r : Option Operands).getD [[o]]) g (g.map (visitLeaf f))).foldl
          (fun a p => or3 a (eval σ p)) acc = or3 acc (evalGroupR σ f g) := by
  intro g
  induction g with
  | nil => intro acc; simp [evalGroupR]
  | cons l ls ih =>
    intro acc
    simp only [List.map_cons, List.zipWith_cons_cons, List.foldl_cons, ih, evalLeafR_getD]
    simp only [evalGroupR, List.foldr_cons, or3_assoc]

theorem evalGroupR_none (σ) (f : Nat → Option Operands) : ∀ (g : List Leaf), (g.map (visitLeaf f)).all Option.isNone = true →
    evalGroupR σ f g = evalGroup σ g
  | [], _ => rfl
  | l :: ls, h => by
    simp only [List.map_cons, List.all_cons, Bool.and_eq_true] at h
    have hl : evalLeafR σ f l = evalLeaf σ l := by
      cases l with
      | pos k =>
        simp only [visitLeaf] at h
        cases hk : f k with
        | none => simp [evalLeafR, evalLeaf, hk]
        | some r => simp [hk] at h
      | neg k => simp [evalLeafR, evalLeaf]
    have := evalGroupR_none σ f ls h.2
    simp only [evalGroupR, List.foldr_cons] at this ⊢
    rw [hl, this]
    rfl

theorem visitOr_characterised (σ) (f : Nat → Option Operands) (g : List Leaf) :
    eval σ ((visitOr f g).getD [g]) = evalGroupR σ f g := by
  unfold visitOr
  simp only []
  split
  · rename_i h
    simp [evalGroupR_none σ f g h]
  · simp only [Option.getD_some]
    rw [eval_logicalOr, foldl_or_zipR]
    simp [fromBool]

theorem foldl_and_zipR (σ) (f : Nat → Option Operands) :
    ∀ (p : Operands) (acc : K3),
      (List.zipWith (fun o r => (r : Option Operands).getD [o]) p (p.map (visitOr f))).foldl
          (fun a q => and3 a (eval σ q)) acc = and3 acc (evalR σ f p) := by
  intro p
  induction p with
  | nil => intro acc; simp [evalR]
  | cons g gs ih =>
    intro acc
    simp only [List.map_cons, List.zipWith_cons_cons, List.foldl_cons, ih, visitOr_characterised]
    simp only [evalR, List.foldr_cons, and3_assoc]

theorem evalR_none (σ) (f : Nat → Option Operands) : ∀ (p : Operands), (p.map (visitOr f)).all Option.isNone = true →
    evalR σ f p = eval σ p
  | [], _ => rfl
  | g :: gs, h => by
    simp only [List.map_cons, List.all_cons, Bool.and_eq_true] at h
    have hg : evalGroupR σ f g = evalGroup σ g := by
      have h1 := h.1
      unfold visitOr at h1
      simp only [] at h1
      split at h1
      · rename_i hh; exact evalGroupR_none σ f g hh
      · simp at h1
    have := evalR_none σ f gs h.2
    simp only [evalR, List.foldr_cons] at this ⊢
    rw [hg, this]
    rfl

/-- **What a rewriting visitor yields, for arbitrary replacements**: the original conjunction of
disjunctions with every replaced positive leaf evaluated as its replacement (constants, other leaves,
compound predicates alike) and every other leaf as itself. -/
theorem rewrite_characterised (σ) (f : Nat → Option Operands) (p : Operands) : eval σ (rewrite f p) = evalR σ f p := by
  unfold rewrite visitAnd
  simp only []
  split
  · rename_i h
    simp [evalR_none σ f p h]
  · simp only [Option.getD_some]
    rw [eval_logicalAnd, foldl_and_zipR]
    simp [fromBool]

/-- replacing a leaf of a disjunction by constant False leaves the other disjuncts (not True) -/
example : rewrite (fun k => if k = 1 then some (fromBool false) else none) [[.pos 0, .pos 1]] = [[.pos 0]] := by decide
example : rewrite (fun k => if k = 1 then some (fromBool true) else none) [[.pos 0, .pos 1], [.pos 2]] = [[.pos 2]] := by decide

/-! non-vacuity -/
example : logicalNot [[.pos 0, .pos 1], [.neg 2]] = [[.neg 0, .pos 2], [.neg 1, .pos 2]] := by decide
example : logicalAnd [[.pos 0]] [[[]], [[.pos 1]]] = [[]] := by decide

end C15

/-! ## T-tie: the combinators **as translated from `queries/tree/_predicate.py` on every run**

`Gen/PredicatePy.lean` is regenerated from the working tree by `translate/gen_predicate.py`
(`for` loops become folds, the `itertools.product` comprehension a `flatMap`).  The theorems below are
about those generated definitions: a change of `_impl_or`, of the collapse in `logical_and`, of the
starting values or the order of the loops in `logical_not`, … changes the definitions they speak about. -/
namespace C15.Translated
open Pred K3 C15

theorem implAnd_eq (a b : Operands) : Gen.PredPy.implAnd a b = Pred.implAnd a b := by
  first | rfl | simp [Gen.PredPy.implAnd, Pred.implAnd]
theorem implOr_eq (a b : Operands) : Gen.PredPy.implOr a b = Pred.implOr a b := by
  first | rfl | simp [Gen.PredPy.implOr, Pred.implOr]

/-- `_impl_and` means AND. -/
theorem translated_implAnd (σ) (a b : Operands) :
    eval σ (Gen.PredPy.implAnd a b) = and3 (eval σ a) (eval σ b) := by
  rw [implAnd_eq]; exact eval_implAnd σ a b

/-- `_impl_or` (the product of the OR-groups) means OR. -/
theorem translated_implOr (σ) (a b : Operands) :
    eval σ (Gen.PredPy.implOr a b) = or3 (eval σ a) (eval σ b) := by
  rw [implOr_eq]; exact eval_implOr σ a b

/-- `from_bool`: the constant cases. -/
theorem translated_fromBool (σ) (v : Bool) : eval σ (Gen.PredPy.fromBool v) = if v then .tt else .ff := by
  have : Gen.PredPy.fromBool v = Pred.fromBool v := by
    first | rfl | simp [Gen.PredPy.fromBool, Pred.fromBool]
  rw [this]; exact eval_fromBool σ v

theorem foldl_implAnd_eq (args : List Operands) (self : Operands) :
    args.foldl (fun operands arg => Gen.PredPy.implAnd operands arg) self = args.foldl Pred.implAnd self := by
  induction args generalizing self with
  | nil => rfl
  | cons a as ih => simp only [List.foldl_cons, implAnd_eq, ih]

theorem foldl_implOr_eq (args : List Operands) (self : Operands) :
    args.foldl (fun operands arg => Gen.PredPy.implOr operands arg) self = args.foldl Pred.implOr self := by
  induction args generalizing self with
  | nil => rfl
  | cons a as ih => simp only [List.foldl_cons, implOr_eq, ih]

/-- **`logical_and` as written in the source** (n-ary, with its collapse to FALSE) is the conjunction of
its operands under every assignment. -/
theorem translated_logicalAnd (σ) (self : Operands) (args : List Operands) :
    eval σ (Gen.PredPy.logicalAnd self args) = args.foldl (fun acc p => and3 acc (eval σ p)) (eval σ self) := by
  have : Gen.PredPy.logicalAnd self args = Pred.logicalAnd self args := by
    simp only [Gen.PredPy.logicalAnd, Pred.logicalAnd, foldl_implAnd_eq]
  rw [this]; exact eval_logicalAnd σ self args

/-- **`logical_or` as written in the source** is the disjunction of its operands. -/
theorem translated_logicalOr (σ) (self : Operands) (args : List Operands) :
    eval σ (Gen.PredPy.logicalOr self args) = args.foldl (fun acc p => or3 acc (eval σ p)) (eval σ self) := by
  have : Gen.PredPy.logicalOr self args = Pred.logicalOr self args := by
    simp only [Gen.PredPy.logicalOr, Pred.logicalOr, foldl_implOr_eq]
  rw [this]; exact eval_logicalOr σ self args

/-- **`logical_not` as written in the source** (De Morgan by two nested loops) is negation. -/
theorem translated_logicalNot (σ) (p : Operands) :
    eval σ (Gen.PredPy.logicalNot p) = not3 (eval σ p) := by
  have : Gen.PredPy.logicalNot p = Pred.logicalNot p := by
    first
    | rfl
    | (simp only [Gen.PredPy.logicalNot, Pred.logicalNot]
       congr 1
       funext acc g
       rw [implOr_eq]
       congr 1
       induction g using List.reverseRecOn with
       | nil => rfl
       | append_singleton l a ih => simp only [List.foldl_append, List.foldl_cons, List.foldl_nil, implAnd_eq, ih])
  rw [this]; exact eval_logicalNot σ p

/-- The translated combinators agree with the ones the rest of this file reasons about, so every theorem
above (`rewrite_preserves`, `rewrite_characterised`, …) is about the source's own operations. -/
theorem translated_ops_are_model_ops :
    (∀ s a, Gen.PredPy.logicalAnd s a = Pred.logicalAnd s a) ∧
    (∀ s a, Gen.PredPy.logicalOr s a = Pred.logicalOr s a) ∧
    (∀ p, Gen.PredPy.logicalNot p = Pred.logicalNot p) ∧
    (∀ v, Gen.PredPy.fromBool v = Pred.fromBool v) := by
  refine ⟨?_, ?_, ?_, ?_⟩
  · intro s a; simp only [Gen.PredPy.logicalAnd, Pred.logicalAnd, foldl_implAnd_eq]
  · intro s a; simp only [Gen.PredPy.logicalOr, Pred.logicalOr, foldl_implOr_eq]
  · intro p
    first
    | rfl
    | (simp only [Gen.PredPy.logicalNot, Pred.logicalNot]
       congr 1
       funext acc g
       rw [implOr_eq]
       congr 1
       induction g using List.reverseRecOn with
       | nil => rfl
       | append_singleton l a ih => simp only [List.foldl_append, List.foldl_cons, List.foldl_nil, implAnd_eq, ih])
  · intro v; first | rfl | simp [Gen.PredPy.fromBool, Pred.fromBool]

/-- non-vacuity: `NOT ((A AND B) OR C)` through the translated operations -/
example : Gen.PredPy.logicalNot (Gen.PredPy.logicalOr (Gen.PredPy.logicalAnd [[.pos 0]] [[[.pos 1]]]) [[[.pos 2]]]) =
    [[.neg 0, .neg 1], [.neg 0, .neg 2], [.neg 2, .neg 1], [.neg 2, .neg 2]] := by decide

end C15.Translated

/-! # Legacy normaliser (`normalForm.py`) -/
namespace C15.Legacy
open NF K3

theorem evalW_not (σ) (w : W) : evalW σ w.not_ = not3 (evalW σ w) := by
  induction w with
  | atom k => simp [W.not_, evalW]
  | natom k => simp [W.not_, evalW]
  | bin op l r ihl ihr =>
    cases op <;> simp [W.not_, evalW, op3, ihl, ihr, not3_and3, not3_or3]

/-- `TransformationVisitor` (incl. pushing NOT inwards with De Morgan and dropping parentheses)
preserves the truth table. -/
theorem toW_preserves (σ) (t : Tree) : evalW σ (toW t) = evalT σ t := by
  induction t with
  | atom k => rfl
  | not t ih => simp [toW, evalT, evalW_not, ih]
  | and l r ihl ihr => simp [toW, evalT, evalW, op3, ihl, ihr]
  | or l r ihl ihr => simp [toW, evalT, evalW, op3, ihl, ihr]
  | parens t ih => simp [toW, evalT, ih]

/-- One dispatch step preserves meaning whenever the recursive call does (distributivity in K3). -/
theorem normDispatch_preserves (σ) (form : Bool) (norm : W → W)
    (hn : ∀ w, evalW σ (norm w) = evalW σ w) (l : W) (op : Bool) (r : W) :
    evalW σ (normDispatch form norm l op r) = op3 op (evalW σ l) (evalW σ r) := by
  unfold normDispatch
  split
  · rename_i o1 a b o2 c d
    split <;> split <;> simp only [evalW, hn] <;>
      cases op <;> cases o1 <;> cases o2 <;> simp_all [allows, op3] <;>
      (generalize evalW σ a = x; generalize evalW σ b = y; generalize evalW σ c = z; generalize evalW σ d = u
       cases x <;> cases y <;> cases z <;> cases u <;> rfl)
  · rename_i o1 a b _
    split <;> simp only [evalW, hn] <;>
      cases op <;> cases o1 <;> simp_all [allows, op3] <;>
      (generalize evalW σ a = x; generalize evalW σ b = y; generalize evalW σ r = z
       cases x <;> cases y <;> cases z <;> rfl)
  · rename_i o2 c d _
    split <;> simp only [evalW, hn] <;>
      cases op <;> cases o2 <;> simp_all [allows, op3] <;>
      (generalize evalW σ l = x; generalize evalW σ c = y; generalize evalW σ d = z
       cases x <;> cases y <;> cases z <;> rfl)
  · simp [evalW]

/-- **Normalisation preserves the truth table**, for every formula, both normal forms, every
assignment (Kleene logic) and every fuel value. -/
theorem normalize_preserves (σ) (form : Bool) (fuel : Nat) (w : W) :
    evalW σ (normalize form fuel w) = evalW σ w := by
  induction fuel generalizing w with
  | zero => rfl
  | succ n ih =>
    unfold normalize
    cases w with
    | atom k => rfl
    | natom k => rfl
    | bin op l r =>
      simp only []
      split
      · rfl
      · rw [normDispatch_preserves σ form _ (fun w => ih w)]
        simp [evalW, ih]

theorem evalList_append (σ) (op : Bool) (a b : List W) :
    evalList σ op (a ++ b) = op3 op (evalList σ op a) (evalList σ op b) := by
  induction a with
  | nil => cases op <;> simp [evalList, op3, unit3]
  | cons x xs ih =>
    simp only [evalList, List.cons_append, List.foldr_cons] at *
    rw [ih]; cases op <;> simp [op3, and3_assoc, or3_assoc]

/-- `flatten` preserves meaning. -/
theorem flatten_preserves (σ) (op : Bool) (w : W) : evalList σ op (flatten op w) = evalW σ w := by
  induction w with
  | atom k => cases op <;> simp [flatten, evalList, op3, unit3]
  | natom k => cases op <;> simp [flatten, evalList, op3, unit3]
  | bin o l r ihl ihr =>
    unfold flatten
    split
    · rename_i h
      have : o = op := by simpa using h
      subst this
      rw [evalList_append, ihl, ihr]; rfl
    · cases op <;> simp [evalList, op3, unit3]

theorem evalNF_map_flatten (σ) (form : Bool) (ws : List W) :
    evalNF σ form (ws.map (flatten (!form))) = evalList σ form ws := by
  induction ws with
  | nil => rfl
  | cons x xs ih =>
    have h1 : evalNF σ form ((x :: xs).map (flatten (!form))) =
        op3 form (evalList σ (!form) (flatten (!form) x)) (evalNF σ form (xs.map (flatten (!form)))) := rfl
    have h2 : evalList σ form (x :: xs) = op3 form (evalW σ x) (evalList σ form xs) := rfl
    rw [h1, h2, ih, flatten_preserves]

/-- **`NormalFormExpression.fromTree` preserves the truth table** of the original expression tree
(conjunctive and disjunctive form, any fuel). -/
theorem fromTree_preserves (σ) (form : Bool) (fuel : Nat) (t : Tree) :
    evalNF σ form (fromTree form fuel t) = evalT σ t := by
  unfold fromTree
  rw [evalNF_map_flatten, flatten_preserves, normalize_preserves, toW_preserves]

/-! non-vacuity: `A OR (B AND C)` to CNF -/
example : normalize true 10 (.bin false (.atom 0) (.bin true (.atom 1) (.atom 2))) =
    .bin true (.bin false (.atom 0) (.atom 1)) (.bin false (.atom 0) (.atom 2)) := by decide
example : satisfies true (.bin false (.atom 0) (.bin true (.atom 1) (.atom 2))) = false := by decide

end C15.Legacy
