import ButlerModel.Model.Join
/-! # C06 — queries relate dimensions exactly as the stored records relate them -/
namespace C06
open Join

theorem agreeOnB_iff (cols : List Nat) (a r : Nat → Nat) : agreeOnB cols a r = true ↔ ∀ c ∈ cols, a c = r c := by
  simp [agreeOnB, List.all_eq_true]

/-- **The natural join is the conjunction of its operands**: a valuation satisfies `T1 ⋈ T2` exactly
when it satisfies `T1` and `T2`. -/
theorem sat_join (a : Nat → Nat) (T1 T2 : Tbl) : Sat a (join T1 T2) ↔ Sat a T1 ∧ Sat a T2 := by
  constructor
  · rintro ⟨r, hr, ha⟩
    simp only [join, List.mem_flatMap, List.mem_map, List.mem_filter] at hr
    obtain ⟨r1, h1, r2, ⟨h2, hc⟩, rfl⟩ := hr
    rw [agreeOnB_iff] at ha hc
    refine ⟨⟨r1, h1, (agreeOnB_iff _ _ _).mpr ?_⟩, ⟨r2, h2, (agreeOnB_iff _ _ _).mpr ?_⟩⟩
    · intro c hcm
      have := ha c (by simp [join, hcm])
      simpa [merge, hcm] using this
    · intro c hcm
      by_cases h : c ∈ T1.cols
      · have e1 := ha c (by simp [join, h])
        have e2 := hc c (by simp [List.mem_filter, hcm, h])
        simp only [merge, h, ↓reduceIte] at e1
        rw [e1, e2]
      · have := ha c (by simp [join, List.mem_filter, hcm, h])
        simpa [merge, h] using this
  · rintro ⟨⟨r1, h1, a1⟩, ⟨r2, h2, a2⟩⟩
    rw [agreeOnB_iff] at a1 a2
    refine ⟨merge T1.cols r1 r2, ?_, (agreeOnB_iff _ _ _).mpr ?_⟩
    · simp only [join, List.mem_flatMap, List.mem_map, List.mem_filter]
      refine ⟨r1, h1, r2, ⟨h2, (agreeOnB_iff _ _ _).mpr ?_⟩, rfl⟩
      intro c hcm
      simp only [List.mem_filter, List.contains_eq_mem, decide_eq_true_eq] at hcm
      rw [← a1 c hcm.2, ← a2 c hcm.1]
    · intro c hcm
      simp only [join, List.mem_append, List.mem_filter] at hcm
      by_cases h : c ∈ T1.cols
      · simp [merge, h, a1 c h]
      · rcases hcm with hcm | hcm
        · exact absurd hcm h
        · simp [merge, h, a2 c hcm.1]

theorem sat_unit (a : Nat → Nat) : Sat a unit := ⟨fun _ => 0, by simp [unit], by simp [agreeOnB, unit]⟩

theorem sat_foldl (a : Nat → Nat) : ∀ (Ts : List Tbl) (T0 : Tbl), Sat a (Ts.foldl join T0) ↔ Sat a T0 ∧ ∀ T ∈ Ts, Sat a T
  | [], T0 => by simp
  | T :: Ts, T0 => by
    rw [List.foldl_cons, sat_foldl a Ts (join T0 T), sat_join]
    simp only [List.mem_cons, forall_eq_or_imp]
    exact ⟨fun ⟨⟨h0, h1⟩, h2⟩ => ⟨h0, h1, h2⟩, fun ⟨h0, h1, h2⟩ => ⟨⟨h0, h1⟩, h2⟩⟩

/-- **Exactly the consistent combinations**: a valuation is in the result of joining the tables of a
query iff it is consistent with *every* one of them — each dimension's record exists with the given
required and implied values, each always-joined membership table has a matching row, each overlap
relation holds. -/
theorem query_exact (a : Nat → Nat) (Ts : List Tbl) : Sat a (joinAll Ts) ↔ ∀ T ∈ Ts, Sat a T := by
  unfold joinAll
  rw [sat_foldl]
  exact ⟨fun h => h.2, fun h => ⟨sat_unit a, h⟩⟩

/-- **The order of the joins does not matter** (nor, therefore, the order in which the query builder
visits the elements). -/
theorem join_order_irrelevant (a : Nat → Nat) (Ts Ts' : List Tbl) (h : ∀ T, T ∈ Ts ↔ T ∈ Ts') :
    Sat a (joinAll Ts) ↔ Sat a (joinAll Ts') := by
  rw [query_exact, query_exact]
  exact ⟨fun hs T hT => hs T ((h T).mpr hT), fun hs T hT => hs T ((h T).mp hT)⟩

/-- Adding a table can only remove combinations; a table already present changes nothing. -/
theorem more_tables_fewer_rows (a : Nat → Nat) (Ts : List Tbl) (T : Tbl) (h : Sat a (joinAll (T :: Ts))) : Sat a (joinAll Ts) := by
  rw [query_exact] at h ⊢
  exact fun T' hT' => h T' (List.mem_cons_of_mem _ hT')

example : Sat (fun c => if c = 1 then 7 else 3)
    (joinAll [{ cols := [1], rows := [fun _ => 7] }, { cols := [1, 2], rows := [fun c => if c = 1 then 7 else 3, fun _ => 9] }]) := by
  rw [query_exact]
  intro T hT
  simp only [List.mem_cons, List.not_mem_nil, or_false] at hT
  rcases hT with rfl | rfl
  · exact ⟨fun _ => 7, by simp, by simp [agreeOnB]⟩
  · exact ⟨fun c => if c = 1 then 7 else 3, by simp, by simp [agreeOnB]⟩

end C06
