import ButlerModel.Model.Join
import ButlerModel.Model.Spatial
/-! # C06 — queries relate dimensions exactly as the stored records relate them -/
namespace C06
open Join

theorem agreeOnB_iff (cols : List Nat) (a r : Nat → Nat) : agreeOnB cols a r = true ↔ ∀ c ∈ cols, a c = r c := by
  simp [agreeOnB, List.all_eq_true]

/-- **The natural join is the conjunction of its operands**: a valuation satisfies `T1 ⋈ T2` exactly
when it satisfies `T1` and `T2`. -/
theorem sat_join (a : Nat → Nat) (T1 T2 : Tbl) : Sat a (join T1 T2) ↔ Sat a T1 ∧ Sat a T2 := by
  constructor
  · rintro ⟨r, hr, ha⟩
    simp only [join, List.mem_flatMap, List.mem_map, List.mem_filter] at hr
    obtain ⟨r1, h1, r2, ⟨h2, hc⟩, rfl⟩ := hr
    rw [agreeOnB_iff] at ha hc
    refine ⟨⟨r1, h1, (agreeOnB_iff _ _ _).mpr ?_⟩, ⟨r2, h2, (agreeOnB_iff _ _ _).mpr ?_⟩⟩
    · intro c hcm
      have := ha c (by simp [join, hcm])
      simpa [merge, hcm] using this
    · intro c hcm
      by_cases h : c ∈ T1.cols
      · have e1 := ha c (by simp [join, h])
        have e2 := hc c (by simp [List.mem_filter, hcm, h])
        simp only [merge, h, ↓reduceIte] at e1
        rw [e1, e2]
      · have := ha c (by simp [join, List.mem_filter, hcm, h])
        simpa [merge, h] using this
  · rintro ⟨⟨r1, h1, a1⟩, ⟨r2, h2, a2⟩⟩
    rw [agreeOnB_iff] at a1 a2
    refine ⟨merge T1.cols r1 r2, ?_, (agreeOnB_iff _ _ _).mpr ?_⟩
    · simp only [join, List.mem_flatMap, List.mem_map, List.mem_filter]
      refine ⟨r1, h1, r2, ⟨h2, (agreeOnB_iff _ _ _).mpr ?_⟩, rfl⟩
      intro c hcm
      simp only [List.mem_filter, List.contains_eq_mem, decide_eq_true_eq] at hcm
      rw [← a1 c hcm.2, ← a2 c hcm.1]
    · intro c hcm
      simp only [join, List.mem_append, List.mem_filter] at hcm
      by_cases h : c ∈ T1.cols
      · simp [merge, h, a1 c h]
      · rcases hcm with hcm | hcm
        · exact absurd hcm h
        · simp [merge, h, a2 c hcm.1]

theorem sat_unit (a : Nat → Nat) : Sat a unit := ⟨fun _ => 0, by simp [unit], by simp [agreeOnB, unit]⟩

theorem sat_foldl (a : Nat → Nat) : ∀ (Ts : List Tbl) (T0 : Tbl), Sat a (Ts.foldl join T0) ↔ Sat a T0 ∧ ∀ T ∈ Ts, Sat a T
  | [], T0 => by simp
  | T :: Ts, T0 => by
    rw [List.foldl_cons, sat_foldl a Ts (join T0 T), sat_join]
    simp only [List.mem_cons, forall_eq_or_imp]
    exact ⟨fun ⟨⟨h0, h1⟩, h2⟩ => ⟨h0, h1, h2⟩, fun ⟨h0, h1, h2⟩ => ⟨⟨h0, h1⟩, h2⟩⟩

/-- **Exactly the consistent combinations**: a valuation is in the result of joining the tables of a
query iff it is consistent with *every* one of them — each dimension's record exists with the given
required and implied values, each always-joined membership table has a matching row, each overlap
relation holds. -/
theorem query_exact (a : Nat → Nat) (Ts : List Tbl) : Sat a (joinAll Ts) ↔ ∀ T ∈ Ts, Sat a T := by
  unfold joinAll
  rw [sat_foldl]
  exact ⟨fun h => h.2, fun h => ⟨sat_unit a, h⟩⟩

/-- **The order of the joins does not matter** (nor, therefore, the order in which the query builder
visits the elements). -/
theorem join_order_irrelevant (a : Nat → Nat) (Ts Ts' : List Tbl) (h : ∀ T, T ∈ Ts ↔ T ∈ Ts') :
    Sat a (joinAll Ts) ↔ Sat a (joinAll Ts') := by
  rw [query_exact, query_exact]
  exact ⟨fun hs T hT => hs T ((h T).mpr hT), fun hs T hT => hs T ((h T).mp hT)⟩

/-- Adding a table can only remove combinations; a table already present changes nothing. -/
theorem more_tables_fewer_rows (a : Nat → Nat) (Ts : List Tbl) (T : Tbl) (h : Sat a (joinAll (T :: Ts))) : Sat a (joinAll Ts) := by
  rw [query_exact] at h ⊢
  exact fun T' hT' => h T' (List.mem_cons_of_mem _ hT')

example : Sat (fun c => if c = 1 then 7 else 3)
    (joinAll [{ cols := [1], rows := [fun _ => 7] }, { cols := [1, 2], rows := [fun c => if c = 1 then 7 else 3, fun _ => 9] }]) := by
  rw [query_exact]
  intro T hT
  simp only [List.mem_cons, List.not_mem_nil, or_false] at hT
  rcases hT with rfl | rfl
  · exact ⟨fun _ => 7, by simp, by simp [agreeOnB]⟩
  · exact ⟨fun c => if c = 1 then 7 else 3, by simp, by simp [agreeOnB]⟩

end C06

/-! # C06, spatial part — "when two spatial families meet, exactly the pairs whose regions are not
disjoint appear … in whatever order the records were inserted, replaced or synchronised"

Theorems about `Model/Spatial.lean`: the post-processing loop with its threaded limit is a filter
followed by a prefix, whatever the raw page size; every history of insert / skip-existing insert /
replace / sync calls keeps the overlap table a superset of the envelopes of the *stored* regions
(and equal to them when `skip_existing` never meets an existing record); under that invariant and the
one geometric assumption (two regions that are not disjoint share a pixel of their envelopes) the
query returns exactly the pairs of keys whose stored regions are not disjoint. -/
namespace C06.Spatial
open _root_.Spatial

/-! ## paging and the limit -/

def takeLim : Option Nat → List α → List α
  | none, l => l
  | some n, l => l.take n

def restLim : Option Nat → Nat → Option Nat
  | none, _ => none
  | some n, k => some (n - k)

theorem applyPage_spec (keep : α → Bool) : ∀ (l : List α) (lim : Option Nat),
    applyPage keep lim l = (takeLim lim (l.filter keep), restLim lim (takeLim lim (l.filter keep)).length) := by
  intro l
  induction l with
  | nil => intro lim; cases lim with
    | none => simp [applyPage, takeLim, restLim]
    | some n => cases n <;> simp [applyPage, takeLim, restLim]
  | cons x xs ih =>
    intro lim
    cases lim with
    | none =>
      simp only [applyPage, ih none, takeLim, restLim]
      by_cases h : keep x = true <;> simp [h]
    | some n =>
      cases n with
      | zero => simp [applyPage, takeLim, restLim]
      | succ n =>
        by_cases h : keep x = true
        · simp only [applyPage, h, ↓reduceIte, ih (some n), takeLim, restLim, List.filter_cons, List.take_succ_cons, List.length_cons]
          congr 2
          omega
        · simp only [applyPage, h, Bool.false_eq_true, ↓reduceIte, ih (some (n + 1)), takeLim, restLim, List.filter_cons]

/-- **Paging with a threaded limit = filter, then prefix.** -/
theorem applyPages_spec (keep : α → Bool) : ∀ (ps : List (List α)) (lim : Option Nat),
    applyPages keep lim ps = takeLim lim (ps.flatten.filter keep) := by
  intro ps
  induction ps with
  | nil => intro lim; cases lim <;> simp [applyPages, takeLim]
  | cons p ps ih =>
    intro lim
    simp only [applyPages, applyPage_spec, ih, List.flatten_cons, List.filter_append]
    cases lim with
    | none => simp [takeLim, restLim]
    | some n =>
      simp only [takeLim, restLim, List.take_append, List.length_take]
      congr 2
      omega

theorem chunks_flatten (n : Nat) : ∀ (fuel : Nat) (l : List α), l.length ≤ fuel → (chunks n fuel l).flatten = l := by
  intro fuel
  induction fuel with
  | zero => intro l h; have : l = [] := List.eq_nil_of_length_eq_zero (by omega); subst this; simp [chunks]
  | succ f ih =>
    intro l h
    unfold chunks
    by_cases he : l.isEmpty = true
    · simp [List.isEmpty_iff.mp he]
    · simp only [he, Bool.false_eq_true, ↓reduceIte]
      by_cases hn : (n == 0) = true
      · simp [hn]
      · simp only [hn, Bool.false_eq_true, ↓reduceIte, List.flatten_cons]
        have hpos : 0 < n := by
          have : n ≠ 0 := by simpa using hn
          omega
        have hl : 0 < l.length := by
          cases l with
          | nil => simp at he
          | cons _ _ => simp
        rw [ih (l.drop n) (by simp only [List.length_drop]; omega), List.take_append_drop]

theorem pages_flatten (n : Nat) (l : List α) : (pagesOf n l).flatten = l := chunks_flatten n _ l (Nat.le_refl _)

/-- **The raw page size is irrelevant**: the query is the filtered candidate list, cut at the limit. -/
theorem query_eq (g : Geo) (e1 e2 : Elem) (n : Nat) (lim : Option Nat) :
    query g e1 e2 n lim = takeLim lim ((candidates e1 e2).filter (exact g e1 e2)) := by
  simp [query, applyPages_spec, pages_flatten]

theorem query_page_size_irrelevant (g : Geo) (e1 e2 : Elem) (n m : Nat) (lim : Option Nat) :
    query g e1 e2 n lim = query g e1 e2 m lim := by rw [query_eq, query_eq]

/-- a limit returns a prefix of the unlimited result, so `min limit total` rows, all of them right -/
theorem query_limit_prefix (g : Geo) (e1 e2 : Elem) (n L : Nat) :
    query g e1 e2 n (some L) = (query g e1 e2 n none).take L := by simp [query_eq, takeLim]

/-- reading a materialised join back gives what the direct query gives -/
theorem materialize_read_back (g : Geo) (e1 e2 : Elem) (n m : Nat) (lim : Option Nat) :
    readBack g e1 e2 (materialize e1 e2) n lim = query g e1 e2 m lim := by
  simp [readBack, materialize, query_eq, applyPages_spec, pages_flatten]

/-! ## the overlap table under every history of record operations -/

def Uniq (e : Elem) : Prop := e.recs.Pairwise (fun a b => a.1 ≠ b.1)

/-- every pixel of the envelope of a *stored* region has its row -/
def Sound (g : Geo) (e : Elem) : Prop := ∀ k r, (k, some r) ∈ e.recs → ∀ t ∈ g.env r, (k, t) ∈ e.ov

/-- … and there are no other rows -/
def Exact (g : Geo) (e : Elem) : Prop := ∀ k t, (k, t) ∈ e.ov → ∃ r, (k, some r) ∈ e.recs ∧ t ∈ g.env r

def Inv (g : Geo) (e : Elem) : Prop := Uniq e ∧ Sound g e

theorem hasKey_iff (e : Elem) (k : Nat) : hasKey e k = true ↔ ∃ r, (k, r) ∈ e.recs := by
  simp only [hasKey, List.any_eq_true, beq_iff_eq]
  constructor
  · rintro ⟨⟨k', r⟩, hm, rfl⟩; exact ⟨r, hm⟩
  · rintro ⟨r, hm⟩; exact ⟨(k, r), hm, rfl⟩

theorem mem_rowsOf (g : Geo) (b : Rec) (k t : Nat) : (k, t) ∈ rowsOf g b ↔ ∃ r, b = (k, some r) ∧ t ∈ g.env r := by
  obtain ⟨k', r'⟩ := b
  cases r' with
  | none => simp [rowsOf]
  | some r =>
    simp only [rowsOf, List.mem_map, Prod.mk.injEq, Option.some.injEq]
    constructor
    · rintro ⟨t', ht, rfl, rfl⟩; exact ⟨r, ⟨rfl, rfl⟩, ht⟩
    · rintro ⟨r2, ⟨rfl, rfl⟩, ht⟩; exact ⟨t, ht, rfl, rfl⟩

theorem mem_insertRows (g : Geo) (batch : List Rec) (k t : Nat) :
    (k, t) ∈ insertRows g batch ↔ ∃ r, (k, some r) ∈ batch ∧ t ∈ g.env r := by
  simp only [insertRows, List.mem_flatMap, mem_rowsOf]
  constructor
  · rintro ⟨b, hb, r, rfl, ht⟩; exact ⟨r, hb, ht⟩
  · rintro ⟨r, hb, ht⟩; exact ⟨_, hb, r, rfl, ht⟩

theorem distinctKeys_iff : ∀ (b : List Rec), distinctKeys b = true ↔ b.Pairwise (fun a b => a.1 ≠ b.1)
  | [] => by simp [distinctKeys]
  | x :: xs => by
    simp only [distinctKeys, Bool.and_eq_true, Bool.not_eq_true', List.pairwise_cons, distinctKeys_iff xs]
    constructor
    · rintro ⟨h1, h2⟩
      refine ⟨fun a ha heq => ?_, h2⟩
      have : xs.any (fun y => y.1 == x.1) = true := List.any_eq_true.mpr ⟨a, ha, by simp [heq]⟩
      simp [this] at h1
    · rintro ⟨h1, h2⟩
      refine ⟨?_, h2⟩
      cases hany : xs.any (fun y => y.1 == x.1) with
      | false => rfl
      | true =>
        obtain ⟨a, ha, heq⟩ := List.any_eq_true.mp hany
        exact absurd (by simpa using heq : a.1 = x.1).symm (h1 a ha)

/-- what an operation must look like for the model to speak about it: batches written with
`skip_existing` or `replace` name each key once (the harness never sends others) -/
def WFOp : Op → Prop
  | .insert _ => True
  | .insertSkip batch => distinctKeys batch = true
  | .replace batch => distinctKeys batch = true
  | .sync _ _ => True

theorem insert_inv (g : Geo) (e e' : Elem) (batch : List Rec) (h : Spatial.insert g e batch = some e') (hi : Inv g e) : Inv g e' := by
  unfold Spatial.insert at h
  split at h
  · exact absurd h (by simp)
  · rename_i hc
    simp only [Bool.or_eq_true, Bool.not_eq_true', not_or, Bool.not_eq_true, Bool.not_eq_false] at hc
    obtain ⟨hnew, hd⟩ := hc
    injection h with h
    subst h
    refine ⟨?_, ?_⟩
    · simp only [Uniq]
      rw [List.pairwise_append]
      refine ⟨hi.1, (distinctKeys_iff batch).mp hd, fun a ha b hb heq => ?_⟩
      have : batch.any (fun b => hasKey e b.1) = true :=
        List.any_eq_true.mpr ⟨b, hb, (hasKey_iff e b.1).mpr ⟨a.2, by rw [← heq]; exact ha⟩⟩
      simp [this] at hnew
    · intro k r hm t ht
      simp only [List.mem_append] at hm ⊢
      rcases hm with hm | hm
      · exact Or.inl (hi.2 k r hm t ht)
      · exact Or.inr ((mem_insertRows g batch k t).mpr ⟨r, hm, ht⟩)

theorem insertSkip_inv (g : Geo) (e : Elem) (batch : List Rec) (hd : distinctKeys batch = true) (hi : Inv g e) :
    Inv g (insertSkip g e batch) := by
  refine ⟨?_, ?_⟩
  · simp only [Uniq, insertSkip]
    rw [List.pairwise_append]
    refine ⟨hi.1, ((distinctKeys_iff batch).mp hd).filter _, fun a ha b hb heq => ?_⟩
    simp only [List.mem_filter, Bool.not_eq_true'] at hb
    have : hasKey e b.1 = true := (hasKey_iff e b.1).mpr ⟨a.2, by rw [← heq]; exact ha⟩
    simp [this] at hb
  · intro k r hm t ht
    simp only [insertSkip, List.mem_append] at hm ⊢
    rcases hm with hm | hm
    · exact Or.inl (hi.2 k r hm t ht)
    · exact Or.inr ((mem_insertRows g _ k t).mpr ⟨r, hm, ht⟩)

theorem replace_inv (g : Geo) (e : Elem) (batch : List Rec) (hd : distinctKeys batch = true) (hi : Inv g e) :
    Inv g (replace g e batch) := by
  refine ⟨?_, ?_⟩
  · simp only [Uniq, replace]
    rw [List.pairwise_append]
    refine ⟨hi.1.filter _, (distinctKeys_iff batch).mp hd, fun a ha b hb heq => ?_⟩
    simp only [List.mem_filter, Bool.not_eq_true', keysOf] at ha
    have : (batch.map (·.1)).contains a.1 = true := by
      simp only [List.contains_eq_mem, List.mem_map, decide_eq_true_eq]
      exact ⟨b, hb, heq.symm⟩
    rw [this] at ha
    exact absurd ha.2 (by simp)
  · intro k r hm t ht
    simp only [replace, List.mem_append, List.mem_filter, Bool.not_eq_true'] at hm ⊢
    rcases hm with ⟨hm, hk⟩ | hm
    · exact Or.inl ⟨hi.2 k r hm t ht, hk⟩
    · exact Or.inr ((mem_insertRows g batch k t).mpr ⟨r, hm, ht⟩)

theorem lookup_none (e : Elem) (k : Nat) (h : lookup e k = none) : ∀ r, (k, r) ∉ e.recs := by
  intro r hm
  simp only [lookup, Option.map_eq_none_iff, List.find?_eq_none] at h
  exact h (k, r) hm (by simp)

theorem lookup_some (e : Elem) (k : Nat) (r : Option Nat) (h : lookup e k = some r) : (k, r) ∈ e.recs := by
  simp only [lookup, Option.map_eq_some_iff] at h
  obtain ⟨⟨k', r'⟩, hf, rfl⟩ := h
  have := List.find?_some hf
  simp only [beq_iff_eq] at this
  subst this
  exact List.mem_of_find?_eq_some hf

theorem lookup_of_mem (e : Elem) (hu : Uniq e) (k : Nat) (r : Option Nat) (hm : (k, r) ∈ e.recs) : lookup e k = some r := by
  cases h : lookup e k with
  | none => exact absurd hm (lookup_none e k h r)
  | some r' =>
    have hm' := lookup_some e k r' h
    by_cases heq : r' = r
    · rw [heq]
    · exfalso
      -- two entries with the same key in a list with pairwise distinct keys
      have : ∀ (l : List Rec), l.Pairwise (fun a b => a.1 ≠ b.1) → (k, r) ∈ l → (k, r') ∈ l → r' = r := by
        intro l hl
        induction hl with
        | nil => intro h1; simp at h1
        | cons hx _ ih =>
          rename_i x xs
          intro h1 h2
          simp only [List.mem_cons] at h1 h2
          rcases h1 with h1 | h1 <;> rcases h2 with h2 | h2
          · have := h2.trans h1.symm; injection this
          · subst h1; exact absurd rfl (hx (k, r') h2)
          · subst h2; exact absurd rfl (hx (k, r) h1)
          · exact ih h1 h2
      exact heq (this e.recs hu hm hm')

theorem sync_inv (g : Geo) (e : Elem) (b : Rec) (u : Bool) (hi : Inv g e) : Inv g (sync g e b u).1 := by
  unfold sync
  split
  · rename_i hnone
    refine ⟨?_, ?_⟩
    · simp only [Uniq]
      rw [List.pairwise_append]
      refine ⟨hi.1, by simp, fun a ha c hc heq => ?_⟩
      simp only [List.mem_singleton] at hc
      subst hc
      exact lookup_none e c.1 hnone a.2 (by rw [← heq]; exact ha)
    · intro k r hm t ht
      simp only [List.mem_append, List.mem_singleton] at hm ⊢
      rcases hm with hm | hm
      · exact Or.inl (hi.2 k r hm t ht)
      · exact Or.inr ((mem_rowsOf g b k t).mpr ⟨r, hm.symm, ht⟩)
  · rename_i r hsome
    split
    · exact hi
    · split
      · exact replace_inv g e [b] (by simp [distinctKeys]) hi
      · exact hi

theorem apply_inv (g : Geo) (e : Elem) (op : Op) (hw : WFOp op) (hi : Inv g e) : Inv g (apply g e op) := by
  cases op with
  | insert batch =>
    simp only [apply]
    cases h : Spatial.insert g e batch with
    | none => simpa using hi
    | some e' => simpa using insert_inv g e e' batch h hi
  | insertSkip batch => exact insertSkip_inv g e batch hw hi
  | replace batch =>
    simp only [apply]
    split
    · exact replace_inv g e batch hw hi
    · exact hi
  | sync b u => exact sync_inv g e b u hi

theorem inv_empty (g : Geo) : Inv g {} := ⟨List.Pairwise.nil, fun _ _ h => by simp at h⟩

/-- **Every history keeps the overlap table sound**: whatever sequence of (accepted or refused)
insert / skip-existing / replace / sync calls was made, each pixel of the envelope of every stored
region has its row. -/
theorem run_inv (g : Geo) : ∀ (ops : List Op) (e : Elem), (∀ op ∈ ops, WFOp op) → Inv g e → Inv g (run g e ops)
  | [], _, _, hi => hi
  | op :: ops, e, hw, hi => by
    simp only [run, List.foldl_cons]
    exact run_inv g ops _ (fun o ho => hw o (List.mem_cons_of_mem _ ho)) (apply_inv g e op (hw op (List.mem_cons_self ..)) hi)

/-! ## the query -/

theorem mem_candidates (e1 e2 : Elem) (k1 k2 : Nat) :
    (k1, k2) ∈ candidates e1 e2 ↔ ∃ t, (k1, t) ∈ e1.ov ∧ (k2, t) ∈ e2.ov := by
  simp only [candidates, List.mem_eraseDups, List.mem_flatMap, List.mem_map, List.mem_filter, beq_iff_eq, Prod.mk.injEq]
  constructor
  · rintro ⟨⟨a, t⟩, h1, ⟨b, t'⟩, ⟨h2, ht⟩, rfl, rfl⟩
    simp only at ht
    subst ht
    exact ⟨t', h1, h2⟩
  · rintro ⟨t, h1, h2⟩
    exact ⟨(k1, t), h1, (k2, t), ⟨h2, rfl⟩, rfl, rfl⟩

theorem exact_iff (g : Geo) (e1 e2 : Elem) (h1 : Uniq e1) (h2 : Uniq e2) (p : Nat × Nat) :
    exact g e1 e2 p = true ↔ ∃ r1 r2, (p.1, some r1) ∈ e1.recs ∧ (p.2, some r2) ∈ e2.recs ∧ g.ovl r1 r2 = true := by
  constructor
  · intro h
    unfold exact exact? at h
    split at h
    · rename_i r1 r2 l1 l2
      exact ⟨r1, r2, lookup_some e1 _ _ l1, lookup_some e2 _ _ l2, by simpa using h⟩
    · exact absurd h (by simp)
  · rintro ⟨r1, r2, m1, m2, ho⟩
    simp [exact, exact?, lookup_of_mem e1 h1 _ _ m1, lookup_of_mem e2 h2 _ _ m2, ho]

/-- the one assumption about geometry: regions that are not disjoint share a pixel of their envelopes
(the envelope of a region contains every pixel the region touches) -/
def GeoSound (g : Geo) : Prop := ∀ r r', g.ovl r r' = true → ∃ t, t ∈ g.env r ∧ t ∈ g.env r'

/-- **Exactly the pairs whose stored regions are not disjoint**, for any overlap tables that are sound
for the stored records — extra rows (left by `skip_existing`) do not matter, the raw page size does
not matter. -/
theorem query_exact_pairs (g : Geo) (hg : GeoSound g) (e1 e2 : Elem) (i1 : Inv g e1) (i2 : Inv g e2) (n : Nat) (p : Nat × Nat) :
    p ∈ query g e1 e2 n none ↔ ∃ r1 r2, (p.1, some r1) ∈ e1.recs ∧ (p.2, some r2) ∈ e2.recs ∧ g.ovl r1 r2 = true := by
  rw [query_eq]
  simp only [takeLim, List.mem_filter, exact_iff g e1 e2 i1.1 i2.1]
  constructor
  · exact fun h => h.2
  · rintro ⟨r1, r2, m1, m2, ho⟩
    refine ⟨?_, r1, r2, m1, m2, ho⟩
    obtain ⟨t, t1, t2⟩ := hg r1 r2 ho
    obtain ⟨k1, k2⟩ := p
    exact (mem_candidates e1 e2 k1 k2).mpr ⟨t, i1.2 k1 r1 m1 t t1, i2.2 k2 r2 m2 t t2⟩

/-- **Whatever the histories**: after any two histories of record operations, from empty tables, the
query returns exactly the pairs of keys whose *final* regions are not disjoint. -/
theorem history_query_exact (g : Geo) (hg : GeoSound g) (ops1 ops2 : List Op)
    (w1 : ∀ op ∈ ops1, WFOp op) (w2 : ∀ op ∈ ops2, WFOp op) (n : Nat) (p : Nat × Nat) :
    p ∈ query g (run g {} ops1) (run g {} ops2) n none ↔
      ∃ r1 r2, (p.1, some r1) ∈ (run g {} ops1).recs ∧ (p.2, some r2) ∈ (run g {} ops2).recs ∧ g.ovl r1 r2 = true :=
  query_exact_pairs g hg _ _ (run_inv g ops1 {} w1 (inv_empty g)) (run_inv g ops2 {} w2 (inv_empty g)) n p

/-- **Insertion order and route are irrelevant**: histories that end with the same records give the
same answer. -/
theorem same_records_same_answer (g : Geo) (hg : GeoSound g) (a1 a2 b1 b2 : List Op)
    (wa1 : ∀ op ∈ a1, WFOp op) (wa2 : ∀ op ∈ a2, WFOp op) (wb1 : ∀ op ∈ b1, WFOp op) (wb2 : ∀ op ∈ b2, WFOp op)
    (h1 : ∀ x, x ∈ (run g {} a1).recs ↔ x ∈ (run g {} b1).recs) (h2 : ∀ x, x ∈ (run g {} a2).recs ↔ x ∈ (run g {} b2).recs)
    (n m : Nat) (p : Nat × Nat) :
    p ∈ query g (run g {} a1) (run g {} a2) n none ↔ p ∈ query g (run g {} b1) (run g {} b2) m none := by
  rw [history_query_exact g hg a1 a2 wa1 wa2, history_query_exact g hg b1 b2 wb1 wb2]
  simp only [h1, h2]

/-- with a limit: a prefix of the right pairs, `min limit total` of them -/
theorem query_limit_sound (g : Geo) (hg : GeoSound g) (e1 e2 : Elem) (i1 : Inv g e1) (i2 : Inv g e2) (n L : Nat) (p : Nat × Nat)
    (hp : p ∈ query g e1 e2 n (some L)) :
    ∃ r1 r2, (p.1, some r1) ∈ e1.recs ∧ (p.2, some r2) ∈ e2.recs ∧ g.ovl r1 r2 = true := by
  rw [query_limit_prefix] at hp
  exact (query_exact_pairs g hg e1 e2 i1 i2 n p).mp (List.mem_of_mem_take hp)

theorem query_limit_length (g : Geo) (e1 e2 : Elem) (n L : Nat) :
    (query g e1 e2 n (some L)).length = min L (query g e1 e2 n none).length := by
  rw [query_limit_prefix, List.length_take]

/-! ## exactness of the overlap table, and how `skip_existing` loses it -/

theorem exact_empty (g : Geo) : Exact g {} := fun _ _ h => by simp at h

theorem insert_exact (g : Geo) (e e' : Elem) (batch : List Rec) (h : Spatial.insert g e batch = some e') (hx : Exact g e) : Exact g e' := by
  unfold Spatial.insert at h
  split at h
  · exact absurd h (by simp)
  · injection h with h
    subst h
    intro k t hm
    simp only [List.mem_append] at hm ⊢
    rcases hm with hm | hm
    · obtain ⟨r, hr, ht⟩ := hx k t hm
      exact ⟨r, Or.inl hr, ht⟩
    · obtain ⟨r, hr, ht⟩ := (mem_insertRows g batch k t).mp hm
      exact ⟨r, Or.inr hr, ht⟩

theorem replace_exact (g : Geo) (e : Elem) (batch : List Rec) (hx : Exact g e) : Exact g (replace g e batch) := by
  intro k t hm
  simp only [replace, List.mem_append, List.mem_filter, Bool.not_eq_true'] at hm ⊢
  rcases hm with ⟨hm, hk⟩ | hm
  · obtain ⟨r, hr, ht⟩ := hx k t hm
    exact ⟨r, Or.inl ⟨hr, hk⟩, ht⟩
  · obtain ⟨r, hr, ht⟩ := (mem_insertRows g batch k t).mp hm
    exact ⟨r, Or.inr hr, ht⟩

theorem sync_exact (g : Geo) (e : Elem) (b : Rec) (u : Bool) (hx : Exact g e) : Exact g (sync g e b u).1 := by
  unfold sync
  split
  · intro k t hm
    simp only [List.mem_append, List.mem_singleton] at hm ⊢
    rcases hm with hm | hm
    · obtain ⟨r, hr, ht⟩ := hx k t hm
      exact ⟨r, Or.inl hr, ht⟩
    · obtain ⟨r, hr, ht⟩ := (mem_rowsOf g b k t).mp hm
      exact ⟨r, Or.inr hr.symm, ht⟩
  · split
    · exact hx
    · split
      · exact replace_exact g e [b] hx
      · exact hx

theorem insertSkip_exact (g : Geo) (e : Elem) (batch : List Rec) (hx : Exact g e) : Exact g (insertSkip g e batch) := by
  intro k t hm
  simp only [insertSkip, List.mem_append] at hm ⊢
  rcases hm with hm | hm
  · obtain ⟨r, hr, ht⟩ := hx k t hm
    exact ⟨r, Or.inl hr, ht⟩
  · obtain ⟨r, hr, ht⟩ := (mem_insertRows g _ k t).mp hm
    exact ⟨r, Or.inr hr, ht⟩

/-- **Every history keeps the overlap table exact**: its rows are the envelopes of the stored regions
and nothing else. -/
theorem run_exact (g : Geo) : ∀ (ops : List Op) (e : Elem), Exact g e → Exact g (run g e ops)
  | [], _, hx => hx
  | op :: ops, e, hx => by
    simp only [run, List.foldl_cons]
    refine run_exact g ops _ ?_
    cases op with
    | insert batch =>
      simp only [apply]
      cases h : Spatial.insert g e batch with
      | none => simpa using hx
      | some e' => simpa using insert_exact g e e' batch h hx
    | insertSkip batch => exact insertSkip_exact g e batch hx
    | replace batch =>
      simp only [apply]
      split
      · exact replace_exact g e batch hx
      · exact hx
    | sync b u => exact sync_exact g e b u hx

def demoGeo : Geo := { env := fun r => if r = 1 then [10, 11] else if r = 2 then [11, 12] else [20], ovl := fun a b => (a == b) || (a + b == 3) }

/-- **Post-processing never meets a NULL region**: with exact overlap tables every candidate row has
both regions, so `m[a].overlaps(m[b])` can be evaluated on every row the SQL part delivers. -/
theorem no_candidate_without_region (g : Geo) (e1 e2 : Elem) (u1 : Uniq e1) (u2 : Uniq e2) (x1 : Exact g e1) (x2 : Exact g e2) :
    raises g e1 e2 = false := by
  cases hr : raises g e1 e2 with
  | false => rfl
  | true =>
    exfalso
    simp only [raises, List.any_eq_true] at hr
    obtain ⟨⟨k1, k2⟩, hc, hn⟩ := hr
    obtain ⟨t, h1, h2⟩ := (mem_candidates e1 e2 k1 k2).mp hc
    obtain ⟨r1, m1, _⟩ := x1 k1 t h1
    obtain ⟨r2, m2, _⟩ := x2 k2 t h2
    simp [exact?, lookup_of_mem e1 u1 _ _ m1, lookup_of_mem e2 u2 _ _ m2] at hn

theorem history_never_raises (g : Geo) (ops1 ops2 : List Op) (w1 : ∀ op ∈ ops1, WFOp op) (w2 : ∀ op ∈ ops2, WFOp op) :
    raises g (run g {} ops1) (run g {} ops2) = false :=
  no_candidate_without_region g _ _ (run_inv g ops1 {} w1 (inv_empty g)).1 (run_inv g ops2 {} w2 (inv_empty g)).1
    (run_exact g ops1 {} (exact_empty g)) (run_exact g ops2 {} (exact_empty g))

/-- Finding C06-a, the code as it was given: `skip_existing` over an existing record with a NULL
region kept the NULL and *added* the offered region's rows; the next spatial join then delivered a
candidate without region to the post-processing, which raised. -/
theorem old_skip_existing_made_queries_raise :
    let e1 := insertSkipOld demoGeo (run demoGeo {} [.insert [(1, none)]]) [(1, some 1)]
    let e2 := run demoGeo {} [.insert [(7, some 1)]]
    e1.recs = [(1, none)] ∧ (1, 10) ∈ e1.ov ∧ ¬ Exact demoGeo e1 ∧ raises demoGeo e1 e2 = true := by
  refine ⟨by decide, by decide, fun h => ?_, by decide⟩
  obtain ⟨r, hr, _⟩ := h 1 10 (by decide)
  have : (1, some r) ∈ [((1 : Nat), (none : Option Nat))] := hr
  simp at this

/-- non-vacuity: a history whose final tables give a non-trivial answer -/
example :
    let e1 := run demoGeo {} [.insert [(1, none), (2, some 1)], .sync (1, some 3) true, .replace [(2, some 2)]]
    let e2 := run demoGeo {} [.insertSkip [(7, some 1), (8, some 3)], .sync (9, none) false]
    query demoGeo e1 e2 1 none = [(1, 8), (2, 7)] := by decide

end C06.Spatial

/-! ## the whole query: dimension tables, membership tables and the overlap relation together -/
namespace C06.Whole
open Join _root_.Spatial C06 C06.Spatial

/-- the overlap relation as one more table of the join, over the key columns of the two elements -/
def overlapTbl (c1 c2 : Nat) (pairs : List (Nat × Nat)) : Tbl :=
  { cols := [c1, c2], rows := pairs.map fun p => fun c => if c = c1 then p.1 else p.2 }

theorem sat_overlapTbl (c1 c2 : Nat) (hne : c1 ≠ c2) (pairs : List (Nat × Nat)) (a : Nat → Nat) :
    Sat a (overlapTbl c1 c2 pairs) ↔ (a c1, a c2) ∈ pairs := by
  simp only [Sat, overlapTbl, List.mem_map, agreeOnB_iff]
  constructor
  · rintro ⟨r, ⟨p, hp, rfl⟩, ha⟩
    have h1 := ha c1 (by simp)
    have h2 := ha c2 (by simp)
    simp only [↓reduceIte] at h1
    simp only [hne.symm, ↓reduceIte] at h2
    rw [h1, h2]
    exact hp
  · intro hp
    refine ⟨_, ⟨(a c1, a c2), hp, rfl⟩, ?_⟩
    intro c hc
    simp only [List.mem_cons, List.not_mem_nil, or_false] at hc
    rcases hc with rfl | rfl
    · simp
    · simp [hne.symm]

/-- **The property, whole**: after any histories of record operations on the two spatial elements, a
combination of dimension values is returned by the query — the natural join of the dimension and
membership tables `Ts` with the post-processed common-skypix overlap of the two elements — exactly
when it is consistent with every one of those tables *and* the stored regions of the two elements'
records are not disjoint.  Raw page size and table order are irrelevant. -/
theorem whole_query_exact (g : Geo) (hg : GeoSound g) (ops1 ops2 : List Op)
    (w1 : ∀ op ∈ ops1, WFOp op) (w2 : ∀ op ∈ ops2, WFOp op) (n : Nat) (c1 c2 : Nat) (hne : c1 ≠ c2) (Ts : List Tbl) (a : Nat → Nat) :
    Sat a (joinAll (overlapTbl c1 c2 (query g (run g {} ops1) (run g {} ops2) n none) :: Ts)) ↔
      (∃ r1 r2, (a c1, some r1) ∈ (run g {} ops1).recs ∧ (a c2, some r2) ∈ (run g {} ops2).recs ∧ g.ovl r1 r2 = true) ∧ ∀ T ∈ Ts, Sat a T := by
  rw [query_exact]
  simp only [List.mem_cons, forall_eq_or_imp, sat_overlapTbl c1 c2 hne]
  rw [history_query_exact g hg ops1 ops2 w1 w2 n (a c1, a c2)]

end C06.Whole
