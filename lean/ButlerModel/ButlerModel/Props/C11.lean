import ButlerModel.Gen.TimespanPy
import ButlerModel.Gen.TimespanSql
/-! # C11 — Timespans are half-open sets of integer nanoseconds, identically in Python and SQL

Every theorem here is about the definitions **generated** from `/repo`'s current
`_timespan.py` and `timespan_database_representation.py` (`Gen.TsPy.*`, `Gen.TsSql.*`).
-/
namespace C11
open Gen Gen.TsPy

/-- The single canonical empty timespan. -/
def empty : TS := ⟨maxNsec, minNsec⟩

/-- Every value the public constructor can produce (`ctor_wf`, `ctorNsec_wf`): the canonical
empty value, or `minNsec ≤ b < e ≤ maxNsec`.  Stated arithmetically so `omega`/`grind` see it. -/
def WF (t : TS) : Prop :=
  (t.b = maxNsec ∧ t.e = minNsec) ∨ (minNsec ≤ t.b ∧ t.b < t.e ∧ t.e ≤ maxNsec)

instance (t : TS) : Decidable (WF t) := by unfold WF; infer_instance

/-- Set semantics: the nanoseconds a timespan denotes. -/
def Mem (x : Int) (t : TS) : Prop := t.b ≤ x ∧ x < t.e

instance (x : Int) (t : TS) : Decidable (Mem x t) := by unfold Mem; infer_instance

theorem consts : minNsec < maxNsec := by decide

theorem wf_empty_iff (t : TS) : (t.b = maxNsec ∧ t.e = minNsec) ↔ t = empty := by
  cases t; simp [empty]

/-! ## constructor -/

theorem ctorNsec_wf (p : Int × Int) (h1 : minNsec ≤ p.1) (h2 : p.2 ≤ maxNsec) : WF (ctorNsec p) := by
  have := consts
  grind [ctorNsec, WF]

theorem ctorNsec_mem (p : Int × Int) (x : Int) : Mem x (ctorNsec p) ↔ (p.1 ≤ x ∧ x < p.2) := by
  have := consts
  grind [ctorNsec, Mem]

/-- `Timespan.__reduce__` / pydantic / SQL `extract` all rebuild a timespan through
`_nsec=self.nsec`; for every constructible value that is the identity. -/
theorem reduce_roundtrip (t : TS) (h : WF t) : ctorNsec (t.b, t.e) = t := by
  have := consts
  obtain ⟨b, e⟩ := t
  grind [ctorNsec, WF]

/-- A bound is admissible when `astropy_to_nsec` clamped it into `[minNsec, maxNsec]`. -/
def BoundOk : Bound → Prop
  | .time n _ _ => minNsec ≤ n ∧ n ≤ maxNsec
  | _ => True

/-- The public constructor only produces well-formed values (for every combination of
`None` / `EMPTY` / time bounds and both `padInstantaneous` settings). -/
theorem ctor_wf (b e : Bound) (pad : Bool) (t : TS) (hb : BoundOk b) (he : BoundOk e)
    (h : ctor b e pad = .ok t) : WF t := by
  have := consts
  unfold ctor at h
  cases b <;> cases e <;>
    grind [WF, BoundOk, Bound.isNone, Bound.isEmptyTag, Bound.isTime, Bound.nsec]

/-- `Timespan.EMPTY` as either bound always yields the canonical empty timespan. -/
theorem ctor_empty_left (e : Bound) (pad : Bool) (t : TS) (he : BoundOk e)
    (h : ctor .empty e pad = .ok t) : t = empty := by
  have := consts
  unfold ctor at h
  obtain ⟨tb, te⟩ := t
  cases e <;>
    grind [empty, BoundOk, Bound.isNone, Bound.isEmptyTag, Bound.isTime, Bound.nsec]

theorem ctor_empty_right (b : Bound) (pad : Bool) (t : TS) (hb : BoundOk b)
    (h : ctor b .empty pad = .ok t) : t = empty := by
  have := consts
  unfold ctor at h
  obtain ⟨tb, te⟩ := t
  cases b <;>
    grind [empty, BoundOk, Bound.isNone, Bound.isEmptyTag, Bound.isTime, Bound.nsec]

/-- Finite bounds `b < e` are kept exactly; `b = e` pads by one nanosecond iff asked to. -/
theorem ctor_finite (x y : Int) (f1 f2 f3 f4 pad : Bool) (t : TS)
    (hx : minNsec ≤ x ∧ x ≤ maxNsec) (hy : minNsec ≤ y ∧ y ≤ maxNsec)
    (h : ctor (.time x f1 f2) (.time y f3 f4) pad = .ok t) :
    (x < y → t = ⟨x, y⟩) ∧ (x > y → t = empty) ∧ (x = y → pad = true → t = ⟨x, x + 1⟩) ∧
    (x = y → pad = false → t = empty) := by
  have := consts
  unfold ctor at h
  obtain ⟨tb, te⟩ := t
  grind [empty, Bound.isNone, Bound.isEmptyTag, Bound.isTime, Bound.nsec]

/-! ## relations -/

theorem isEmpty_iff (t : TS) (h : WF t) : isEmpty t = true ↔ ∀ x, ¬ Mem x t := by
  have := consts
  unfold isEmpty Mem WF at *
  constructor
  · intro h1 x; simp at h1; omega
  · intro h1
    have := h1 t.b
    simp; omega

theorem isEmpty_iff_eq (t : TS) (h : WF t) : isEmpty t = true ↔ t = empty := by
  have := consts
  rw [← wf_empty_iff]
  unfold isEmpty WF at *
  simp; omega

theorem containsT_iff (t : TS) (x : Int) : containsT t x = true ↔ Mem x t := by
  unfold containsT Mem; simp

theorem overlapsT_iff (t : TS) (x : Int) : overlapsT t x = true ↔ Mem x t := by
  unfold overlapsT; exact containsT_iff t x

theorem overlaps_iff (a b : TS) (ha : WF a) (hb : WF b) :
    overlaps a b = true ↔ ∃ x, Mem x a ∧ Mem x b := by
  have := consts
  unfold overlaps Mem WF at *
  simp only [Bool.and_eq_true, decide_eq_true_eq]
  constructor
  · intro h; refine ⟨max a.b b.b, ?_⟩; omega
  · rintro ⟨x, h1, h2⟩; omega

theorem contains_iff (a b : TS) (ha : WF a) (hb : WF b) :
    contains a b = true ↔ ∀ x, Mem x b → Mem x a := by
  have := consts
  unfold contains Mem WF at *
  simp only [Bool.and_eq_true, decide_eq_true_eq]
  constructor
  · intro h x hx; omega
  · intro h
    have h1 := h b.b
    have h2 := h (b.e - 1)
    omega

theorem lt_iff (a b : TS) (ha : WF a) (hb : WF b) :
    lt a b = true ↔ ((∃ x, Mem x a) ∧ (∃ y, Mem y b) ∧ ∀ x y, Mem x a → Mem y b → x < y) := by
  have := consts
  unfold TsPy.lt Mem WF at *
  simp only [Bool.and_eq_true, decide_eq_true_eq]
  constructor
  · intro h
    refine ⟨⟨a.b, by omega⟩, ⟨b.b, by omega⟩, ?_⟩
    intro x y hx hy; omega
  · rintro ⟨⟨x, hx⟩, ⟨y, hy⟩, h⟩
    have := h (a.e - 1) b.b
    omega

theorem gt_iff (a b : TS) (ha : WF a) (hb : WF b) :
    gt a b = true ↔ ((∃ x, Mem x a) ∧ (∃ y, Mem y b) ∧ ∀ x y, Mem x a → Mem y b → x > y) := by
  have := consts
  unfold TsPy.gt Mem WF at *
  simp only [Bool.and_eq_true, decide_eq_true_eq]
  constructor
  · intro h
    refine ⟨⟨a.b, by omega⟩, ⟨b.b, by omega⟩, ?_⟩
    intro x y hx hy; omega
  · rintro ⟨⟨x, hx⟩, ⟨y, hy⟩, h⟩
    have := h a.b (b.e - 1)
    omega

/-- `ts < t` for an instant `t` (already clamped into the supported range). -/
theorem ltT_iff (a : TS) (n : Int) (ha : WF a) (hn : minNsec ≤ n ∧ n ≤ maxNsec) :
    ltT a n = true ↔ ((∃ x, Mem x a) ∧ ∀ x, Mem x a → x < n) := by
  have := consts
  unfold ltT Mem WF at *
  simp only [Bool.and_eq_true, decide_eq_true_eq]
  constructor
  · intro h
    refine ⟨⟨a.b, by omega⟩, ?_⟩
    intro x hx; omega
  · rintro ⟨⟨x, hx⟩, h⟩
    have := h (a.e - 1)
    omega

theorem gtT_iff (a : TS) (n : Int) (ha : WF a) (hn : minNsec ≤ n ∧ n ≤ maxNsec) :
    gtT a n = true ↔ ((∃ x, Mem x a) ∧ ∀ x, Mem x a → x > n) := by
  have := consts
  unfold gtT Mem WF at *
  simp only [Bool.and_eq_true, decide_eq_true_eq]
  constructor
  · intro h
    refine ⟨⟨a.b, by omega⟩, ?_⟩
    intro x hx; omega
  · rintro ⟨⟨x, hx⟩, h⟩
    have := h a.b
    omega

/-- Equality is set equality: in particular there is a single empty value. -/
theorem eq_iff (a b : TS) (ha : WF a) (hb : WF b) :
    TsPy.eq a b = true ↔ ∀ x, Mem x a ↔ Mem x b := by
  have := consts
  obtain ⟨ab, ae⟩ := a; obtain ⟨bb, be⟩ := b
  unfold TsPy.eq Mem WF at *
  simp only [decide_eq_true_eq, TS.mk.injEq] at *
  constructor
  · rintro ⟨h1, h2⟩; subst h1; subst h2; simp
  · intro h
    have h1 := h ab
    have h2 := h bb
    have h3 := h (ae - 1)
    have h4 := h (be - 1)
    omega

/-- Equal timespans have equal hash keys (`hash(self.nsec)`): equality *is* equality of `nsec`. -/
theorem hash_respects_eq (a b : TS) (h : TsPy.eq a b = true) : (a.b, a.e) = (b.b, b.e) := by
  unfold TsPy.eq at h; simp at h; subst h; rfl

theorem makeEmpty_eq : makeEmpty = empty := by
  unfold makeEmpty ctorNsec empty; simp

/-! ## intersection and difference -/

theorem maxL_spec (x : Int) (xs : List Int) :
    (∀ y ∈ x :: xs, y ≤ Py.maxL (x :: xs)) ∧ Py.maxL (x :: xs) ∈ x :: xs := by
  unfold Py.maxL
  have h1 := Py.foldl_max_ge xs x
  have h2 := Py.foldl_max_mem xs x
  constructor
  · intro y hy; simp at hy; rcases hy with hy | hy
    · subst hy; exact h1.1
    · exact h1.2 y hy
  · simp; rcases h2 with h | h
    · left; exact h
    · right; exact h

theorem minL_spec (x : Int) (xs : List Int) :
    (∀ y ∈ x :: xs, Py.minL (x :: xs) ≤ y) ∧ Py.minL (x :: xs) ∈ x :: xs := by
  unfold Py.minL
  have h1 := Py.foldl_min_le xs x
  have h2 := Py.foldl_min_mem xs x
  constructor
  · intro y hy; simp at hy; rcases hy with hy | hy
    · subst hy; exact h1.1
    · exact h1.2 y hy
  · simp; rcases h2 with h | h
    · left; exact h
    · right; exact h

/-- n-ary intersection denotes the intersection of the sets (any number of operands). -/
theorem intersection_mem (a : TS) (args : List TS) (x : Int) :
    Mem x (intersection a args) ↔ (Mem x a ∧ ∀ t ∈ args, Mem x t) := by
  unfold intersection
  cases args with
  | nil => simp
  | cons t ts =>
    simp only [List.isEmpty_cons, Bool.false_eq_true, ↓reduceIte]
    rw [ctorNsec_mem]
    simp only [List.singleton_append, List.map_cons]
    have hM := maxL_spec a.b (t.b :: ts.map (fun ts => ts.b))
    have hm := minL_spec a.e (t.e :: ts.map (fun ts => ts.e))
    unfold Mem
    constructor
    · rintro ⟨h1, h2⟩
      refine ⟨⟨?_, ?_⟩, ?_⟩
      · have := hM.1 a.b (by simp); omega
      · have := hm.1 a.e (by simp); omega
      · intro u hu
        have hu' : u = t ∨ u ∈ ts := by simpa using hu
        have hb : u.b ∈ a.b :: t.b :: ts.map (fun ts => ts.b) := by
          rcases hu' with h | h
          · subst h; simp
          · simp; right; right; exact ⟨u, h, rfl⟩
        have he : u.e ∈ a.e :: t.e :: ts.map (fun ts => ts.e) := by
          rcases hu' with h | h
          · subst h; simp
          · simp; right; right; exact ⟨u, h, rfl⟩
        have := hM.1 _ hb; have := hm.1 _ he; omega
    · rintro ⟨⟨h1, h2⟩, h3⟩
      have key : ∀ y ∈ a.b :: t.b :: ts.map (fun ts => ts.b), y ≤ x := by
        intro y hy; simp at hy
        rcases hy with hy | hy | ⟨u, hu, hy⟩
        · omega
        · have := h3 t (by simp); omega
        · have := h3 u (by simp [hu]); omega
      have key2 : ∀ y ∈ a.e :: t.e :: ts.map (fun ts => ts.e), x < y := by
        intro y hy; simp at hy
        rcases hy with hy | hy | ⟨u, hu, hy⟩
        · omega
        · have := h3 t (by simp); omega
        · have := h3 u (by simp [hu]); omega
      exact ⟨key _ hM.2, key2 _ hm.2⟩

theorem intersection_wf (a : TS) (args : List TS) (ha : WF a) : WF (intersection a args) := by
  unfold intersection
  cases args with
  | nil => simpa
  | cons t ts =>
    simp only [List.isEmpty_cons, Bool.false_eq_true, ↓reduceIte]
    simp only [List.singleton_append, List.map_cons]
    have hM := maxL_spec a.b (t.b :: ts.map (fun ts => ts.b))
    have hm := minL_spec a.e (t.e :: ts.map (fun ts => ts.e))
    have h1 := hM.1 a.b (by simp)
    have h2 := hm.1 a.e (by simp)
    have := consts
    unfold WF at ha
    apply ctorNsec_wf <;> simp only [] <;> omega

/-- Binary intersection in closed form (what `difference` and the calibration code use). -/
theorem intersection2 (a b : TS) :
    intersection a [b] = ctorNsec (max a.b b.b, min a.e b.e) := by
  unfold intersection Py.maxL Py.minL; simp

/-- Closed form of `difference` on constructible operands. -/
theorem difference_closed (a b : TS) (ha : WF a) (hb : WF b) :
    difference a b =
      if max a.b b.b ≥ min a.e b.e then [a]
      else (if a.b < b.b then [⟨a.b, b.b⟩] else []) ++ (if b.e < a.e then [⟨b.e, a.e⟩] else []) := by
  have hc := consts
  obtain ⟨ab, ae⟩ := a; obtain ⟨bb, be⟩ := b
  unfold difference; rw [intersection2]
  grind [ctorNsec, isEmpty, WF]

/-- The union of the yielded pieces is exactly the set difference. -/
theorem difference_mem (a b : TS) (ha : WF a) (hb : WF b) (x : Int) :
    (∃ p ∈ difference a b, Mem x p) ↔ (Mem x a ∧ ¬ Mem x b) := by
  have hc := consts
  rw [difference_closed a b ha hb]
  obtain ⟨ab, ae⟩ := a; obtain ⟨bb, be⟩ := b
  unfold WF at ha hb
  simp only [Mem] at *
  by_cases h0 : max ab bb ≥ min ae be
  · simp only [h0, ↓reduceIte, List.mem_singleton, exists_eq_left]; omega
  · by_cases h1 : ab < bb <;> by_cases h2 : be < ae <;>
      simp [h0, h1, h2] <;> omega

/-- Every yielded piece is constructible, and non-empty whenever `self` is. -/
theorem difference_pieces (a b : TS) (ha : WF a) (hb : WF b) (hne : isEmpty a = false) :
    ∀ p ∈ difference a b, WF p ∧ isEmpty p = false := by
  have hc := consts
  obtain ⟨ab, ae⟩ := a; obtain ⟨bb, be⟩ := b
  unfold difference; rw [intersection2]
  grind [ctorNsec, isEmpty, WF]

theorem difference_pieces_wf (a b : TS) (ha : WF a) (hb : WF b) :
    ∀ p ∈ difference a b, WF p := by
  have hc := consts
  obtain ⟨ab, ae⟩ := a; obtain ⟨bb, be⟩ := b
  unfold difference; rw [intersection2]
  grind [ctorNsec, isEmpty, WF]

theorem difference_length (a b : TS) : (difference a b).length ≤ 2 := by
  unfold difference
  grind

theorem difference_disjoint (a b : TS) (ha : WF a) (hb : WF b) :
    (difference a b).Pairwise (fun p q => ∀ x, ¬ (Mem x p ∧ Mem x q)) := by
  have hc := consts
  rw [difference_closed a b ha hb]
  obtain ⟨ab, ae⟩ := a; obtain ⟨bb, be⟩ := b
  unfold WF at ha hb
  simp only [Mem] at *
  by_cases h0 : max ab bb ≥ min ae be
  · simp [h0]
  · by_cases h1 : ab < bb <;> by_cases h2 : be < ae <;>
      simp [h0, h1, h2] <;> (try (intro x; omega))

/-! ## SQL agreement (three-valued) -/
open Sql

/-- Row environment: columns 0,1 hold timespan `a`, columns 2,3 hold timespan `b`, column 4 an instant. -/
def env (a b : Option TS) (t : Option Int) : Nat → V
  | 0 => match a with | some a => .int a.b | none => .null
  | 1 => match a with | some a => .int a.e | none => .null
  | 2 => match b with | some b => .int b.b | none => .null
  | 3 => match b with | some b => .int b.e | none => .null
  | 4 => match t with | some t => .int t | none => .null
  | _ => .null

def colA : E × E := (.col 0, .col 1)
def colB : E × E := (.col 2, .col 3)

theorem sql_overlaps_agrees (a b : TS) (t : Option Int) :
    eval (env (some a) (some b) t) (TsSql.overlaps colA colB) = .bool (TsPy.overlaps a b) := by
  simp [TsSql.overlaps, TsPy.overlaps, colA, colB, eval, env, cmp, and3]
  by_cases h1 : b.b < a.e <;> by_cases h2 : a.b < b.e <;> simp [h1, h2]

theorem sql_contains_agrees (a b : TS) (t : Option Int) :
    eval (env (some a) (some b) t) (TsSql.contains colA colB) = .bool (TsPy.contains a b) := by
  simp [TsSql.contains, TsPy.contains, colA, colB, eval, env, cmp, and3]
  by_cases h1 : a.b ≤ b.b <;> by_cases h2 : b.e ≤ a.e <;> simp [h1, h2]

theorem sql_lt_agrees (a b : TS) (t : Option Int) :
    eval (env (some a) (some b) t) (TsSql.lt colA colB) = .bool (TsPy.lt a b) := by
  simp [TsSql.lt, TsPy.lt, colA, colB, eval, env, cmp, and3]
  by_cases h1 : a.e ≤ b.b <;> by_cases h2 : a.b < b.e <;> simp [h1, h2]

theorem sql_gt_agrees (a b : TS) (t : Option Int) :
    eval (env (some a) (some b) t) (TsSql.gt colA colB) = .bool (TsPy.gt a b) := by
  simp [TsSql.gt, TsPy.gt, colA, colB, eval, env, cmp, and3]
  by_cases h1 : b.e ≤ a.b <;> by_cases h2 : b.b < a.e <;> simp [h1, h2]

theorem sql_containsT_agrees (a : TS) (b : Option TS) (t : Int) :
    eval (env (some a) b (some t)) (TsSql.containsT colA (.col 4)) = .bool (TsPy.containsT a t) := by
  simp [TsSql.containsT, TsPy.containsT, colA, eval, env, cmp, and3]
  by_cases h1 : a.b ≤ t <;> by_cases h2 : t < a.e <;> simp [h1, h2]

theorem sql_overlapsT_agrees (a : TS) (b : Option TS) (t : Int) :
    eval (env (some a) b (some t)) (TsSql.overlapsT colA (.col 4)) = .bool (TsPy.overlapsT a t) := by
  unfold TsSql.overlapsT TsPy.overlapsT; exact sql_containsT_agrees a b t

theorem sql_ltT_agrees (a : TS) (b : Option TS) (t : Int) :
    eval (env (some a) b (some t)) (TsSql.ltT colA (.col 4)) = .bool (TsPy.ltT a t) := by
  simp [TsSql.ltT, TsPy.ltT, colA, eval, env, cmp, and3]
  by_cases h1 : a.e ≤ t <;> by_cases h2 : a.b < t <;> simp [h1, h2]

theorem sql_gtT_agrees (a : TS) (b : Option TS) (t : Int) :
    eval (env (some a) b (some t)) (TsSql.gtT colA (.col 4)) = .bool (TsPy.gtT a t) := by
  simp [TsSql.gtT, TsPy.gtT, colA, eval, env, cmp, and3]
  by_cases h1 : t < a.b <;> by_cases h2 : t < a.e <;> simp [h1, h2]

theorem sql_isEmpty_agrees (a : TS) (b : Option TS) (t : Option Int) :
    eval (env (some a) b t) (TsSql.isEmpty colA) = .bool (TsPy.isEmpty a) := by
  simp [TsSql.isEmpty, TsPy.isEmpty, colA, eval, env, cmp]

/-- A NULL timespan operand (both columns NULL) makes every relation NULL, never true. -/
theorem sql_null_operand (b : Option TS) (t : Option Int) :
    eval (env none b t) (TsSql.overlaps colA colB) = .null ∧
    eval (env none b t) (TsSql.contains colA colB) = .null ∧
    eval (env none b t) (TsSql.lt colA colB) = .null ∧
    eval (env none b t) (TsSql.gt colA colB) = .null ∧
    eval (env none b t) (TsSql.isEmpty colA) = .null ∧
    eval (env none b t) (TsSql.isNull colA) = .bool true := by
  cases b <;> simp [TsSql.overlaps, TsSql.contains, TsSql.lt, TsSql.gt, TsSql.isEmpty, TsSql.isNull,
    colA, colB, eval, env, cmp, and3]

theorem sql_isNull_nonnull (a : TS) (b : Option TS) (t : Option Int) :
    eval (env (some a) b t) (TsSql.isNull colA) = .bool false := by
  simp [TsSql.isNull, colA, eval, env]

/-! ## non-vacuity -/
example : WF ⟨10, 20⟩ ∧ WF empty ∧ ¬ WF ⟨20, 10⟩ := by decide
example : ctor (.time 5 false false) (.time 5 false false) true = .ok ⟨5, 6⟩ := by rfl
example : difference ⟨0, 100⟩ ⟨40, 60⟩ = [⟨0, 40⟩, ⟨60, 100⟩] := by decide
example : BoundOk (.time 5 false false) := by simp [BoundOk, minNsec, maxNsec]

end C11
