import ButlerModel.Model.Paging
import ButlerModel.Gen.PostprocessingPy
/-! # C16 — ordering, limits, paging and counts describe the same result set -/
namespace C16
open Paging

variable {α : Type}

/-- One page through `apply`: yields the filtered page cut at the remaining limit, and the limit
state decreases by exactly the number of rows yielded. -/
theorem applyPage_spec (p : α → Bool) : ∀ (rows : List α) (l : Nat),
    applyPage p (some l) rows = ((rows.filter p).take l, some (l - ((rows.filter p).take l).length)) := by
  intro rows
  induction rows with
  | nil => intro l; cases l <;> simp [applyPage]
  | cons r rs ih =>
    intro l
    cases l with
    | zero => simp [applyPage]
    | succ l =>
      unfold applyPage
      by_cases hp : p r = true
      · simp only [hp, ↓reduceIte, List.filter_cons]
        by_cases hl : l = 0
        · subst hl; simp
        · simp only [hl, ↓reduceIte, ih l, List.take_succ_cons, List.length_cons]
          congr 2; omega
      · have hp' : p r = false := by simpa using hp
        simp only [hp', Bool.false_eq_true, ↓reduceIte, List.filter_cons, ih (l + 1)]

theorem applyPage_none (p : α → Bool) (rows : List α) : applyPage p none rows = (rows.filter p, none) := by
  cases rows <;> rfl

/-- **Paging never changes the result**: iterating pages of *any* size through `apply` with its
decrementing limit yields every post-filtered row exactly once, in order, cut at the limit —
also when the limit is 0, is hit in the middle of a page, or exactly at a page boundary. -/
theorem iterate_spec (p : α → Bool) : ∀ (pgs : List (List α)) (limit : Option Nat),
    iterate p limit pgs = spec p limit pgs.flatten := by
  intro pgs
  induction pgs with
  | nil => intro limit; cases limit <;> simp [iterate, spec]
  | cons pg pgs ih =>
    intro limit
    cases limit with
    | none =>
      simp only [iterate, applyPage_none, ih none, spec, List.flatten_cons, List.filter_append]
    | some l =>
      simp only [iterate, applyPage_spec, ih, spec, List.flatten_cons, List.filter_append]
      rw [List.take_append]
      congr 2
      simp only [List.length_take]
      omega

theorem pages_flatten (k : Nat) (hk : 0 < k) : ∀ (fuel : Nat) (rows : List α), rows.length ≤ fuel →
    (pages k fuel rows).flatten = rows := by
  intro fuel
  induction fuel with
  | zero =>
    intro rows h
    have : rows = [] := List.length_eq_zero_iff.mp (by omega)
    subst this; rfl
  | succ n ih =>
    intro rows h
    unfold pages
    split
    · rename_i he; simp at he; simp [he]
    · rename_i hne
      have hlen : 0 < rows.length := by
        cases rows with
        | nil => simp at hne
        | cons _ _ => simp
      simp only [List.flatten_cons]
      rw [ih (rows.drop k) (by simp only [List.length_drop]; omega), List.take_append_drop]

/-- The page size is irrelevant (for every `k ≥ 1`). -/
theorem paging_concat (p : α → Bool) (k : Nat) (hk : 0 < k) (limit : Option Nat) (rows : List α) :
    iterate p limit (pages k rows.length rows) = spec p limit rows := by
  rw [iterate_spec, pages_flatten k hk rows.length rows (Nat.le_refl _)]

/-- A limit returns a prefix of the unlimited result, of length `min limit n`. -/
theorem limit_prefix (p : α → Bool) (l : Nat) (rows : List α) :
    spec p (some l) rows = (spec p none rows).take l ∧ (spec p (some l) rows).length = min l (spec p none rows).length := by
  simp [spec, List.length_take]

/-- `count(exact=True, discard=True)` counts what iteration yields; `any` is non-emptiness of it. -/
theorem count_eq_length (p : α → Bool) (k : Nat) (hk : 0 < k) (limit : Option Nat) (rows : List α) :
    (iterate p limit (pages k rows.length rows)).length = (spec p limit rows).length := by
  rw [paging_concat p k hk]

theorem any_iff_nonempty (p : α → Bool) (rows : List α) :
    (rows.any p = true) ↔ spec p none rows ≠ [] := by
  simp [spec, List.filter_eq_nil_iff]

/-! ## ORDER BY: a sorted permutation -/

theorem insertBy_perm (lt : α → α → Bool) (x : α) (l : List α) : (insertBy lt x l).Perm (x :: l) := by
  induction l with
  | nil => exact List.Perm.refl _
  | cons y ys ih =>
    unfold insertBy
    split
    · exact List.Perm.refl _
    · exact (List.Perm.cons y ih).trans (List.Perm.swap x y ys)

/-- The ordered result is a permutation of the unordered one. -/
theorem sortBy_perm (lt : α → α → Bool) (l : List α) : (sortBy lt l).Perm l := by
  induction l with
  | nil => exact List.Perm.refl _
  | cons x xs ih =>
    unfold sortBy
    simp only [List.foldr_cons]
    exact (insertBy_perm lt x _).trans (List.Perm.cons x ih)

/-- …sorted by the requested keys (for any total preorder given as `¬ lt b a`). -/
theorem insertBy_sorted (lt : α → α → Bool) (htrans : ∀ a b c, lt b a = false → lt c b = false → lt c a = false)
    (htotal : ∀ a b, lt a b = true → lt b a = false)
    (x : α) (l : List α) (h : l.Pairwise (fun a b => lt b a = false)) :
    (insertBy lt x l).Pairwise (fun a b => lt b a = false) := by
  induction l with
  | nil => exact List.pairwise_singleton _ _
  | cons y ys ih =>
    have hy := List.pairwise_cons.mp h
    unfold insertBy
    split
    · rename_i hlt
      refine List.pairwise_cons.mpr ⟨?_, h⟩
      intro z hz
      rcases List.mem_cons.mp hz with hz | hz
      · subst hz; exact htotal x z hlt
      · exact htrans x y z (htotal x y hlt) (hy.1 z hz)
    · rename_i hnlt
      have hnlt' : lt x y = false := by simpa using hnlt
      refine List.pairwise_cons.mpr ⟨?_, ih hy.2⟩
      intro z hz
      have hz' := (insertBy_perm lt x ys).mem_iff.mp hz
      rcases List.mem_cons.mp hz' with hz' | hz'
      · subst hz'; exact hnlt'
      · exact hy.1 z hz'

theorem sortBy_sorted (lt : α → α → Bool) (htrans : ∀ a b c, lt b a = false → lt c b = false → lt c a = false)
    (htotal : ∀ a b, lt a b = true → lt b a = false) (l : List α) :
    (sortBy lt l).Pairwise (fun a b => lt b a = false) := by
  induction l with
  | nil => exact List.Pairwise.nil
  | cons x xs ih =>
    unfold sortBy
    simp only [List.foldr_cons]
    exact insertBy_sorted lt htrans htotal x _ ih

/-! non-vacuity: limit 3 hit in the middle of the second page of size 2 -/
example : iterate (fun n : Nat => n % 2 == 0) (some 3) (pages 2 7 [0, 1, 2, 4, 6, 8, 10]) = [0, 2, 4] := by decide
example : iterate (fun _ : Nat => true) (some 0) (pages 2 3 [1, 2, 3]) = [] := by decide

/-! ## negative limits of the convenience wrappers -/

/-- **`limit = -n` returns the first `min n total` rows** … -/
theorem wrapper_negative_rows (n : Nat) (rows : List α) : (wrapper (some (-(n : Int))) rows).1 = rows.take n ∨ n = 0 := by
  by_cases hn : n = 0
  · exact Or.inr hn
  · left
    have hneg : (-(n : Int)) < 0 := by omega
    have habs : (-(n : Int)).natAbs = n := by omega
    simp only [wrapper, hneg, ↓reduceIte, habs]
    by_cases hl : (rows.take (n + 1)).length = n + 1
    · simp only [hl, beq_self_eq_true, ↓reduceIte]
      have hlen : n + 1 ≤ rows.length := by
        rw [List.length_take] at hl; omega
      rw [List.dropLast_eq_take, hl, List.take_take]
      congr 1
      omega
    · have hne : ((rows.take (n + 1)).length == n + 1) = false := by simpa using hl
      simp only [hne, Bool.false_eq_true, ↓reduceIte]
      have hlen : rows.length < n + 1 := by
        rw [List.length_take] at hl; omega
      rw [List.take_of_length_le (by omega), List.take_of_length_le (by omega)]

/-- … **and warns exactly when rows were left out** -/
theorem wrapper_negative_warns (n : Nat) (hn : 0 < n) (rows : List α) : (wrapper (some (-(n : Int))) rows).2 = decide (n < rows.length) := by
  have hneg : (-(n : Int)) < 0 := by omega
  have habs : (-(n : Int)).natAbs = n := by omega
  simp only [wrapper, hneg, ↓reduceIte, habs]
  by_cases hl : (rows.take (n + 1)).length = n + 1
  · simp only [hl, beq_self_eq_true, ↓reduceIte]
    rw [List.length_take] at hl
    simp; omega
  · have hne : ((rows.take (n + 1)).length == n + 1) = false := by simpa using hl
    simp only [hne, Bool.false_eq_true, ↓reduceIte]
    rw [List.length_take] at hl
    simp; omega

theorem wrapper_negative_length (n : Nat) (hn : 0 < n) (rows : List α) : (wrapper (some (-(n : Int))) rows).1.length = min n rows.length := by
  rcases wrapper_negative_rows n rows with h | h
  · rw [h, List.length_take]
  · omega

theorem wrapper_nonnegative (n : Nat) (rows : List α) : wrapper (some (n : Int)) rows = (rows.take n, false) := by
  have : ¬ ((n : Int) < 0) := by omega
  simp [wrapper, this]

theorem wrapper_none (rows : List α) : wrapper none rows = (rows, false) := rfl

example : wrapper (some (-3)) [1, 2, 3] = ([1, 2, 3], false) ∧ wrapper (some (-3)) [1, 2, 3, 4] = ([1, 2, 3], true)
    ∧ wrapper (some (-1)) [7] = ([7], false) ∧ wrapper (some (-3)) [1, 2] = ([1, 2], false) := by decide

end C16

/-! ## T-tie: `Postprocessing.apply` **as translated from `_postprocessing.py` on every run**
(`translate/gen_postprocessing.py`: the guards, `continue`, `yield`, the in-place decrement of `_limit` and the `return` at
zero are kept; the region tests of one row are the predicate `p`). -/
namespace C16.Translated
open Paging
variable {α : Type}

/-- the loop body of the translated `apply`, as a function of the fold state -/
def stepPy (p : α → Bool) (acc : List α × Option Nat × Bool) (row : α) : List α × Option Nat × Bool :=
  let (out, limit, stopped) := acc
  if stopped then (out, limit, stopped) else
  (if (!(p row)) then (out, limit, false)
   else
     let out := out ++ [row]
     (if limit.isSome then
        let limit := limit.map (· - 1)
        (if (limit == some 0) then (out, limit, true) else (out, limit, false))
      else (out, limit, false)))

theorem foldl_stopped (p : α → Bool) (rows : List α) (out : List α) (lim : Option Nat) :
    rows.foldl (stepPy p) (out, lim, true) = (out, lim, true) := by
  induction rows with
  | nil => rfl
  | cons r rs ih => simp only [List.foldl_cons, stepPy, if_true]; exact ih

theorem foldl_spec (p : α → Bool) : ∀ (rows : List α) (out : List α) (lim : Option Nat), lim ≠ some 0 →
    ((rows.foldl (stepPy p) (out, lim, false)).1, (rows.foldl (stepPy p) (out, lim, false)).2.1) =
      (out ++ (applyPage p lim rows).1, (applyPage p lim rows).2) := by
  intro rows
  induction rows with
  | nil =>
    intro out lim h
    cases lim with
    | none => simp [applyPage]
    | some l =>
      cases l with
      | zero => exact absurd rfl h
      | succ l => simp [applyPage]
  | cons r rs ih =>
    intro out lim h
    cases lim with
    | none =>
      simp only [List.foldl_cons, stepPy, Bool.false_eq_true, if_false, Option.isSome_none]
      by_cases hp : p r
      · simp only [hp, Bool.not_true, Bool.false_eq_true, if_false]
        rw [ih (out ++ [r]) none (by simp)]
        simp [applyPage, hp]
      · simp only [hp, Bool.not_false, if_true]
        rw [ih out none (by simp)]
        simp [applyPage, hp]
    | some l =>
      cases l with
      | zero => exact absurd rfl h
      | succ l =>
        simp only [List.foldl_cons, stepPy, Bool.false_eq_true, if_false, Option.isSome_some, if_true, Option.map_some,
          Nat.add_sub_cancel]
        by_cases hp : p r
        · simp only [hp, Bool.not_true, Bool.false_eq_true, if_false]
          cases l with
          | zero =>
            simp only [beq_self_eq_true, if_true]
            rw [foldl_stopped]
            simp [applyPage, hp]
          | succ l =>
            have : (some (l + 1) == some 0) = false := by simp
            simp only [this, Bool.false_eq_true, if_false]
            rw [ih (out ++ [r]) (some (l + 1)) (by simp)]
            simp [applyPage, hp]
        · simp only [hp, Bool.not_false, if_true]
          rw [ih out (some (l + 1)) (by simp)]
          simp [applyPage, hp]

/-- **`Postprocessing.apply` as translated from the source on every run is the page function of
`Model/Paging.lean`** — for every post-filter, every remaining limit (also none and 0) and every page. -/
theorem translated_apply_eq (p : α → Bool) (lim : Option Nat) (rows : List α) :
    Gen.PostPy.applyPy p true lim rows = applyPage p lim rows := by
  unfold Gen.PostPy.applyPy
  simp only [Bool.not_true, Bool.false_eq_true, if_false]
  by_cases h0 : lim = some 0
  · subst h0; simp [applyPage]
  · have hb : (lim == some 0) = false := by
      cases lim with
      | none => rfl
      | some l => cases l with
        | zero => exact absurd rfl h0
        | succ l => simp
    simp only [hb, Bool.false_eq_true, if_false]
    have := foldl_spec p rows [] lim h0
    simp only [List.nil_append] at this
    exact this

/-- without post-processing the page passes through and the limit is left to SQL -/
theorem translated_apply_inactive (p : α → Bool) (lim : Option Nat) (rows : List α) :
    Gen.PostPy.applyPy p false lim rows = (rows, lim) := by
  simp [Gen.PostPy.applyPy]

/-- iterating the pages of a query through the translated `apply`, threading its in-place limit -/
def iteratePy (p : α → Bool) : Option Nat → List (List α) → List α
  | _, [] => []
  | st, pg :: pgs => (Gen.PostPy.applyPy p true st pg).1 ++ iteratePy p (Gen.PostPy.applyPy p true st pg).2 pgs

theorem iteratePy_eq (p : α → Bool) : ∀ (pgs : List (List α)) (st : Option Nat), iteratePy p st pgs = iterate p st pgs := by
  intro pgs
  induction pgs with
  | nil => intro st; rfl
  | cons pg pgs ih => intro st; simp only [iteratePy, iterate, translated_apply_eq, ih]

/-- **Paging through the source's own `apply`**: whatever the raw page size, iterating the pages yields exactly the
post-filtered rows cut at the limit (every row once, in order; a limit gives a prefix of the right length). -/
theorem translated_paging_concat (p : α → Bool) (k : Nat) (hk : 0 < k) (limit : Option Nat) (rows : List α) :
    iteratePy p limit (pages k rows.length rows) = spec p limit rows := by
  rw [iteratePy_eq]; exact C16.paging_concat p k hk limit rows

/-- non-vacuity: limit 2 over pages of 2 with a rejected row in the first page -/
example : iteratePy (fun n : Nat => n % 2 == 1) (some 2) [[1, 2], [3, 5], [7]] = [1, 3] := by decide

end C16.Translated

