import ButlerModel.Model.Crash
/-! # C08 — a crash at any instant leaves a repository that reopens consistent -/
namespace C08
open Crash

theorem not_named {d : DB} {p : Nat} (h : named d p = false) : ∀ r ∈ d.recs, r.2 ≠ p := by
  intro r hr hp
  have : named d p = true := List.any_eq_true.mpr ⟨r, hr, by simp [hp]⟩
  rw [h] at this; cases this

theorem not_namedLive {d : DB} {p : Nat} (h : namedLive d p = false) : ∀ r ∈ d.recs, r.2 = p → r.1 ∉ d.loc := by
  intro r hr hp hl
  have : namedLive d p = true := List.any_eq_true.mpr ⟨r, hr, by simp [hp, hl]⟩
  rw [h] at this; cases this

/-- Database effects keep a view consistent with the files, given the guards of `recAdd` / `locAdd`. -/
theorem recsOK_applyDB (d : DB) (f : Files) (e : Eff) (h : RecsOK d f)
    (hrec : ∀ rs, e = .recAdd rs → ∀ r ∈ rs, f r.2 = some true)
    (hloc : ∀ ids, e = .locAdd ids → ∀ r ∈ d.recs, r.1 ∈ ids → f r.2 = some true) :
    RecsOK (applyDB d e) f := by
  cases e with
  | recAdd rs =>
    intro r hr
    simp only [applyDB, List.mem_append] at hr
    rcases hr with hr | hr
    · have := hrec rs rfl r hr
      exact ⟨by simp [this], fun _ => this⟩
    · exact h r hr
  | locAdd ids =>
    intro r hr
    simp only [applyDB] at hr ⊢
    refine ⟨(h r hr).1, ?_⟩
    intro hl
    rcases List.mem_append.mp hl with hi | hi
    · exact hloc ids rfl r hr hi
    · exact (h r hr).2 hi
  | locDel ids =>
    intro r hr
    simp only [applyDB] at hr ⊢
    exact ⟨(h r hr).1, fun hl => (h r hr).2 (List.mem_filter.mp hl).1⟩
  | recDel ids =>
    intro r hr
    simp only [applyDB, List.mem_filter] at hr ⊢
    exact h r hr.1
  | regAdd ids => exact h
  | regDel ids => exact h
  | trashAdd ids => exact h
  | trashDel ids => exact h
  | begin => exact h
  | commit => exact h
  | rollback => exact h
  | fcreate p => exact h
  | fdone p => exact h
  | rename a b => exact h
  | link a b => exact h
  | fdel p => exact h
  | other => exact h

/-- File effects keep a view consistent, given their guards. -/
theorem recsOK_fcreate (d : DB) (f : Files) (p : Nat) (h : RecsOK d f) (hn : named d p = false) :
    RecsOK d (fset f p (some false)) := by
  intro r hr
  have := not_named hn r hr
  simp only [fset, this, ↓reduceIte]
  exact h r hr

theorem recsOK_fdone (d : DB) (f : Files) (p : Nat) (h : RecsOK d f) : RecsOK d (fset f p (some true)) := by
  intro r hr
  by_cases hp : r.2 = p
  · simp [fset, hp]
  · simp only [fset, hp, ↓reduceIte]; exact h r hr

theorem recsOK_fdel (d : DB) (f : Files) (p : Nat) (h : RecsOK d f) (hn : namedLive d p = false) :
    RecsOK d (fset f p none) := by
  intro r hr
  by_cases hp : r.2 = p
  · simp only [fset, hp, ↓reduceIte]
    exact ⟨by simp, fun hl => absurd hl (not_namedLive hn r hr hp)⟩
  · simp only [fset, hp, ↓reduceIte]; exact h r hr

theorem recsOK_link (d : DB) (f : Files) (a b : Nat) (h : RecsOK d f)
    (hg : f a = some true ∨ named d b = false) : RecsOK d (fset f b (f a)) := by
  intro r hr
  by_cases hp : r.2 = b
  · rcases hg with hg | hg
    · simp [fset, hp, hg]
    · exact absurd hp (not_named hg r hr)
  · simp only [fset, hp, ↓reduceIte]; exact h r hr

theorem recsOK_rename (d : DB) (f : Files) (a b : Nat) (h : RecsOK d f)
    (hg : f a = some true ∨ named d b = false) (hab : a ≠ b) (hn : namedLive d a = false) :
    RecsOK d (fset (fset f b (f a)) a none) := by
  have h1 := recsOK_link d f a b h hg
  exact recsOK_fdel d _ a h1 hn

/-- **One step.** Every effect that passes its local guard preserves consistency of both the
committed state and the open transaction's view with the files. -/
theorem inv_apply (s : S) (e : Eff) (h : Inv s) (hg : guard s e = true) : Inv (apply s e) := by
  obtain ⟨hc, hv⟩ := h
  cases e with
  | begin =>
    simp only [apply]
    cases hp : s.pend with
    | none => exact ⟨hc, by simpa [view] using hc⟩
    | some d => simp only [hp]; exact ⟨hc, by simpa [view, hp] using hv⟩
  | commit =>
    simp only [apply]
    cases hp : s.pend with
    | none => simp only [hp]; exact ⟨hc, by simpa [view, hp] using hv⟩
    | some d =>
      have : RecsOK d s.files := by simpa [view, hp] using hv
      exact ⟨this, by simpa [view] using this⟩
  | rollback => exact ⟨hc, by simpa [apply, view] using hc⟩
  | other => exact ⟨hc, hv⟩
  | fcreate p =>
    simp only [Crash.guard, Bool.and_eq_true, Bool.not_eq_eq_eq_not, Bool.not_true] at hg
    exact ⟨recsOK_fcreate _ _ p hc hg.1, by simpa [apply, view] using recsOK_fcreate _ _ p hv hg.2⟩
  | fdone p =>
    exact ⟨recsOK_fdone _ _ p hc, by simpa [apply, view] using recsOK_fdone _ _ p hv⟩
  | fdel p =>
    simp only [Crash.guard, Bool.and_eq_true, Bool.not_eq_eq_eq_not, Bool.not_true] at hg
    exact ⟨recsOK_fdel _ _ p hc hg.1, by simpa [apply, view] using recsOK_fdel _ _ p hv hg.2⟩
  | link a b =>
    simp only [Crash.guard, Bool.or_eq_true, beq_iff_eq, Bool.and_eq_true, Bool.not_eq_eq_eq_not, Bool.not_true] at hg
    have g1 : s.files a = some true ∨ named s.db b = false := hg.imp id (·.1)
    have g2 : s.files a = some true ∨ named (view s) b = false := hg.imp id (·.2)
    exact ⟨recsOK_link _ _ a b hc g1, by simpa [apply, view] using recsOK_link _ _ a b hv g2⟩
  | rename a b =>
    simp only [Crash.guard, Bool.or_eq_true, beq_iff_eq, Bool.and_eq_true, Bool.not_eq_eq_eq_not, Bool.not_true, bne_iff_ne,
      ne_eq] at hg
    obtain ⟨⟨⟨h1, hab⟩, hn1⟩, hn2⟩ := hg
    have g1 : s.files a = some true ∨ named s.db b = false := h1.imp id (·.1)
    have g2 : s.files a = some true ∨ named (view s) b = false := h1.imp id (·.2)
    exact ⟨recsOK_rename _ _ a b hc g1 hab hn1, by simpa [apply, view] using recsOK_rename _ _ a b hv g2 hab hn2⟩
  | recAdd rs =>
    have hrec : ∀ rs', Eff.recAdd rs = .recAdd rs' → ∀ r ∈ rs', s.files r.2 = some true := by
      intro rs' he r hr
      injection he with he; subst he
      simp only [Crash.guard, List.all_eq_true, beq_iff_eq] at hg
      exact hg r hr
    have hloc : ∀ (d : DB) ids, Eff.recAdd rs = .locAdd ids → ∀ r ∈ d.recs, r.1 ∈ ids → s.files r.2 = some true :=
      fun _ _ he => by cases he
    simp only [apply]
    cases hp : s.pend with
    | none =>
      have := recsOK_applyDB s.db s.files (.recAdd rs) hc hrec (hloc s.db)
      exact ⟨this, by simpa [view] using this⟩
    | some d =>
      have hv' : RecsOK d s.files := by simpa [view, hp] using hv
      exact ⟨hc, by simpa [view] using recsOK_applyDB d s.files (.recAdd rs) hv' hrec (hloc d)⟩
  | locAdd ids =>
    have hrec : ∀ rs', Eff.locAdd ids = .recAdd rs' → ∀ r ∈ rs', s.files r.2 = some true := fun _ he => by cases he
    have hloc : ∀ ids', Eff.locAdd ids = .locAdd ids' → ∀ r ∈ (view s).recs, r.1 ∈ ids' → s.files r.2 = some true := by
      intro ids' he r hr hi
      injection he with he; subst he
      simp only [Crash.guard, List.all_eq_true, Bool.or_eq_true, Bool.not_eq_eq_eq_not, Bool.not_true, List.contains_eq_mem,
        decide_eq_false_iff_not, beq_iff_eq] at hg
      rcases hg r hr with h | h
      · exact absurd hi h
      · exact h
    simp only [apply]
    cases hp : s.pend with
    | none =>
      have hl : ∀ ids', Eff.locAdd ids = .locAdd ids' → ∀ r ∈ s.db.recs, r.1 ∈ ids' → s.files r.2 = some true := by
        simpa [view, hp] using hloc
      have := recsOK_applyDB s.db s.files (.locAdd ids) hc hrec hl
      exact ⟨this, by simpa [view] using this⟩
    | some d =>
      have hv' : RecsOK d s.files := by simpa [view, hp] using hv
      have hl : ∀ ids', Eff.locAdd ids = .locAdd ids' → ∀ r ∈ d.recs, r.1 ∈ ids' → s.files r.2 = some true := by
        simpa [view, hp] using hloc
      exact ⟨hc, by simpa [view] using recsOK_applyDB d s.files (.locAdd ids) hv' hrec hl⟩
  | regAdd ids => exact dbCase s _ hc hv (fun _ he => by cases he) (fun _ _ he => by cases he) rfl
  | regDel ids => exact dbCase s _ hc hv (fun _ he => by cases he) (fun _ _ he => by cases he) rfl
  | locDel ids => exact dbCase s _ hc hv (fun _ he => by cases he) (fun _ _ he => by cases he) rfl
  | trashAdd ids => exact dbCase s _ hc hv (fun _ he => by cases he) (fun _ _ he => by cases he) rfl
  | trashDel ids => exact dbCase s _ hc hv (fun _ he => by cases he) (fun _ _ he => by cases he) rfl
  | recDel ids => exact dbCase s _ hc hv (fun _ he => by cases he) (fun _ _ he => by cases he) rfl
where
  dbCase (s : S) (e : Eff) (hc : RecsOK s.db s.files) (hv : RecsOK (view s) s.files)
      (hrec : ∀ rs, e = .recAdd rs → ∀ r ∈ rs, s.files r.2 = some true)
      (hloc : ∀ (d : DB) ids, e = .locAdd ids → ∀ r ∈ d.recs, r.1 ∈ ids → s.files r.2 = some true)
      (hdb : isDBEff e = true) : Inv (apply s e) := by
    have happ : apply s e = match s.pend with
        | some d => { s with pend := some (applyDB d e) }
        | none => { s with db := applyDB s.db e } := by
      cases e <;> simp [isDBEff] at hdb <;> rfl
    rw [happ]
    cases hp : s.pend with
    | none =>
      have := recsOK_applyDB s.db s.files e hc hrec (hloc s.db)
      exact ⟨this, by simpa [view] using this⟩
    | some d =>
      have hv' : RecsOK d s.files := by simpa [view, hp] using hv
      exact ⟨hc, by simpa [view] using recsOK_applyDB d s.files e hv' hrec (hloc d)⟩

/-- **Every crash point.** If the effect sequence of an operation obeys the discipline, then after
*every* prefix — i.e. whenever the process dies, also in the middle of a write — what a fresh process
finds (committed database + files) is consistent: every dataset the datastore holds has its complete
artifact, and no record names a half-written file. -/
theorem crash_consistent (es : List Eff) (s : S) (h : Inv s) (hd : disciplined s es = true) (k : Nat) :
    RecsOK (recover (runAll s (es.take k))).db (recover (runAll s (es.take k))).files := by
  induction es generalizing s k with
  | nil => simpa [runAll, recover] using h.1
  | cons e es ih =>
    cases k with
    | zero => simpa [runAll, recover] using h.1
    | succ k =>
      simp only [disciplined, Bool.and_eq_true] at hd
      simpa [runAll, List.take] using ih (apply s e) (inv_apply s e h hd.1) hd.2 k

/-- Datasets that an operation never mentions are not touched at any crash point: effects only
change the rows and files they name. -/
theorem untouched_record (e : Eff) (d : DB) (r : Nat × Nat)
    (hr : r ∈ d.recs) (hdel : ∀ ids, e = .recDel ids → r.1 ∉ ids) : r ∈ (applyDB d e).recs := by
  cases e <;> simp only [applyDB] <;> try exact hr
  · exact List.mem_append_right _ hr
  · rename_i ids
    simp only [List.mem_filter, Bool.not_eq_eq_eq_not, Bool.not_true, List.contains_eq_mem, decide_eq_false_iff_not]
    exact ⟨hr, hdel ids rfl⟩

/-- The shape of `Butler.put` as the code performs it today (registry insert, artifact written under a
temporary name and renamed, records and location inserted, commit) is disciplined from any
consistent state in which path 7 / temp 8 are not in use… -/
def putShape : List Eff := [.begin, .regAdd [1], .fcreate 8, .fdone 8, .rename 8 7, .recAdd [(1, 7)], .locAdd [1], .commit]
example : disciplined {} putShape = true := by decide
/-- …whereas inserting the record before the artifact is complete, or writing in place, is not. -/
example : disciplined {} [.begin, .regAdd [1], .recAdd [(1, 7)], .fcreate 7, .fdone 7, .locAdd [1], .commit] = false := by decide
/-- The shape of a purge: move to trash and forget in one transaction, commit, then delete the file,
then the rows. Deleting the file before the commit is not disciplined. -/
def purgeShape : List Eff :=
  [.begin, .locDel [1], .trashAdd [1], .regDel [1], .commit, .fdel 7, .begin, .recDel [1], .trashDel [1], .commit]
def stored1 : S := { db := { reg := [1], loc := [1], recs := [(1, 7)] }, files := fun q => if q = 7 then some true else none }
example : disciplined stored1 purgeShape = true := by decide
example : disciplined stored1 [.begin, .locDel [1], .trashAdd [1], .fdel 7, .commit] = false := by decide

end C08
