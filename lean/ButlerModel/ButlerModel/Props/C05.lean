import ButlerModel.Model.Eval
import ButlerModel.Model.Sql3
import ButlerModel.Gen.InRangeSql
/-! # C05 — a where-expression selects exactly the rows for which it is true -/
namespace C05
open Eval K3

/-- **Range membership compiles correctly** (repaired formula): for every member — negative ones
included — and every range with a positive stride, `BETWEEN` plus `(m - a) % s = 0` with SQL's
truncating remainder is exactly membership in {a, a+s, …} ∩ [a, b]. -/
theorem inRange_correct (m : Int) (r : Rng) (hs : 0 < r.s) : inRangeSql true m r = inRangeDoc m r := by
  unfold inRangeSql inRangeDoc
  by_cases h1 : r.a ≤ m
  · by_cases h2 : m ≤ r.b
    · have hnn : 0 ≤ m - r.a := by omega
      have ht : (m - r.a).tmod r.s = (m - r.a) % r.s := Int.tmod_eq_emod_of_nonneg hnn
      by_cases h3 : r.s = 1
      · have : (m - r.a) % r.s = 0 := by rw [h3]; omega
        simp [h1, h2, h3, this]
      · by_cases hz : (m - r.a) % r.s = 0 <;> simp [h1, h2, h3, ht, hz]
    · simp [h1, h2]
  · simp [h1]

/-- `_partial`: the earlier formula (`m % s = a mod s`) is right only for non-negative members… -/
theorem inRange_old_correct_partial (m : Int) (r : Rng) (hs : 0 < r.s) (hm : 0 ≤ m) :
    inRangeSql false m r = inRangeDoc m r := by
  unfold inRangeSql inRangeDoc
  by_cases h1 : r.a ≤ m
  · by_cases h2 : m ≤ r.b
    · have ht : m.tmod r.s = m % r.s := Int.tmod_eq_emod_of_nonneg hm
      by_cases h3 : r.s = 1
      · have : (m - r.a) % r.s = 0 := by rw [h3]; omega
        simp [h1, h2, h3, this]
      · simp only [h1, h2, and_self, decide_true, h3, ↓reduceIte, Bool.false_eq_true, ht, Bool.true_and, true_and]
        have key : (m % r.s = r.a % r.s) ↔ ((m - r.a) % r.s = 0) := Int.emod_eq_emod_iff_emod_sub_eq_zero
        by_cases hk : m % r.s = r.a % r.s
        · simp [hk, key.mp hk]
        · have : ¬ (m - r.a) % r.s = 0 := fun h => hk (key.mpr h)
          simp [hk, this]
    · simp [h1, h2]
  · simp [h1]

/-- …and wrong for negative ones: `-3 IN (-5..5:2)` was compiled to false (repaired defect C05-a). -/
theorem inRange_old_negative_witness :
    inRangeDoc (-3) ⟨-5, 5, 2⟩ = true ∧ inRangeSql false (-3) ⟨-5, 5, 2⟩ = false ∧ inRangeSql true (-3) ⟨-5, 5, 2⟩ = true := by
  decide

theorem member_congr (t1 t2 : Int → Rng → Bool) (v : V) (lits : List V) (rngs : List Rng)
    (h : ∀ m, ∀ r ∈ rngs, t1 m r = t2 m r) : member t1 v lits rngs = member t2 v lits rngs := by
  cases v with
  | null => rfl
  | str s => rfl
  | int m =>
    simp only [member]
    congr 2
    apply List.map_congr_left
    intro r hr
    rw [h m r hr]

/-- **Compilation preserves meaning**: for every well-formed predicate and every row, the compiled
(SQL) value equals the documented value — in all three truth values. -/
theorem compile_correct (row : Row) : ∀ (p : P), WellFormed p → sql true row p = denote row p
  | .cmp _ _ _, _ => rfl
  | .isNull _ _, _ => rfl
  | .flag _, _ => rfl
  | .inSet a lits rngs notIn, h => by
    simp only [sql, denote, evalWith]
    rw [member_congr (inRangeSql true) inRangeDoc _ lits rngs (fun m r hr => inRange_correct m r (h r hr))]
  | .not p, h => by
    have := compile_correct row p h
    simp only [sql, denote, evalWith] at this ⊢
    rw [this]
  | .and p q, h => by
    have h1 := compile_correct row p h.1
    have h2 := compile_correct row q h.2
    simp only [sql, denote, evalWith] at h1 h2 ⊢
    rw [h1, h2]
  | .or p q, h => by
    have h1 := compile_correct row p h.1
    have h2 := compile_correct row q h.2
    simp only [sql, denote, evalWith] at h1 h2 ⊢
    rw [h1, h2]

/-- **Exactly the true rows**: the compiled query returns the candidate rows whose documented value is
true, in order, nothing else (a row whose value is null is dropped). -/
theorem selects_exactly (p : P) (h : WellFormed p) (rows : List Row) :
    select (sql true) p rows = select denote p rows := by
  unfold select
  apply List.filter_congr
  intro r _
  rw [compile_correct r p h]

/-- Documented operator meanings under three-valued logic. -/
theorem null_comparison_is_unknown (op : String) (v : V) : cmpV op .null v = .nn ∧ cmpV op v .null = .nn := by
  cases v <;> simp [cmpV]
theorem not_of_unknown_drops_row (row : Row) (p : P) (h : denote row p = .nn) : denote row (.not p) = .nn := by
  simp only [denote, evalWith] at h ⊢; rw [h]; rfl
theorem null_test_is_two_valued (row : Row) (a : Sc) (n : Bool) : denote row (.isNull a n) ≠ .nn := by
  simp only [denote, evalWith, ofBool]; split <;> split <;> simp
/-- A boolean column that is NULL is unknown, and stays unknown under NOT: the row is dropped either way. -/
theorem null_flag_unknown_under_not (row : Row) (n : String) (h : row n = .null) :
    denote row (.flag n) = .nn ∧ denote row (.not (.flag n)) = .nn := by
  simp [denote, evalWith, h, not3]

theorem not_in_is_negation (row : Row) (a : Sc) (l : List V) (r : List Rng) :
    denote row (.inSet a l r true) = not3 (denote row (.inSet a l r false)) := by
  simp [denote, evalWith]

example : denote (fun _ => .int 4) (.inSet (.sub (.col "detector") (.lit (.int 7))) [] [⟨-5, 5, 2⟩] false) = .tt := by decide
example : WellFormed (.inSet (.col "d") [] [⟨-5, 5, 2⟩] false) := by simp [WellFormed]

end C05

/-! ## The range compilation as it is in the source **now**

`Gen.InRange.inRangeSql` is `SqlColumnVisitor.visit_in_range`, translated from the working tree on every
run (`translate/gen_inrange.py`).  A change to that function changes this definition, and the theorems
below must still go through. -/
namespace C05.Translated
open Eval

theorem tmod_nonneg_eq (x s : Int) (h : 0 ≤ x) : x.tmod s = x % s := Int.tmod_eq_emod_of_nonneg h

/-- **The translated compilation of `m IN (a..b:s)` is exactly documented membership**, for every
integer member (negative ones included), every `a ≤ b` and every positive stride. -/
theorem translated_inRange_correct (env : Nat → Sql.V) (m a b s : Int) (hm : env 0 = .int m) (hs : 0 < s) (hab : a ≤ b) :
    Sql.eval env (Gen.InRange.inRangeSql (.col 0) a (some (b + 1)) s) = .bool (inRangeDoc m ⟨a, b, s⟩) := by
  have hsz : s ≠ 0 := by omega
  unfold Gen.InRange.inRangeSql inRangeDoc
  simp only [Option.isNone_some, Bool.false_eq_true, ↓reduceIte, Option.getD_some, Int.add_sub_cancel]
  by_cases hEq : a = b
  · subst hEq
    simp only [decide_true, ↓reduceIte, Sql.eval, hm, Sql.cmp]
    congr 1
    by_cases h : m = a
    · subst h; simp
    · have : ¬ (a ≤ m ∧ m ≤ a ∧ (m - a) % s = 0) := fun hc => h (by omega)
      simp [h, this]
  · simp only [hEq, decide_false, Bool.false_eq_true, ↓reduceIte]
    by_cases h1 : s = 1
    · subst h1
      simp only [ne_eq, not_true_eq_false, decide_false, Bool.false_eq_true, ↓reduceIte, Sql.eval, hm, Sql.cmp, Sql.and3]
      by_cases ha : a ≤ m <;> by_cases hb : m ≤ b <;> simp [ha, hb, Int.emod_one] <;> omega
    · simp only [ne_eq, h1, not_false_eq_true, decide_true, ↓reduceIte, Sql.eval, hm, Sql.cmp, Sql.arith, hsz]
      by_cases ha : a ≤ m
      · by_cases hb : m ≤ b
        · have ht : (m - a).tmod s = (m - a) % s := tmod_nonneg_eq _ _ (by omega)
          by_cases hz : (m - a) % s = 0 <;> simp [ha, hb, ht, hz, Sql.and3]
        · simp [ha, hb, Sql.and3]
      · simp [ha, Sql.and3]

/-- A NULL member makes the compiled test unknown, as the documented meaning says. -/
theorem translated_inRange_null (env : Nat → Sql.V) (a b s : Int) (hm : env 0 = .null) (hs : 0 < s) :
    Sql.eval env (Gen.InRange.inRangeSql (.col 0) a (some (b + 1)) s) = .null := by
  have hsz : s ≠ 0 := by omega
  unfold Gen.InRange.inRangeSql
  simp only [Option.isNone_some, Bool.false_eq_true, ↓reduceIte, Option.getD_some, Int.add_sub_cancel]
  by_cases hEq : a = b
  · simp [hEq, Sql.eval, hm, Sql.cmp]
  · by_cases h1 : s = 1
    · simp [hEq, h1, Sql.eval, hm, Sql.cmp, Sql.and3]
    · simp [hEq, h1, Sql.eval, hm, Sql.cmp, Sql.and3, Sql.arith]

/-- The hand-written `Eval.inRangeSql true` (used by `compile_correct`) is the translated function. -/
theorem model_is_translation (env : Nat → Sql.V) (m a b s : Int) (hm : env 0 = .int m) (hs : 0 < s) (hab : a ≤ b) :
    Sql.eval env (Gen.InRange.inRangeSql (.col 0) a (some (b + 1)) s) = .bool (inRangeSql true m ⟨a, b, s⟩) := by
  rw [translated_inRange_correct env m a b s hm hs hab, C05.inRange_correct m ⟨a, b, s⟩ hs]

example : Sql.eval (fun _ => .int (-3)) (Gen.InRange.inRangeSql (.col 0) (-5) (some 6) 2) = .bool true := by decide

end C05.Translated
