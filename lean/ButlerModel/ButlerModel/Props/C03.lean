import ButlerModel.Model.Chain
import ButlerModel.Gen.ChainPy
/-! # C03 — ordered collection search = first match of the flattened path; chain edits -/
namespace C03
open Chain

/-! ## de-duplication keeps first occurrences, so it never changes a first match -/

theorem mem_dedup (l : List Nat) (x : Nat) : x ∈ dedup l ↔ x ∈ l := by
  induction l with
  | nil => simp [dedup]
  | cons y ys ih =>
    simp only [dedup, List.mem_cons, List.mem_filter, bne_iff_ne, ne_eq]
    constructor
    · rintro (h | ⟨h, _⟩)
      · left; exact h
      · right; exact ih.mp h
    · rintro (h | h)
      · left; exact h
      · by_cases hxy : x = y
        · left; exact hxy
        · right; exact ⟨ih.mpr h, hxy⟩

theorem dedup_nodup (l : List Nat) : (dedup l).Nodup := by
  induction l with
  | nil => simp [dedup]
  | cons y ys ih =>
    simp only [dedup, List.nodup_cons, List.mem_filter, bne_self_eq_false, Bool.false_eq_true, and_false,
      not_false_eq_true, true_and]
    exact List.Nodup.sublist List.filter_sublist ih

theorem dedup_idem_of_nodup (l : List Nat) (h : l.Nodup) : dedup l = l := by
  induction l with
  | nil => rfl
  | cons y ys ih =>
    have hh := List.nodup_cons.mp h
    simp only [dedup, ih hh.2]
    congr 1
    apply List.filter_eq_self.mpr
    intro a ha
    simp only [bne_iff_ne, ne_eq]
    intro hc; subst hc; exact hh.1 ha

theorem findSome_filter_ne {α : Type} (f : Nat → Option α) (l : List Nat) (y : Nat) (hy : f y = none) :
    (l.filter (· != y)).findSome? f = l.findSome? f := by
  induction l with
  | nil => rfl
  | cons x xs ih =>
    by_cases hxy : x = y
    · subst hxy; simp [List.filter_cons, hy, ih]
    · have : (x != y) = true := by simp [hxy]
      simp only [List.filter_cons, this, ↓reduceIte, List.findSome?_cons, ih]

/-- A first match over a de-duplicated list is the first match over the list itself. -/
theorem findSome_dedup {α : Type} (f : Nat → Option α) (l : List Nat) :
    (dedup l).findSome? f = l.findSome? f := by
  induction l with
  | nil => rfl
  | cons y ys ih =>
    simp only [dedup, List.findSome?_cons]
    cases hy : f y with
    | some v => rfl
    | none => simp only []; rw [findSome_filter_ne f _ y hy, ih]

/-- Find-first over the flattened path = first match of the plain depth-first expansion. -/
theorem findFirst_eq {α : Type} (ch : Defs) (fuel : Nat) (path : List Nat) (f : Nat → Option α) :
    findFirst ch fuel path f = (path.flatMap (expand ch fuel)).findSome? f := by
  unfold findFirst flattenPath; exact findSome_dedup f _

/-! ## acyclic definitions make the expansion independent of the fuel -/

/-- Acyclicity witnessed by a rank that strictly decreases along parent → child edges. -/
def Acyclic (ch : Defs) (rank : Nat → Nat) : Prop :=
  ∀ c kids, ch c = some kids → ∀ k ∈ kids, rank k < rank c

theorem flatMap_congr {β : Type} (l : List Nat) (f g : Nat → List β) (h : ∀ x ∈ l, f x = g x) :
    l.flatMap f = l.flatMap g := by
  induction l with
  | nil => rfl
  | cons x xs ih =>
    simp only [List.flatMap_cons]
    rw [h x List.mem_cons_self, ih (fun y hy => h y (List.mem_cons_of_mem _ hy))]

theorem expand_stable (ch : Defs) (rank : Nat → Nat) (h : Acyclic ch rank) :
    ∀ (n : Nat) (c : Nat) (f1 f2 : Nat), rank c ≤ n → rank c < f1 → rank c < f2 →
      expand ch f1 c = expand ch f2 c := by
  intro n
  induction n with
  | zero =>
    intro c f1 f2 hn h1 h2
    cases f1 with
    | zero => omega
    | succ f1 =>
      cases f2 with
      | zero => omega
      | succ f2 =>
        unfold expand
        cases hc : ch c with
        | none => rfl
        | some kids =>
          simp only []
          apply flatMap_congr
          intro k hk
          have := h c kids hc k hk
          omega
  | succ n ih =>
    intro c f1 f2 hn h1 h2
    cases f1 with
    | zero => omega
    | succ f1 =>
      cases f2 with
      | zero => omega
      | succ f2 =>
        unfold expand
        cases hc : ch c with
        | none => rfl
        | some kids =>
          simp only []
          apply flatMap_congr
          intro k hk
          have := h c kids hc k hk
          exact ih k f1 f2 (by omega) (by omega) (by omega)

/-- Fuel large enough for every collection of a list. -/
def Enough (rank : Nat → Nat) (fuel : Nat) (l : List Nat) : Prop := ∀ c ∈ l, rank c < fuel

/-- **A CHAINED collection in a search path is equivalent to its child list** (at any depth). -/
theorem chain_equiv_children {α : Type} (ch : Defs) (rank : Nat → Nat) (hac : Acyclic ch rank)
    (fuel : Nat) (pre post kids : List Nat) (c : Nat) (hc : ch c = some kids)
    (hf : rank c < fuel) (f : Nat → Option α) :
    findFirst ch fuel (pre ++ [c] ++ post) f = findFirst ch fuel (pre ++ kids ++ post) f := by
  rw [findFirst_eq, findFirst_eq]
  simp only [List.flatMap_append, List.flatMap_cons, List.flatMap_nil, List.append_nil]
  congr 3
  cases fuel with
  | zero => omega
  | succ n =>
    have : expand ch (n + 1) c = kids.flatMap (expand ch n) := by
      conv => lhs; unfold expand
      simp [hc]
    rw [this]
    apply flatMap_congr
    intro k hk
    have := hac c kids hc k hk
    exact expand_stable ch rank hac (rank k) k n (n + 1) (Nat.le_refl _) (by omega) (by omega)

theorem findSome_append_none {α : Type} (f : Nat → Option α) (a b : List Nat) (h : ∀ x ∈ a, f x = none) :
    (a ++ b).findSome? f = b.findSome? f := by
  induction a with
  | nil => rfl
  | cons x xs ih =>
    simp only [List.cons_append, List.findSome?_cons, h x List.mem_cons_self]
    exact ih (fun y hy => h y (List.mem_cons_of_mem _ hy))

/-- **Adding collections with no match, anywhere in the path, never changes the answer.** -/
theorem no_match_irrelevant {α : Type} (ch : Defs) (fuel : Nat) (pre extra post : List Nat)
    (f : Nat → Option α) (h : ∀ c ∈ extra.flatMap (expand ch fuel), f c = none) :
    findFirst ch fuel (pre ++ extra ++ post) f = findFirst ch fuel (pre ++ post) f := by
  rw [findFirst_eq, findFirst_eq]
  simp only [List.flatMap_append, List.append_assoc]
  rw [List.findSome?_append, findSome_append_none f _ _ h, ← List.findSome?_append]

/-- **Pruning the path with any over-approximating summary is sound**: dropping collections whose
summary says "cannot contain a match" does not change the answer. -/
theorem prune_sound {α : Type} (f : Nat → Option α) (keep : Nat → Bool) (l : List Nat)
    (h : ∀ c, f c ≠ none → keep c = true) : (l.filter keep).findSome? f = l.findSome? f := by
  induction l with
  | nil => rfl
  | cons x xs ih =>
    by_cases hk : keep x = true
    · simp only [List.filter_cons, hk, ↓reduceIte, List.findSome?_cons, ih]
    · have hx : f x = none := by
        cases hfx : f x with
        | none => rfl
        | some v => exact absurd (h x (by simp [hfx])) hk
      have hk' : keep x = false := by simpa using hk
      simp [List.filter_cons, hk', hx, ih]

/-- The rank-based implementations (`ROW_NUMBER() OVER (… ORDER BY rank) = 1`, `findDataset`'s
rank fold): among all (rank, value) pairs — rank = index in the flattened path — the one of
minimal rank is the first match. -/
def ranked {α : Type} (l : List Nat) (f : Nat → Option α) : List (Nat × α) :=
  (l.zipIdx).filterMap fun (c, i) => (f c).map fun v => (i, v)

def minRank {α : Type} : List (Nat × α) → Option (Nat × α)
  | [] => none
  | p :: ps => some (ps.foldl (fun m q => if q.1 < m.1 then q else m) p)

theorem ranked_cons_none {α : Type} (x : Nat) (xs : List Nat) (f : Nat → Option α) (k : Nat) (h : f x = none) :
    ((x :: xs).zipIdx k).filterMap (fun (c, i) => (f c).map fun v => (i, v)) =
      (xs.zipIdx (k + 1)).filterMap (fun (c, i) => (f c).map fun v => (i, v)) := by
  simp [List.zipIdx_cons, List.filterMap_cons, h]

theorem foldl_min_fixed {α : Type} (ps : List (Nat × α)) (p : Nat × α) (h : ∀ q ∈ ps, p.1 < q.1) :
    ps.foldl (fun m q => if q.1 < m.1 then q else m) p = p := by
  induction ps with
  | nil => rfl
  | cons q qs ih =>
    have hq := h q List.mem_cons_self
    have : ¬ q.1 < p.1 := by omega
    simp only [List.foldl_cons, this, ↓reduceIte]
    exact ih (fun r hr => h r (List.mem_cons_of_mem _ hr))

theorem ranked_ge {α : Type} (xs : List Nat) (f : Nat → Option α) (k : Nat) :
    ∀ q ∈ (xs.zipIdx k).filterMap (fun (c, i) => (f c).map fun v => (i, v)), k ≤ q.1 := by
  induction xs generalizing k with
  | nil => intro q hq; simp at hq
  | cons x xs ih =>
    intro q hq
    simp only [List.zipIdx_cons, List.filterMap_cons] at hq
    cases hfx : f x with
    | none =>
      simp only [hfx, Option.map_none] at hq
      have := ih (k + 1) q hq; omega
    | some v =>
      simp only [hfx, Option.map_some, List.mem_cons] at hq
      rcases hq with hq | hq
      · subst hq; exact Nat.le_refl _
      · have := ih (k + 1) q hq; omega

theorem minRank_eq_first_aux {α : Type} (xs : List Nat) (f : Nat → Option α) (k : Nat) :
    (minRank ((xs.zipIdx k).filterMap fun (c, i) => (f c).map fun v => (i, v))).map (·.2) = xs.findSome? f := by
  induction xs generalizing k with
  | nil => rfl
  | cons x xs ih =>
    cases hfx : f x with
    | none =>
      rw [ranked_cons_none x xs f k hfx, ih (k + 1)]
      simp [List.findSome?_cons, hfx]
    | some v =>
      simp only [List.zipIdx_cons, List.filterMap_cons, hfx, Option.map_some, minRank, List.findSome?_cons]
      rw [foldl_min_fixed]
      intro q hq
      have := ranked_ge xs f (k + 1) q hq
      simp only; omega

/-- **The rank-based find-first agrees with "first match of the flattened path".** -/
theorem minRank_eq_first {α : Type} (l : List Nat) (f : Nat → Option α) :
    (minRank (ranked l f)).map (·.2) = l.findSome? f :=
  minRank_eq_first_aux l f 0

end C03

/-! ## chain edits: the resulting child order, from the position arithmetic -/
namespace C03
open Chain

/-- Rows are strictly ordered by position (so reading `ORDER BY position` returns them as listed). -/
def Sorted (r : Rows) : Prop := r.Pairwise (fun a b => a.1 < b.1)

theorem children_enumFrom (s : Int) (ks : List Nat) : children (enumFrom s ks) = ks := by
  induction ks generalizing s with
  | nil => rfl
  | cons k ks ih => simp [enumFrom, children] at *; exact ih (s + 1)

theorem enumFrom_bounds (s : Int) (ks : List Nat) :
    ∀ p ∈ enumFrom s ks, s ≤ p.1 ∧ p.1 < s + ks.length := by
  induction ks generalizing s with
  | nil => intro p hp; simp [enumFrom] at hp
  | cons k ks ih =>
    intro p hp
    simp only [enumFrom, List.mem_cons] at hp
    rcases hp with hp | hp
    · subst hp; simp; omega
    · have := ih (s + 1) p hp
      simp only [List.length_cons]; omega

theorem enumFrom_sorted (s : Int) (ks : List Nat) : Sorted (enumFrom s ks) := by
  induction ks generalizing s with
  | nil => exact List.Pairwise.nil
  | cons k ks ih =>
    unfold enumFrom
    refine List.pairwise_cons.mpr ⟨?_, ih (s + 1)⟩
    intro p hp
    have := enumFrom_bounds (s + 1) ks p hp
    simp only; omega

theorem foldl_min_le (ps : Rows) (m : Int) :
    ps.foldl (fun m q => min m q.1) m ≤ m ∧ ∀ q ∈ ps, ps.foldl (fun m q => min m q.1) m ≤ q.1 := by
  induction ps generalizing m with
  | nil => simp
  | cons p ps ih =>
    have := ih (min m p.1)
    simp only [List.foldl_cons, List.mem_cons]
    refine ⟨by omega, ?_⟩
    intro q hq
    rcases hq with hq | hq
    · subst hq; omega
    · exact this.2 q hq

theorem foldl_max_ge (ps : Rows) (m : Int) :
    m ≤ ps.foldl (fun m q => max m q.1) m ∧ ∀ q ∈ ps, q.1 ≤ ps.foldl (fun m q => max m q.1) m := by
  induction ps generalizing m with
  | nil => simp
  | cons p ps ih =>
    have := ih (max m p.1)
    simp only [List.foldl_cons, List.mem_cons]
    refine ⟨by omega, ?_⟩
    intro q hq
    rcases hq with hq | hq
    · subst hq; omega
    · exact this.2 q hq

theorem minPos_le (r : Rows) : ∀ p ∈ r, minPos r ≤ p.1 := by
  cases r with
  | nil => intro p hp; cases hp
  | cons x xs =>
    intro p hp
    have := foldl_min_le xs x.1
    unfold minPos
    rcases List.mem_cons.mp hp with hp | hp
    · subst hp; exact this.1
    · exact this.2 p hp

theorem maxPos_ge (r : Rows) : ∀ p ∈ r, p.1 ≤ maxPos r := by
  cases r with
  | nil => intro p hp; cases hp
  | cons x xs =>
    intro p hp
    have := foldl_max_ge xs x.1
    unfold maxPos
    rcases List.mem_cons.mp hp with hp | hp
    · subst hp; exact this.1
    · exact this.2 p hp

theorem removeRows_sorted (r : Rows) (ks : List Nat) (h : Sorted r) : Sorted (removeRows r ks) :=
  List.Pairwise.filter _ h

theorem children_removeRows (r : Rows) (ks : List Nat) :
    children (removeRows r ks) = (children r).filter (fun c => !ks.contains c) := by
  unfold children removeRows
  rw [List.filter_map]; rfl

/-- `redefine` (setCollectionChain): exactly the new children, duplicates dropped. -/
theorem redefine_children (r : Rows) (new : List Nat) : children (redefine r new) = dedup new :=
  children_enumFrom 0 _
theorem redefine_sorted (r : Rows) (new : List Nat) : Sorted (redefine r new) := enumFrom_sorted 0 _

/-- `prepend`: the new children (deduplicated, in the given order) followed by the old ones that are
not among them — for every integer position history. -/
theorem prepend_children (r : Rows) (new : List Nat) :
    children (prepend r new) = dedup new ++ (children r).filter (fun c => !(dedup new).contains c) := by
  unfold prepend
  simp only [children, List.map_append]
  have h1 := children_enumFrom (minPos (removeRows r (dedup new)) - (dedup new).length) (dedup new)
  have h2 := children_removeRows r (dedup new)
  unfold children at h1 h2
  rw [h1, h2]

theorem prepend_sorted (r : Rows) (new : List Nat) (h : Sorted r) : Sorted (prepend r new) := by
  unfold prepend
  simp only []
  apply List.pairwise_append.mpr
  refine ⟨enumFrom_sorted _ _, removeRows_sorted r _ h, ?_⟩
  intro a ha b hb
  have h1 := enumFrom_bounds _ _ a ha
  have h2 := minPos_le _ b hb
  omega

/-- `extend`: the old children that are not among the new ones, followed by the new ones. -/
theorem extend_children (r : Rows) (new : List Nat) :
    children (extend r new) = (children r).filter (fun c => !(dedup new).contains c) ++ dedup new := by
  unfold extend
  simp only [children, List.map_append]
  have h1 := children_enumFrom (maxPos (removeRows r (dedup new)) + 1) (dedup new)
  have h2 := children_removeRows r (dedup new)
  unfold children at h1 h2
  rw [h1, h2]

theorem extend_sorted (r : Rows) (new : List Nat) (h : Sorted r) : Sorted (extend r new) := by
  unfold extend
  simp only []
  apply List.pairwise_append.mpr
  refine ⟨removeRows_sorted r _ h, enumFrom_sorted _ _, ?_⟩
  intro a ha b hb
  have h1 := enumFrom_bounds _ _ b hb
  have h2 := maxPos_ge _ a ha
  omega

/-- `remove`: the old children minus the named ones, order kept. -/
theorem remove_children (r : Rows) (ks : List Nat) :
    children (remove r ks) = (children r).filter (fun c => !(dedup ks).contains c) :=
  children_removeRows r _
theorem remove_sorted (r : Rows) (ks : List Nat) (h : Sorted r) : Sorted (remove r ks) :=
  removeRows_sorted r _ h

/-- No edit ever produces a duplicate child. -/
theorem filter_not_contains_nodup (l ks : List Nat) (h : l.Nodup) :
    (l.filter fun c => !ks.contains c).Nodup := List.Nodup.sublist List.filter_sublist h

theorem prepend_nodup (r : Rows) (new : List Nat) (h : (children r).Nodup) : (children (prepend r new)).Nodup := by
  rw [prepend_children]
  apply List.nodup_append.mpr
  refine ⟨dedup_nodup _, filter_not_contains_nodup _ _ h, ?_⟩
  intro a ha b hb hab
  subst hab
  simp only [List.mem_filter, List.contains_eq_mem, Bool.not_eq_eq_eq_not, Bool.not_true, decide_eq_false_iff_not] at hb
  exact hb.2 ha

theorem extend_nodup (r : Rows) (new : List Nat) (h : (children r).Nodup) : (children (extend r new)).Nodup := by
  rw [extend_children]
  apply List.nodup_append.mpr
  refine ⟨filter_not_contains_nodup _ _ h, dedup_nodup _, ?_⟩
  intro a ha b hb hab
  subst hab
  simp only [List.mem_filter, List.contains_eq_mem, Bool.not_eq_eq_eq_not, Bool.not_true, decide_eq_false_iff_not] at ha
  exact ha.2 hb

/-! non-vacuity -/
example : children (prepend [(0, 1), (1, 2), (2, 3)] [3, 9, 3]) = [3, 9, 1, 2] := by decide
example : prepend [(0, 1), (1, 2), (2, 3)] [3, 9, 3] = [(-2, 3), (-1, 9), (0, 1), (1, 2)] := by decide
example : children (extend [(-5, 1), (7, 2)] [1, 4]) = [2, 1, 4] := by decide

end C03

namespace C03
open Chain

/-! ## chain definitions can never become cyclic -/

/-- Redefining the children of `parent`. -/
def update (ch : Defs) (parent : Nat) (kids : List Nat) : Defs :=
  fun c => if c = parent then some kids else ch c

/-- `a` reaches `b` through CHAINED-collection edges (reflexive, transitive). -/
inductive Reach (ch : Defs) : Nat → Nat → Prop where
  | refl (a : Nat) : Reach ch a a
  | step (a b c : Nat) (kids : List Nat) : ch a = some kids → b ∈ kids → Reach ch b c → Reach ch a c

/-- `a` reaches `p` without ever leaving from `p` (so the path exists in the old and the new graph). -/
inductive ReachAvoid (ch : Defs) (p : Nat) : Nat → Prop where
  | here : ReachAvoid ch p p
  | step (a b : Nat) (kids : List Nat) : a ≠ p → ch a = some kids → b ∈ kids → ReachAvoid ch p b → ReachAvoid ch p a

theorem reachAvoid_reach (ch : Defs) (p a : Nat) (h : ReachAvoid ch p a) : Reach ch a p := by
  induction h with
  | here => exact Reach.refl p
  | step a b kids _ hc hb _ ih => exact Reach.step a b p kids hc hb ih

/-- The depth-first expansion with enough fuel finds everything reachable. -/
theorem expandAll_complete (ch : Defs) (rank : Nat → Nat) (hac : Acyclic ch rank) (a c : Nat) (h : Reach ch a c) :
    ∀ fuel, rank a < fuel → c ∈ expandAll ch fuel a := by
  induction h with
  | refl a =>
    intro fuel hf
    cases fuel with
    | zero => omega
    | succ n => unfold expandAll; cases ch a <;> simp
  | step a b c kids hc hb _ ih =>
    intro fuel hf
    cases fuel with
    | zero => omega
    | succ n =>
      unfold expandAll
      simp only [hc, List.mem_cons, List.mem_flatMap]
      right
      have := hac a kids hc b hb
      exact ⟨b, hb, ih n (by omega)⟩

/-- **A chain edit that would close a cycle is refused** — self-reference and cycles through any
depth of nesting alike (given fuel covering the ranks of the new children). -/
theorem cycle_refused (ch : Defs) (rank : Nat → Nat) (hac : Acyclic ch rank) (fuel parent : Nat)
    (kids : List Nat) (hf : ∀ k ∈ kids, rank k < fuel) (hp : (ch parent).isSome = true)
    (h : ∃ k ∈ kids, Reach ch k parent) : wouldCycle ch fuel parent kids = true := by
  obtain ⟨k, hk, hr⟩ := h
  unfold wouldCycle
  rw [List.any_eq_true]
  refine ⟨parent, ?_, by simp [hp]⟩
  simp only [List.mem_flatMap]
  exact ⟨k, hk, expandAll_complete ch rank hac k parent hr fuel (hf k hk)⟩

theorem not_reach_of_check (ch : Defs) (rank : Nat → Nat) (hac : Acyclic ch rank) (fuel parent : Nat)
    (kids : List Nat) (hf : ∀ k ∈ kids, rank k < fuel) (hp : (ch parent).isSome = true)
    (h : wouldCycle ch fuel parent kids = false) : ∀ k ∈ kids, ¬ Reach ch k parent := by
  intro k hk hr
  have := cycle_refused ch rank hac fuel parent kids hf hp ⟨k, hk, hr⟩
  rw [h] at this; cases this

/-- Upper bound of the ranks of a list. -/
def maxRank (rank : Nat → Nat) : List Nat → Nat
  | [] => 0
  | k :: ks => max (rank k) (maxRank rank ks)

theorem le_maxRank (rank : Nat → Nat) (ks : List Nat) : ∀ k ∈ ks, rank k ≤ maxRank rank ks := by
  induction ks with
  | nil => intro k hk; cases hk
  | cons x xs ih =>
    intro k hk
    unfold maxRank
    rcases List.mem_cons.mp hk with h | h
    · subst h; omega
    · have := ih k h; omega

/-- **An accepted chain edit keeps the definitions acyclic**: if no new child reaches the parent,
the updated definitions again admit a strictly decreasing rank (so every later search terminates
and the invariant can be iterated along any history of edits). -/
theorem acyclic_preserved (ch : Defs) (rank : Nat → Nat) (hac : Acyclic ch rank) (parent : Nat)
    (kids : List Nat) (h : ∀ k ∈ kids, ¬ Reach ch k parent) :
    ∃ rank', Acyclic (update ch parent kids) rank' := by
  classical
  let M := maxRank rank kids + 1
  refine ⟨fun c => if ReachAvoid ch parent c then rank c + M else rank c, ?_⟩
  intro c ks hc k hk
  unfold update at hc
  by_cases hcp : c = parent
  · -- a new edge parent → k
    subst hcp
    simp only [↓reduceIte, Option.some.injEq] at hc
    subst hc
    have hnot : ¬ ReachAvoid ch c k := fun hr => h k hk (reachAvoid_reach ch c k hr)
    have hle := le_maxRank rank kids k hk
    simp only [hnot, ↓reduceIte, ReachAvoid.here]
    omega
  · -- an old edge c → k with c ≠ parent
    simp only [hcp, ↓reduceIte] at hc
    have hlt := hac c ks hc k hk
    by_cases hk' : ReachAvoid ch parent k
    · have : ReachAvoid ch parent c := ReachAvoid.step c k ks hcp hc hk hk'
      simp only [hk', this, ↓reduceIte]; omega
    · simp only [hk', ↓reduceIte]
      split <;> omega

/-- Removing children (or any edit that only deletes edges) keeps the same rank. -/
theorem acyclic_remove (ch : Defs) (rank : Nat → Nat) (hac : Acyclic ch rank) (parent : Nat)
    (kids kids' : List Nat) (hc : ch parent = some kids) (hsub : ∀ k ∈ kids', k ∈ kids) :
    Acyclic (update ch parent kids') rank := by
  intro c ks hcc k hk
  unfold update at hcc
  by_cases hcp : c = parent
  · subst hcp
    simp only [↓reduceIte, Option.some.injEq] at hcc
    subst hcc
    exact hac c kids hc k (hsub k hk)
  · simp only [hcp, ↓reduceIte] at hcc
    exact hac c ks hcc k hk

/-- A self-reference is the simplest refused cycle. -/
example : wouldCycle (fun c => if c = 0 then some [1] else none) 5 0 [0] = true := by decide
example : wouldCycle (fun c => if c = 0 then some [1] else if c = 1 then some [2] else none) 5 1 [3, 0] = true := by
  decide


end C03

/-! ## T-tie: the chain-edit arithmetic **as translated from `registry/collections/_base.py` on every run**
(`translate/gen_chain.py`): `_add_to_collection_chain` removes the new children first, *then* asks where to insert, then inserts;
`_find_prepend_position` is `MIN(position) − len(children)`, `_find_extend_position` is `MAX(position) + 1`. -/
namespace C03.Translated
open Chain

/-- **`prepend` as written in the source** (for the de-duplicated child list the wildcard resolution hands over) leaves the
rows of the model's `prepend`. -/
theorem translated_prepend (r : Rows) (new : List Nat) :
    (fun x : Rows × Rows => x.2 ++ x.1) (Gen.ChainPy.addToChain Gen.ChainPy.prependPosition (dedup new) r []) = prepend r new := by
  simp [Gen.ChainPy.addToChain, Gen.ChainPy.prependPosition, prepend]

/-- **`extend` as written in the source** leaves the rows of the model's `extend`. -/
theorem translated_extend (r : Rows) (new : List Nat) :
    (fun x : Rows × Rows => x.1 ++ x.2) (Gen.ChainPy.addToChain Gen.ChainPy.extendPosition (dedup new) r []) = extend r new := by
  simp [Gen.ChainPy.addToChain, Gen.ChainPy.extendPosition, extend]

/-- non-vacuity: prepending children 5 and 2 to the chain (0:1, 1:2, 2:3): 2 moves to the front -/
example : (fun x : Rows × Rows => x.2 ++ x.1) (Gen.ChainPy.addToChain Gen.ChainPy.prependPosition [5, 2] [(0, 1), (1, 2), (2, 3)] []) =
    [(-2, 5), (-1, 2), (0, 1), (2, 3)] := by decide

end C03.Translated
