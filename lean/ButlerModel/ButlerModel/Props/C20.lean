import ButlerModel.Model.Conc
import ButlerModel.Model.Lock
import ButlerModel.Gen.SyncPy
/-! # C20 — concurrent clients behave as if they ran one after another -/
namespace C20
open Conc

theorem S_ext {a b : S} (h1 : a.slots = b.slots) (h2 : a.recs = b.recs) (h3 : a.files = b.files)
    (h4 : a.trash = b.trash) (h5 : a.colls = b.colls) (h6 : a.tags = b.tags) (h7 : a.chain = b.chain)
    (h8 : a.users = b.users) (h9 : a.doom = b.doom) : a = b := by
  cases a; cases b; simp_all

theorem upd_comm {α : Type} (f : Nat → α) (k1 k2 : Nat) (v1 v2 : α) (h : k1 ≠ k2) :
    upd (upd f k1 v1) k2 v2 = upd (upd f k2 v2) k1 v1 := by
  funext q; simp only [upd]; by_cases a : q = k2 <;> by_cases b : q = k1 <;> simp_all

theorem upd_ne {α : Type} (f : Nat → α) (k q : Nat) (v : α) (h : q ≠ k) : upd f k v q = f q := by simp [upd, h]
theorem upd_same {α : Type} (f : Nat → α) (k : Nat) (v : α) : upd f k v k = v := by simp [upd]

/-- Case analysis used for all commutation lemmas: unfold both orders, split every `if`, compare the
states field by field. -/
macro "comm_cases" : tactic => `(tactic|
  (simp only [apply]
   repeat' split
   all_goals first
     | rfl
     | (apply S_ext <;> first
          | rfl
          | (funext q; (try simp only [upd]); repeat' split
             all_goals first
               | rfl
               | (split <;> rfl)
               | simp_all [upd]
               | (split <;> simp_all [upd])))
     | (exfalso; simp_all [upd])))

/-- **A step that stays clear of a removal commutes with the trash query of that removal.** -/
theorem clear_commutes_prune2q (id path : Nat) (b : Step) (h : Clear id path b) : Commute b (.prune2q id path) := by
  intro s
  cases b <;> simp only [Clear] at h <;> comm_cases

/-- **…with its file deletion.** -/
theorem clear_commutes_prune2d (id path : Nat) (b : Step) (h : Clear id path b) : Commute b (.prune2d id path) := by
  intro s
  cases b with
  | chainAdd ch c =>
    simp only [apply]
    by_cases hc : (s.trash id && s.doom id) = true <;> simp [hc]
  | regColl n t => simp only [Clear] at h; comm_cases
  | put a b c d => simp only [Clear] at h; comm_cases
  | assoc a b => simp only [Clear] at h; comm_cases
  | prune1 a b c => simp only [Clear] at h; comm_cases
  | prune2q a b => simp only [Clear] at h; comm_cases
  | prune2d a b => simp only [Clear] at h; comm_cases
  | prune3 a => simp only [Clear] at h; comm_cases

/-- **…and with its row deletion.** -/
theorem clear_commutes_prune3 (id path : Nat) (b : Step) (h : Clear id path b) : Commute b (.prune3 id) := by
  intro s
  cases b <;> simp only [Clear] at h <;> comm_cases

/-- A step that commutes with every step of a block can be moved across the block. -/
theorem move_across (r : Step) : ∀ (bs : List Step) (s : S), (∀ b ∈ bs, Commute b r) → run s (bs ++ [r]) = run s (r :: bs)
  | [], _, _ => rfl
  | b :: bs, s, h => by
    have hb := h b List.mem_cons_self
    have ih := move_across r bs (apply s b) (fun x hx => h x (List.mem_cons_of_mem _ hx))
    simp only [run, List.cons_append, List.foldl_cons] at ih ⊢
    rw [ih, hb s]

theorem run_append (s : S) (a b : List Step) : run s (a ++ b) = run (run s a) b := by simp [run, List.foldl_append]

theorem run_cons (s : S) (a : Step) (l : List Step) : run s (a :: l) = run (apply s a) l := rfl
theorem run_nil (s : S) : run s [] = s := rfl

/-- Moving one removal step to the front of a block of clear steps. -/
theorem hoist (r : Step) (mid : List Step) (s : S) (h : ∀ b ∈ mid, Commute b r) :
    run (run s mid) [r] = run (run s [r]) mid := by
  rw [← run_append, move_across r mid s h]; rfl

/-- **Reduction.** A removal `r1 · r2q · r2d · r3` of dataset `id` at `path`, interleaved in any way
with steps of other clients that stay clear of it, ends in the same state as the schedule in which
the removal runs without interruption at the point of its first commit: the interleaving is
equivalent to a sequential order. -/
theorem removal_serializable (slot id path : Nat) (pre mid1 mid2 mid3 post : List Step) (s : S)
    (h1 : ∀ b ∈ mid1, Clear id path b) (h2 : ∀ b ∈ mid2, Clear id path b) (h3 : ∀ b ∈ mid3, Clear id path b) :
    run s (pre ++ [.prune1 slot id path] ++ mid1 ++ [.prune2q id path] ++ mid2 ++ [.prune2d id path] ++ mid3 ++
           [.prune3 id] ++ post) =
    run s (pre ++ [.prune1 slot id path, .prune2q id path, .prune2d id path, .prune3 id] ++ mid1 ++ mid2 ++ mid3 ++ post) := by
  simp only [run_append]
  congr 1
  have hr : ∀ X, run X [.prune1 slot id path, .prune2q id path, .prune2d id path, .prune3 id] =
      run (run (run (run X [.prune1 slot id path]) [.prune2q id path]) [.prune2d id path]) [.prune3 id] := fun _ => rfl
  rw [hr]
  generalize run (run s pre) [.prune1 slot id path] = s1
  have cq : ∀ b ∈ mid1, Commute b (.prune2q id path) := fun b hb => clear_commutes_prune2q id path b (h1 b hb)
  have cd : ∀ b ∈ mid1 ++ mid2, Commute b (.prune2d id path) := fun b hb => by
    rcases List.mem_append.mp hb with hb | hb
    · exact clear_commutes_prune2d id path b (h1 b hb)
    · exact clear_commutes_prune2d id path b (h2 b hb)
  have c3 : ∀ b ∈ mid1 ++ mid2 ++ mid3, Commute b (.prune3 id) := fun b hb => by
    rcases List.mem_append.mp hb with hb | hb
    · rcases List.mem_append.mp hb with hb | hb
      · exact clear_commutes_prune3 id path b (h1 b hb)
      · exact clear_commutes_prune3 id path b (h2 b hb)
    · exact clear_commutes_prune3 id path b (h3 b hb)
  -- left side: hoist r2q over mid1, r2d over mid1 ++ mid2, r3 over mid1 ++ mid2 ++ mid3
  rw [hoist _ mid1 s1 cq]
  rw [← run_append (run s1 [.prune2q id path]) mid1 mid2, hoist _ (mid1 ++ mid2) _ cd]
  rw [← run_append (run (run s1 [.prune2q id path]) [.prune2d id path]) (mid1 ++ mid2) mid3, hoist _ (mid1 ++ mid2 ++ mid3) _ c3]
  simp only [run_append]

/-- Single-step operations need no argument: a schedule of atomic steps *is* a sequential order.
Get-or-create: registering a collection twice leaves the first definition. -/
theorem register_get_or_create (s : S) (n t t' : Nat) (h : s.colls n = none) :
    (run s [.regColl n t, .regColl n t']).colls n = some t := by
  simp [run, apply, h, upd]

/-- Of two conflicting inserts into one slot exactly one wins, whichever order they commit in. -/
theorem conflicting_puts_one_wins (s : S) (slot i1 p1 c1 i2 p2 c2 : Nat) (h : s.slots slot = none) :
    (run s [.put slot i1 p1 c1, .put slot i2 p2 c2]).slots slot = some i1 ∧
    (run s [.put slot i2 p2 c2, .put slot i1 p1 c1]).slots slot = some i2 := by
  simp [run, apply, h, upd]

/-- Chain edits are not lost: both children are there after both edits, in commit order. -/
theorem chain_edits_not_lost (s : S) (ch a b : Nat) :
    (run s [.chainAdd ch a, .chainAdd ch b]).chain ch = s.chain ch ++ [a, b] := by
  simp [run, apply, upd]

/-- Known finding C20-a as a theorem: a `put` that re-uses the slot — hence the artifact path — of a
dataset whose removal is between its trash query and its file deletion is *not* clear of it, and the
result is a visible dataset without artifact, which no sequential order produces. -/
def stored1 : S := { slots := upd (fun _ => none) 1 (some 10), recs := upd (fun _ => none) 10 (some 7),
                     files := upd (fun _ => none) 7 (some 100), users := upd (fun _ => 0) 7 1 }
theorem reuse_race_loses_artifact :
    let s := run stored1 [.prune1 1 10 7, .prune2q 10 7, .put 1 11 7 200, .prune2d 10 7, .prune3 10]
    s.slots 1 = some 11 ∧ s.recs 11 = some 7 ∧ s.files 7 = none := by
  simp [run, apply, stored1, upd]
/-- The same `put` *before* the query is harmless: the query sees the new reference and keeps the file. -/
theorem reuse_before_query_is_safe :
    (run stored1 [.prune1 1 10 7, .put 1 11 7 200, .prune2q 10 7, .prune2d 10 7, .prune3 10]).files 7 = some 200 := by
  simp [run, apply, stored1, upd]
theorem reuse_sequential_orders_keep_it :
    (run stored1 [.prune1 1 10 7, .prune2q 10 7, .prune2d 10 7, .prune3 10, .put 1 11 7 200]).files 7 = some 200 ∧
    (run stored1 [.put 1 11 7 200, .prune1 1 10 7, .prune2q 10 7, .prune2d 10 7, .prune3 10]).slots 1 = none := by
  simp [run, apply, stored1, upd]

example : Clear 10 7 (.put 2 11 8 200) := by simp [Clear]

end C20

/-! ## A failed block against a put into the same slot (two clients, one waiting for the other's lock) -/
namespace C20.FailedBlock
open Lock

/-- B arriving after A's last step is B arriving at A's last step. -/
theorem late_arrival (order : List AStep) : ∀ (k : Nat) (bDone : Bool) (s : S), order.length ≤ k →
    exec order (k + 1) bDone s = exec order k bDone s := by
  induction order with
  | nil => intro k bDone s _; rfl
  | cons st rest ih =>
    intro k bDone s hk
    simp only [List.length_cons] at hk
    obtain ⟨k', rfl⟩ : ∃ k', k = k' + 1 := ⟨k - 1, by omega⟩
    simp only [exec, Nat.add_sub_cancel]
    have h1 : (k' + 1 + 1 == 0) = false := by simp
    have h2 : (k' + 1 == 0) = false := by simp
    simp only [h1, h2, Bool.and_false, Bool.false_and, Bool.or_false, Bool.false_eq_true, if_false]
    exact ih k' bDone (applyA s st) (by omega)

/-- **Whenever client B's put arrives — before, between or after the two steps in which client A's failed block is
undone — the outcome is the sequential one**: B's dataset is registered and the artifact holds B's content.  (B waits for
the write lock, and the lock is released only after A's undo has removed A's artifact.) -/
theorem failed_block_vs_put_serializable (k : Nat) : exec sourceOrder k false start = sequential := by
  have h : ∀ n, exec sourceOrder (2 + n) false start = sequential := by
    intro n
    induction n with
    | zero => decide
    | succ n ih => rw [← Nat.add_assoc, late_arrival sourceOrder (2 + n) false start (by simp [sourceOrder])]; exact ih
  match k with
  | 0 => decide
  | 1 => decide
  | k + 2 => rw [Nat.add_comm]; exact h k

/-- **Witness: with the two steps in the other order** (registry released first, artifact undone afterwards — what nesting
the two context managers the other way round gives) a put that was waiting for the lock lands in between, and A's undo then
deletes *B's* artifact: B's dataset is registered and unreadable, an outcome no sequential order gives. -/
theorem swapped_order_loses_artifact :
    exec swappedOrder 0 false start = { locked := false, row := some .b, file := none } ∧
    exec swappedOrder 1 false start = { locked := false, row := some .b, file := none } ∧
    exec swappedOrder 1 false start ≠ sequential := by decide

end C20.FailedBlock

/-! ### The decision of `Database.sync` as translated from the source on every run (`Gen/SyncPy.lean`, `translate/gen_sync.py`)

`n` rows carry the keys after the `INSERT … ON CONFLICT IGNORE`; `bad`: the existing row differs in a compared column;
`inserted`: the insert added the row; `update`: the caller asked for differing columns to be overwritten. -/
namespace C20.Translated
open Gen.SyncPy

/-- **Registrations are get-or-create**: when exactly one row carries the keys and it agrees with what was asked for, `sync`
succeeds for every caller, and tells each whether *its* insert created the row (1) or the row was already there (0). -/
theorem get_or_create (inserted update : Bool) :
    syncDecision 1 false inserted update = .ok (if inserted then 1 else 0) := by
  cases inserted <;> cases update <;> rfl

/-- **A differing definition is never accepted silently**: whenever `sync` returns while the existing row differs from what was
asked for, the caller had asked for an update, the row was not this caller's insert, and the result says "updated". -/
theorem conflict_never_silent (n : Int) (inserted update : Bool) (c : Nat)
    (h : syncDecision n true inserted update = .ok c) : update = true ∧ inserted = false ∧ c = 2 ∧ n = 1 := by
  unfold syncDecision at h
  by_cases h1 : n < 1
  · simp [h1] at h
  · by_cases h2 : n > 1
    · simp [h1, h2] at h
    · have hn : n = 1 := by omega
      cases inserted <;> cases update <;> simp [h1, h2] at h
      exact ⟨rfl, rfl, h.symm, hn⟩

/-- without `update`, a differing existing row is the documented conflict error -/
theorem conflict_refused (inserted : Bool) (hi : inserted = false) :
    syncDecision 1 true inserted false = .error "DatabaseConflictError" := by
  subst hi; rfl

/-- keys that do not identify one row are an error, never a guess -/
theorem not_unique_is_error (n : Int) (bad inserted update : Bool) (h : n ≠ 1) :
    ∃ e, syncDecision n bad inserted update = .error e := by
  unfold syncDecision
  by_cases h1 : n < 1
  · exact ⟨"ConflictingDefinitionError", by simp [h1]⟩
  · have h2 : n > 1 := by omega
    exact ⟨"RuntimeError", by simp [h1, h2]⟩

/-- the whole decision table -/
theorem sync_table (n : Int) (bad inserted update : Bool) :
    syncDecision n bad inserted update =
      if n < 1 then .error "ConflictingDefinitionError" else if n > 1 then .error "RuntimeError"
      else if bad then (if inserted then .error "RuntimeError" else if update then .ok 2 else .error "DatabaseConflictError")
      else .ok (if inserted then 1 else 0) := by
  unfold syncDecision
  by_cases h1 : n < 1 <;> by_cases h2 : n > 1 <;> cases bad <;> cases inserted <;> cases update <;> simp [h1, h2]

end C20.Translated
