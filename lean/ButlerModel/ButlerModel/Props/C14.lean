import ButlerModel.Model.Parser
import ButlerModel.Lemmas.LR
/-! # C14 — the parser follows the documented grammar and rejects everything else cleanly

What is proved here:
* **F obligations** — the grammar the proofs and the model's semantic actions assume is the grammar
  the code has *now*: productions, operator precedence/associativity table, the ordered lexer rules
  (master regex), reserved words and ignored characters, as extracted from the live PLY objects into
  `Gen/Grammar.lean` on every run, are compared with the expected ones by the kernel.
* lexer facts: leading blanks/tabs are insignificant; every case variant of every reserved word
  (all 280 of them) lexes to the keyword token; a reserved word glued to more identifier characters
  is an identifier.
* **the parser never gets stuck** (`parse_outcomes`): the LALR tables extracted from the live PLY
  parser are a well-formed LR automaton (`lr_tables_wellformed`, decided by the kernel over the
  whole table on every run: one accessing symbol per state, every reduce entry is preceded — along
  *every* backward path — by the right-hand side it pops and lands on a goto entry, accept only after
  `input`, `$end` never shifted), every semantic action accepts children of those shapes
  (`LR.act_ok`, all 52 productions), and therefore for **every** input string the driver yields a
  tree, the empty expression, or one of the four user-facing errors — never an empty stack, a
  missing goto entry, or an action applied to the wrong children.  Fuel exhaustion is the one
  outcome left to the correspondence (`parse_outcomes` keeps it as an explicit disjunct).
The parser model is additionally tied by correspondence; the print/parse round trip and the
documented precedence are decided by the model-free oracles of the check (not proved: see
`not_proved` in the evidence). -/
namespace C14
open Lexer

def expectedProductions : List String := [
  "S' -> input", "input -> expr", "input -> empty", "empty -> <empty>", "expr -> expr OR expr", "expr -> expr AND expr", "expr -> NOT expr", "expr -> bool_primary", "bool_primary -> bool_primary EQ predicate", "bool_primary -> bool_primary NE predicate", "bool_primary -> bool_primary LT predicate", "bool_primary -> bool_primary LE predicate", "bool_primary -> bool_primary GE predicate", "bool_primary -> bool_primary GT predicate", "bool_primary -> bool_primary OVERLAPS predicate", "bool_primary -> predicate", "predicate -> bit_expr IN LPAREN literal_or_id_list RPAREN", "predicate -> bit_expr NOT IN LPAREN literal_or_id_list RPAREN", "predicate -> bit_expr", "identifier -> SIMPLE_IDENTIFIER", "identifier -> QUALIFIED_IDENTIFIER", "literal_or_id_list -> literal_or_id_list COMMA literal", "literal_or_id_list -> literal_or_id_list COMMA identifier", "literal_or_id_list -> literal_or_id_list COMMA bind_name", "literal_or_id_list -> literal", "literal_or_id_list -> identifier", "literal_or_id_list -> bind_name", "bind_name -> BIND_NAME", "bit_expr -> bit_expr ADD bit_expr", "bit_expr -> bit_expr SUB bit_expr", "bit_expr -> bit_expr MUL bit_expr", "bit_expr -> bit_expr DIV bit_expr", "bit_expr -> bit_expr MOD bit_expr", "bit_expr -> simple_expr", "simple_expr -> literal", "simple_expr -> identifier", "simple_expr -> bind_name", "simple_expr -> function_call", "simple_expr -> ADD simple_expr", "simple_expr -> SUB simple_expr", "simple_expr -> LPAREN expr RPAREN", "simple_expr -> LPAREN expr COMMA expr RPAREN", "literal -> NUMERIC_LITERAL", "literal -> ADD NUMERIC_LITERAL", "literal -> SUB NUMERIC_LITERAL", "literal -> STRING_LITERAL", "literal -> TIME_LITERAL", "literal -> RANGE_LITERAL", "function_call -> SIMPLE_IDENTIFIER LPAREN expr_list RPAREN", "expr_list -> expr_list COMMA expr", "expr_list -> expr", "expr_list -> empty"
]

def expectedPrecedence : List (List String) := [["left", "OR"], ["left", "AND"], ["nonassoc", "OVERLAPS"], ["nonassoc", "EQ", "NE"], ["nonassoc", "LT", "LE", "GT", "GE"], ["left", "ADD", "SUB"], ["left", "MUL", "DIV", "MOD"], ["right", "UPLUS", "UMINUS", "NOT"]]

def expectedMasterRegex : List String := ["(?P<t_newline>\\n+)|(?P<t_TIME_LITERAL>T'.*?')|(?P<t_STRING_LITERAL>'.*?')|(?P<t_RANGE_LITERAL>(?P<start>-?\\d+)\\s*\\.\\.\\s*(?P<stop>-?\\d+)(\\s*:\\s*(?P<stride>[1-9]\\d*))?)|(?P<t_NUMERIC_LITERAL>\\d+(\\.\\d*)?(e[-+]?\\d+)?   #  1, 1., 1.1, 1e10, 1.1e-10, etc.\n        |\n        \\.\\d+(e[-+]?\\d+)?         #  .1, .1e10, .1e+10\n        )|(?P<t_QUALIFIED_IDENTIFIER>[a-zA-Z_][a-zA-Z0-9_]*(\\.[a-zA-Z_][a-zA-Z0-9_]*){1,2})|(?P<t_SIMPLE_IDENTIFIER>[a-zA-Z_][a-zA-Z0-9_]*)|(?P<t_BIND_NAME>[:][a-zA-Z_][a-zA-Z0-9_]*)|(?P<t_ADD>\\+)|(?P<t_GE>>=)|(?P<t_LE><=)|(?P<t_LPAREN>\\()|(?P<t_MUL>\\*)|(?P<t_NE>!=)|(?P<t_RPAREN>\\))|(?P<t_COMMA>,)|(?P<t_DIV>/)|(?P<t_EQ>=)|(?P<t_GT>>)|(?P<t_LT><)|(?P<t_MOD>%)|(?P<t_SUB>-)"]

def expectedReserved : List (String × String) := [("AND", "AND"), ("IN", "IN"), ("NOT", "NOT"), ("OR", "OR"), ("OVERLAPS", "OVERLAPS")]

theorem productions_expected : Gen.Grammar.productions.map (·.1) = expectedProductions := by decide +kernel
theorem precedence_expected : Gen.Grammar.precedence = expectedPrecedence := by decide
theorem masterRegex_expected : Gen.Grammar.masterRegex = expectedMasterRegex := by decide +kernel
theorem reserved_expected : Gen.Grammar.reserved = expectedReserved := by decide
theorem lexIgnore_expected : Gen.Grammar.lexIgnore = " \t" := by decide
/-- The model's keyword list is the code's. -/
theorem reserved_model : Gen.Grammar.reserved.map (·.1) = ["AND", "IN", "NOT", "OR", "OVERLAPS"] ∧
    ∀ w ∈ Lexer.reserved, w ∈ Gen.Grammar.reserved.map (·.1) := by decide

/-- Every production has a semantic action in the model (no production falls through). -/
theorem productions_have_lengths : Gen.Grammar.productions.length = 52 := by decide

/-- Leading blanks and tabs never change the token list. -/
theorem lex_skip_blank (fuel : Nat) (s : List Char) : lexAll (fuel + 1) (' ' :: s) = lexAll fuel s := by
  simp [lexAll, step]
theorem lex_skip_tab (fuel : Nat) (s : List Char) : lexAll (fuel + 1) ('\t' :: s) = lexAll fuel s := by
  simp [lexAll, step]

/-- All upper/lower-case spellings of a word. -/
def caseVariants : List Char → List (List Char)
  | [] => [[]]
  | c :: cs => (caseVariants cs).flatMap fun r => [c.toUpper :: r, c.toLower :: r]

/-- **Keyword case-insensitivity, exhaustively**: each of the 4+4+8+8+256 spellings of
IN / OR / AND / NOT / OVERLAPS lexes to exactly the keyword token. -/
theorem keyword_case_all :
    ∀ w ∈ ["IN", "OR", "AND", "NOT", "OVERLAPS"], ∀ v ∈ caseVariants w.toList,
      step v = .tok ⟨w, w⟩ [] := by decide +kernel

/-- …and a keyword followed by identifier characters is an ordinary identifier. -/
theorem keyword_prefix_is_identifier :
    step "NOTa".toList = .tok ⟨"SIMPLE_IDENTIFIER", "NOTa"⟩ [] ∧
    step "inx".toList = .tok ⟨"SIMPLE_IDENTIFIER", "inx"⟩ [] ∧
    step "ORe".toList = .tok ⟨"SIMPLE_IDENTIFIER", "ORe"⟩ [] := by decide +kernel

/-- Documented literal values of range literals (inclusive bounds, optional stride, blanks allowed
around `..` and `:`; a zero stride is not part of the literal). -/
theorem range_literal_values :
    step "1..5".toList = .tok ⟨"RANGE_LITERAL", "1,5,None"⟩ [] ∧
    step "-3 .. -1 : 2".toList = .tok ⟨"RANGE_LITERAL", "-3,-1,2"⟩ [] ∧
    step "1..5:0".toList = .tok ⟨"RANGE_LITERAL", "1,5,None"⟩ ":0".toList := by decide +kernel

/-! ### The extracted LALR automaton is well formed, and the driver never gets stuck -/

/-- **F obligation**: the table checks of `Model/LR.lean`, on the tables extracted from the code that
is there now. -/
theorem lr_tables_wellformed : LR.TablesOK :=
  ⟨by decide +kernel, by decide +kernel, by decide +kernel, by decide +kernel⟩

/-- the right-hand sides used by those checks are the ones spelled in the production texts that
`productions_expected` pins -/
theorem lr_productions_coherent : LR.prodsCoherent = true := by decide +kernel

/-- From a stack that is a path of the automaton, whatever the remaining input and however long the
driver runs, the outcome is a value of the shape of `input` or a user-facing error. -/
theorem run_outcomes (fuel : Nat) (ps : Parser.PState) (h : LR.Good ps.states ps.vals) :
    LR.Documented (Parser.run fuel ps) :=
  LR.run_documented lr_tables_wellformed fuel ps h

/-- **Rejection is clean, for every string**: parsing yields a tree, the empty expression, a lexer
error, a syntax error (in the middle or at the end of the input), the `ValueError` of a malformed
`POINT`, or (model only) exhausted fuel — never an internal error of the LR machinery. -/
theorem parse_outcomes (s : String) :
    (∃ n, Parser.parse s = .ok (some n)) ∨ Parser.parse s = .ok none ∨
    Parser.parse s = .error .lex ∨ Parser.parse s = .error .parse ∨ Parser.parse s = .error .eof ∨
    Parser.parse s = .error .value ∨ Parser.parse s = .error (.internal "parser fuel") := by
  have h := run_outcomes (20 * s.length + 100)
    { states := [0], vals := [], la := none, input := s.toList } LR.Good.base
  unfold Parser.parse
  generalize Parser.run (20 * s.length + 100) { states := [0], vals := [], la := none, input := s.toList } = r at h
  match r, h with
  | .ok (.node n), _ => exact Or.inl ⟨n, rfl⟩
  | .ok .none, _ => exact Or.inr (Or.inl rfl)
  | .ok (.tok _), h => simp [LR.Documented, LR.kindOK, LR.kindOf] at h
  | .ok (.list _), h => simp [LR.Documented, LR.kindOK, LR.kindOf] at h
  | .error .lex, _ => simp
  | .error .parse, _ => simp
  | .error .eof, _ => simp
  | .error .value, _ => simp
  | .error (.internal m), h =>
    simp only [LR.Documented] at h
    subst h; simp

/-- non-vacuity: the outcomes other than fuel exhaustion all occur -/
example : (match Parser.parse "a = 1 AND b IN (1, 2)" with | .ok (some _) => true | _ => false) = true := by decide +kernel
example : (match Parser.parse "" with | .ok none => true | _ => false) = true := by decide +kernel
example : (match Parser.parse "a ? 1" with | .error .lex => true | _ => false) = true := by decide +kernel
example : (match Parser.parse "a = = 1" with | .error .parse => true | _ => false) = true := by decide +kernel
example : (match Parser.parse "a =" with | .error .eof => true | _ => false) = true := by decide +kernel
example : (match Parser.parse "POINT(1)" with | .error .value => true | _ => false) = true := by decide +kernel

end C14
