import ButlerModel.Model.Transfer
import ButlerModel.Gen.ExportOrderPy
/-! # C19 — export/import and transfer reproduce the selection exactly -/
namespace C19
open Transfer

theorem lookup_cons (t : Tbl) (k v k' : Nat) :
    lookup ((k, v) :: t) k' = if k' = k then some v else lookup t k' := by
  simp only [lookup, List.lookup]
  by_cases h : k' = k
  · simp [h]
  · have : (k' == k) = false := by simp [h]
    simp [this, h]

/-! ## strict merge (dataset types, datasets by UUID, TAGGED memberships) -/

/-- **Exact.** After an accepted strict merge every entry of the source is in the result, as given. -/
theorem strict_exact : ∀ (s t r : Tbl), mergeStrict t s = some r → NoDup s →
    (∀ k v, (k, v) ∈ s → lookup r k = some v) ∧ (∀ k, (∀ v, (k, v) ∉ s) → lookup r k = lookup t k)
  | [], t, r, h, _ => by
    simp only [mergeStrict, Option.some.injEq] at h; subst h
    exact ⟨fun _ _ hm => (by cases hm), fun _ _ => rfl⟩
  | (k, v) :: s, t, r, h, hn => by
    have hn' : NoDup s := by
      unfold NoDup at hn ⊢; simp only [List.map_cons, List.nodup_cons] at hn; exact hn.2
    have hk : ∀ v', (k, v') ∉ s := by
      intro v' hm
      unfold NoDup at hn; simp only [List.map_cons, List.nodup_cons] at hn
      exact hn.1 (List.mem_map.mpr ⟨(k, v'), hm, rfl⟩)
    simp only [mergeStrict] at h
    cases hl : lookup t k with
    | none =>
      rw [hl] at h
      obtain ⟨h1, h2⟩ := strict_exact s ((k, v) :: t) r h hn'
      constructor
      · intro k' v' hm
        rcases List.mem_cons.mp hm with he | hm
        · injection he with e1 e2; subst e1; subst e2
          rw [h2 k' hk, lookup_cons]; simp
        · exact h1 k' v' hm
      · intro k' hno
        have hne : k' ≠ k := fun e => hno v (by rw [e]; exact List.mem_cons_self)
        rw [h2 k' (fun v' hm => hno v' (List.mem_cons_of_mem _ hm)), lookup_cons]; simp [hne]
    | some v' =>
      rw [hl] at h
      simp only at h
      split at h
      · rename_i hv
        obtain ⟨h1, h2⟩ := strict_exact s t r h hn'
        constructor
        · intro k' v'' hm
          rcases List.mem_cons.mp hm with he | hm
          · injection he with e1 e2; subst e1; subst e2
            rw [h2 k' hk, hl, hv]
          · exact h1 k' v'' hm
        · intro k' hno
          exact h2 k' (fun v'' hm => hno v'' (List.mem_cons_of_mem _ hm))
      · cases h

/-- **Conflicts are refused.** If the target defines a key of the source differently, nothing is merged. -/
theorem strict_conflict_refused : ∀ (s t : Tbl) (k v v' : Nat), (k, v) ∈ s → lookup t k = some v' → v ≠ v' →
    NoDup s → mergeStrict t s = none
  | [], _, _, _, _, hm, _, _, _ => by cases hm
  | (k0, v0) :: s, t, k, v, v', hm, hl, hne, hn => by
    have hn' : NoDup s := by
      unfold NoDup at hn ⊢; simp only [List.map_cons, List.nodup_cons] at hn; exact hn.2
    simp only [mergeStrict]
    rcases List.mem_cons.mp hm with he | hm'
    · injection he with e1 e2; subst e1; subst e2
      simp [hl, hne]
    · have hk : k ≠ k0 := by
        intro e; subst e
        unfold NoDup at hn; simp only [List.map_cons, List.nodup_cons] at hn
        exact hn.1 (List.mem_map.mpr ⟨(k, v), hm', rfl⟩)
      cases hl0 : lookup t k0 with
      | none =>
        simp only
        apply strict_conflict_refused s ((k0, v0) :: t) k v v' hm' _ hne hn'
        rw [lookup_cons]; simp [hk, hl]
      | some w =>
        simp only
        split
        · exact strict_conflict_refused s t k v v' hm' hl hne hn'
        · rfl

/-- **Repetition changes nothing.** Merging the same source into the result of an accepted merge is
accepted again and gives the same table. -/
theorem strict_idempotent (s t r : Tbl) (h : mergeStrict t s = some r) (hn : NoDup s) :
    mergeStrict r s = some r := by
  have hex := (strict_exact s t r h hn).1
  clear h hn
  induction s generalizing r with
  | nil => rfl
  | cons x s ih =>
    obtain ⟨k, v⟩ := x
    simp only [mergeStrict, hex k v List.mem_cons_self, ↓reduceIte]
    exact ih r (fun k' v' hm => hex k' v' (List.mem_cons_of_mem _ hm))

/-! ## keep merge (dimension records): the target wins — property C19 holds only without conflicts -/

theorem keep_preserves_target : ∀ (s t : Tbl) (k v : Nat), lookup t k = some v → lookup (mergeKeep t s) k = some v
  | [], _, _, _, h => h
  | (k0, v0) :: s, t, k, v, h => by
    simp only [mergeKeep]
    cases hl : lookup t k0 with
    | none =>
      simp only
      apply keep_preserves_target
      rw [lookup_cons]
      by_cases e : k = k0
      · subst e; rw [hl] at h; cases h
      · simp [e, h]
    | some w => exact keep_preserves_target s t k v h

/-- `_partial`: the source's record arrives only when the target has none for that key. -/
theorem keep_exact_partial : ∀ (s t : Tbl) (k v : Nat), (k, v) ∈ s → lookup t k = none → NoDup s →
    lookup (mergeKeep t s) k = some v
  | [], _, _, _, hm, _, _ => by cases hm
  | (k0, v0) :: s, t, k, v, hm, hl, hn => by
    have hn' : NoDup s := by
      unfold NoDup at hn ⊢; simp only [List.map_cons, List.nodup_cons] at hn; exact hn.2
    simp only [mergeKeep]
    rcases List.mem_cons.mp hm with he | hm'
    · injection he with e1 e2; subst e1; subst e2
      simp only [hl]
      apply keep_preserves_target
      rw [lookup_cons]; simp
    · have hk : k ≠ k0 := by
        intro e; subst e
        unfold NoDup at hn; simp only [List.map_cons, List.nodup_cons] at hn
        exact hn.1 (List.mem_map.mpr ⟨(k, v), hm', rfl⟩)
      cases hl0 : lookup t k0 with
      | none =>
        simp only
        apply keep_exact_partial s _ k v hm' _ hn'
        rw [lookup_cons]; simp [hk, hl]
      | some w => exact keep_exact_partial s t k v hm' hl hn'

/-- Known finding C19-a as a theorem: a conflicting dimension record in the target is silently kept —
neither refused nor made equal to the source. -/
theorem keep_conflict_kept : lookup (mergeKeep [(1, 10)] [(1, 20)]) 1 = some 10 := by decide

/-! ## overwrite merge (chain definitions): the source wins -/

theorem over_exact : ∀ (s t : Tbl) (k v : Nat), (k, v) ∈ s → NoDup s → lookup (mergeOver t s) k = some v
  | [], _, _, _, hm, _ => by cases hm
  | (k0, v0) :: s, t, k, v, hm, hn => by
    have hn' : NoDup s := by
      unfold NoDup at hn ⊢; simp only [List.map_cons, List.nodup_cons] at hn; exact hn.2
    simp only [mergeOver]
    rcases List.mem_cons.mp hm with he | hm'
    · injection he with e1 e2; subst e1; subst e2
      have hk : ∀ v', (k, v') ∉ s := by
        intro v' hm'
        unfold NoDup at hn; simp only [List.map_cons, List.nodup_cons] at hn
        exact hn.1 (List.mem_map.mpr ⟨(k, v'), hm', rfl⟩)
      clear hm hn
      -- nothing later in `s` touches k
      have : ∀ (s : Tbl) (t : Tbl), (∀ v', (k, v') ∉ s) → lookup (mergeOver t s) k = lookup t k := by
        intro s
        induction s with
        | nil => intro t _; rfl
        | cons x s ih =>
          intro t hno
          obtain ⟨k1, v1⟩ := x
          simp only [mergeOver]
          rw [ih _ (fun v' hm => hno v' (List.mem_cons_of_mem _ hm)), lookup_cons]
          have : k ≠ k1 := fun e => hno v1 (by rw [e]; exact List.mem_cons_self)
          simp [this]
      rw [this s _ hk, lookup_cons]; simp
    · exact over_exact s _ k v hm' hn'

/-- Known finding C19-b as a theorem: a chain that exists in the target with other children is
redefined by the import, not refused. -/
theorem over_conflict_redefines : lookup (mergeOver [(1, 10)] [(1, 20)]) 1 = some 20 := by decide

/-! ## validity ranges -/

/-- An accepted import keeps every range the target had and adds every range of the source. -/
theorem calib_exact : ∀ (s t r : List Rng), mergeCalib t s = some r → (∀ x ∈ t, x ∈ r) ∧ (∀ x ∈ s, x ∈ r)
  | [], t, r, h => by
    simp only [mergeCalib, Option.some.injEq] at h; subst h
    exact ⟨fun _ h => h, fun _ h => (by cases h)⟩
  | x :: s, t, r, h => by
    simp only [mergeCalib] at h
    split at h
    · cases h
    · obtain ⟨h1, h2⟩ := calib_exact s (x :: t) r h
      exact ⟨fun y hy => h1 y (List.mem_cons_of_mem _ hy),
             fun y hy => by
               rcases List.mem_cons.mp hy with rfl | hy
               · exact h1 _ List.mem_cons_self
               · exact h2 y hy⟩

/-- Ranges never overlap after an accepted import if they did not before. -/
theorem calib_disjoint : ∀ (s t r : List Rng), mergeCalib t s = some r → t.Pairwise (fun a b => overlaps a b = false) →
    r.Pairwise (fun a b => overlaps a b = false)
  | [], t, r, h, hp => by
    simp only [mergeCalib, Option.some.injEq] at h; subst h; exact hp
  | x :: s, t, r, h, hp => by
    simp only [mergeCalib] at h
    split at h
    · cases h
    · rename_i hany
      apply calib_disjoint s (x :: t) r h
      refine List.pairwise_cons.mpr ⟨?_, hp⟩
      intro y hy
      have : ¬ (t.any (overlaps x) = true) := hany
      simp only [List.any_eq_true, not_exists, not_and, Bool.not_eq_true] at this
      exact this y hy

/-- A repeated import of a non-empty range is **refused** (certify rejects the identical range), so
with calibrations repetition is "refused, nothing altered" rather than "absorbed". -/
theorem calib_repeat_refused (t : List Rng) (x : Rng) (hx : x.b < x.e) (hm : x ∈ t) (s : List Rng) :
    mergeCalib t (x :: s) = none := by
  simp only [mergeCalib]
  have : t.any (overlaps x) = true :=
    List.any_eq_true.mpr ⟨x, hm, by simp [overlaps, hx]⟩
  simp [this]

/-! ## the repository -/

/-- **All or nothing + exactness for the strictly merged parts.** An accepted import contains every
dataset type, dataset (id ↦ type, data ID, run, content) and TAGGED membership of the export exactly
as exported, and leaves every other entry of the target as it was. -/
theorem import_exact (t e r : Repo) (h : importInto t e = some r)
    (hn : NoDup e.types ∧ NoDup e.ds ∧ NoDup e.tags) :
    (∀ k v, (k, v) ∈ e.ds → lookup r.ds k = some v) ∧
    (∀ k, (∀ v, (k, v) ∉ e.ds) → lookup r.ds k = lookup t.ds k) ∧
    (∀ k v, (k, v) ∈ e.tags → lookup r.tags k = some v) ∧
    (∀ k v, (k, v) ∈ e.types → lookup r.types k = some v) := by
  simp only [importInto, Option.bind_eq_bind, Option.pure_def] at h
  cases h1 : mergeStrict t.types e.types with
  | none => simp [h1] at h
  | some ty =>
    cases h2 : mergeStrict t.ds e.ds with
    | none => simp [h1, h2] at h
    | some ds =>
     cases h5 : mergeStrict t.slots e.slots with
     | none => simp [h1, h2, h5] at h
     | some sl =>
      cases h3 : mergeStrict t.tags e.tags with
      | none => simp [h1, h2, h3, h5] at h
      | some tg =>
        cases h4 : mergeCalib t.calibs e.calibs with
        | none => simp [h1, h2, h3, h4, h5] at h
        | some cal =>
          simp only [h1, h2, h3, h4, h5, Option.bind_some, Option.some.injEq] at h
          subst h
          exact ⟨(strict_exact _ _ _ h2 hn.2.1).1, (strict_exact _ _ _ h2 hn.2.1).2,
                 (strict_exact _ _ _ h3 hn.2.2).1, (strict_exact _ _ _ h1 hn.1).1⟩

/-- **Conflicting datasets are refused**: the same UUID with another type / data ID / run / content. -/
theorem import_conflict_refused (t e : Repo) (k v v' : Nat) (hm : (k, v) ∈ e.ds) (hl : lookup t.ds k = some v')
    (hne : v ≠ v') (hn : NoDup e.ds) : importInto t e = none := by
  simp only [importInto, Option.bind_eq_bind, Option.pure_def]
  rw [strict_conflict_refused e.ds t.ds k v v' hm hl hne hn]
  cases mergeStrict t.types e.types <;> simp

/-- …and so is a *different* dataset (another UUID) for a type / data ID / run the target already fills. -/
theorem import_slot_conflict_refused (t e : Repo) (k v v' : Nat) (hm : (k, v) ∈ e.slots) (hl : lookup t.slots k = some v')
    (hne : v ≠ v') (hn : NoDup e.slots) : importInto t e = none := by
  simp only [importInto, Option.bind_eq_bind, Option.pure_def]
  rw [strict_conflict_refused e.slots t.slots k v v' hm hl hne hn]
  cases mergeStrict t.types e.types <;> cases mergeStrict t.ds e.ds <;> simp

/-- **Repeating an import without calibrations changes nothing.** -/
theorem import_idempotent (t e r : Repo) (h : importInto t e = some r)
    (hn : NoDup e.types ∧ NoDup e.ds ∧ NoDup e.tags) (hs : NoDup e.slots) (hc : e.calibs = []) :
    ∃ r', importInto r e = some r' ∧ r'.types = r.types ∧ r'.ds = r.ds ∧ r'.tags = r.tags ∧ r'.calibs = r.calibs := by
  simp only [importInto, Option.bind_eq_bind, Option.pure_def] at h
  cases h1 : mergeStrict t.types e.types with
  | none => simp [h1] at h
  | some ty =>
    cases h2 : mergeStrict t.ds e.ds with
    | none => simp [h1, h2] at h
    | some ds =>
     cases h5 : mergeStrict t.slots e.slots with
     | none => simp [h1, h2, h5] at h
     | some sl =>
      cases h3 : mergeStrict t.tags e.tags with
      | none => simp [h1, h2, h3, h5] at h
      | some tg =>
        cases h4 : mergeCalib t.calibs e.calibs with
        | none => simp [h1, h2, h3, h4, h5] at h
        | some cal =>
          simp only [h1, h2, h3, h4, h5, Option.bind_some, Option.some.injEq] at h
          subst h
          simp only [importInto, Option.bind_eq_bind, Option.pure_def,
            strict_idempotent _ _ _ h1 hn.1, strict_idempotent _ _ _ h2 hn.2.1, strict_idempotent _ _ _ h3 hn.2.2,
            strict_idempotent _ _ _ h5 hs, hc, mergeCalib, Option.bind_some]
          exact ⟨_, rfl, rfl, rfl, rfl, rfl⟩

example : importInto { ds := [(1, 5)] } { ds := [(1, 5), (2, 6)], tags := [(7, 1)] } =
    some { ds := [(2, 6), (1, 5)], tags := [(7, 1)] } := by decide
example : importInto { ds := [(1, 5)] } { ds := [(1, 9)] } = none := by decide

end C19

/-! ### The order in which an export writes collections, as generated from the source on every run (`Gen/ExportOrderPy.lean`) -/
namespace C19.Translated
open ExportOrder Gen.ExportOrderPy

theorem mem_ins (x y : Nat) (l : List Nat) : y ∈ ins x l ↔ y = x ∨ y ∈ l := by
  induction l with
  | nil => simp [ins]
  | cons z r ih =>
    simp only [ins]
    split
    · simp
    · simp only [List.mem_cons, ih]
      constructor
      · rintro (h | h | h)
        · exact Or.inr (Or.inl h)
        · exact Or.inl h
        · exact Or.inr (Or.inr h)
      · rintro (h | h | h)
        · exact Or.inr (Or.inl h)
        · exact Or.inl h
        · exact Or.inr (Or.inr h)

theorem mem_sorted (l : List Nat) (x : Nat) : x ∈ sorted l ↔ x ∈ l := by
  induction l with
  | nil => simp [sorted]
  | cons y r ih =>
    have : sorted (y :: r) = ins y (sorted r) := rfl
    rw [this, mem_ins, ih]; simp

theorem isKey_iff (cs : Chains) (c : Nat) : isKey cs c = true ↔ ∃ kids, (c, kids) ∈ cs := by
  simp only [isKey, List.any_eq_true, beq_iff_eq]
  constructor
  · rintro ⟨⟨p, k⟩, hm, rfl⟩; exact ⟨k, hm⟩
  · rintro ⟨k, hm⟩; exact ⟨(c, k), hm, rfl⟩

/-- everything still to be emitted is emitted, after what was there -/
theorem loop_emits : ∀ (f : Nat) (cs : Chains) (res out : List Nat), loop f cs res = .ok out →
    ∃ rest, out = res ++ rest ∧ ∀ p kids, (p, kids) ∈ cs → p ∈ rest := by
  intro f
  induction f with
  | zero =>
    intro cs res out h
    simp only [loop] at h
    split at h
    · rename_i he
      simp only [Except.ok.injEq] at h
      refine ⟨[], by simp [h], ?_⟩
      intro p kids hm
      simp only [List.isEmpty_iff] at he
      rw [he] at hm; cases hm
    · cases h
  | succ f ih =>
    intro cs res out h
    simp only [loop] at h
    split at h
    · rename_i he
      simp only [Except.ok.injEq] at h
      refine ⟨[], by simp [h], ?_⟩
      intro p kids hm
      simp only [List.isEmpty_iff] at he
      rw [he] at hm; cases hm
    · split at h
      · cases h
      · obtain ⟨rest, hout, hall⟩ := ih _ _ _ h
        refine ⟨sorted (unblocked cs) ++ rest, by rw [hout, List.append_assoc], ?_⟩
        intro p kids hm
        by_cases hu : p ∈ unblocked cs
        · exact List.mem_append_left _ ((mem_sorted _ _).mpr hu)
        · apply List.mem_append_right
          apply hall p kids
          simp only [List.mem_filter, List.contains_eq_mem, Bool.not_eq_true', decide_eq_false_iff_not]
          exact ⟨hm, hu⟩

theorem eq_of_nodup_fst : ∀ (cs : Chains), (cs.map (·.1)).Nodup → ∀ a b, a ∈ cs → b ∈ cs → a.1 = b.1 → a = b := by
  intro cs
  induction cs with
  | nil => intro _ a b ha; cases ha
  | cons x r ih =>
    intro hnd a b ha hb hab
    simp only [List.map_cons, List.nodup_cons, List.mem_map, not_exists, not_and] at hnd
    rcases List.mem_cons.mp ha with rfl | ha' <;> rcases List.mem_cons.mp hb with rfl | hb'
    · rfl
    · exact absurd hab.symm (hnd.1 b hb')
    · exact absurd hab (hnd.1 a ha')
    · exact ih hnd.2 a b ha' hb' hab

/-- `c` is emitted before `p` -/
def Before (out : List Nat) (c p : Nat) : Prop := ∃ l1 l2, out = l1 ++ p :: l2 ∧ c ∈ l1

/-- **Chains follow their children**: in the order the export writes (and the import registers) collections, every CHAINED
collection comes after each of its children that is itself an exported chain. -/
theorem chains_follow_children : ∀ (f : Nat) (cs : Chains) (res out : List Nat), (cs.map (·.1)).Nodup → loop f cs res = .ok out →
    ∀ p kids c, (p, kids) ∈ cs → c ∈ kids → isKey cs c = true → Before out c p := by
  intro f
  induction f with
  | zero =>
    intro cs res out _ h p kids c hm _ _
    simp only [loop] at h
    split at h
    · rename_i he
      simp only [List.isEmpty_iff] at he
      rw [he] at hm; cases hm
    · cases h
  | succ f ih =>
    intro cs res out hnd h p kids c hm hc hk
    simp only [loop] at h
    split at h
    · rename_i he
      simp only [List.isEmpty_iff] at he
      rw [he] at hm; cases hm
    · split at h
      · cases h
      · -- p cannot be unblocked: its child c is still a chain to emit
        have hpu : p ∉ unblocked cs := by
          intro hp
          simp only [unblocked, List.mem_map, List.mem_filter, Bool.not_eq_true', List.any_eq_false] at hp
          obtain ⟨a, ⟨ha, hfree⟩, hap⟩ := hp
          have : a = (p, kids) := eq_of_nodup_fst cs hnd a (p, kids) ha hm hap
          subst this
          exact hfree c hc hk
        have hm' : (p, kids) ∈ cs.filter (fun pc => !(unblocked cs).contains pc.1) := by
          simp only [List.mem_filter, List.contains_eq_mem, Bool.not_eq_true', decide_eq_false_iff_not]
          exact ⟨hm, hpu⟩
        by_cases hcu : c ∈ unblocked cs
        · obtain ⟨rest, hout, hall⟩ := loop_emits _ _ _ _ h
          have hp := hall p kids hm'
          obtain ⟨a, b, hab⟩ := List.append_of_mem hp
          refine ⟨res ++ sorted (unblocked cs) ++ a, b, ?_, ?_⟩
          · rw [hout, hab]; simp [List.append_assoc]
          · exact List.mem_append_left _ (List.mem_append_right _ ((mem_sorted _ _).mpr hcu))
        · have hnd' : ((cs.filter (fun pc => !(unblocked cs).contains pc.1)).map (·.1)).Nodup :=
            List.Nodup.sublist (List.Sublist.map _ List.filter_sublist) hnd
          apply ih _ _ _ hnd' h p kids c hm' hc
          obtain ⟨ck, hck⟩ := (isKey_iff cs c).mp hk
          apply (isKey_iff _ c).mpr
          refine ⟨ck, ?_⟩
          simp only [List.mem_filter, List.contains_eq_mem, Bool.not_eq_true', decide_eq_false_iff_not]
          exact ⟨hck, hcu⟩

/-- the fuel `sortedCollections` gives the loop (one step per chain) is never exhausted: every round removes a chain -/
theorem fuel_suffices : ∀ (f : Nat) (cs : Chains) (res : List Nat), cs.length ≤ f → loop f cs res ≠ .error "fuel" := by
  intro f
  induction f with
  | zero =>
    intro cs res hl
    have : cs = [] := List.length_eq_zero_iff.mp (by omega)
    subst this
    simp [loop]
  | succ f ih =>
    intro cs res hl
    simp only [loop]
    split
    · simp
    · split
      · simp
      · rename_i hne hu
        apply ih
        have hex : ∃ x, x ∈ unblocked cs := by
          cases hux : unblocked cs with
          | nil => simp [hux] at hu
          | cons a r => exact ⟨a, by simp⟩
        obtain ⟨x, hx⟩ := hex
        have hx' := hx
        simp only [unblocked, List.mem_map, List.mem_filter] at hx'
        obtain ⟨pc, ⟨hpc, _⟩, hpx⟩ := hx'
        have hlt : (cs.filter fun pc => !(unblocked cs).contains pc.1).length < cs.length := by
          apply List.length_filter_lt_length_iff_exists.mpr
          refine ⟨pc, hpc, ?_⟩
          simp [hpx, hx]
        omega

/-- **The export order of collections**: for distinct collection names, when `_computeSortedCollections` returns, every CHAINED
collection stands after each of its children that is an exported chain, and after every collection that is not a chain. -/
theorem export_order (records : List (Nat × Option (List Nat))) (out : List Nat)
    (hnd : ((split records).1.map (·.1)).Nodup) (h : sortedCollections records = .ok out) :
    (∀ p kids c, (p, kids) ∈ (split records).1 → c ∈ kids → isKey (split records).1 c = true → Before out c p) ∧
    (∀ p kids x, (p, kids) ∈ (split records).1 → x ∈ (split records).2 → Before out x p) := by
  refine ⟨chains_follow_children _ _ _ _ hnd h, ?_⟩
  intro p kids x hp hx
  obtain ⟨rest, hout, hall⟩ := loop_emits _ _ _ _ h
  obtain ⟨a, b, hab⟩ := List.append_of_mem (hall p kids hp)
  exact ⟨(split records).2 ++ a, b, by rw [hout, hab, List.append_assoc], List.mem_append_left _ hx⟩

/-- a cycle among the exported chains is reported, not looped on or silently cut -/
example : (match sortedCollections [(1, some [2]), (2, some [1]), (3, none)] with | .error e => e == "RuntimeError" | .ok _ => false) = true := by decide
/-- non-vacuity: chain 5 ⊇ {chain 4, run 1}, chain 4 ⊇ {run 2}: runs first (sorted), then 4, then 5 -/
example : (match sortedCollections [(5, some [4, 1]), (2, none), (4, some [2]), (1, none)] with | .ok l => l == [1, 2, 4, 5] | .error _ => false) = true := by decide

end C19.Translated
