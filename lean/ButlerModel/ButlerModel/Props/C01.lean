import ButlerModel.Model.Store
import ButlerModel.Model.PathNorm
import ButlerModel.Gen.TemplatePy
/-! # C01 — a stored dataset reads back as exactly what was stored under it -/
namespace C01
open Store

theorem lookup_filter_ne {α : Type} (l : List (Nat × α)) (k k' : Nat) (h : k' ≠ k) :
    (l.filter (fun r => r.1 != k)).lookup k' = l.lookup k' := by
  induction l with
  | nil => rfl
  | cons x xs ih =>
    by_cases hx : x.1 = k
    · have : (x.1 != k) = false := by simp [hx]
      simp only [List.filter_cons, this, Bool.false_eq_true, ↓reduceIte, ih]
      have hk : (k' == x.1) = false := by simp [hx, h]
      simp [List.lookup, hk]
    · have : (x.1 != k) = true := by simp [hx]
      simp only [List.filter_cons, this, ↓reduceIte]
      obtain ⟨a, b⟩ := x
      simp only [List.lookup]
      split <;> simp_all

theorem lookup_filter_self {α : Type} (l : List (Nat × α)) (k : Nat) :
    (l.filter (fun r => r.1 != k)).lookup k = none := by
  induction l with
  | nil => rfl
  | cons x xs ih =>
    by_cases hx : x.1 = k
    · have : (x.1 != k) = false := by simp [hx]
      simp only [List.filter_cons, this, Bool.false_eq_true, ↓reduceIte, ih]
    · have : (x.1 != k) = true := by simp [hx]
      simp only [List.filter_cons, this, ↓reduceIte]
      obtain ⟨a, b⟩ := x
      have hk : (k == a) = false := by
        simp only [beq_eq_false_iff_ne, ne_eq]; intro e; exact hx e.symm
      simp [List.lookup, hk, ih]

theorem lookup_mem {α : Type} (l : List (Nat × α)) (k : Nat) (v : α) (h : l.lookup k = some v) : (k, v) ∈ l := by
  induction l with
  | nil => simp [List.lookup] at h
  | cons x xs ih =>
    obtain ⟨a, b⟩ := x
    simp only [List.lookup] at h
    split at h
    · rename_i heq
      simp only [beq_iff_eq] at heq
      injection h with h
      subst h; subst heq
      exact List.mem_cons_self
    · exact List.mem_cons_of_mem _ (ih h)

theorem mem_lookup_some {α : Type} (l : List (Nat × α)) (e : Nat × α) (h : e ∈ l) : ∃ v, l.lookup e.1 = some v := by
  induction l with
  | nil => cases h
  | cons x xs ih =>
    obtain ⟨a, b⟩ := x
    simp only [List.lookup]
    split
    · exact ⟨_, rfl⟩
    · rename_i hne
      rcases List.mem_cons.mp h with rfl | hm
      · simp at hne
      · exact ih hm

/-- Refinement invariant between the store and the specification map. -/
structure Rel (s : S) (a : List (Nat × Nat)) : Prop where
  /-- reading through records and files gives what the specification holds -/
  agree : ∀ id, get s id = (a.lookup id).map Res.ok
  /-- two stored datasets never share a path -/
  inj : ∀ r ∈ s.recs, ∀ r' ∈ s.recs, r.2.1 = r'.2.1 → r.1 = r'.1
  /-- a stored dataset has a record -/
  dom : ∀ id, (s.recs.lookup id).isSome = (a.lookup id).isSome

theorem rel_init : Rel {} [] := ⟨fun _ => rfl, by simp, fun _ => rfl⟩

theorem rel_put {s : S} {a} (h : Rel s a) (id p c sz : Nat) (hf : FreshOp s (.put id p c sz)) :
    Rel (put s id p c sz) (specStep a (.put id p c sz)) := by
  unfold put specStep
  have hd := h.dom id
  cases hs : (s.recs.lookup id).isSome with
  | true =>
    rw [hs] at hd
    simp only [↓reduceIte, ← hd]
    exact h
  | false =>
    rw [hs] at hd
    simp only [Bool.false_eq_true, ↓reduceIte, ← hd]
    constructor
    · intro id'
      by_cases he : id' = id
      · subst he
        simp [Store.get, List.lookup]
      · have hb : (id' == id) = false := by simp [he]
        simp only [Store.get, List.lookup, hb]
        have := h.agree id'
        simp only [Store.get] at this
        rw [← this]
        cases hl : s.recs.lookup id' with
        | none => rfl
        | some r' =>
          have hm := lookup_mem _ _ _ hl
          have hne : r'.1 ≠ p := hf (id', r') hm
          have hb2 : (r'.1 == p) = false := by simp [hne]
          simp [Option.bind, List.lookup, hb2]
    · intro r hr r' hr' hp
      simp only [List.mem_cons] at hr hr'
      rcases hr with rfl | hr <;> rcases hr' with rfl | hr'
      · rfl
      · exact absurd hp.symm (hf r' hr')
      · exact absurd hp (hf r hr)
      · exact h.inj r hr r' hr' hp
    · intro id'
      by_cases he : id' = id
      · subst he; simp [List.lookup]
      · have hb : (id' == id) = false := by simp [he]
        simp only [List.lookup, hb]
        exact h.dom id'

theorem rel_remove {s : S} {a} (h : Rel s a) (id : Nat) : Rel (remove s id) (specStep a (.remove id)) := by
  unfold remove specStep
  cases hl : s.recs.lookup id with
  | none =>
    simp only
    have hd := h.dom id
    rw [hl] at hd
    have hnone : a.lookup id = none := by
      cases ha : a.lookup id with
      | none => rfl
      | some v => rw [ha] at hd; simp at hd
    have hfil : a.filter (fun e => e.1 != id) = a := by
      apply List.filter_eq_self.mpr
      intro e he
      simp only [bne_iff_ne, ne_eq]
      intro heq
      have : ∃ v, a.lookup id = some v := heq ▸ mem_lookup_some a e he
      obtain ⟨v, hv⟩ := this
      rw [hnone] at hv; cases hv
    rw [hfil]; exact h
  | some pr =>
    obtain ⟨p, sz⟩ := pr
    simp only
    have hmem := lookup_mem _ _ _ hl
    -- what other datasets read is unchanged
    have others : ∀ id', id' ≠ id → ∀ r', s.recs.lookup id' = some r' → r'.1 ≠ p := by
      intro id' hne r' hl' hpp
      have hm' := lookup_mem _ _ _ hl'
      exact hne (h.inj (id', r') hm' (id, p, sz) hmem hpp)
    have noOther : (s.recs.filter (fun r => r.1 != id)).any (fun r => r.2.1 == p) = false := by
      apply Bool.eq_false_iff.mpr
      intro hc
      obtain ⟨r, hr, hrp⟩ := List.any_eq_true.mp hc
      simp only [List.mem_filter, bne_iff_ne, ne_eq] at hr
      simp only [beq_iff_eq] at hrp
      exact hr.2 (h.inj r hr.1 (id, p, sz) hmem hrp)
    simp only [noOther, Bool.false_eq_true, ↓reduceIte]
    constructor
    · intro id'
      by_cases he : id' = id
      · subst he
        simp [Store.get, lookup_filter_self]
      · simp only [Store.get, lookup_filter_ne _ _ _ he]
        have := h.agree id'
        simp only [Store.get] at this
        rw [← this]
        cases hl' : s.recs.lookup id' with
        | none => rfl
        | some r' =>
          have hne := others id' he r' hl'
          simp only [Option.bind]
          rw [lookup_filter_ne _ _ _ hne]
    · intro r hr r' hr' hp
      simp only [List.mem_filter] at hr hr'
      exact h.inj r hr.1 r' hr'.1 hp
    · intro id'
      by_cases he : id' = id
      · subst he; simp [lookup_filter_self]
      · rw [lookup_filter_ne _ _ _ he, lookup_filter_ne _ _ _ he]
        exact h.dom id'

theorem rel_step {s : S} {a} (h : Rel s a) (op : Op) (hf : FreshOp s op) : Rel (step s op) (specStep a op) := by
  cases op with
  | put id p c sz => exact rel_put h id p c sz hf
  | remove id => exact rel_remove h id

theorem rel_history (ops : List Op) {s : S} {a} (h : Rel s a) (hv : Valid s ops) :
    Rel (ops.foldl step s) (ops.foldl specStep a) := by
  induction ops generalizing s a with
  | nil => exact h
  | cons op ops ih => exact ih (rel_step h op hv.1) hv.2

/-- **Read-your-writes for every history.** As long as every put goes to a path that no stored
dataset uses (injective placement), after any history of puts and removals `get` of every dataset
returns exactly what the specification map holds: the content stored under that id if it is still
stored, nothing otherwise — storing or deleting one dataset never changes another. -/
theorem get_refines_spec (ops : List Op) (hv : Valid {} ops) (id : Nat) :
    get (ops.foldl step {}) id = ((ops.foldl specStep []).lookup id).map Res.ok :=
  (rel_history ops rel_init hv).agree id

/-- The hypothesis is necessary, and it is where the code's guarantee ends: two datasets placed at
one path overwrite each other (the model follows `_write_in_memory_to_artifact`, which does not
look).  Known finding C01-a reaches this state through the template (next theorem). -/
theorem collision_overwrites :
    get (([Op.put 1 7 100 5, Op.put 2 7 200 5] : List Op).foldl step {}) 1 = some (.ok 200) := by decide

/-- When the two serialised files differ in size the damage is at least noticed: the read fails with
`FileIntegrityError` instead of returning the other dataset's content. -/
theorem collision_integrity_error :
    get (([Op.put 1 7 100 5, Op.put 2 7 200 6] : List Op).foldl step {}) 1 = some .integrity := by decide

/-- …and removing the second of them leaves the first one registered, recorded and **unreadable or wrong**. -/
theorem collision_survives_removal :
    get (([Op.put 1 7 100 5, Op.put 2 7 200 5, Op.remove 2] : List Op).foldl step {}) 1 = some (.ok 200) := by decide

/-- The default template's sanitising is not injective: `a b`, `a_b` and `a/b` are spelled alike. -/
theorem sanitize_not_injective :
    PathNorm.sanitizeL false ['a', ' ', 'b'] = PathNorm.sanitizeL false ['a', '_', 'b'] ∧
    PathNorm.sanitizeL false ['a', '/', 'b'] = PathNorm.sanitizeL false ['a', '_', 'b'] := by decide

/-- percent-decoding of a path on its way to a URI (`%XX` with two hexadecimal digits becomes the character XX) -/
def hexVal (c : Char) : Option Nat :=
  if '0' ≤ c ∧ c ≤ '9' then some (c.toNat - '0'.toNat)
  else if 'a' ≤ c ∧ c ≤ 'f' then some (c.toNat - 'a'.toNat + 10)
  else if 'A' ≤ c ∧ c ≤ 'F' then some (c.toNat - 'A'.toNat + 10)
  else none

def unquote : List Char → List Char
  | '%' :: h :: l :: rest =>
    match hexVal h, hexVal l with
    | some a, some b => Char.ofNat (16 * a + b) :: unquote rest
    | _, _ => '%' :: unquote (h :: l :: rest)
  | c :: rest => c :: unquote rest
  | [] => []

/-- …and the step from the templated path to the artifact's URI decodes percent escapes, which is not injective either:
`a%41b` and `aAb` name one artifact (known finding C01-b). -/
theorem percent_decoding_not_injective :
    unquote "a%41b".toList = unquote "aAb".toList ∧ "a%41b" ≠ "aAb" := by decide

example : Valid {} [.put 1 7 100 5, .put 2 8 200 5, .remove 1, .put 3 7 300 9] := by
  simp [Valid, FreshOp, step, put, remove, List.lookup]

end C01

/-! ### How `FileTemplate.format` writes a field value, as translated from the source on every run (`Gen/TemplatePy.lean`) -/
namespace C01.Translated

/-- **One loop iteration of `FileTemplate.format` as translated is "append the literal, then the sanitised value"** —
`PathNorm.sanitizeL` is the sanitisation the model of the templated path (and the refutation `sanitize_not_injective`) uses. -/
theorem translated_writeField (output literal value spec : List Char) :
    Gen.TemplatePy.writeField output literal value spec =
      output ++ literal ++ PathNorm.sanitizeL (spec.contains '/') value := by
  unfold Gen.TemplatePy.writeField PathNorm.sanitizeL
  by_cases h : spec.contains '/' = true
  · simp only [h, if_true, Bool.false_eq_true, if_false, List.map_map]
    congr 1
    apply List.map_congr_left
    intro c _
    by_cases h1 : c = ' ' <;> simp [h1]
  · have h' : spec.contains '/' = false := by simpa using h
    simp only [h', Bool.false_eq_true, if_false, if_true, List.map_map]
    congr 1
    apply List.map_congr_left
    intro c _
    by_cases h1 : c = ' '
    · simp [h1]
    · by_cases h2 : c = '/' <;> simp [h1, h2]

/-- C01-a on the translated code: with the default specification the values `a b`, `a/b` and `a_b` are written identically -/
theorem translated_collision (output literal : List Char) :
    Gen.TemplatePy.writeField output literal ['a', ' ', 'b'] [] = Gen.TemplatePy.writeField output literal ['a', '_', 'b'] [] ∧
    Gen.TemplatePy.writeField output literal ['a', '/', 'b'] [] = Gen.TemplatePy.writeField output literal ['a', '_', 'b'] [] := by
  simp [translated_writeField, PathNorm.sanitizeL]

/-- what the sanitisation does keep apart: values without blanks and slashes are written as they are -/
theorem translated_clean_value (output literal value spec : List Char) (h1 : ' ' ∉ value) (h2 : '/' ∉ value) :
    Gen.TemplatePy.writeField output literal value spec = output ++ literal ++ value := by
  rw [translated_writeField]
  congr 1
  unfold PathNorm.sanitizeL
  conv => rhs; rw [← List.map_id value]
  apply List.map_congr_left
  intro c hc
  have hc1 : c ≠ ' ' := fun h => h1 (h ▸ hc)
  have hc2 : c ≠ '/' := fun h => h2 (h ▸ hc)
  simp [hc1, hc2]

end C01.Translated
