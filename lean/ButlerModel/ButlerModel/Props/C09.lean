import ButlerModel.Model.Artifacts
import ButlerModel.Model.PathNorm
import ButlerModel.Gen.TrashPy
/-! # C09 — artifacts are deleted only when unreferenced -/
namespace C09
open Artifacts

/-- State invariant of the records / location tables and the datastore root. -/
structure Inv (s : S) : Prop where
  disjoint : ∀ i ∈ s.live, i ∉ s.trash
  consistent : ∀ r ∈ s.recs, ∀ r' ∈ s.recs, r.path = r'.path → r.abs = r'.abs ∧ r.frag.isSome = r'.frag.isSome
  absNoFrag : ∀ r ∈ s.recs, r.abs = true → r.frag = none
  present : ∀ r ∈ s.recs, r.id ∈ s.live → r.abs = false → r.path ∈ s.disk
  known : ∀ r ∈ s.recs, r.id ∈ s.live ∨ r.id ∈ s.trash

theorem inv_init : Inv {} := by
  constructor <;> simp

theorem mem_trashed {s : S} {t : Rec} : t ∈ trashed s ↔ t ∈ s.recs ∧ t.id ∈ s.trash := by
  simp [trashed, List.mem_filter]

theorem mem_liveRecs {s : S} {t : Rec} : t ∈ liveRecs s ↔ t ∈ s.recs ∧ t.id ∈ s.live := by
  simp [liveRecs, List.mem_filter]

theorem mem_doomed {s : S} {p : Nat} :
    p ∈ doomed s ↔ ∃ t ∈ trashed s, t.path ∉ keepPaths s ∧ t.abs = false ∧ t.path = p := by
  simp only [doomed, List.mem_map, List.mem_filter, Bool.and_eq_true, Bool.not_eq_eq_eq_not, Bool.not_true,
    List.contains_eq_mem, decide_eq_false_iff_not]
  constructor
  · rintro ⟨t, ⟨ht, hk, ha⟩, rfl⟩; exact ⟨t, ht, hk, ha, rfl⟩
  · rintro ⟨t, ht, hk, ha, rfl⟩; exact ⟨t, ⟨ht, hk, ha⟩, rfl⟩

/-- A path some stored dataset still refers to is in the keep set whenever a trashed record names it. -/
theorem live_path_kept {s : S} (h : Inv s) {r t : Rec} (hr : r ∈ s.recs) (hl : r.id ∈ s.live)
    (ht : t ∈ trashed s) (hp : t.path = r.path) : t.path ∈ keepPaths s := by
  have htr := mem_trashed.mp ht
  have hc := h.consistent t htr.1 r hr hp
  unfold keepPaths
  rw [List.mem_append]
  cases hf : r.frag with
  | none =>
    left
    have htf : t.frag = none := by
      have := hc.2; rw [hf] at this; simpa using this
    have hk : key t = key r := by simp [key, hp, htf, hf]
    simp only [List.mem_map, List.mem_filter]
    refine ⟨key t, ⟨?_, ?_⟩, rfl⟩
    · simp only [preserved, List.mem_filter, List.mem_map, List.contains_eq_mem, decide_eq_true_eq]
      exact ⟨⟨t, ht, rfl⟩, ⟨r, mem_liveRecs.mpr ⟨hr, hl⟩, hk.symm⟩⟩
    · simp [key, htf]
  | some f =>
    right
    have htf : t.frag.isSome = true := by
      have := hc.2; rw [hf] at this; simpa using this
    have hany : (trashed s).any (fun r => r.frag.isSome) = true :=
      List.any_eq_true.mpr ⟨t, ht, htf⟩
    simp only [slowKeep, hany, ↓reduceIte, List.mem_filter, List.mem_map]
    refine ⟨⟨t, ⟨ht, htf⟩, rfl⟩, ?_⟩
    apply List.any_eq_true.mpr
    refine ⟨r, ?_, ?_⟩
    · simp [List.mem_filter, hr, hf, hp]
    · simp only [Bool.not_eq_eq_eq_not, Bool.not_true]
      apply Bool.eq_false_iff.mpr
      intro hc2
      obtain ⟨t', ht', hcond⟩ := List.any_eq_true.mp hc2
      simp only [Bool.and_eq_true, beq_iff_eq] at hcond
      have : r.id ∈ s.trash := by rw [← hcond.2]; exact (mem_trashed.mp ht').2
      exact h.disjoint _ hl this

/-- **Safety.** Emptying the trash never removes an artifact that a dataset which is still stored
refers to — whatever mixture of plain shared files, zip members and direct ingests the trash holds. -/
theorem emptyTrash_keeps_referenced {s : S} (h : Inv s) {r : Rec} (hr : r ∈ s.recs) (hl : r.id ∈ s.live)
    (hd : r.path ∈ s.disk) : r.path ∈ (emptyTrash s).disk := by
  simp only [emptyTrash, List.mem_filter, Bool.not_eq_eq_eq_not, Bool.not_true, List.contains_eq_mem,
    decide_eq_false_iff_not]
  refine ⟨hd, ?_⟩
  intro hdoom
  obtain ⟨t, ht, hk, _, hp⟩ := mem_doomed.mp hdoom
  exact hk (live_path_kept h hr hl ht hp)

/-- **Precision.** Only artifacts named by a trashed, owned (non-absolute) record are removed. -/
theorem emptyTrash_only_removes_trashed {s : S} {p : Nat} (hd : p ∈ s.disk) (hg : p ∉ (emptyTrash s).disk) :
    ∃ t ∈ s.recs, t.id ∈ s.trash ∧ t.abs = false ∧ t.path = p := by
  simp only [emptyTrash, List.mem_filter, Bool.not_eq_eq_eq_not, Bool.not_true, List.contains_eq_mem,
    decide_eq_false_iff_not, not_and, Classical.not_not] at hg
  obtain ⟨t, ht, _, ha, hp⟩ := mem_doomed.mp (hg hd)
  exact ⟨t, (mem_trashed.mp ht).1, (mem_trashed.mp ht).2, ha, hp⟩

/-- **No leak.** An owned artifact that only trashed datasets refer to is gone after the emptying. -/
theorem emptyTrash_removes_unreferenced {s : S} (h : Inv s) {t : Rec} (ht : t ∈ s.recs) (htr : t.id ∈ s.trash)
    (ha : t.abs = false) (hnone : ∀ r ∈ s.recs, r.id ∈ s.live → r.path ≠ t.path) :
    t.path ∉ (emptyTrash s).disk := by
  simp only [emptyTrash, List.mem_filter, Bool.not_eq_eq_eq_not, Bool.not_true, List.contains_eq_mem,
    decide_eq_false_iff_not, not_and, Classical.not_not]
  intro _
  apply mem_doomed.mpr
  refine ⟨t, mem_trashed.mpr ⟨ht, htr⟩, ?_, ha, rfl⟩
  unfold keepPaths
  rw [List.mem_append]
  rintro (hk | hk)
  · simp only [List.mem_map, List.mem_filter] at hk
    obtain ⟨k, ⟨hkp, _⟩, hk1⟩ := hk
    simp only [preserved, List.mem_filter, List.mem_map, List.contains_eq_mem, decide_eq_true_eq] at hkp
    obtain ⟨_, r, hrl, hrk⟩ := hkp
    have := mem_liveRecs.mp hrl
    apply hnone r this.1 this.2
    rw [← hk1, ← hrk]; rfl
  · unfold slowKeep at hk
    split at hk
    · simp only [List.mem_filter, List.mem_map] at hk
      obtain ⟨_, hany⟩ := hk
      obtain ⟨r', hr', hcond⟩ := List.any_eq_true.mp hany
      simp only [List.mem_filter, Bool.and_eq_true, beq_iff_eq] at hr'
      obtain ⟨hr'm, _, hr'p⟩ := hr'
      rcases h.known r' hr'm with hl | htt
      · exact hnone r' hr'm hl hr'p
      · simp only [Bool.not_eq_eq_eq_not, Bool.not_true] at hcond
        have : (trashed s).any (fun t' => t'.path == t.path && t'.id == r'.id) = true :=
          List.any_eq_true.mpr ⟨r', mem_trashed.mpr ⟨hr'm, htt⟩, by simp [hr'p]⟩
        rw [this] at hcond; exact absurd hcond (by simp)
    · simp at hk

/-- Files that absolute URIs point at are never touched, by any operation. -/
theorem ext_untouched (s : S) (op : Op) : (step s op).ext = s.ext := by
  cases op with
  | store ids p k =>
    simp only [step, store]
    repeat' split
    all_goals rfl
  | trash ids => rfl
  | emptyTrash => rfl

theorem inv_emptyTrash {s : S} (h : Inv s) : Inv (emptyTrash s) := by
  constructor
  · intro i _; simp [emptyTrash]
  · intro r hr r' hr' hp
    simp only [emptyTrash, List.mem_filter] at hr hr'
    exact h.consistent r hr.1 r' hr'.1 hp
  · intro r hr
    simp only [emptyTrash, List.mem_filter] at hr
    exact h.absNoFrag r hr.1
  · intro r hr hl ha
    have hr0 : r ∈ s.recs := by simp only [emptyTrash, List.mem_filter] at hr; exact hr.1
    have hl0 : r.id ∈ s.live := by simpa [emptyTrash] using hl
    exact emptyTrash_keeps_referenced h hr0 hl0 (h.present r hr0 hl0 ha)
  · intro r hr
    simp only [emptyTrash, List.mem_filter, Bool.not_eq_eq_eq_not, Bool.not_true, List.contains_eq_mem,
      decide_eq_false_iff_not] at hr
    rcases h.known r hr.1 with hl | ht
    · left; simpa [emptyTrash] using hl
    · exact absurd ht hr.2

theorem inv_trash {s : S} (h : Inv s) (ids : List Nat) : Inv (trash s ids) := by
  constructor
  · intro i hi
    simp only [trash, List.mem_filter, Bool.not_eq_eq_eq_not, Bool.not_true, List.contains_eq_mem,
      decide_eq_false_iff_not, List.mem_append, decide_eq_true_eq, not_or, not_and] at hi ⊢
    exact ⟨fun _ hc => hi.2 hc, h.disjoint i hi.1⟩
  · exact h.consistent
  · exact h.absNoFrag
  · intro r hr hl ha
    simp only [trash, List.mem_filter] at hl
    exact h.present r hr hl.1 ha
  · intro r hr
    simp only [trash, List.mem_filter, Bool.not_eq_eq_eq_not, Bool.not_true, List.contains_eq_mem,
      decide_eq_false_iff_not, List.mem_append, decide_eq_true_eq]
    rcases h.known r hr with hl | ht
    · by_cases hin : r.id ∈ ids
      · right; left; exact ⟨hl, hin⟩
      · left; exact ⟨hl, hin⟩
    · right; right; exact ht

theorem inv_store {s : S} (h : Inv s) (ids : List Nat) (p : Nat) (k : Kind) : Inv (store s ids p k) := by
  unfold store
  split
  · exact h
  rename_i hfresh
  split
  · exact h
  rename_i hfree
  split
  · exact h
  rename_i hdir
  have fresh : ∀ i ∈ ids, i ∉ s.live ∧ i ∉ s.trash := by
    intro i hi
    have := fun hc => hfresh (List.any_eq_true.mpr ⟨i, hi, hc⟩)
    simp only [Bool.or_eq_true, List.contains_eq_mem, decide_eq_true_eq] at this
    exact ⟨fun a => this (Or.inl a), fun a => this (Or.inr a)⟩
  cases k with
  | plain =>
    have hfree' : ∀ r ∈ s.recs, r.path ≠ p := by
      intro r hr hc
      apply hfree
      have : s.recs.any (fun r => r.path == p) = true := List.any_eq_true.mpr ⟨r, hr, by simp [hc]⟩
      simp [this]
    constructor
    · intro i hi
      simp only [List.mem_append] at hi
      rcases hi with hi | hi
      · exact (fresh i hi).2
      · exact h.disjoint i hi
    · intro r hr r' hr' hp
      simp only [List.mem_append, List.mem_map] at hr hr'
      rcases hr with ⟨i, _, rfl⟩ | hr <;> rcases hr' with ⟨j, _, rfl⟩ | hr'
      · simp
      · exact absurd hp.symm (hfree' r' hr')
      · exact absurd hp (hfree' r hr)
      · exact h.consistent r hr r' hr' hp
    · intro r hr ha
      simp only [List.mem_append, List.mem_map] at hr
      rcases hr with ⟨i, _, rfl⟩ | hr
      · simp at ha
      · exact h.absNoFrag r hr ha
    · intro r hr hl ha
      simp only [List.mem_append, List.mem_map] at hr
      rcases hr with ⟨i, _, rfl⟩ | hr
      · simp
      · simp only [List.mem_append] at hl
        rcases hl with hl | hl
        · exact absurd (h.known r hr) (by
            intro hc; rcases hc with hc | hc
            · exact (fresh _ hl).1 hc
            · exact (fresh _ hl).2 hc)
        · exact List.mem_cons_of_mem _ (h.present r hr hl ha)
    · intro r hr
      simp only [List.mem_append, List.mem_map] at hr ⊢
      rcases hr with ⟨i, hi, rfl⟩ | hr
      · left; left; exact hi
      · rcases h.known r hr with hl | ht
        · left; right; exact hl
        · right; exact ht
  | zip =>
    have hfree' : ∀ r ∈ s.recs, r.path ≠ p := by
      intro r hr hc
      apply hfree
      have : s.recs.any (fun r => r.path == p) = true := List.any_eq_true.mpr ⟨r, hr, by simp [hc]⟩
      simp [this]
    constructor
    · intro i hi
      simp only [List.mem_append] at hi
      rcases hi with hi | hi
      · exact (fresh i hi).2
      · exact h.disjoint i hi
    · intro r hr r' hr' hp
      simp only [List.mem_append, List.mem_map] at hr hr'
      rcases hr with ⟨i, _, rfl⟩ | hr <;> rcases hr' with ⟨j, _, rfl⟩ | hr'
      · simp
      · exact absurd hp.symm (hfree' r' hr')
      · exact absurd hp (hfree' r hr)
      · exact h.consistent r hr r' hr' hp
    · intro r hr ha
      simp only [List.mem_append, List.mem_map] at hr
      rcases hr with ⟨i, _, rfl⟩ | hr
      · simp at ha
      · exact h.absNoFrag r hr ha
    · intro r hr hl ha
      simp only [List.mem_append, List.mem_map] at hr
      rcases hr with ⟨i, _, rfl⟩ | hr
      · simp
      · simp only [List.mem_append] at hl
        rcases hl with hl | hl
        · exact absurd (h.known r hr) (by
            intro hc; rcases hc with hc | hc
            · exact (fresh _ hl).1 hc
            · exact (fresh _ hl).2 hc)
        · exact List.mem_cons_of_mem _ (h.present r hr hl ha)
    · intro r hr
      simp only [List.mem_append, List.mem_map] at hr ⊢
      rcases hr with ⟨i, hi, rfl⟩ | hr
      · left; left; exact hi
      · rcases h.known r hr with hl | ht
        · left; right; exact hl
        · right; exact ht
  | direct =>
    have hfree' : ∀ r ∈ s.recs, r.path = p → r.abs = true := by
      intro r hr hc
      cases hab : r.abs with
      | true => rfl
      | false =>
        exfalso; apply hdir
        simp only [beq_self_eq_true, List.any_eq_true, Bool.and_eq_true, beq_iff_eq, Bool.not_eq_eq_eq_not, Bool.not_true,
          true_and]
        exact ⟨r, hr, hc, hab⟩
    constructor
    · intro i hi
      simp only [List.mem_append] at hi
      rcases hi with hi | hi
      · exact (fresh i hi).2
      · exact h.disjoint i hi
    · intro r hr r' hr' hp
      simp only [List.mem_append, List.mem_map] at hr hr'
      rcases hr with ⟨i, _, rfl⟩ | hr <;> rcases hr' with ⟨j, _, rfl⟩ | hr'
      · simp
      · have ha := hfree' r' hr' hp.symm
        simp [ha, h.absNoFrag r' hr' ha]
      · have ha := hfree' r hr hp
        simp [ha, h.absNoFrag r hr ha]
      · exact h.consistent r hr r' hr' hp
    · intro r hr ha
      simp only [List.mem_append, List.mem_map] at hr
      rcases hr with ⟨i, _, rfl⟩ | hr
      · rfl
      · exact h.absNoFrag r hr ha
    · intro r hr hl ha
      simp only [List.mem_append, List.mem_map] at hr
      rcases hr with ⟨i, _, rfl⟩ | hr
      · simp at ha
      · simp only [List.mem_append] at hl
        rcases hl with hl | hl
        · exact absurd (h.known r hr) (by
            intro hc; rcases hc with hc | hc
            · exact (fresh _ hl).1 hc
            · exact (fresh _ hl).2 hc)
        · exact h.present r hr hl ha
    · intro r hr
      simp only [List.mem_append, List.mem_map] at hr ⊢
      rcases hr with ⟨i, hi, rfl⟩ | hr
      · left; left; exact hi
      · rcases h.known r hr with hl | ht
        · left; right; exact hl
        · right; exact ht

theorem inv_step {s : S} (h : Inv s) (op : Op) : Inv (step s op) := by
  cases op with
  | store ids p k => exact inv_store h ids p k
  | trash ids => exact inv_trash h ids
  | emptyTrash => exact inv_emptyTrash h

/-- The invariant holds after **every** history of put / ingest (plain, shared, zip, direct) /
trash / emptyTrash. -/
theorem inv_history (ops : List Op) {s : S} (h : Inv s) : Inv (ops.foldl step s) := by
  induction ops generalizing s with
  | nil => exact h
  | cons op ops ih => exact ih (inv_step h op)

/-- **Datasets sharing an artifact survive the removal of their siblings**: after any history, every
dataset that is still stored has every owned artifact it refers to on disk. -/
theorem stored_artifacts_present (ops : List Op) (r : Rec)
    (hr : r ∈ (ops.foldl step {}).recs) (hl : r.id ∈ (ops.foldl step {}).live) (ha : r.abs = false) :
    r.path ∈ (ops.foldl step {}).disk :=
  (inv_history ops inv_init).present r hr hl ha

/-- Non-vacuity: a zip with two members and a plain file shared by two datasets; one member and one
sharer are pruned in a single trash emptying — both artifacts stay, and go once the siblings follow. -/
def demo : List Op := [.store [1, 2] 10 .zip, .store [3, 4] 11 .plain, .store [5] 12 .direct, .trash [1, 3, 5], .emptyTrash]
example : (demo.foldl step {}).disk = [11, 10] ∧ (demo.foldl step {}).live = [4, 2] := by decide
example : ((demo ++ [Op.trash [2, 4], Op.emptyTrash]).foldl step {}).disk = [] := by decide

end C09

/-! ## Containment of computed paths (model `PathNorm`) -/
namespace C09.Path
open PathNorm

/-- Shape of `normpath`'s stack: ordinary names on top of a (possibly empty) run of `..`. -/
def Shape (isAbs : Bool) (stack : List String) : Prop :=
  ∃ (names : List String) (ups : Nat), stack = names ++ List.replicate ups ".." ∧
    (∀ n ∈ names, n ≠ ".." ∧ n ≠ "" ∧ n ≠ ".") ∧ (isAbs = true → ups = 0)

theorem shape_step (isAbs : Bool) (stack : List String) (c : String) (h : Shape isAbs stack) :
    Shape isAbs (stepc isAbs stack c) := by
  obtain ⟨names, ups, hs, hn, ha⟩ := h
  unfold stepc
  split
  · exact ⟨names, ups, hs, hn, ha⟩
  rename_i h1
  split
  · rename_i h2
    refine ⟨c :: names, ups, by simp [hs], ?_, ha⟩
    intro n hn'
    rcases List.mem_cons.mp hn' with rfl | hm
    · exact ⟨h2, fun e => h1 (Or.inl e), fun e => h1 (Or.inr e)⟩
    · exact hn n hm
  · cases names with
    | nil =>
      cases ups with
      | zero =>
        simp only [List.nil_append, List.replicate_zero] at hs
        subst hs
        cases isAbs with
        | true => exact ⟨[], 0, by simp, by simp, fun _ => rfl⟩
        | false => exact ⟨[], 1, by simp, by simp, by simp⟩
      | succ k =>
        have hab : isAbs = false := by
          cases hb : isAbs with
          | false => rfl
          | true => exact absurd (ha hb) (by simp)
        simp only [List.nil_append, List.replicate_succ] at hs
        subst hs
        refine ⟨[], k + 2, ?_, by simp, by simp [hab]⟩
        simp [List.replicate_succ]
    | cons top rest =>
      simp only [List.cons_append] at hs
      subst hs
      have htop := (hn top (List.mem_cons_self)).1
      simp only [htop, ↓reduceIte]
      exact ⟨rest, ups, rfl, fun n hm => hn n (List.mem_cons_of_mem _ hm), ha⟩

theorem shape_fold (isAbs : Bool) (comps : List String) (stack : List String) (h : Shape isAbs stack) :
    Shape isAbs (comps.foldl (stepc isAbs) stack) := by
  induction comps generalizing stack with
  | nil => exact h
  | cons c cs ih => exact ih _ (shape_step isAbs stack c h)

/-- **`normpath` output is `..`* followed by ordinary names**; an absolute path has no `..` at all. -/
theorem normComps_shape (isAbs : Bool) (comps : List String) :
    ∃ (ups : Nat) (names : List String), normComps isAbs comps = List.replicate ups ".." ++ names ∧
      (∀ n ∈ names, n ≠ ".." ∧ n ≠ "" ∧ n ≠ ".") ∧ (isAbs = true → ups = 0) := by
  obtain ⟨names, ups, hs, hn, ha⟩ := shape_fold isAbs comps [] ⟨[], 0, by simp, by simp, fun _ => rfl⟩
  refine ⟨ups, names.reverse, ?_, fun n hm => hn n (List.mem_reverse.mp hm), ha⟩
  simp [normComps, hs]

/-- **Containment.** A placement that the datastore accepts is *literally* the root followed by
components none of which is `..`, `.` or empty — whatever strings went into the run, data-ID and
dataset-type fields, and also when `..` components step out of the root and back in. -/
theorem accepted_is_contained (root : List String) (run : String) (dirs files : List String) (rest : List String)
    (h : place root run dirs files = .ok rest) :
    normComps true (root ++ format run dirs files) = root ++ rest ∧ ∀ c ∈ rest, c ≠ ".." ∧ c ≠ "" ∧ c ≠ "." := by
  unfold place at h
  simp only at h
  split at h
  · rename_i hpre
    injection h with h
    obtain ⟨t, ht⟩ := List.isPrefixOf_iff_prefix.mp hpre
    obtain ⟨ups, names, he, hn, hz⟩ := normComps_shape true (root ++ format run dirs files)
    have hu : ups = 0 := hz rfl
    subst hu
    simp only [List.replicate_zero, List.nil_append] at he
    have hrest : rest = t := by
      rw [← h, ← ht]; simp
    subst hrest
    refine ⟨ht.symm, ?_⟩
    intro c hc
    apply hn c
    rw [← he, ← ht]
    exact List.mem_append_right _ hc
  · cases h

/-- …and a refusal happens only when the normalised location is not below the root. -/
theorem refused_outside (root : List String) (run : String) (dirs files : List String)
    (h : place root run dirs files = .error ()) :
    ¬ root <+: normComps true (root ++ format run dirs files) := by
  unfold place at h
  simp only at h
  split at h
  · cases h
  · rename_i hpre
    intro hc
    exact hpre (List.isPrefixOf_iff_prefix.mpr hc)

/-! Non-vacuity on components (string *operations* do not reduce in the kernel; whole-string cases
are exercised by the correspondence). -/
example : normComps false ["a", "..", "..", "b", "", ".", "f"] = ["..", "b", "f"] := by decide
example : normComps true (["tmp", "repo"] ++ ["..", "repo", "dt", "f"]) = ["tmp", "repo", "dt", "f"] := by decide
example : normComps true (["tmp", "repo"] ++ ["..", "repo2", "dt", "f"]) = ["tmp", "repo2", "dt", "f"] := by decide
example : normComps true ["", "..", "a", "b", "..", "f"] = ["a", "f"] := by decide

end C09.Path

/-! ### The recount of `FileDatastore.emptyTrash` as translated from the source on every run (`Gen/TrashPy.lean`, `translate/gen_trash.py`) -/
namespace C09.Translated
open Artifacts

/-- one iteration of the loop, as a function (what the fold of `Gen.TrashPy.recount` applies) -/
def iter (m : PM) (e : Nat × Nat) : PM :=
  let m1 := if (pmGet m e.2).contains e.1 then pmSet m e.2 ((pmGet m e.2).filter (· != e.1)) else m
  if (pmGet m1 e.2).isEmpty then pmDel m1 e.2 else m1

theorem recount_eq (T : List (Nat × Nat)) (m : PM) (b : Bool) (k : List Nat) :
    Gen.TrashPy.recount T m b k = (if b then k ++ pmKeys (T.foldl iter m) else pmKeys (T.foldl iter m)) := by
  have h : (fun (path_map : PM) (x : Nat × Nat) => iter path_map x) =
      (fun (path_map : PM) (x : Nat × Nat) =>
        match x with
        | (ref, info) =>
          let path := info
          (if ((Artifacts.pmGet path_map path).contains ref) then
            let path_map := (Artifacts.pmSet path_map path ((Artifacts.pmGet path_map path).filter (· != ref)))
            (if (Artifacts.pmGet path_map path).isEmpty then
              let path_map := (Artifacts.pmDel path_map path)
              path_map
            else
              path_map)
          else
            (if (Artifacts.pmGet path_map path).isEmpty then
              let path_map := (Artifacts.pmDel path_map path)
              path_map
            else
              path_map))) := by
    funext pm x
    obtain ⟨r, i⟩ := x
    simp only [iter]
    split <;> rfl
  simp only [Gen.TrashPy.recount]
  rw [← h]

/-- what is left at path `p` after the trashed entries `T` have been taken out -/
def left (m : PM) (T : List (Nat × Nat)) (p : Nat) : List Nat := (pmGet m p).filter (fun i => !T.contains (i, p))

/-- the map is as `_refs_associated_with_artifacts` builds it: no key with an empty set -/
def Good (m : PM) : Prop := ∀ p, p ∈ m.keys → pmGet m p ≠ []

theorem pmGet_of_mem (m : PM) (p : Nat) (h : p ∈ m.keys) : pmGet m p = m.get p := by simp [pmGet, h]
theorem pmGet_of_not_mem (m : PM) (p : Nat) (h : p ∉ m.keys) : pmGet m p = [] := by simp [pmGet, h]
theorem mem_keys_of_pmGet (m : PM) (p : Nat) (h : pmGet m p ≠ []) : p ∈ m.keys := by
  by_cases hk : p ∈ m.keys
  · exact hk
  · exact absurd (pmGet_of_not_mem m p hk) h

theorem pmGet_pmSet (m : PM) (q : Nat) (v : List Nat) (hq : q ∈ m.keys) (p : Nat) :
    pmGet (pmSet m q v) p = if p = q then v else pmGet m p := by
  by_cases hpq : p = q
  · subst hpq; simp [pmGet, pmSet, hq]
  · simp [pmGet, pmSet, hq, hpq]

theorem pmGet_pmDel (m : PM) (q p : Nat) : pmGet (pmDel m q) p = if p = q then [] else pmGet m p := by
  by_cases hpq : p = q
  · subst hpq; simp [pmGet, pmDel]
  · simp [pmGet, pmDel, hpq]

theorem iter_unfold (m : PM) (r q : Nat) :
    iter m (r, q) =
      (if (pmGet (if (pmGet m q).contains r then pmSet m q ((pmGet m q).filter (· != r)) else m) q).isEmpty
       then pmDel (if (pmGet m q).contains r then pmSet m q ((pmGet m q).filter (· != r)) else m) q
       else (if (pmGet m q).contains r then pmSet m q ((pmGet m q).filter (· != r)) else m)) := rfl

theorem iter_get (m : PM) (e : Nat × Nat) (p : Nat) :
    pmGet (iter m e) p = (pmGet m p).filter (fun i => !((i, p) == e)) := by
  obtain ⟨r, q⟩ := e
  have hfilt : ∀ l : List Nat, p ≠ q → l.filter (fun i => !((i, p) == (r, q))) = l := by
    intro l hpq
    apply List.filter_eq_self.mpr
    intro a _
    simp [hpq]
  have hfiltq : ∀ l : List Nat, l.filter (fun i => !((i, q) == (r, q))) = l.filter (· != r) := by
    intro l; congr 1; funext i
    show (!((i == r) && (q == q))) = (i != r)
    simp [bne]
  rw [iter_unfold]
  by_cases hc : (pmGet m q).contains r = true
  · have hq : q ∈ m.keys := mem_keys_of_pmGet m q (by intro h0; rw [h0] at hc; simp at hc)
    rw [if_pos hc]
    have hgq : pmGet (pmSet m q ((pmGet m q).filter (· != r))) q = (pmGet m q).filter (· != r) := by
      rw [pmGet_pmSet m q _ hq]; simp
    by_cases he : (pmGet (pmSet m q ((pmGet m q).filter (· != r))) q).isEmpty = true
    · rw [if_pos he, pmGet_pmDel, pmGet_pmSet m q _ hq]
      by_cases hpq : p = q
      · subst hpq
        rw [hgq] at he
        simp only [List.isEmpty_iff] at he
        simp [hfiltq, he]
      · simp [hpq, hfilt _ hpq]
    · rw [if_neg he, pmGet_pmSet m q _ hq]
      by_cases hpq : p = q
      · subst hpq; simp [hfiltq]
      · simp [hpq, hfilt _ hpq]
  · rw [if_neg hc]
    have hnr : r ∉ pmGet m q := by simpa using hc
    by_cases he : (pmGet m q).isEmpty = true
    · rw [if_pos he, pmGet_pmDel]
      by_cases hpq : p = q
      · subst hpq
        simp only [List.isEmpty_iff] at he
        simp [he]
      · simp [hpq, hfilt _ hpq]
    · rw [if_neg he]
      by_cases hpq : p = q
      · subst hpq
        rw [hfiltq]
        symm
        apply List.filter_eq_self.mpr
        intro a ha
        have : a ≠ r := fun h => hnr (h ▸ ha)
        simp [this]
      · exact (hfilt _ hpq).symm

theorem iter_good (m : PM) (e : Nat × Nat) (hg : Good m) : Good (iter m e) := by
  obtain ⟨r, q⟩ := e
  intro p hp
  rw [iter_unfold] at hp ⊢
  by_cases hc : (pmGet m q).contains r = true
  · have hq : q ∈ m.keys := mem_keys_of_pmGet m q (by intro h0; rw [h0] at hc; simp at hc)
    rw [if_pos hc] at hp ⊢
    by_cases he : (pmGet (pmSet m q ((pmGet m q).filter (· != r))) q).isEmpty = true
    · rw [if_pos he] at hp ⊢
      have hpq : p ≠ q := by
        intro h; subst h; simp [pmDel] at hp
      have hpk : p ∈ m.keys := by
        simp only [pmDel, pmSet, List.contains_eq_mem, hq, decide_true, if_true, List.mem_filter] at hp
        exact hp.1
      rw [pmGet_pmDel, pmGet_pmSet m q _ hq]
      simpa [hpq] using hg p hpk
    · rw [if_neg he] at hp ⊢
      by_cases hpq : p = q
      · subst hpq
        intro h0; rw [h0] at he; simp at he
      · have hpk : p ∈ m.keys := by
          simpa [pmSet, hq] using hp
        rw [pmGet_pmSet m q _ hq]
        simpa [hpq] using hg p hpk
  · rw [if_neg hc] at hp ⊢
    by_cases he : (pmGet m q).isEmpty = true
    · rw [if_pos he] at hp ⊢
      have hpq : p ≠ q := by
        intro h; subst h; simp [pmDel] at hp
      have hpk : p ∈ m.keys := by
        simp only [pmDel, List.mem_filter] at hp
        exact hp.1
      rw [pmGet_pmDel]
      simpa [hpq] using hg p hpk
    · rw [if_neg he] at hp ⊢
      exact hg p hp

theorem fold_get (T : List (Nat × Nat)) : ∀ (m : PM), Good m →
    (∀ p, pmGet (T.foldl iter m) p = left m T p) ∧ Good (T.foldl iter m) := by
  induction T with
  | nil => intro m hg; exact ⟨by intro p; simp only [List.foldl_nil, left, List.contains_nil, Bool.not_false]; exact (List.filter_eq_self.mpr (by intros; rfl)).symm, hg⟩
  | cons e r ih =>
    intro m hg
    obtain ⟨h1, h2⟩ := ih (iter m e) (iter_good m e hg)
    refine ⟨?_, h2⟩
    intro p
    simp only [List.foldl_cons]
    rw [h1 p]
    simp only [left, iter_get, List.filter_filter]
    congr 1
    funext i
    by_cases hie : (i, p) = e
    · simp [hie]
    · have hb : ((i, p) == e) = false := by simpa using hie
      simp [hb, hie]

/-- **What the recount keeps**: an artifact stays in `artifacts_to_keep` exactly when some dataset recorded at it is not among the
trashed ones — for every list of trashed entries (also with repetitions, in any order) and every map without empty entries. -/
theorem recount_keeps_iff (T : List (Nat × Nat)) (m : PM) (hg : Good m) (p : Nat) :
    p ∈ Gen.TrashPy.recount T m false [] ↔ ∃ i ∈ pmGet m p, (i, p) ∉ T := by
  obtain ⟨h1, h2⟩ := fold_get T m hg
  rw [recount_eq]
  simp only [Bool.false_eq_true, if_false, pmKeys]
  constructor
  · intro hp
    have hne := h2 p hp
    rw [h1 p] at hne
    obtain ⟨i, hi⟩ := List.exists_mem_of_ne_nil _ hne
    simp only [left, List.mem_filter, List.contains_eq_mem, Bool.not_eq_true', decide_eq_false_iff_not] at hi
    exact ⟨i, hi.1, hi.2⟩
  · rintro ⟨i, hi, hnt⟩
    apply mem_keys_of_pmGet
    rw [h1 p]
    intro h0
    have : i ∈ left m T p := by
      simp only [left, List.mem_filter, List.contains_eq_mem, Bool.not_eq_true', decide_eq_false_iff_not]
      exact ⟨hi, hnt⟩
    rw [h0] at this
    cases this

/-- with the bridge's answer merged in: what the bridge said stays, what the recount keeps is added -/
theorem recount_merge (T : List (Nat × Nat)) (m : PM) (k : List Nat) (p : Nat) :
    p ∈ Gen.TrashPy.recount T m true k ↔ p ∈ k ∨ p ∈ Gen.TrashPy.recount T m false [] := by
  simp [recount_eq]

/-- the map `_refs_associated_with_artifacts` builds for the model state `s`: every artifact that has records with a fragment, with
the datasets recorded at it -/
def pmOf (s : S) : PM :=
  { keys := (s.recs.filter (fun r => r.frag.isSome)).map (·.path),
    get := fun p => (s.recs.filter (fun r => r.frag.isSome && r.path == p)).map (·.id) }

theorem pmOf_good (s : S) : Good (pmOf s) := by
  intro p hp
  have hp' : p ∈ (pmOf s).keys := hp
  rw [pmGet_of_mem _ _ hp]
  simp only [pmOf, List.mem_map, List.mem_filter] at hp'
  obtain ⟨r, ⟨hr, hf⟩, hrp⟩ := hp'
  intro h0
  have : r.id ∈ (pmOf s).get p := by
    simp only [pmOf, List.mem_map, List.mem_filter]
    exact ⟨r, ⟨hr, by simp [hf, hrp]⟩, rfl⟩
  rw [h0] at this
  cases this

/-- **The hand-written model's `slowKeep`** (which `emptyTrash_keeps_referenced` and the other C09 theorems are about) **is the
translated recount** applied to the trashed records and the map of the state. -/
theorem slowKeep_is_recount (s : S) (hfrag : (trashed s).any (fun r => r.frag.isSome) = true) (p : Nat) :
    p ∈ slowKeep s ↔
      p ∈ ((trashed s).filter (fun r => r.frag.isSome)).map (·.path) ∧
      p ∈ Gen.TrashPy.recount ((trashed s).map fun t => (t.id, t.path)) (pmOf s) false [] := by
  rw [recount_keeps_iff _ _ (pmOf_good s)]
  simp only [slowKeep, hfrag, if_true, List.mem_filter]
  constructor
  · rintro ⟨hp, hany⟩
    refine ⟨hp, ?_⟩
    simp only [List.any_eq_true, List.mem_filter, Bool.and_eq_true, beq_iff_eq, Bool.not_eq_true', List.any_eq_false,
      not_and, Bool.not_eq_true] at hany
    obtain ⟨r, ⟨hr, hf, hrp⟩, hnot⟩ := hany
    have hk : p ∈ (pmOf s).keys := by
      simp only [pmOf, List.mem_map, List.mem_filter]
      exact ⟨r, ⟨hr, hf⟩, hrp⟩
    refine ⟨r.id, ?_, ?_⟩
    · rw [pmGet_of_mem _ _ hk]
      simp only [pmOf, List.mem_map, List.mem_filter]
      exact ⟨r, ⟨hr, by simp [hf, hrp]⟩, rfl⟩
    · simp only [List.mem_map, not_exists, not_and]
      intro t ht heq
      have h1 : t.id = r.id := congrArg Prod.fst heq
      have h2 : t.path = p := congrArg Prod.snd heq
      have := hnot t ht h2
      simp [h1] at this
  · rintro ⟨hp, i, hi, hnt⟩
    refine ⟨hp, ?_⟩
    have hk : p ∈ (pmOf s).keys := mem_keys_of_pmGet _ _ (by intro h0; rw [h0] at hi; cases hi)
    rw [pmGet_of_mem _ _ hk] at hi
    simp only [pmOf, List.mem_map, List.mem_filter, Bool.and_eq_true, beq_iff_eq] at hi
    obtain ⟨r, ⟨hr, hf, hrp⟩, hri⟩ := hi
    simp only [List.any_eq_true, List.mem_filter, Bool.and_eq_true, beq_iff_eq, Bool.not_eq_true', List.any_eq_false,
      not_and, Bool.not_eq_true]
    refine ⟨r, ⟨hr, hf, hrp⟩, ?_⟩
    intro t ht htp
    by_cases hid : t.id = r.id
    · exfalso
      apply hnt
      simp only [List.mem_map]
      exact ⟨t, ht, by rw [hid, hri, htp]⟩
    · simpa using hid

/-- non-vacuity: a zip (path 7) holds datasets 1, 2, 3; 1 and 2 are trashed (2 listed twice): the zip is kept; path 8, whose only
dataset is trashed, is not -/
example : Gen.TrashPy.recount [(1, 7), (2, 7), (2, 7), (5, 8)]
    ⟨[7, 8], fun p => if p = 7 then [1, 2, 3] else [5]⟩ false [] = [7] := by decide

end C09.Translated
