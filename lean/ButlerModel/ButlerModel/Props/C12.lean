import ButlerModel.Model.Universe
import ButlerModel.Gen.Universe
/-! # C12 — dimension groups are dependency-closed sets obeying lattice laws

All theorems are proved for **every** well-formed universe (`WF U`, a decidable check) and every
set of names; the shipped universes (extracted from the live objects on every run into
`Gen/Universe.lean`) are instances by kernel evaluation at the end of the file. -/
namespace C12
open Dim

def WF (U : Universe) : Prop := wfB U = true

theorem deps_nil_of_ge (U : Universe) (k : Nat) (h : U.length ≤ k) : deps U k = [] := by
  simp [deps, elemAt, List.getD_eq_getElem?_getD, List.getElem?_eq_none h]

theorem dep_lt (U : Universe) (h : WF U) (k j : Nat) (hj : j ∈ deps U k) : j < k := by
  by_cases hk : k < U.length
  · unfold WF wfB at h
    rw [List.all_eq_true] at h
    have := h k (List.mem_range.mpr hk)
    simp only [Bool.and_eq_true, List.all_eq_true, decide_eq_true_eq] at this
    exact (this.1 j hj).1
  · rw [deps_nil_of_ge U k (by omega)] at hj; cases hj

/-! ## the sweep computes the least closed superset -/

theorem sweep_ext (U : Universe) : ∀ (k : Nat) (m : NSet) (i : Nat), m i = true → sweep U k m i = true := by
  intro k
  induction k with
  | zero => intro m i h; exact h
  | succ k ih =>
    intro m i h
    unfold sweep
    apply ih
    split
    · simp [h]
    · exact h

theorem sweep_least (U : Universe) (c : NSet) (hc : Closed U c) :
    ∀ (k : Nat) (m : NSet), (∀ i, m i = true → c i = true) → ∀ i, sweep U k m i = true → c i = true := by
  intro k
  induction k with
  | zero => intro m hm i h; exact hm i h
  | succ k ih =>
    intro m hm i h
    unfold sweep at h
    refine ih _ ?_ i h
    intro j hj
    split at hj
    · rename_i hk
      simp only [Bool.or_eq_true, List.contains_eq_mem, decide_eq_true_eq] at hj
      rcases hj with hj | hj
      · exact hm j hj
      · exact hc k (hm k hk) j hj
    · exact hm j hj

theorem sweep_unchanged_above (U : Universe) (h : WF U) :
    ∀ (k : Nat) (m : NSet) (i : Nat), k ≤ i → sweep U k m i = m i := by
  intro k
  induction k with
  | zero => intro m i _; rfl
  | succ k ih =>
    intro m i hi
    unfold sweep
    rw [ih _ i (by omega)]
    split
    · have : ¬ i ∈ deps U k := fun hc => by have := dep_lt U h k i hc; omega
      simp [this]
    · rfl

theorem sweep_closed_below (U : Universe) (h : WF U) :
    ∀ (k : Nat) (m : NSet) (i : Nat), i < k → sweep U k m i = true → ∀ j ∈ deps U i, sweep U k m j = true := by
  intro k
  induction k with
  | zero => intro m i hi; omega
  | succ k ih =>
    intro m i hi hr j hj
    unfold sweep at hr ⊢
    by_cases hik : i < k
    · exact ih _ i hik hr j hj
    · have hik' : i = k := by omega
      subst hik'
      rw [sweep_unchanged_above U h i _ i (Nat.le_refl i)] at hr
      apply sweep_ext
      split at hr
      · rename_i hm
        simp [hm, hj]
      · rename_i hm; exact absurd hr hm

/-- The group contains every name it was built from. -/
theorem close_extensive (U : Universe) (m : NSet) (i : Nat) (h : m i = true) : closeFn U m i = true :=
  sweep_ext U _ m i h

/-- The group is closed under required and implied dependencies. -/
theorem close_closed (U : Universe) (h : WF U) (m : NSet) : Closed U (closeFn U m) := by
  intro k hk j hj
  by_cases hkl : k < U.length
  · exact sweep_closed_below U h _ m k hkl hk j hj
  · rw [deps_nil_of_ge U k (by omega)] at hj; cases hj

/-- …and it is the *smallest* closed superset. -/
theorem close_least (U : Universe) (m c : NSet) (hc : Closed U c) (hm : ∀ i, m i = true → c i = true) :
    ∀ i, closeFn U m i = true → c i = true :=
  sweep_least U c hc _ m hm

theorem close_of_closed (U : Universe) (m : NSet) (hc : Closed U m) (i : Nat) : closeFn U m i = m i := by
  cases hmi : m i
  · cases hcl : closeFn U m i
    · rfl
    · have := close_least U m m hc (fun _ h => h) i hcl; simp [hmi] at this
  · exact close_extensive U m i hmi

theorem close_idempotent (U : Universe) (h : WF U) (m : NSet) (i : Nat) :
    closeFn U (closeFn U m) i = closeFn U m i :=
  close_of_closed U _ (close_closed U h m) i

theorem close_mono (U : Universe) (h : WF U) (m m' : NSet) (hm : ∀ i, m i = true → m' i = true) :
    ∀ i, closeFn U m i = true → closeFn U m' i = true :=
  close_least U m _ (close_closed U h m') (fun i hi => close_extensive U m' i (hm i hi))

/-- However the names are spelled (order, duplicates — anything with the same members), the
group is the same object (the same sorted name tuple). -/
theorem close_spelling_irrelevant (U : Universe) (s s' : List Nat) (h : ∀ i, i ∈ s ↔ i ∈ s') :
    close U s = close U s' := by
  have : ofList s = ofList s' := by
    funext i; unfold ofList
    cases h1 : s.contains i <;> cases h2 : s'.contains i <;> simp_all
  unfold close; rw [this]

/-- Adding names that the group already contains (e.g. implied ones) changes nothing. -/
theorem close_absorbs (U : Universe) (h : WF U) (m m' : NSet)
    (h1 : ∀ i, m i = true → m' i = true) (h2 : ∀ i, m' i = true → closeFn U m i = true) (i : Nat) :
    closeFn U m' i = closeFn U m i := by
  cases hb : closeFn U m i
  · cases ha : closeFn U m' i
    · rfl
    · have := close_least U m' _ (close_closed U h m) h2 i ha; simp [hb] at this
  · exact close_mono U h m m' h1 i hb

theorem toList_mem (U : Universe) (m : NSet) (i : Nat) : i ∈ toList U m ↔ (i < U.length ∧ m i = true) := by
  unfold toList; simp [List.mem_filter]

/-- `names` is sorted in universe order… -/
theorem names_sorted (U : Universe) (s : List Nat) : (close U s).Pairwise (· < ·) := by
  unfold close toList
  exact List.Pairwise.filter _ (List.pairwise_lt_range)

/-- …and universe order is topological: every dependency of a member is a member and comes first. -/
theorem names_topological (U : Universe) (h : WF U) (s : List Nat) (d : Nat) (hd : d ∈ close U s) :
    ∀ j ∈ deps U d, j ∈ close U s ∧ j < d := by
  intro j hj
  have hlt := dep_lt U h d j hj
  unfold close at hd ⊢
  rw [toList_mem] at hd ⊢
  exact ⟨⟨by omega, close_closed U h _ d hd.2 j hj⟩, hlt⟩

/-! ## lattice laws (on characteristic functions; `union`/`intersection` close the raw set) -/

def union (U : Universe) (a b : NSet) : NSet := closeFn U (fun i => a i || b i)
def inter (U : Universe) (a b : NSet) : NSet := closeFn U (fun i => a i && b i)

theorem union_upper (U : Universe) (a b : NSet) (i : Nat) :
    (a i = true → union U a b i = true) ∧ (b i = true → union U a b i = true) :=
  ⟨fun h => close_extensive U _ i (by simp [h]), fun h => close_extensive U _ i (by simp [h])⟩

/-- union is the least upper bound among closed sets. -/
theorem union_lub (U : Universe) (a b c : NSet) (hc : Closed U c)
    (ha : ∀ i, a i = true → c i = true) (hb : ∀ i, b i = true → c i = true) :
    ∀ i, union U a b i = true → c i = true :=
  close_least U _ c hc (fun i hi => by
    simp only [Bool.or_eq_true] at hi
    rcases hi with hi | hi
    · exact ha i hi
    · exact hb i hi)

/-- For closed operands the raw union is already closed: `a | b` has exactly the names of both. -/
theorem union_of_closed (U : Universe) (a b : NSet) (ha : Closed U a) (hb : Closed U b) (i : Nat) :
    union U a b i = (a i || b i) := by
  apply close_of_closed
  intro k hk j hj
  simp only [Bool.or_eq_true] at hk ⊢
  rcases hk with hk | hk
  · left; exact ha k hk j hj
  · right; exact hb k hk j hj

/-- Closure adds nothing to an intersection of closed sets: `a & b` is exactly the common names… -/
theorem inter_of_closed (U : Universe) (a b : NSet) (ha : Closed U a) (hb : Closed U b) (i : Nat) :
    inter U a b i = (a i && b i) := by
  apply close_of_closed
  intro k hk j hj
  simp only [Bool.and_eq_true] at hk ⊢
  exact ⟨ha k hk.1 j hj, hb k hk.2 j hj⟩

/-- …hence the greatest lower bound. -/
theorem inter_glb (U : Universe) (a b c : NSet) (ha : Closed U a) (hb : Closed U b)
    (hca : ∀ i, c i = true → a i = true) (hcb : ∀ i, c i = true → b i = true) :
    ∀ i, c i = true → inter U a b i = true := by
  intro i hi
  rw [inter_of_closed U a b ha hb]
  simp [hca i hi, hcb i hi]

theorem inter_lower (U : Universe) (a b : NSet) (ha : Closed U a) (hb : Closed U b) (i : Nat)
    (h : inter U a b i = true) : a i = true ∧ b i = true := by
  rw [inter_of_closed U a b ha hb] at h
  simpa using h

/-! ## required / implied -/

theorem req_impl_partition (U : Universe) (g : List Nat) (d : Nat) :
    (d ∈ g ↔ (d ∈ required U g ∨ d ∈ implied U g)) ∧ ¬ (d ∈ required U g ∧ d ∈ implied U g) := by
  unfold required implied
  simp only [List.mem_filter]
  cases h : (g.any fun d' => (elemAt U d').imp.contains d) <;> simp

/-- The required part is exactly the members that no member implies. -/
theorem required_char (U : Universe) (g : List Nat) (d : Nat) :
    d ∈ required U g ↔ (d ∈ g ∧ ¬ ∃ d' ∈ g, d ∈ (elemAt U d').imp) := by
  unfold required
  simp [List.mem_filter]

theorem imp_sub_deps (U : Universe) (k j : Nat) (h : j ∈ (elemAt U k).imp) : j ∈ deps U k := by
  unfold deps; simp [h]

/-- The closure of the required part is the whole group (for a closed group). -/
theorem close_required_eq (U : Universe) (h : WF U) (g : List Nat)
    (hg : Closed U (ofList g)) (hlt : ∀ d ∈ g, d < U.length) (i : Nat) :
    closeFn U (ofList (required U g)) i = ofList g i := by
  have sub : ∀ j, ofList (required U g) j = true → ofList g j = true := by
    intro j hj
    unfold ofList at *
    simp only [List.contains_eq_mem, decide_eq_true_eq] at hj ⊢
    exact ((required_char U g j).mp hj).1
  have key : ∀ n d, U.length - d ≤ n → d ∈ g → closeFn U (ofList (required U g)) d = true := by
    intro n
    induction n with
    | zero => intro d hn hd; have := hlt d hd; omega
    | succ n ih =>
      intro d hn hd
      by_cases hr : d ∈ required U g
      · exact close_extensive U _ d (by unfold ofList; simp [hr])
      · have : ∃ d' ∈ g, d ∈ (elemAt U d').imp := by
          apply Classical.byContradiction
          intro hc
          exact hr ((required_char U g d).mpr ⟨hd, hc⟩)
        obtain ⟨d', hd', himp⟩ := this
        have hlt' := dep_lt U h d' d (imp_sub_deps U d' d himp)
        have hd'l := hlt d' hd'
        have := ih d' (by omega) hd'
        exact close_closed U h _ d' this d (imp_sub_deps U d' d himp)
  cases hb : ofList g i
  · cases ha : closeFn U (ofList (required U g)) i
    · rfl
    · have := close_least U _ _ hg sub i ha; simp [hb] at this
  · apply key (U.length - i) i (Nat.le_refl _)
    unfold ofList at hb; simpa using hb

/-- Equality, subset tests and the hash key are functions of the name set (`hash(required)` is
determined by the names because `required` is). -/
theorem hash_key_determined (U : Universe) (g g' : List Nat) (h : g = g') : required U g = required U g' := by
  rw [h]

/-! ## the Python worklist computes the same set whatever order `set.pop()` uses -/

theorem worklist_eq_close (U : Universe) (h : WF U) (choose : List Nat → Nat)
    (hch : ∀ te, te ≠ [] → choose te ∈ te) (s : List Nat) :
    ∀ (fuel : Nat) (te names r : List Nat),
      (∀ i ∈ s, i ∈ te ∨ i ∈ names) →
      (∀ i, (i ∈ te ∨ i ∈ names) → closeFn U (ofList s) i = true) →
      (∀ k ∈ names, ∀ j ∈ deps U k, j ∈ te ∨ j ∈ names) →
      worklist U choose fuel (te, names) = some r →
      ∀ i, (i ∈ r ↔ closeFn U (ofList s) i = true) := by
  intro fuel
  have fin : ∀ (names : List Nat),
      (∀ i ∈ s, i ∈ names) → (∀ i, i ∈ names → closeFn U (ofList s) i = true) →
      (∀ k ∈ names, ∀ j ∈ deps U k, j ∈ names) → ∀ i, (i ∈ names ↔ closeFn U (ofList s) i = true) := by
    intro names h1 h2 h3 i
    constructor
    · exact h2 i
    · intro hi
      have hcl : Closed U (ofList names) := by
        intro k hk j hj
        unfold ofList at *
        simp only [List.contains_eq_mem, decide_eq_true_eq] at hk ⊢
        exact h3 k hk j hj
      have := close_least U (ofList s) (ofList names) hcl (by
        intro j hj; unfold ofList at *
        simp only [List.contains_eq_mem, decide_eq_true_eq] at hj ⊢
        exact h1 j hj) i hi
      unfold ofList at this; simpa using this
  induction fuel with
  | zero =>
    intro te names r h1 h2 h3 hw
    unfold worklist at hw
    split at hw
    · rename_i hte
      have : te = [] := by simpa using hte
      subst this
      simp only [Option.some.injEq] at hw; subst hw
      exact fin names (fun i hi => by have := h1 i hi; simpa using this)
        (fun i hi => h2 i (Or.inr hi)) (fun k hk j hj => by have := h3 k hk j hj; simpa using this)
    · cases hw
  | succ n ih =>
    intro te names r h1 h2 h3 hw
    unfold worklist at hw
    split at hw
    · rename_i hte
      have : te = [] := by simpa using hte
      subst this
      simp only [Option.some.injEq] at hw; subst hw
      exact fin names (fun i hi => by have := h1 i hi; simpa using this)
        (fun i hi => h2 i (Or.inr hi)) (fun k hk j hj => by have := h3 k hk j hj; simpa using this)
    · rename_i hte
      have hne : te ≠ [] := by intro hc; apply hte; simp [hc]
      have hd := hch te hne
      simp only [] at hw
      refine ih _ _ r ?_ ?_ ?_ hw
      · intro i hi
        by_cases hin : i ∈ choose te :: names
        · right; exact hin
        · left
          simp only [List.mem_filter, List.mem_append, List.contains_eq_mem, decide_eq_true_eq,
            Bool.not_eq_eq_eq_not, Bool.not_true, decide_eq_false_iff_not]
          refine ⟨?_, hin⟩
          rcases h1 i hi with h | h
          · left; exact h
          · exfalso; exact hin (List.mem_cons_of_mem _ h)
      · intro i hi
        rcases hi with hi | hi
        · simp only [List.mem_filter, List.mem_append] at hi
          rcases hi.1 with hi' | hi'
          · exact h2 i (Or.inl hi')
          · exact close_closed U h _ (choose te) (h2 _ (Or.inl hd)) i hi'
        · rcases List.mem_cons.mp hi with hi' | hi'
          · subst hi'; exact h2 _ (Or.inl hd)
          · exact h2 i (Or.inr hi')
      · intro k hk j hj
        by_cases hin : j ∈ choose te :: names
        · right; exact hin
        · left
          simp only [List.mem_filter, List.mem_append, List.contains_eq_mem, decide_eq_true_eq,
            Bool.not_eq_eq_eq_not, Bool.not_true, decide_eq_false_iff_not]
          refine ⟨?_, hin⟩
          rcases List.mem_cons.mp hk with hk' | hk'
          · subst hk'; right; exact hj
          · rcases h3 k hk' j hj with h' | h'
            · left; exact h'
            · exfalso; exact hin (List.mem_cons_of_mem _ h')

/-- Corollary: started as the constructor does (`to_expand = set(names)`, `names = set()`), any
pop order that terminates yields exactly the closure. -/
theorem close_order_irrelevant (U : Universe) (h : WF U) (choose : List Nat → Nat)
    (hch : ∀ te, te ≠ [] → choose te ∈ te) (s r : List Nat) (fuel : Nat)
    (hw : worklist U choose fuel (s, []) = some r) (i : Nat) :
    i ∈ r ↔ closeFn U (ofList s) i = true := by
  refine worklist_eq_close U h choose hch s fuel s [] r ?_ ?_ ?_ hw i
  · intro i hi; left; exact hi
  · intro i hi
    rcases hi with hi | hi
    · exact close_extensive U _ i (by unfold ofList; simp [hi])
    · cases hi
  · intro k hk; cases hk

/-! ## lookup order -/

/-- An order *respects* the dependencies when every element comes after all of its required
dimensions (what `expandDataId` relies on: the keys needed to fetch a record are known). -/
def Respects (U : Universe) (l : List Nat) : Prop :=
  ∀ (i e : Nat), l[i]? = some e → ∀ r ∈ (elemAt U e).req, r ∈ l.take i

theorem respects_snoc (U : Universe) (l : List Nat) (e : Nat) (h : Respects U l)
    (he : ∀ r ∈ (elemAt U e).req, r ∈ l) : Respects U (l ++ [e]) := by
  intro i x hx r hr
  by_cases hi : i < l.length
  · rw [List.getElem?_append_left hi] at hx
    rw [List.take_append_of_le_length (by omega)]
    exact h i x hx r hr
  · by_cases hi' : i = l.length
    · subst hi'
      simp at hx; subst hx
      simp [he r hr]
    · have : (l ++ [e])[i]? = none := by
        apply List.getElem?_eq_none; simp; omega
      rw [this] at hx; cases hx

def OInv (U : Universe) (s : List Nat × List Nat) : Prop :=
  (∀ x, x ∈ s.1 ↔ x ∈ s.2) ∧ Respects U s.2

theorem foldl_inv {α : Type} (P : α → Prop) (f : α → Nat → α) (l : List Nat) (a : α)
    (ha : P a) (hf : ∀ a x, P a → P (f a x)) : P (l.foldl f a) := by
  induction l generalizing a with
  | nil => exact ha
  | cons x xs ih => exact ih _ (hf a x ha)

theorem addToOrder_inv (U : Universe) : ∀ (fuel e : Nat) (s : List Nat × List Nat),
    OInv U s → OInv U (addToOrder U fuel e s) := by
  intro fuel
  induction fuel with
  | zero => intro e s h; exact h
  | succ n ih =>
    intro e s h
    obtain ⟨done, order⟩ := s
    unfold addToOrder
    split
    · exact h
    · split
      · exact h
      · rename_i h1 h2
        apply foldl_inv (OInv U)
        · refine ⟨?_, ?_⟩
          · intro x
            have := h.1 x; simp only at this
            simp only [List.mem_cons, List.mem_append, List.mem_nil_iff, or_false]
            constructor
            · rintro (hx | hx)
              · right; exact hx
              · left; exact this.mp hx
            · rintro (hx | hx)
              · right; exact this.mpr hx
              · left; exact hx
          · apply respects_snoc U order e h.2
            intro r hr
            simp only [Bool.not_eq_true, Bool.not_eq_false', List.all_eq_true, List.contains_eq_mem,
              decide_eq_true_eq] at h2
            exact (h.1 r).mp (h2 r hr)
        · intro a x ha; exact ih x a ha

theorem lookupLoop_inv (U : Universe) (req : List Nat) : ∀ (fuel : Nat) (s : List Nat × List Nat),
    OInv U s → OInv U (lookupLoop U req fuel s) := by
  intro fuel
  induction fuel with
  | zero => intro s h; exact h
  | succ n ih =>
    intro s h
    unfold lookupLoop
    split
    · exact h
    · apply ih
      apply foldl_inv (OInv U)
      · exact h
      · intro a x ha; exact addToOrder_inv U _ x a ha

theorem sorted_before (l : List Nat) (hs : l.Pairwise (· < ·)) :
    ∀ (t e x : Nat), l[t]? = some e → x ∈ l → x < e → x ∈ l.take t := by
  induction l with
  | nil => intro t e x h; simp at h
  | cons a as ih =>
    intro t e x ht hx hlt
    cases t with
    | zero =>
      simp at ht; subst ht
      rcases List.mem_cons.mp hx with h | h
      · omega
      · have := (List.pairwise_cons.mp hs).1 x h; omega
    | succ t =>
      simp only [List.getElem?_cons_succ] at ht
      simp only [List.take_succ_cons, List.mem_cons]
      rcases List.mem_cons.mp hx with h | h
      · left; exact h
      · right; exact ih (List.pairwise_cons.mp hs).2 t e x ht h hlt

/-- **`lookup_order` respects the dependency order**: every element appears after all of its
required dimensions — for every well-formed universe and every dependency-closed group. -/
theorem lookupOrder_respects (U : Universe) (h : WF U) (g : List Nat)
    (hg : Closed U (ofList g)) : Respects U (lookupOrder U g) := by
  unfold lookupOrder
  simp only []
  generalize hs : lookupLoop U (required U g) (U.length + 1) ([], []) = s
  have hinv : OInv U s := by
    rw [← hs]; apply lookupLoop_inv
    exact ⟨fun x => by simp, fun i e he => by simp at he⟩
  obtain ⟨done, order⟩ := s
  simp only
  intro i e he r hr
  by_cases hi : i < order.length
  · rw [List.getElem?_append_left hi] at he
    rw [List.take_append_of_le_length (by omega)]
    exact hinv.2 i e he r hr
  · have hi' : order.length ≤ i := by omega
    rw [List.getElem?_append_right hi'] at he
    rw [List.take_append]
    have hemem := List.mem_of_getElem? he
    simp only [elements, List.mem_filter, List.mem_range, Bool.and_eq_true, List.all_eq_true,
      List.contains_eq_mem, decide_eq_true_eq, Bool.or_eq_true, Bool.not_eq_eq_eq_not, Bool.not_true,
      decide_eq_false_iff_not] at hemem
    obtain ⟨⟨hel, hreq, _⟩, hnd⟩ := hemem
    have hrg : r ∈ g := hreq r hr
    have hrdep : r ∈ deps U e := by unfold deps; simp [hr]
    have hrlt := dep_lt U h e r hrdep
    by_cases hrd : r ∈ done
    · simp only [List.mem_append]; left
      have := (hinv.1 r).mp hrd
      rw [List.take_of_length_le (by omega)]; exact this
    · simp only [List.mem_append]; right
      have hsorted : ((elements U g).filter (fun e => !done.contains e)).Pairwise (· < ·) := by
        unfold elements
        exact List.Pairwise.filter _ (List.Pairwise.filter _ List.pairwise_lt_range)
      apply sorted_before _ hsorted (i - order.length) e r he ?_ hrlt
      -- r is itself an element of the group: a dimension in g whose own requirements are in g
      have hrdim : (elemAt U r).isDim = true := by
        unfold WF wfB at h
        rw [List.all_eq_true] at h
        have := h e (List.mem_range.mpr hel)
        simp only [Bool.and_eq_true, List.all_eq_true, decide_eq_true_eq] at this
        exact (this.1 r hrdep).2
      simp only [elements, List.mem_filter, List.mem_range, Bool.and_eq_true, List.all_eq_true,
        List.contains_eq_mem, decide_eq_true_eq, Bool.or_eq_true, Bool.not_eq_eq_eq_not, Bool.not_true,
        decide_eq_false_iff_not]
      refine ⟨⟨by omega, ?_, Or.inr hrg⟩, hrd⟩
      intro r' hr'
      have : ofList g r = true := by unfold ofList; simp [hrg]
      have := hg r this r' (by unfold deps; simp [hr'])
      unfold ofList at this; simpa using this


/-! ## the shipped universes are well-formed (kernel-checked on the extracted tables) -/
theorem universe_default_wf : WF Gen.universe_default := by unfold WF; decide +kernel
theorem universe_old0_wf : WF Gen.universe_old0 := by unfold WF; decide +kernel
theorem universe_old1_wf : WF Gen.universe_old1 := by unfold WF; decide +kernel
theorem universe_old2_wf : WF Gen.universe_old2 := by unfold WF; decide +kernel
theorem universe_old3_wf : WF Gen.universe_old3 := by unfold WF; decide +kernel
theorem universe_old4_wf : WF Gen.universe_old4 := by unfold WF; decide +kernel
theorem universe_old5_wf : WF Gen.universe_old5 := by unfold WF; decide +kernel
theorem universe_old6_wf : WF Gen.universe_old6 := by unfold WF; decide +kernel
theorem universe_old7_wf : WF Gen.universe_old7 := by unfold WF; decide +kernel

/-! non-vacuity: a 3-element universe 0 ← 1 (requires 0), 2 implies 1 -/
example : close [⟨true, [], []⟩, ⟨true, [0], []⟩, ⟨true, [], [1]⟩] [2] = [0, 1, 2] := by decide
example : required [⟨true, [], []⟩, ⟨true, [0], []⟩, ⟨true, [], [1]⟩] [0, 1, 2] = [0, 2] := by decide


/-! ## the order on groups is the subset order of the names: a partial order, not a total one -/

theorem subsetB_iff (a b : List Nat) : subsetB a b = true ↔ ∀ x ∈ a, x ∈ b := by
  simp [subsetB, List.all_eq_true]

theorem le_refl (a : List Nat) : leB a a = true := by simp [leB, subsetB_iff]

theorem le_trans (a b c : List Nat) (h1 : leB a b = true) (h2 : leB b c = true) : leB a c = true := by
  simp only [leB, subsetB_iff] at *
  exact fun x hx => h2 x (h1 x hx)

/-- antisymmetry: two groups below each other have the same names (and, being sorted lists without
repetition as `close` produces them, are the same list — `names_sorted`) -/
theorem le_antisymm (a b : List Nat) (h1 : leB a b = true) (h2 : leB b a = true) : ∀ x, x ∈ a ↔ x ∈ b := by
  simp only [leB, subsetB_iff] at *
  exact fun x => ⟨h1 x, h2 x⟩

theorem eq_iff (a b : List Nat) : eqB a b = true ↔ ∀ x, x ∈ a ↔ x ∈ b := by
  simp only [eqB, Bool.and_eq_true, subsetB_iff]
  exact ⟨fun ⟨h1, h2⟩ x => ⟨h1 x, h2 x⟩, fun h => ⟨fun x hx => (h x).mp hx, fun x hx => (h x).mpr hx⟩⟩

theorem lt_iff (a b : List Nat) : ltB a b = true ↔ leB a b = true ∧ eqB a b = false := by
  simp only [ltB, leB, eqB]
  cases subsetB a b <;> cases subsetB b a <;> simp

theorem gt_iff_lt_swap (a b : List Nat) : gtB a b = ltB b a := by simp [gtB, ltB]
theorem ge_iff_le_swap (a b : List Nat) : geB a b = leB b a := by simp [geB, leB]

theorem lt_irrefl (a : List Nat) : ltB a a = false := by simp [ltB]

/-- `<` and `>` exclude each other and equality: at most one of the three holds … -/
theorem lt_gt_eq_exclusive (a b : List Nat) :
    ¬ (ltB a b = true ∧ gtB a b = true) ∧ ¬ (ltB a b = true ∧ eqB a b = true) ∧ ¬ (gtB a b = true ∧ eqB a b = true) := by
  simp only [ltB, gtB, eqB]
  cases subsetB a b <;> cases subsetB b a <;> simp

/-- … and possibly none: the order is **not total**.  In the default universe {band} and {instrument}
are closed groups neither of which is below the other, so `a > b` cannot be computed as `¬ (a ≤ b)`. -/
theorem order_not_total :
    let U := Gen.universe_default
    ∃ a b, closeFast U a = a ∧ closeFast U b = b ∧ leB a b = false ∧ geB a b = false ∧ ltB a b = false ∧ gtB a b = false ∧ eqB a b = false :=
  ⟨[0], [1], by decide +kernel, by decide +kernel, by decide, by decide, by decide, by decide, by decide⟩

theorem disjoint_iff (a b : List Nat) : disjointB a b = true ↔ ∀ x ∈ a, x ∉ b := by
  simp [disjointB, List.all_eq_true]

theorem disjoint_symm (a b : List Nat) : disjointB a b = disjointB b a := by
  have h : ∀ a b : List Nat, disjointB a b = true → disjointB b a = true := by
    intro a b hab
    rw [disjoint_iff] at *
    exact fun x hx hxa => hab x hxa hx
  cases h1 : disjointB a b <;> cases h2 : disjointB b a
  · rfl
  · exact absurd (h b a h2) (by simp [h1])
  · exact absurd (h a b h1) (by simp [h2])
  · rfl

/-! ## lookup order is a permutation of the elements -/

/-- what `lookup_order` keeps while it runs: `done` and `order` have the same members, `order` has no
repetition, and everything in it is a member of the group -/
def PInv (g : List Nat) (s : List Nat × List Nat) : Prop :=
  (∀ x, x ∈ s.1 ↔ x ∈ s.2) ∧ s.2.Nodup ∧ ∀ x ∈ s.2, x ∈ g

theorem addToOrder_pinv (U : Universe) (g : List Nat) (hg : Closed U (ofList g)) :
    ∀ (fuel e : Nat) (s : List Nat × List Nat), e ∈ g → PInv g s → PInv g (addToOrder U fuel e s) := by
  intro fuel
  induction fuel with
  | zero => intro e s _ h; exact h
  | succ n ih =>
    intro e s he h
    obtain ⟨done, order⟩ := s
    unfold addToOrder
    split
    · exact h
    · split
      · exact h
      · rename_i h1 h2
        have hnot : e ∉ order := by
          intro hc
          have := (h.1 e).mpr hc
          simp at h1
          exact h1 this
        have himp : ∀ o ∈ (elemAt U e).imp, o ∈ g := by
          intro o ho
          have := hg e (by simpa [ofList] using he) o (by simp [deps, ho])
          simpa [ofList] using this
        -- fold over the implied dimensions, all of which are members
        have key : ∀ (l : List Nat) (a : List Nat × List Nat), (∀ o ∈ l, o ∈ g) → PInv g a →
            PInv g (l.foldl (fun s o => addToOrder U n o s) a) := by
          intro l
          induction l with
          | nil => intro a _ ha; exact ha
          | cons o os ihl =>
            intro a hl ha
            simp only [List.foldl_cons]
            exact ihl _ (fun o' ho' => hl o' (List.mem_cons_of_mem _ ho')) (ih o a (hl o (List.mem_cons_self)) ha)
        apply key _ _ himp
        refine ⟨?_, ?_, ?_⟩
        · intro x
          have := h.1 x; simp only at this
          simp only [List.mem_cons, List.mem_append, List.mem_nil_iff, or_false]
          constructor
          · rintro (hx | hx)
            · right; exact hx
            · left; exact this.mp hx
          · rintro (hx | hx)
            · right; exact this.mpr hx
            · left; exact hx
        · simp only
          rw [List.nodup_append]
          refine ⟨h.2.1, by simp, ?_⟩
          intro a ha b hb
          simp at hb; subst hb
          intro hab; subst hab; exact hnot ha
        · intro x hx
          simp only [List.mem_append, List.mem_cons, List.mem_nil_iff, or_false] at hx
          rcases hx with hx | hx
          · exact h.2.2 x hx
          · subst hx; exact he

theorem lookupLoop_pinv (U : Universe) (g : List Nat) (hg : Closed U (ofList g)) (req : List Nat)
    (hreq : ∀ r ∈ req, r ∈ g) : ∀ (fuel : Nat) (s : List Nat × List Nat),
    PInv g s → PInv g (lookupLoop U req fuel s) := by
  intro fuel
  induction fuel with
  | zero => intro s h; exact h
  | succ n ih =>
    intro s h
    unfold lookupLoop
    split
    · exact h
    · apply ih
      have key : ∀ (l : List Nat) (a : List Nat × List Nat), (∀ o ∈ l, o ∈ g) → PInv g a →
          PInv g (l.foldl (fun s d => addToOrder U (U.length + 1) d s) a) := by
        intro l
        induction l with
        | nil => intro a _ ha; exact ha
        | cons o os ihl =>
          intro a hl ha
          simp only [List.foldl_cons]
          exact ihl _ (fun o' ho' => hl o' (List.mem_cons_of_mem _ ho'))
            (addToOrder_pinv U g hg _ o a (hl o (List.mem_cons_self)) ha)
      exact key req s hreq h

/-- a member of a closed group is one of the group's elements -/
theorem mem_elements_of_mem (U : Universe) (g : List Nat) (hg : Closed U (ofList g)) (hlt : ∀ x ∈ g, x < U.length)
    {x : Nat} (hx : x ∈ g) : x ∈ elements U g := by
  unfold elements
  rw [List.mem_filter]
  refine ⟨List.mem_range.mpr (hlt x hx), ?_⟩
  simp only [Bool.and_eq_true, List.all_eq_true, List.contains_eq_mem, decide_eq_true_eq, Bool.or_eq_true,
    Bool.not_eq_true']
  refine ⟨?_, Or.inr hx⟩
  intro r hr
  have := hg x (by simpa [ofList] using hx) r (by simp [deps, hr])
  simpa [ofList] using this

/-- **`lookup_order` is a permutation of the group's elements**: it has no repetition and its members
are exactly `elements` — for every universe and every dependency-closed group (whatever the loop's
fuel: what the loop did not reach is appended at the end, as in the source). -/
theorem lookupOrder_perm (U : Universe) (g : List Nat) (hg : Closed U (ofList g))
    (hlt : ∀ x ∈ g, x < U.length) :
    (lookupOrder U g).Nodup ∧ ∀ e, e ∈ lookupOrder U g ↔ e ∈ elements U g := by
  unfold lookupOrder
  simp only []
  generalize hs : lookupLoop U (required U g) (U.length + 1) ([], []) = s
  have hreq : ∀ r ∈ required U g, r ∈ g := by
    intro r hr; unfold required at hr; exact (List.mem_filter.mp hr).1
  have hinv : PInv g s := by
    rw [← hs]
    apply lookupLoop_pinv U g hg _ hreq
    exact ⟨fun x => by simp, by simp, fun x hx => by simp at hx⟩
  obtain ⟨done, order⟩ := s
  obtain ⟨h1, h2, h3⟩ := hinv
  simp only at h1 h2 h3 ⊢
  have hel : (elements U g).Nodup := by
    unfold elements; exact List.Nodup.sublist List.filter_sublist List.nodup_range
  constructor
  · rw [List.nodup_append]
    refine ⟨h2, List.Nodup.sublist List.filter_sublist hel, ?_⟩
    intro a ha b hb hab
    subst hab
    rw [List.mem_filter] at hb
    have := (h1 a).mpr ha
    simp [this] at hb
  · intro e
    simp only [List.mem_append, List.mem_filter, Bool.not_eq_true', List.contains_eq_mem, decide_eq_false_iff_not]
    constructor
    · rintro (h | h)
      · exact mem_elements_of_mem U g hg hlt (h3 e h)
      · exact h.1
    · intro h
      by_cases hd : e ∈ done
      · left; exact (h1 e).mp hd
      · right; exact ⟨h, hd⟩

/-- non-vacuity: a closed group of a small universe (instrument ← detector; band ⇐ physical_filter) -/
example :
    let U : Universe := [⟨true, [], []⟩, ⟨true, [], []⟩, ⟨true, [0], []⟩, ⟨true, [0], [1]⟩]
    lookupOrder U [0, 1, 2, 3] = [0, 2, 3, 1] ∧ (∀ x ∈ [0, 1, 2, 3], x < U.length) := by decide

end C12
