import ButlerModel.Props.C02
import ButlerModel.Model.Mexists
import ButlerModel.Gen.ExistsPy
/-! # C10 — removal is complete and precise; existence reports tell the truth -/
namespace C10
open Registry C02

theorem removeDatasets_ok_state (s : St) (ids : List Nat) (h : ids.any (fun d => s.stored.contains d) = false) :
    removeDatasets s ids =
      ({ s with datasets := s.datasets.filter (fun d => !ids.contains d.id),
                mem := s.mem.filter (fun r => !ids.contains r.2) }, "ok") := by
  unfold removeDatasets
  rw [h]; rfl

theorem unstore_clears (r : Repo) (ids : List Nat) :
    ids.any (fun d => (r.unstoreMany ids).reg.stored.contains d) = false := by
  unfold Repo.unstoreMany
  apply List.any_eq_false.mpr
  intro x hx hc
  simp only [List.contains_eq_mem, decide_eq_true_eq, List.mem_filter, Bool.not_eq_eq_eq_not, Bool.not_true,
    decide_eq_false_iff_not] at hc
  exact hc.2 hx

/-- **purge removes exactly the targets**: it is always accepted, and afterwards every collection's
membership, the dataset table, the datastore records and the artifacts are the old ones minus the
targeted datasets — nothing else changes. -/
theorem purge_exact (r : Repo) (ids : List Nat) :
    r.purge ids =
      ({ reg := { r.reg with datasets := r.reg.datasets.filter (fun d => !ids.contains d.id),
                             mem := r.reg.mem.filter (fun row => !ids.contains row.2),
                             stored := r.reg.stored.filter (fun d => !ids.contains d) },
         artifacts := r.artifacts.filter (fun d => !ids.contains d) }, "ok") := by
  unfold Repo.purge
  simp only []
  rw [removeDatasets_ok_state _ ids (unstore_clears r ids)]
  rfl

/-- Membership of every collection after a purge = membership before, minus the targets. -/
theorem purge_members (r : Repo) (ids : List Nat) (c : Nat) :
    (r.purge ids).1.reg.members c = (r.reg.members c).filter (fun d => !ids.contains d) := by
  rw [purge_exact]
  simp only [St.members, List.filter_filter, List.filter_map]
  congr 1
  apply List.filter_congr
  intro x _
  simp [Bool.and_comm]

/-- A dataset that was not targeted keeps all its existence flags. -/
theorem find_filter_other (xs : List Dataset) (ids : List Nat) (d : Nat) (hd : ¬ d ∈ ids) :
    List.find? (fun x => x.id == d) (xs.filter (fun x => !ids.contains x.id)) = List.find? (fun x => x.id == d) xs := by
  induction xs with
  | nil => rfl
  | cons x xs ih =>
    by_cases hx : x.id = d
    · have hk : (!ids.contains x.id) = true := by simp [hx, hd]
      have hb : (x.id == d) = true := by simp [hx]
      simp only [List.filter_cons, hk, ↓reduceIte, List.find?_cons, hb]
    · have hb : (x.id == d) = false := by simp [hx]
      by_cases hm : (!ids.contains x.id) = true
      · simp only [List.filter_cons, hm, ↓reduceIte, List.find?_cons, hb, ih]
      · have hm' : (!ids.contains x.id) = false := by simpa using hm
        simp only [List.filter_cons, hm', Bool.false_eq_true, ↓reduceIte, List.find?_cons, hb, ih]

theorem purge_others_untouched (r : Repo) (ids : List Nat) (d : Nat) (hd : ¬ d ∈ ids) :
    (r.purge ids).1.existsFlags d = r.existsFlags d := by
  rw [purge_exact]
  unfold Repo.existsFlags St.ds
  simp only [find_filter_other _ ids d hd]
  simp [hd]

/-- A targeted dataset is gone from everywhere. -/
theorem purge_targets_gone (r : Repo) (ids : List Nat) (d : Nat) (hd : d ∈ ids) :
    (r.purge ids).1.existsFlags d = (false, false, false) := by
  rw [purge_exact]
  unfold Repo.existsFlags St.ds
  have : List.find? (fun x => x.id == d) (r.reg.datasets.filter (fun x => !ids.contains x.id)) = none := by
    apply List.find?_eq_none.mpr
    intro x hx
    have hx' := List.mem_filter.mp hx
    simp only [beq_iff_eq]
    intro hc
    rw [hc] at hx'
    simp [hd] at hx'
  rw [this]
  simp [hd]

/-- **The registry refuses to forget a dataset that a datastore still holds**, and the refusal
changes nothing. -/
theorem orphan_refused (s : St) (ids : List Nat) (d : Nat) (hd : d ∈ ids) (hs : s.stored.contains d = true) :
    removeDatasets s ids = (s, "err OrphanedRecordError") := by
  unfold removeDatasets
  have : ids.any (fun d => s.stored.contains d) = true := List.any_eq_true.mpr ⟨d, hd, hs⟩
  rw [this]; rfl

/-- purge keeps the registry invariants. -/
theorem purge_inv (r : Repo) (ids : List Nat) (h : Inv r.reg) : Inv (r.purge ids).1.reg := by
  unfold Repo.purge
  simp only []
  have h1 : Inv (r.unstoreMany ids).reg := ⟨h.uniq, h.ids, h.rows, h.inRun, h.runType⟩
  have := inv_removeDatasets (r.unstoreMany ids).reg h1 ids
  rw [removeDatasets_ok_state _ ids (unstore_clears r ids)] at this ⊢
  exact this

/-- Existence flags are consistent: an artifact is only ever reported for a dataset the datastore knows. -/
theorem exists_flags_consistent (r : Repo) (d : Nat) : (r.existsFlags d).2.2 = true → (r.existsFlags d).2.1 = true := by
  unfold Repo.existsFlags; simp; intro h _; exact h

/-- External deletion of an artifact changes exactly the artifact flag of that dataset. -/
theorem extDelete_flags (r : Repo) (d d' : Nat) :
    (r.extDelete d).existsFlags d' =
      if d' = d then ((r.existsFlags d').1, (r.existsFlags d').2.1, false) else r.existsFlags d' := by
  unfold Repo.extDelete Repo.existsFlags
  by_cases h : d' = d
  · subst h; simp
  · simp [h]

end C10

/-! # `mexists`: many datasets, shared and multiple artifacts -/
namespace C10.Mexists
open _root_.Mexists

theorem inner_fold_other (ar : Bool) (v : Bool) : ∀ (ds : List Nat) (acc : Nat → Option Bool) (d : Nat), d ∉ ds →
    (ds.foldl (inner ar v) acc) d = acc d
  | [], _, _, _ => rfl
  | x :: xs, acc, d, h => by
    simp only [List.foldl_cons]
    rw [inner_fold_other ar v xs _ d (fun hm => h (List.mem_cons_of_mem _ hm))]
    have : d ≠ x := fun e => h (e ▸ List.mem_cons_self ..)
    simp [inner, upd, this]

theorem inner_fold_mem (ar : Bool) (v : Bool) : ∀ (ds : List Nat) (acc : Nat → Option Bool) (d : Nat), d ∈ ds →
    (ds.foldl (inner ar v) acc) d = some (match acc d with | some prev => comb ar prev v | none => v)
  | x :: xs, acc, d, h => by
    simp only [List.foldl_cons]
    by_cases hx : d = x
    · subst hx
      by_cases hm : d ∈ xs
      · rw [inner_fold_mem ar v xs _ d hm]
        simp only [inner, upd, ↓reduceIte]
        cases acc d with
        | none => cases ar <;> cases v <;> simp [comb]
        | some p => cases ar <;> cases v <;> cases p <;> simp [comb]
      · rw [inner_fold_other ar v xs _ d hm]
        simp only [inner, upd, ↓reduceIte]
        cases acc d <;> rfl
    · have hm : d ∈ xs := by
        rcases List.mem_cons.mp h with h | h
        · exact absurd h hx
        · exact h
      rw [inner_fold_mem ar v xs _ d hm]
      simp [inner, upd, hx]


def foldComb (ar : Bool) (o : Option Bool) (vs : List Bool) : Option Bool :=
  vs.foldl (fun o v => some (match o with | some p => comb ar p v | none => v)) o

theorem outer_fold (i : In) (ar : Bool) (d : Nat) : ∀ (K : List Nat) (acc : Nat → Option Bool),
    (K.foldl (fun acc u => (locationMap i u).foldl (inner ar (val i u)) acc) acc) d
      = foldComb ar (acc d) ((K.filter fun u => (locationMap i u).contains d).map (val i))
  | [], _ => rfl
  | u :: K, acc => by
    simp only [List.foldl_cons]
    rw [outer_fold i ar d K]
    by_cases h : d ∈ locationMap i u
    · have hc : (locationMap i u).contains d = true := by simpa using h
      simp only [List.filter_cons, hc, ↓reduceIte, List.map_cons, foldComb, List.foldl_cons]
      rw [inner_fold_mem ar (val i u) _ acc d h]
    · have hc : (locationMap i u).contains d = false := by simpa using h
      simp only [List.filter_cons, hc, Bool.false_eq_true, ↓reduceIte]
      rw [inner_fold_other ar (val i u) _ acc d h]

theorem foldComb_all : ∀ (vs : List Bool) (p : Bool), foldComb true (some p) vs = some (p && vs.all id)
  | [], p => by simp [foldComb]
  | v :: vs, p => by
    have := foldComb_all vs (p && v)
    simp only [foldComb, List.foldl_cons, comb, ↓reduceIte, List.all_cons, id] at this ⊢
    rw [this, Bool.and_assoc]

theorem foldComb_any : ∀ (vs : List Bool) (p : Bool), foldComb false (some p) vs = some (p || vs.any id)
  | [], p => by simp [foldComb]
  | v :: vs, p => by
    have := foldComb_any vs (p || v)
    simp only [foldComb, List.foldl_cons, comb, Bool.false_eq_true, ↓reduceIte, List.any_cons, id] at this ⊢
    rw [this, Bool.or_assoc]

theorem foldComb_none_all (vs : List Bool) (h : vs ≠ []) : foldComb true none vs = some (vs.all id) := by
  cases vs with
  | nil => exact absurd rfl h
  | cons v vs =>
    have := foldComb_all vs v
    simp only [foldComb, List.foldl_cons, List.all_cons, id] at this ⊢
    exact this

theorem foldComb_none_any (vs : List Bool) (h : vs ≠ []) : foldComb false none vs = some (vs.any id) := by
  cases vs with
  | nil => exact absurd rfl h
  | cons v vs =>
    have := foldComb_any vs v
    simp only [foldComb, List.foldl_cons, List.any_cons, id] at this ⊢
    exact this

/-- datasets are the keys of a dictionary -/
def DistinctKeys (i : In) : Prop := i.records.Pairwise fun a b => a.1 ≠ b.1

theorem mem_pairs (i : In) (d u : Nat) : (d, u) ∈ pairs i ↔ ∃ us, (d, us) ∈ i.records ∧ u ∈ us := by
  simp only [pairs, List.mem_flatMap, List.mem_map, Prod.mk.injEq]
  constructor
  · rintro ⟨⟨d', us⟩, hr, u', hu, rfl, rfl⟩; exact ⟨us, hr, hu⟩
  · rintro ⟨us, hr, hu⟩; exact ⟨(d, us), hr, u, hu, rfl, rfl⟩

theorem mem_locationMap (i : In) (d u : Nat) : d ∈ locationMap i u ↔ (d, u) ∈ pairs i := by
  simp only [locationMap, List.mem_map, List.mem_filter, beq_iff_eq]
  constructor
  · rintro ⟨⟨d', u'⟩, ⟨hp, hu⟩, rfl⟩; simp only at hu; subst hu; exact hp
  · intro h; exact ⟨(d, u), ⟨h, rfl⟩, rfl⟩

theorem unique_record (i : In) (hd : DistinctKeys i) (d : Nat) (us us' : List Nat) (h : (d, us) ∈ i.records) (h' : (d, us') ∈ i.records) : us = us' := by
  unfold DistinctKeys at hd
  generalize i.records = l at *
  induction hd with
  | nil => simp at h
  | cons hx _ ih =>
    simp only [List.mem_cons] at h h'
    rcases h with h | h <;> rcases h' with h' | h'
    · have := h.trans h'.symm; injection this
    · subst h; exact absurd rfl (hx (d, us') h')
    · subst h'; exact absurd rfl (hx (d, us) h)
    · exact ih h h'

theorem all_filter_set (K us : List Nat) (f : Nat → Bool) (hsub : ∀ u ∈ us, u ∈ K) :
    ((K.filter fun u => us.contains u).map f).all id = us.all f := by
  rw [Bool.eq_iff_iff]
  simp only [List.all_eq_true, List.mem_map, List.mem_filter, List.contains_eq_mem, decide_eq_true_eq, id]
  constructor
  · intro h u hu; exact h (f u) ⟨u, ⟨hsub u hu, hu⟩, rfl⟩
  · rintro h b ⟨u, ⟨_, hu⟩, rfl⟩; exact h u hu

theorem any_filter_set (K us : List Nat) (f : Nat → Bool) (hsub : ∀ u ∈ us, u ∈ K) :
    ((K.filter fun u => us.contains u).map f).any id = us.any f := by
  rw [Bool.eq_iff_iff]
  simp only [List.any_eq_true, List.mem_map, List.mem_filter, List.contains_eq_mem, decide_eq_true_eq, id]
  constructor
  · rintro ⟨b, ⟨u, ⟨_, hu⟩, rfl⟩, hb⟩; exact ⟨u, hu, hb⟩
  · rintro ⟨u, hu, hb⟩; exact ⟨f u, ⟨u, ⟨hsub u hu, hu⟩, rfl⟩, hb⟩

/-- **Every dataset with records gets its answer, and the right one**: all (or any) of its artifacts
exist — however many other datasets share those artifacts. -/
theorem process_correct (i : In) (hd : DistinctKeys i) (ar : Bool) (d : Nat) (us : List Nat) (hr : (d, us) ∈ i.records) (hne : us ≠ []) :
    process i ar d = some (if ar then us.all (val i) else us.any (val i)) := by
  unfold process
  rw [outer_fold]
  have hfilter : (keys i).filter (fun u => (locationMap i u).contains d) = (keys i).filter (fun u => us.contains u) := by
    apply List.filter_congr
    intro u _
    rw [Bool.eq_iff_iff]
    simp only [List.contains_eq_mem, decide_eq_true_eq, mem_locationMap, mem_pairs]
    constructor
    · rintro ⟨us', hr', hu⟩; rw [unique_record i hd d us us' hr hr']; exact hu
    · intro hu; exact ⟨us, hr, hu⟩
  rw [hfilter]
  have hsub : ∀ u ∈ us, u ∈ keys i := by
    intro u hu
    simp only [keys, List.mem_eraseDups, List.mem_map]
    exact ⟨(d, u), (mem_pairs i d u).mpr ⟨us, hr, hu⟩, rfl⟩
  have hne' : ((keys i).filter fun u => us.contains u).map (val i) ≠ [] := by
    obtain ⟨u, hu⟩ := List.exists_mem_of_ne_nil us hne
    intro h
    have : val i u ∈ ((keys i).filter fun u => us.contains u).map (val i) :=
      List.mem_map.mpr ⟨u, List.mem_filter.mpr ⟨hsub u hu, by simpa using hu⟩, rfl⟩
    rw [h] at this
    simp at this
  cases ar with
  | true => simp only [↓reduceIte]; rw [foldComb_none_all _ hne', all_filter_set _ _ _ hsub]
  | false => simp only [Bool.false_eq_true, ↓reduceIte]; rw [foldComb_none_any _ hne', any_filter_set _ _ _ hsub]

/-- a dataset without records is not in the result (the caller then treats it as unknown) -/
theorem process_unknown (i : In) (ar : Bool) (d : Nat) (h : ∀ us, (d, us) ∈ i.records → us = []) : process i ar d = none := by
  unfold process
  rw [outer_fold]
  have : (keys i).filter (fun u => (locationMap i u).contains d) = [] := by
    rw [List.filter_eq_nil_iff]
    intro u _
    simp only [List.contains_eq_mem, decide_eq_true_eq, mem_locationMap, mem_pairs]
    rintro ⟨us, hr, hu⟩
    rw [h us hr] at hu
    simp at hu
  rw [this]
  rfl


/-! ## what the value of a URI is -/

/-- a URI some dataset needs checked (no cache hit for it) gets the answer already known, else the
file system's -/
theorem val_checked (i : In) (d u : Nat) (hp : (d, u) ∈ pairs i) (hn : proxied i (d, u) = false) :
    val i u = (match i.known u with | some b => b | none => i.fs u) := by
  have : (toCheck i).contains u = true := by
    simp only [toCheck, List.contains_eq_mem, List.mem_map, List.mem_filter, decide_eq_true_eq]
    exact ⟨(d, u), ⟨hp, by simp [hn]⟩, rfl⟩
  unfold val
  rw [if_pos this]
  cases i.known u <;> rfl

/-- without a local cache every URI is really checked -/
theorem val_no_cache (i : In) (hc : i.cacheNonEmpty = false) (d u : Nat) (hp : (d, u) ∈ pairs i) :
    val i u = (match i.known u with | some b => b | none => i.fs u) :=
  val_checked i d u hp (by simp [proxied, hc])

/-- **`mexists` tells the truth** (no local cache, nothing pre-answered): a dataset exists exactly
when the records know it and every one of its artifacts is on the file system. -/
theorem mexists_truth (i : In) (hd : DistinctKeys i) (hc : i.cacheNonEmpty = false) (hk : ∀ u, i.known u = none)
    (d : Nat) (us : List Nat) (hr : (d, us) ∈ i.records) (hne : us ≠ []) :
    mexists i d = us.all i.fs := by
  unfold mexists
  rw [process_correct i hd true d us hr hne]
  simp only [↓reduceIte, Option.getD_some]
  rw [Bool.eq_iff_iff]
  simp only [List.all_eq_true]
  constructor
  · intro h u hu
    have := h u hu
    rwa [val_no_cache i hc d u ((mem_pairs i d u).mpr ⟨us, hr, hu⟩), hk u] at this
  · intro h u hu
    rw [val_no_cache i hc d u ((mem_pairs i d u).mpr ⟨us, hr, hu⟩), hk u]
    exact h u hu

theorem mexists_unknown (i : In) (d : Nat) (h : ∀ us, (d, us) ∈ i.records → us = []) : mexists i d = false := by
  simp [mexists, process_unknown i true d h]

/-- Finding C10-a, the code as it was given: of two datasets stored in one file only the one listed
last got an answer; the other was reported as not stored although its file is there. -/
theorem old_code_loses_sharers :
    let i : In := { records := [(1, [7]), (2, [7])], cacheNonEmpty := false, cached := fun _ _ => false, known := fun _ => none, fs := fun _ => true }
    processOld i true 1 = none ∧ processOld i true 2 = some true ∧ process i true 1 = some true ∧ process i true 2 = some true := by
  decide

/-- non-vacuity: shared artifacts, a dataset in two files one of which is missing, a pre-answered URI -/
example :
    let i : In := { records := [(1, [7]), (2, [7, 8]), (3, [9]), (4, [])], cacheNonEmpty := false, cached := fun _ _ => false,
                    known := fun u => if u = 9 then some false else none, fs := fun u => u != 8 }
    (process i true 1, process i true 2, process i false 2, process i true 3, process i true 4) = (some true, some false, some true, some false, none) := by
  decide

end C10.Mexists

/-! ### `Butler.exists`: the flags and their truth value, as translated from the source on every run (`Gen/ExistsPy.lean`)

`start reg` is what the head of `DirectButler.exists` has gathered when its tail begins: `RECORDED` exactly when the registry has
the dataset (`existence |= DatasetExistence.RECORDED` under `registry_ref is not None`, or after a successful lookup).  The three
datastore-side inputs are the answers of `datastore.knows`, `datastore.exists` and the caller's `full_check`.  All quantifiers are
over Booleans, so each theorem is proved by exhausting the sixteen cases in the kernel. -/
namespace C10.Translated
open Gen.ExistsPy

def start (reg : Bool) : Nat := if reg then RECORDED else UNRECOGNIZED
def has (f bit : Nat) : Bool := f &&& bit != 0
def flags (reg ds art full : Bool) : Nat := existsTail (start reg) ds art full

/-- **The reported flags agree with the three facts**: RECORDED exactly when the registry knows the dataset, DATASTORE exactly when
the datastore knows it, and — in a full check — the artifact flag exactly when the artifact is there; a quick check never claims
the artifact. -/
theorem exists_flags (reg ds art full : Bool) :
    has (flags reg ds art full) RECORDED = reg ∧ has (flags reg ds art full) DATASTORE = ds ∧
    has (flags reg ds art full) ARTIFACT = (full && art) := by
  cases reg <;> cases ds <;> cases art <;> cases full <;> decide

/-- **Truth value**: the result of `exists` is true exactly when registry and datastore both know the dataset and (in a full
check) the artifact is present. -/
theorem exists_truth (reg ds art full : Bool) :
    boolPy (flags reg ds art full) = (reg && ds && (!full || art)) := by
  cases reg <;> cases ds <;> cases art <;> cases full <;> decide

/-- a dataset nobody knows and whose artifact is absent is UNRECOGNIZED in both forms of the check (no "assumed" flag out of nothing) -/
theorem unknown_is_unrecognized (full : Bool) : flags false false false full = UNRECOGNIZED := by
  cases full <;> decide

/-- the flag values are distinct bits and the two "exists" combinations are what the documentation says -/
theorem flag_table : RECORDED = 1 ∧ DATASTORE = 2 ∧ ARTIFACT = 4 ∧ ASSUMED = 8 ∧
    KNOWN = RECORDED ||| DATASTORE ||| ASSUMED ∧ VERIFIED = RECORDED ||| DATASTORE ||| ARTIFACT := by decide

example : flags true true false true = 3 ∧ boolPy 3 = false ∧ flags true true true false = KNOWN := by decide

end C10.Translated
