import ButlerModel.Props.C02
/-! # C10 — removal is complete and precise; existence reports tell the truth -/
namespace C10
open Registry C02

theorem removeDatasets_ok_state (s : St) (ids : List Nat) (h : ids.any (fun d => s.stored.contains d) = false) :
    removeDatasets s ids =
      ({ s with datasets := s.datasets.filter (fun d => !ids.contains d.id),
                mem := s.mem.filter (fun r => !ids.contains r.2) }, "ok") := by
  unfold removeDatasets
  rw [h]; rfl

theorem unstore_clears (r : Repo) (ids : List Nat) :
    ids.any (fun d => (r.unstoreMany ids).reg.stored.contains d) = false := by
  unfold Repo.unstoreMany
  apply List.any_eq_false.mpr
  intro x hx hc
  simp only [List.contains_eq_mem, decide_eq_true_eq, List.mem_filter, Bool.not_eq_eq_eq_not, Bool.not_true,
    decide_eq_false_iff_not] at hc
  exact hc.2 hx

/-- **purge removes exactly the targets**: it is always accepted, and afterwards every collection's
membership, the dataset table, the datastore records and the artifacts are the old ones minus the
targeted datasets — nothing else changes. -/
theorem purge_exact (r : Repo) (ids : List Nat) :
    r.purge ids =
      ({ reg := { r.reg with datasets := r.reg.datasets.filter (fun d => !ids.contains d.id),
                             mem := r.reg.mem.filter (fun row => !ids.contains row.2),
                             stored := r.reg.stored.filter (fun d => !ids.contains d) },
         artifacts := r.artifacts.filter (fun d => !ids.contains d) }, "ok") := by
  unfold Repo.purge
  simp only []
  rw [removeDatasets_ok_state _ ids (unstore_clears r ids)]
  rfl

/-- Membership of every collection after a purge = membership before, minus the targets. -/
theorem purge_members (r : Repo) (ids : List Nat) (c : Nat) :
    (r.purge ids).1.reg.members c = (r.reg.members c).filter (fun d => !ids.contains d) := by
  rw [purge_exact]
  simp only [St.members, List.filter_filter, List.filter_map]
  congr 1
  apply List.filter_congr
  intro x _
  simp [Bool.and_comm]

/-- A dataset that was not targeted keeps all its existence flags. -/
theorem find_filter_other (xs : List Dataset) (ids : List Nat) (d : Nat) (hd : ¬ d ∈ ids) :
    List.find? (fun x => x.id == d) (xs.filter (fun x => !ids.contains x.id)) = List.find? (fun x => x.id == d) xs := by
  induction xs with
  | nil => rfl
  | cons x xs ih =>
    by_cases hx : x.id = d
    · have hk : (!ids.contains x.id) = true := by simp [hx, hd]
      have hb : (x.id == d) = true := by simp [hx]
      simp only [List.filter_cons, hk, ↓reduceIte, List.find?_cons, hb]
    · have hb : (x.id == d) = false := by simp [hx]
      by_cases hm : (!ids.contains x.id) = true
      · simp only [List.filter_cons, hm, ↓reduceIte, List.find?_cons, hb, ih]
      · have hm' : (!ids.contains x.id) = false := by simpa using hm
        simp only [List.filter_cons, hm', Bool.false_eq_true, ↓reduceIte, List.find?_cons, hb, ih]

theorem purge_others_untouched (r : Repo) (ids : List Nat) (d : Nat) (hd : ¬ d ∈ ids) :
    (r.purge ids).1.existsFlags d = r.existsFlags d := by
  rw [purge_exact]
  unfold Repo.existsFlags St.ds
  simp only [find_filter_other _ ids d hd]
  simp [hd]

/-- A targeted dataset is gone from everywhere. -/
theorem purge_targets_gone (r : Repo) (ids : List Nat) (d : Nat) (hd : d ∈ ids) :
    (r.purge ids).1.existsFlags d = (false, false, false) := by
  rw [purge_exact]
  unfold Repo.existsFlags St.ds
  have : List.find? (fun x => x.id == d) (r.reg.datasets.filter (fun x => !ids.contains x.id)) = none := by
    apply List.find?_eq_none.mpr
    intro x hx
    have hx' := List.mem_filter.mp hx
    simp only [beq_iff_eq]
    intro hc
    rw [hc] at hx'
    simp [hd] at hx'
  rw [this]
  simp [hd]

/-- **The registry refuses to forget a dataset that a datastore still holds**, and the refusal
changes nothing. -/
theorem orphan_refused (s : St) (ids : List Nat) (d : Nat) (hd : d ∈ ids) (hs : s.stored.contains d = true) :
    removeDatasets s ids = (s, "err OrphanedRecordError") := by
  unfold removeDatasets
  have : ids.any (fun d => s.stored.contains d) = true := List.any_eq_true.mpr ⟨d, hd, hs⟩
  rw [this]; rfl

/-- purge keeps the registry invariants. -/
theorem purge_inv (r : Repo) (ids : List Nat) (h : Inv r.reg) : Inv (r.purge ids).1.reg := by
  unfold Repo.purge
  simp only []
  have h1 : Inv (r.unstoreMany ids).reg := ⟨h.uniq, h.ids, h.rows, h.inRun, h.runType⟩
  have := inv_removeDatasets (r.unstoreMany ids).reg h1 ids
  rw [removeDatasets_ok_state _ ids (unstore_clears r ids)] at this ⊢
  exact this

/-- Existence flags are consistent: an artifact is only ever reported for a dataset the datastore knows. -/
theorem exists_flags_consistent (r : Repo) (d : Nat) : (r.existsFlags d).2.2 = true → (r.existsFlags d).2.1 = true := by
  unfold Repo.existsFlags; simp; intro h _; exact h

/-- External deletion of an artifact changes exactly the artifact flag of that dataset. -/
theorem extDelete_flags (r : Repo) (d d' : Nat) :
    (r.extDelete d).existsFlags d' =
      if d' = d then ((r.existsFlags d').1, (r.existsFlags d').2.1, false) else r.existsFlags d' := by
  unfold Repo.extDelete Repo.existsFlags
  by_cases h : d' = d
  · subst h; simp
  · simp [h]

end C10
