import ButlerModel.Model.LR
/-! Helper lemmas for `Props/C14.lean`: the LR driver of `Model/Parser.lean`, run over the LALR tables
extracted from the live PLY parser, keeps a stack invariant (`Good`) under shift and reduce, and the
semantic action of every production accepts children of the shapes that invariant provides.
Nothing here is a property theorem; the statements that are claimed are in `Props/C14.lean`. -/
namespace LR
open Parser Lexer

theorem lookup_mem {α : Type} {k : String} {l : List (String × α)} {v : α} (h : lookup k l = some v) : (k, v) ∈ l := by
  induction l with
  | nil => simp [lookup] at h
  | cons x r ih =>
    obtain ⟨k', v'⟩ := x
    simp only [lookup] at h
    split at h
    · rename_i hk
      have : k = k' := by simpa using hk
      subst this; simp at h; subst h; simp
    · exact List.mem_cons_of_mem _ (ih h)

theorem actionOf_mem {st : Nat} {la : String} {k n : Nat} (h : actionOf st la = some (k, n)) :
    ∃ row, (st, row) ∈ Gen.Grammar.action ∧ (la, k, n) ∈ row := by
  unfold actionOf at h
  split at h
  · rename_i st' row hf
    have h1 := List.find?_some hf
    have h2 := List.mem_of_find?_eq_some hf
    have : st' = st := by simpa using h1
    subst this
    exact ⟨row, h2, lookup_mem h⟩
  · simp at h

theorem gotoOf_mem {st : Nat} {nt : String} {n : Nat} (h : gotoOf st nt = some n) :
    ∃ row, (st, row) ∈ Gen.Grammar.goto ∧ (nt, n) ∈ row := by
  unfold gotoOf at h
  split at h
  · rename_i st' row hf
    have h1 := List.find?_some hf
    have h2 := List.mem_of_find?_eq_some hf
    have : st' = st := by simpa using h1
    subst this
    exact ⟨row, h2, lookup_mem h⟩
  · simp at h

theorem defaultedOf_mem {st p : Nat} (h : defaultedOf st = some p) : (st, p) ∈ Gen.Grammar.defaulted := by
  unfold defaultedOf at h
  cases hf : Gen.Grammar.defaulted.find? (fun x => x.1 == st) with
  | none => simp [hf] at h
  | some x =>
    have h1 := List.find?_some hf
    have h2 := List.mem_of_find?_eq_some hf
    simp [hf] at h
    have : x.1 = st := by simpa using h1
    obtain ⟨a, b⟩ := x
    simp at this h; subst this; subst h; exact h2

theorem shift_edge {st : Nat} {la : String} {n : Nat} (h : actionOf st la = some (0, n)) : (st, la, n) ∈ edges := by
  obtain ⟨row, h1, h2⟩ := actionOf_mem h
  unfold edges shiftEdges
  apply List.mem_append_left
  rw [List.mem_flatMap]
  refine ⟨(st, row), h1, ?_⟩
  rw [List.mem_filterMap]
  exact ⟨(la, 0, n), h2, by simp⟩

theorem goto_edge {st : Nat} {nt : String} {n : Nat} (h : gotoOf st nt = some n) : (st, nt, n) ∈ edges := by
  obtain ⟨row, h1, h2⟩ := gotoOf_mem h
  unfold edges gotoEdges
  apply List.mem_append_right
  rw [List.mem_flatMap]
  refine ⟨(st, row), h1, ?_⟩
  rw [List.mem_map]
  exact ⟨(nt, n), h2, rfl⟩


/-! ### the stack invariant -/

/-- The two stacks of the driver describe a path of the automaton from the start state, and every
value has the shape the semantic actions give to the symbol under which it was pushed. -/
inductive Good : List Nat → List Val → Prop
  | base : Good [0] []
  | push {s s' : Nat} {ss : List Nat} {v : Val} {vs : List Val} {X : String} :
      Good (s' :: ss) vs → (s', X, s) ∈ edges → kindOK X v = true → Good (s :: s' :: ss) (v :: vs)

theorem Good.length {st : List Nat} {vs : List Val} (h : Good st vs) : st.length = vs.length + 1 := by
  induction h with
  | base => rfl
  | push _ _ _ ih => simp [ih]

theorem Good.drop {st : List Nat} {vs : List Val} (h : Good st vs) :
    ∀ n, n ≤ vs.length → Good (st.drop n) (vs.drop n) := by
  induction h with
  | base => intro n hn; simp at hn; subst hn; exact .base
  | push hg he hk ih =>
    intro n hn
    cases n with
    | zero => exact .push hg he hk
    | succ n => simp at hn; simpa using ih n hn

theorem sym_of_edge (hc : edgesConsistent = true) {s' s : Nat} {X : String} (h : (s', X, s) ∈ edges) : X = symOf s := by
  unfold edgesConsistent at hc
  rw [List.all_eq_true] at hc
  simpa using hc _ h

theorem pred_of_edge {s' s : Nat} {X : String} (h : (s', X, s) ∈ edges) : s' ∈ predsOf s := by
  unfold predsOf
  rw [List.mem_map]
  exact ⟨(s', X, s), by rw [List.mem_filter]; exact ⟨h, by simp⟩, rfl⟩

theorem preds_zero (h0 : startHasNoPred = true) : predsOf 0 = [] := by
  unfold startHasNoPred at h0
  rw [List.all_eq_true] at h0
  unfold predsOf
  rw [List.map_eq_nil_iff, List.filter_eq_nil_iff]
  intro e he
  simpa using h0 e he

/-- Walking back `n` steps from the top of a good stack is one of the enumerated backward paths. -/
theorem Good.back_mem (h0 : startHasNoPred = true) {st : List Nat} {vs : List Val} (h : Good st vs) :
    ∀ n, ∃ s ss, st = s :: ss ∧ (st.take (min n vs.length + 1), n - min n vs.length) ∈ back n s := by
  induction h with
  | base =>
    intro n
    refine ⟨0, [], rfl, ?_⟩
    cases n with
    | zero => simp [back]
    | succ n => simp [back, preds_zero h0]
  | @push s s' ss v vs X hg he hk ih =>
    intro n
    refine ⟨s, s' :: ss, rfl, ?_⟩
    cases n with
    | zero => simp [back]
    | succ n =>
      obtain ⟨s1, ss1, h1, h2⟩ := ih n
      have hs1 : s1 = s' := by simp at h1; exact h1.1.symm
      subst hs1
      have hp := pred_of_edge he
      have hne : (predsOf s).isEmpty = false := by
        cases hq : predsOf s with
        | nil => rw [hq] at hp; simp at hp
        | cons _ _ => rfl
      simp only [back, hne, Bool.false_eq_true, if_false]
      rw [List.mem_flatMap]
      refine ⟨s1, hp, ?_⟩
      rw [List.mem_map]
      refine ⟨_, h2, ?_⟩
      have e1 : min (n + 1) (v :: vs).length = min n vs.length + 1 := by simp
      simp

theorem childrenOK_append : ∀ (xs : List String) (vs : List Val) (ys : List String) (ws : List Val),
    xs.length = vs.length → childrenOK (xs ++ ys) (vs ++ ws) = (childrenOK xs vs && childrenOK ys ws)
  | [], [], _, _, _ => by simp [childrenOK]
  | x :: xs, v :: vs, ys, ws, h => by
    simp only [List.cons_append, childrenOK]
    rw [childrenOK_append xs vs ys ws (by simpa using h), Bool.and_assoc]
  | [], _ :: _, _, _, h => by simp at h
  | _ :: _, [], _, _, h => by simp at h

theorem childrenOK_length : ∀ {xs : List String} {vs : List Val}, childrenOK xs vs = true → xs.length = vs.length
  | [], [], _ => rfl
  | x :: xs, v :: vs, h => by
    simp only [childrenOK, Bool.and_eq_true] at h
    simp [childrenOK_length h.2]
  | [], _ :: _, h => by simp [childrenOK] at h
  | _ :: _, [], h => by simp [childrenOK] at h

theorem childrenOK_reverse : ∀ {xs : List String} {vs : List Val}, childrenOK xs vs = true →
    childrenOK xs.reverse vs.reverse = true
  | [], [], _ => by simp [childrenOK]
  | x :: xs, v :: vs, h => by
    simp only [childrenOK, Bool.and_eq_true] at h
    have hl := childrenOK_length h.2
    simp only [List.reverse_cons]
    rw [childrenOK_append _ _ _ _ (by simpa using hl)]
    simp [childrenOK, childrenOK_reverse h.2, h.1]
  | [], _ :: _, h => by simp [childrenOK] at h
  | _ :: _, [], h => by simp [childrenOK] at h

/-- the top `n` values have the shapes of the accessing symbols of the top `n` states -/
theorem Good.kinds (hc : edgesConsistent = true) {st : List Nat} {vs : List Val} (h : Good st vs) :
    ∀ n, n ≤ vs.length → childrenOK ((st.take n).map symOf) (vs.take n) = true := by
  induction h with
  | base => intro n hn; simp at hn; subst hn; simp [childrenOK]
  | push hg he hk ih =>
    intro n hn
    cases n with
    | zero => simp [childrenOK]
    | succ n =>
      simp at hn
      simp only [List.take_succ_cons, List.map_cons, childrenOK, Bool.and_eq_true]
      exact ⟨by rw [← sym_of_edge hc he]; exact hk, ih n hn⟩


/-! ### the semantic actions accept children of the right shapes -/

def ActGood (lhs : String) (r : Except Err Val) : Prop :=
  (∃ v, r = .ok v ∧ kindOK lhs v = true) ∨ r = .error .value

set_option hygiene false in
/-- peel one child off `c` using `hc : childrenOK (X :: xs) c = true` and split on its shape -/
macro "child" : tactic => `(tactic| (
   (rcases c with _ | ⟨v, c⟩) <;>
   first
   | (simp [childrenOK] at hc; done)
   | (simp only [childrenOK, Bool.and_eq_true] at hc
      obtain ⟨hk, hc⟩ := hc
      cases v <;> simp [kindOK, kindOf, nonterminals] at hk) ))

set_option hygiene false in
macro "nomore" : tactic => `(tactic| (
   (rcases c with _ | ⟨v, c⟩) <;> first | (simp [childrenOK] at hc; done) | skip ))

theorem point_ok (f x y : Tok) (args : List Node) :
    ActGood "function_call" (actI 48 [.tok f, .tok x, .list args, .tok y]) := by
  have e : actI 48 [.tok f, .tok x, .list args, .tok y] =
      (if upper f.val == "POINT" then
        match args with
        | [a, b] => .ok (.node (.point a b))
        | _ => .error .value
      else .ok (.node (.func f.val args))) := rfl
  rw [e]
  split
  · split
    · exact Or.inl ⟨_, rfl, rfl⟩
    · exact Or.inr rfl
  · exact Or.inl ⟨_, rfl, rfl⟩


set_option hygiene false in
macro "finish_act" : tactic => `(tactic| (all_goals nomore; all_goals first | exact Or.inl ⟨_, rfl, rfl⟩ | exact point_ok _ _ _ _))

/-- `S' -> input` -/
theorem act_ok_0 : ∀ c, childrenOK ["input"] c = true → ActGood "S'" (actI 0 c) := by
  intro c hc
  all_goals child
  finish_act

/-- `input -> expr` -/
theorem act_ok_1 : ∀ c, childrenOK ["expr"] c = true → ActGood "input" (actI 1 c) := by
  intro c hc
  all_goals child
  finish_act

/-- `input -> empty` -/
theorem act_ok_2 : ∀ c, childrenOK ["empty"] c = true → ActGood "input" (actI 2 c) := by
  intro c hc
  all_goals child
  finish_act

/-- `empty -> ε` -/
theorem act_ok_3 : ∀ c, childrenOK [] c = true → ActGood "empty" (actI 3 c) := by
  intro c hc
  finish_act

/-- `expr -> expr OR expr` -/
theorem act_ok_4 : ∀ c, childrenOK ["expr", "OR", "expr"] c = true → ActGood "expr" (actI 4 c) := by
  intro c hc
  all_goals child
  all_goals child
  all_goals child
  finish_act

/-- `expr -> expr AND expr` -/
theorem act_ok_5 : ∀ c, childrenOK ["expr", "AND", "expr"] c = true → ActGood "expr" (actI 5 c) := by
  intro c hc
  all_goals child
  all_goals child
  all_goals child
  finish_act

/-- `expr -> NOT expr` -/
theorem act_ok_6 : ∀ c, childrenOK ["NOT", "expr"] c = true → ActGood "expr" (actI 6 c) := by
  intro c hc
  all_goals child
  all_goals child
  finish_act

/-- `expr -> bool_primary` -/
theorem act_ok_7 : ∀ c, childrenOK ["bool_primary"] c = true → ActGood "expr" (actI 7 c) := by
  intro c hc
  all_goals child
  finish_act

/-- `bool_primary -> bool_primary EQ predicate` -/
theorem act_ok_8 : ∀ c, childrenOK ["bool_primary", "EQ", "predicate"] c = true → ActGood "bool_primary" (actI 8 c) := by
  intro c hc
  all_goals child
  all_goals child
  all_goals child
  finish_act

/-- `bool_primary -> bool_primary NE predicate` -/
theorem act_ok_9 : ∀ c, childrenOK ["bool_primary", "NE", "predicate"] c = true → ActGood "bool_primary" (actI 9 c) := by
  intro c hc
  all_goals child
  all_goals child
  all_goals child
  finish_act

/-- `bool_primary -> bool_primary LT predicate` -/
theorem act_ok_10 : ∀ c, childrenOK ["bool_primary", "LT", "predicate"] c = true → ActGood "bool_primary" (actI 10 c) := by
  intro c hc
  all_goals child
  all_goals child
  all_goals child
  finish_act

/-- `bool_primary -> bool_primary LE predicate` -/
theorem act_ok_11 : ∀ c, childrenOK ["bool_primary", "LE", "predicate"] c = true → ActGood "bool_primary" (actI 11 c) := by
  intro c hc
  all_goals child
  all_goals child
  all_goals child
  finish_act

/-- `bool_primary -> bool_primary GE predicate` -/
theorem act_ok_12 : ∀ c, childrenOK ["bool_primary", "GE", "predicate"] c = true → ActGood "bool_primary" (actI 12 c) := by
  intro c hc
  all_goals child
  all_goals child
  all_goals child
  finish_act

/-- `bool_primary -> bool_primary GT predicate` -/
theorem act_ok_13 : ∀ c, childrenOK ["bool_primary", "GT", "predicate"] c = true → ActGood "bool_primary" (actI 13 c) := by
  intro c hc
  all_goals child
  all_goals child
  all_goals child
  finish_act

/-- `bool_primary -> bool_primary OVERLAPS predicate` -/
theorem act_ok_14 : ∀ c, childrenOK ["bool_primary", "OVERLAPS", "predicate"] c = true → ActGood "bool_primary" (actI 14 c) := by
  intro c hc
  all_goals child
  all_goals child
  all_goals child
  finish_act

/-- `bool_primary -> predicate` -/
theorem act_ok_15 : ∀ c, childrenOK ["predicate"] c = true → ActGood "bool_primary" (actI 15 c) := by
  intro c hc
  all_goals child
  finish_act

/-- `predicate -> bit_expr IN LPAREN literal_or_id_list RPAREN` -/
theorem act_ok_16 : ∀ c, childrenOK ["bit_expr", "IN", "LPAREN", "literal_or_id_list", "RPAREN"] c = true → ActGood "predicate" (actI 16 c) := by
  intro c hc
  all_goals child
  all_goals child
  all_goals child
  all_goals child
  all_goals child
  finish_act

/-- `predicate -> bit_expr NOT IN LPAREN literal_or_id_list RPAREN` -/
theorem act_ok_17 : ∀ c, childrenOK ["bit_expr", "NOT", "IN", "LPAREN", "literal_or_id_list", "RPAREN"] c = true → ActGood "predicate" (actI 17 c) := by
  intro c hc
  all_goals child
  all_goals child
  all_goals child
  all_goals child
  all_goals child
  all_goals child
  finish_act

/-- `predicate -> bit_expr` -/
theorem act_ok_18 : ∀ c, childrenOK ["bit_expr"] c = true → ActGood "predicate" (actI 18 c) := by
  intro c hc
  all_goals child
  finish_act

/-- `identifier -> SIMPLE_IDENTIFIER` -/
theorem act_ok_19 : ∀ c, childrenOK ["SIMPLE_IDENTIFIER"] c = true → ActGood "identifier" (actI 19 c) := by
  intro c hc
  all_goals child
  finish_act

/-- `identifier -> QUALIFIED_IDENTIFIER` -/
theorem act_ok_20 : ∀ c, childrenOK ["QUALIFIED_IDENTIFIER"] c = true → ActGood "identifier" (actI 20 c) := by
  intro c hc
  all_goals child
  finish_act

/-- `literal_or_id_list -> literal_or_id_list COMMA literal` -/
theorem act_ok_21 : ∀ c, childrenOK ["literal_or_id_list", "COMMA", "literal"] c = true → ActGood "literal_or_id_list" (actI 21 c) := by
  intro c hc
  all_goals child
  all_goals child
  all_goals child
  finish_act

/-- `literal_or_id_list -> literal_or_id_list COMMA identifier` -/
theorem act_ok_22 : ∀ c, childrenOK ["literal_or_id_list", "COMMA", "identifier"] c = true → ActGood "literal_or_id_list" (actI 22 c) := by
  intro c hc
  all_goals child
  all_goals child
  all_goals child
  finish_act

/-- `literal_or_id_list -> literal_or_id_list COMMA bind_name` -/
theorem act_ok_23 : ∀ c, childrenOK ["literal_or_id_list", "COMMA", "bind_name"] c = true → ActGood "literal_or_id_list" (actI 23 c) := by
  intro c hc
  all_goals child
  all_goals child
  all_goals child
  finish_act

/-- `literal_or_id_list -> literal` -/
theorem act_ok_24 : ∀ c, childrenOK ["literal"] c = true → ActGood "literal_or_id_list" (actI 24 c) := by
  intro c hc
  all_goals child
  finish_act

/-- `literal_or_id_list -> identifier` -/
theorem act_ok_25 : ∀ c, childrenOK ["identifier"] c = true → ActGood "literal_or_id_list" (actI 25 c) := by
  intro c hc
  all_goals child
  finish_act

/-- `literal_or_id_list -> bind_name` -/
theorem act_ok_26 : ∀ c, childrenOK ["bind_name"] c = true → ActGood "literal_or_id_list" (actI 26 c) := by
  intro c hc
  all_goals child
  finish_act

/-- `bind_name -> BIND_NAME` -/
theorem act_ok_27 : ∀ c, childrenOK ["BIND_NAME"] c = true → ActGood "bind_name" (actI 27 c) := by
  intro c hc
  all_goals child
  finish_act

/-- `bit_expr -> bit_expr ADD bit_expr` -/
theorem act_ok_28 : ∀ c, childrenOK ["bit_expr", "ADD", "bit_expr"] c = true → ActGood "bit_expr" (actI 28 c) := by
  intro c hc
  all_goals child
  all_goals child
  all_goals child
  finish_act

/-- `bit_expr -> bit_expr SUB bit_expr` -/
theorem act_ok_29 : ∀ c, childrenOK ["bit_expr", "SUB", "bit_expr"] c = true → ActGood "bit_expr" (actI 29 c) := by
  intro c hc
  all_goals child
  all_goals child
  all_goals child
  finish_act

/-- `bit_expr -> bit_expr MUL bit_expr` -/
theorem act_ok_30 : ∀ c, childrenOK ["bit_expr", "MUL", "bit_expr"] c = true → ActGood "bit_expr" (actI 30 c) := by
  intro c hc
  all_goals child
  all_goals child
  all_goals child
  finish_act

/-- `bit_expr -> bit_expr DIV bit_expr` -/
theorem act_ok_31 : ∀ c, childrenOK ["bit_expr", "DIV", "bit_expr"] c = true → ActGood "bit_expr" (actI 31 c) := by
  intro c hc
  all_goals child
  all_goals child
  all_goals child
  finish_act

/-- `bit_expr -> bit_expr MOD bit_expr` -/
theorem act_ok_32 : ∀ c, childrenOK ["bit_expr", "MOD", "bit_expr"] c = true → ActGood "bit_expr" (actI 32 c) := by
  intro c hc
  all_goals child
  all_goals child
  all_goals child
  finish_act

/-- `bit_expr -> simple_expr` -/
theorem act_ok_33 : ∀ c, childrenOK ["simple_expr"] c = true → ActGood "bit_expr" (actI 33 c) := by
  intro c hc
  all_goals child
  finish_act

/-- `simple_expr -> literal` -/
theorem act_ok_34 : ∀ c, childrenOK ["literal"] c = true → ActGood "simple_expr" (actI 34 c) := by
  intro c hc
  all_goals child
  finish_act

/-- `simple_expr -> identifier` -/
theorem act_ok_35 : ∀ c, childrenOK ["identifier"] c = true → ActGood "simple_expr" (actI 35 c) := by
  intro c hc
  all_goals child
  finish_act

/-- `simple_expr -> bind_name` -/
theorem act_ok_36 : ∀ c, childrenOK ["bind_name"] c = true → ActGood "simple_expr" (actI 36 c) := by
  intro c hc
  all_goals child
  finish_act

/-- `simple_expr -> function_call` -/
theorem act_ok_37 : ∀ c, childrenOK ["function_call"] c = true → ActGood "simple_expr" (actI 37 c) := by
  intro c hc
  all_goals child
  finish_act

/-- `simple_expr -> ADD simple_expr` -/
theorem act_ok_38 : ∀ c, childrenOK ["ADD", "simple_expr"] c = true → ActGood "simple_expr" (actI 38 c) := by
  intro c hc
  all_goals child
  all_goals child
  finish_act

/-- `simple_expr -> SUB simple_expr` -/
theorem act_ok_39 : ∀ c, childrenOK ["SUB", "simple_expr"] c = true → ActGood "simple_expr" (actI 39 c) := by
  intro c hc
  all_goals child
  all_goals child
  finish_act

/-- `simple_expr -> LPAREN expr RPAREN` -/
theorem act_ok_40 : ∀ c, childrenOK ["LPAREN", "expr", "RPAREN"] c = true → ActGood "simple_expr" (actI 40 c) := by
  intro c hc
  all_goals child
  all_goals child
  all_goals child
  finish_act

/-- `simple_expr -> LPAREN expr COMMA expr RPAREN` -/
theorem act_ok_41 : ∀ c, childrenOK ["LPAREN", "expr", "COMMA", "expr", "RPAREN"] c = true → ActGood "simple_expr" (actI 41 c) := by
  intro c hc
  all_goals child
  all_goals child
  all_goals child
  all_goals child
  all_goals child
  finish_act

/-- `literal -> NUMERIC_LITERAL` -/
theorem act_ok_42 : ∀ c, childrenOK ["NUMERIC_LITERAL"] c = true → ActGood "literal" (actI 42 c) := by
  intro c hc
  all_goals child
  finish_act

/-- `literal -> ADD NUMERIC_LITERAL` -/
theorem act_ok_43 : ∀ c, childrenOK ["ADD", "NUMERIC_LITERAL"] c = true → ActGood "literal" (actI 43 c) := by
  intro c hc
  all_goals child
  all_goals child
  finish_act

/-- `literal -> SUB NUMERIC_LITERAL` -/
theorem act_ok_44 : ∀ c, childrenOK ["SUB", "NUMERIC_LITERAL"] c = true → ActGood "literal" (actI 44 c) := by
  intro c hc
  all_goals child
  all_goals child
  finish_act

/-- `literal -> STRING_LITERAL` -/
theorem act_ok_45 : ∀ c, childrenOK ["STRING_LITERAL"] c = true → ActGood "literal" (actI 45 c) := by
  intro c hc
  all_goals child
  finish_act

/-- `literal -> TIME_LITERAL` -/
theorem act_ok_46 : ∀ c, childrenOK ["TIME_LITERAL"] c = true → ActGood "literal" (actI 46 c) := by
  intro c hc
  all_goals child
  finish_act

/-- `literal -> RANGE_LITERAL` -/
theorem act_ok_47 : ∀ c, childrenOK ["RANGE_LITERAL"] c = true → ActGood "literal" (actI 47 c) := by
  intro c hc
  all_goals child
  finish_act

/-- `function_call -> SIMPLE_IDENTIFIER LPAREN expr_list RPAREN` -/
theorem act_ok_48 : ∀ c, childrenOK ["SIMPLE_IDENTIFIER", "LPAREN", "expr_list", "RPAREN"] c = true → ActGood "function_call" (actI 48 c) := by
  intro c hc
  all_goals child
  all_goals child
  all_goals child
  all_goals child
  finish_act

/-- `expr_list -> expr_list COMMA expr` -/
theorem act_ok_49 : ∀ c, childrenOK ["expr_list", "COMMA", "expr"] c = true → ActGood "expr_list" (actI 49 c) := by
  intro c hc
  all_goals child
  all_goals child
  all_goals child
  finish_act

/-- `expr_list -> expr` -/
theorem act_ok_50 : ∀ c, childrenOK ["expr"] c = true → ActGood "expr_list" (actI 50 c) := by
  intro c hc
  all_goals child
  finish_act

/-- `expr_list -> empty` -/
theorem act_ok_51 : ∀ c, childrenOK ["empty"] c = true → ActGood "expr_list" (actI 51 c) := by
  intro c hc
  all_goals child
  finish_act

/-- Every semantic action, applied to children whose shapes are those of the production's right-hand
side, yields a value of the shape of the left-hand side — or the `ValueError` of `POINT`. -/
theorem act_ok {p : Nat} {text lhs : String} {len : Nat} {rhs : List String}
    (h : prodInfo p = some (text, lhs, len, rhs)) (c : List Val) (hc : childrenOK rhs c = true) :
    ActGood lhs (actI p c) := by
  match p, h with

  | 0, h =>
    have e : prodInfo 0 = some ("S' -> input", "S'", 1, ["input"]) := by decide
    rw [e] at h; simp only [Option.some.injEq, Prod.mk.injEq] at h
    obtain ⟨_, rfl, _, rfl⟩ := h; exact act_ok_0 c hc

  | 1, h =>
    have e : prodInfo 1 = some ("input -> expr", "input", 1, ["expr"]) := by decide
    rw [e] at h; simp only [Option.some.injEq, Prod.mk.injEq] at h
    obtain ⟨_, rfl, _, rfl⟩ := h; exact act_ok_1 c hc

  | 2, h =>
    have e : prodInfo 2 = some ("input -> empty", "input", 1, ["empty"]) := by decide
    rw [e] at h; simp only [Option.some.injEq, Prod.mk.injEq] at h
    obtain ⟨_, rfl, _, rfl⟩ := h; exact act_ok_2 c hc

  | 3, h =>
    have e : prodInfo 3 = some ("empty -> <empty>", "empty", 0, []) := by decide
    rw [e] at h; simp only [Option.some.injEq, Prod.mk.injEq] at h
    obtain ⟨_, rfl, _, rfl⟩ := h; exact act_ok_3 c hc

  | 4, h =>
    have e : prodInfo 4 = some ("expr -> expr OR expr", "expr", 3, ["expr", "OR", "expr"]) := by decide
    rw [e] at h; simp only [Option.some.injEq, Prod.mk.injEq] at h
    obtain ⟨_, rfl, _, rfl⟩ := h; exact act_ok_4 c hc

  | 5, h =>
    have e : prodInfo 5 = some ("expr -> expr AND expr", "expr", 3, ["expr", "AND", "expr"]) := by decide
    rw [e] at h; simp only [Option.some.injEq, Prod.mk.injEq] at h
    obtain ⟨_, rfl, _, rfl⟩ := h; exact act_ok_5 c hc

  | 6, h =>
    have e : prodInfo 6 = some ("expr -> NOT expr", "expr", 2, ["NOT", "expr"]) := by decide
    rw [e] at h; simp only [Option.some.injEq, Prod.mk.injEq] at h
    obtain ⟨_, rfl, _, rfl⟩ := h; exact act_ok_6 c hc

  | 7, h =>
    have e : prodInfo 7 = some ("expr -> bool_primary", "expr", 1, ["bool_primary"]) := by decide
    rw [e] at h; simp only [Option.some.injEq, Prod.mk.injEq] at h
    obtain ⟨_, rfl, _, rfl⟩ := h; exact act_ok_7 c hc

  | 8, h =>
    have e : prodInfo 8 = some ("bool_primary -> bool_primary EQ predicate", "bool_primary", 3, ["bool_primary", "EQ", "predicate"]) := by decide
    rw [e] at h; simp only [Option.some.injEq, Prod.mk.injEq] at h
    obtain ⟨_, rfl, _, rfl⟩ := h; exact act_ok_8 c hc

  | 9, h =>
    have e : prodInfo 9 = some ("bool_primary -> bool_primary NE predicate", "bool_primary", 3, ["bool_primary", "NE", "predicate"]) := by decide
    rw [e] at h; simp only [Option.some.injEq, Prod.mk.injEq] at h
    obtain ⟨_, rfl, _, rfl⟩ := h; exact act_ok_9 c hc

  | 10, h =>
    have e : prodInfo 10 = some ("bool_primary -> bool_primary LT predicate", "bool_primary", 3, ["bool_primary", "LT", "predicate"]) := by decide
    rw [e] at h; simp only [Option.some.injEq, Prod.mk.injEq] at h
    obtain ⟨_, rfl, _, rfl⟩ := h; exact act_ok_10 c hc

  | 11, h =>
    have e : prodInfo 11 = some ("bool_primary -> bool_primary LE predicate", "bool_primary", 3, ["bool_primary", "LE", "predicate"]) := by decide
    rw [e] at h; simp only [Option.some.injEq, Prod.mk.injEq] at h
    obtain ⟨_, rfl, _, rfl⟩ := h; exact act_ok_11 c hc

  | 12, h =>
    have e : prodInfo 12 = some ("bool_primary -> bool_primary GE predicate", "bool_primary", 3, ["bool_primary", "GE", "predicate"]) := by decide
    rw [e] at h; simp only [Option.some.injEq, Prod.mk.injEq] at h
    obtain ⟨_, rfl, _, rfl⟩ := h; exact act_ok_12 c hc

  | 13, h =>
    have e : prodInfo 13 = some ("bool_primary -> bool_primary GT predicate", "bool_primary", 3, ["bool_primary", "GT", "predicate"]) := by decide
    rw [e] at h; simp only [Option.some.injEq, Prod.mk.injEq] at h
    obtain ⟨_, rfl, _, rfl⟩ := h; exact act_ok_13 c hc

  | 14, h =>
    have e : prodInfo 14 = some ("bool_primary -> bool_primary OVERLAPS predicate", "bool_primary", 3, ["bool_primary", "OVERLAPS", "predicate"]) := by decide
    rw [e] at h; simp only [Option.some.injEq, Prod.mk.injEq] at h
    obtain ⟨_, rfl, _, rfl⟩ := h; exact act_ok_14 c hc

  | 15, h =>
    have e : prodInfo 15 = some ("bool_primary -> predicate", "bool_primary", 1, ["predicate"]) := by decide
    rw [e] at h; simp only [Option.some.injEq, Prod.mk.injEq] at h
    obtain ⟨_, rfl, _, rfl⟩ := h; exact act_ok_15 c hc

  | 16, h =>
    have e : prodInfo 16 = some ("predicate -> bit_expr IN LPAREN literal_or_id_list RPAREN", "predicate", 5, ["bit_expr", "IN", "LPAREN", "literal_or_id_list", "RPAREN"]) := by decide
    rw [e] at h; simp only [Option.some.injEq, Prod.mk.injEq] at h
    obtain ⟨_, rfl, _, rfl⟩ := h; exact act_ok_16 c hc

  | 17, h =>
    have e : prodInfo 17 = some ("predicate -> bit_expr NOT IN LPAREN literal_or_id_list RPAREN", "predicate", 6, ["bit_expr", "NOT", "IN", "LPAREN", "literal_or_id_list", "RPAREN"]) := by decide
    rw [e] at h; simp only [Option.some.injEq, Prod.mk.injEq] at h
    obtain ⟨_, rfl, _, rfl⟩ := h; exact act_ok_17 c hc

  | 18, h =>
    have e : prodInfo 18 = some ("predicate -> bit_expr", "predicate", 1, ["bit_expr"]) := by decide
    rw [e] at h; simp only [Option.some.injEq, Prod.mk.injEq] at h
    obtain ⟨_, rfl, _, rfl⟩ := h; exact act_ok_18 c hc

  | 19, h =>
    have e : prodInfo 19 = some ("identifier -> SIMPLE_IDENTIFIER", "identifier", 1, ["SIMPLE_IDENTIFIER"]) := by decide
    rw [e] at h; simp only [Option.some.injEq, Prod.mk.injEq] at h
    obtain ⟨_, rfl, _, rfl⟩ := h; exact act_ok_19 c hc

  | 20, h =>
    have e : prodInfo 20 = some ("identifier -> QUALIFIED_IDENTIFIER", "identifier", 1, ["QUALIFIED_IDENTIFIER"]) := by decide
    rw [e] at h; simp only [Option.some.injEq, Prod.mk.injEq] at h
    obtain ⟨_, rfl, _, rfl⟩ := h; exact act_ok_20 c hc

  | 21, h =>
    have e : prodInfo 21 = some ("literal_or_id_list -> literal_or_id_list COMMA literal", "literal_or_id_list", 3, ["literal_or_id_list", "COMMA", "literal"]) := by decide
    rw [e] at h; simp only [Option.some.injEq, Prod.mk.injEq] at h
    obtain ⟨_, rfl, _, rfl⟩ := h; exact act_ok_21 c hc

  | 22, h =>
    have e : prodInfo 22 = some ("literal_or_id_list -> literal_or_id_list COMMA identifier", "literal_or_id_list", 3, ["literal_or_id_list", "COMMA", "identifier"]) := by decide
    rw [e] at h; simp only [Option.some.injEq, Prod.mk.injEq] at h
    obtain ⟨_, rfl, _, rfl⟩ := h; exact act_ok_22 c hc

  | 23, h =>
    have e : prodInfo 23 = some ("literal_or_id_list -> literal_or_id_list COMMA bind_name", "literal_or_id_list", 3, ["literal_or_id_list", "COMMA", "bind_name"]) := by decide
    rw [e] at h; simp only [Option.some.injEq, Prod.mk.injEq] at h
    obtain ⟨_, rfl, _, rfl⟩ := h; exact act_ok_23 c hc

  | 24, h =>
    have e : prodInfo 24 = some ("literal_or_id_list -> literal", "literal_or_id_list", 1, ["literal"]) := by decide
    rw [e] at h; simp only [Option.some.injEq, Prod.mk.injEq] at h
    obtain ⟨_, rfl, _, rfl⟩ := h; exact act_ok_24 c hc

  | 25, h =>
    have e : prodInfo 25 = some ("literal_or_id_list -> identifier", "literal_or_id_list", 1, ["identifier"]) := by decide
    rw [e] at h; simp only [Option.some.injEq, Prod.mk.injEq] at h
    obtain ⟨_, rfl, _, rfl⟩ := h; exact act_ok_25 c hc

  | 26, h =>
    have e : prodInfo 26 = some ("literal_or_id_list -> bind_name", "literal_or_id_list", 1, ["bind_name"]) := by decide
    rw [e] at h; simp only [Option.some.injEq, Prod.mk.injEq] at h
    obtain ⟨_, rfl, _, rfl⟩ := h; exact act_ok_26 c hc

  | 27, h =>
    have e : prodInfo 27 = some ("bind_name -> BIND_NAME", "bind_name", 1, ["BIND_NAME"]) := by decide
    rw [e] at h; simp only [Option.some.injEq, Prod.mk.injEq] at h
    obtain ⟨_, rfl, _, rfl⟩ := h; exact act_ok_27 c hc

  | 28, h =>
    have e : prodInfo 28 = some ("bit_expr -> bit_expr ADD bit_expr", "bit_expr", 3, ["bit_expr", "ADD", "bit_expr"]) := by decide
    rw [e] at h; simp only [Option.some.injEq, Prod.mk.injEq] at h
    obtain ⟨_, rfl, _, rfl⟩ := h; exact act_ok_28 c hc

  | 29, h =>
    have e : prodInfo 29 = some ("bit_expr -> bit_expr SUB bit_expr", "bit_expr", 3, ["bit_expr", "SUB", "bit_expr"]) := by decide
    rw [e] at h; simp only [Option.some.injEq, Prod.mk.injEq] at h
    obtain ⟨_, rfl, _, rfl⟩ := h; exact act_ok_29 c hc

  | 30, h =>
    have e : prodInfo 30 = some ("bit_expr -> bit_expr MUL bit_expr", "bit_expr", 3, ["bit_expr", "MUL", "bit_expr"]) := by decide
    rw [e] at h; simp only [Option.some.injEq, Prod.mk.injEq] at h
    obtain ⟨_, rfl, _, rfl⟩ := h; exact act_ok_30 c hc

  | 31, h =>
    have e : prodInfo 31 = some ("bit_expr -> bit_expr DIV bit_expr", "bit_expr", 3, ["bit_expr", "DIV", "bit_expr"]) := by decide
    rw [e] at h; simp only [Option.some.injEq, Prod.mk.injEq] at h
    obtain ⟨_, rfl, _, rfl⟩ := h; exact act_ok_31 c hc

  | 32, h =>
    have e : prodInfo 32 = some ("bit_expr -> bit_expr MOD bit_expr", "bit_expr", 3, ["bit_expr", "MOD", "bit_expr"]) := by decide
    rw [e] at h; simp only [Option.some.injEq, Prod.mk.injEq] at h
    obtain ⟨_, rfl, _, rfl⟩ := h; exact act_ok_32 c hc

  | 33, h =>
    have e : prodInfo 33 = some ("bit_expr -> simple_expr", "bit_expr", 1, ["simple_expr"]) := by decide
    rw [e] at h; simp only [Option.some.injEq, Prod.mk.injEq] at h
    obtain ⟨_, rfl, _, rfl⟩ := h; exact act_ok_33 c hc

  | 34, h =>
    have e : prodInfo 34 = some ("simple_expr -> literal", "simple_expr", 1, ["literal"]) := by decide
    rw [e] at h; simp only [Option.some.injEq, Prod.mk.injEq] at h
    obtain ⟨_, rfl, _, rfl⟩ := h; exact act_ok_34 c hc

  | 35, h =>
    have e : prodInfo 35 = some ("simple_expr -> identifier", "simple_expr", 1, ["identifier"]) := by decide
    rw [e] at h; simp only [Option.some.injEq, Prod.mk.injEq] at h
    obtain ⟨_, rfl, _, rfl⟩ := h; exact act_ok_35 c hc

  | 36, h =>
    have e : prodInfo 36 = some ("simple_expr -> bind_name", "simple_expr", 1, ["bind_name"]) := by decide
    rw [e] at h; simp only [Option.some.injEq, Prod.mk.injEq] at h
    obtain ⟨_, rfl, _, rfl⟩ := h; exact act_ok_36 c hc

  | 37, h =>
    have e : prodInfo 37 = some ("simple_expr -> function_call", "simple_expr", 1, ["function_call"]) := by decide
    rw [e] at h; simp only [Option.some.injEq, Prod.mk.injEq] at h
    obtain ⟨_, rfl, _, rfl⟩ := h; exact act_ok_37 c hc

  | 38, h =>
    have e : prodInfo 38 = some ("simple_expr -> ADD simple_expr", "simple_expr", 2, ["ADD", "simple_expr"]) := by decide
    rw [e] at h; simp only [Option.some.injEq, Prod.mk.injEq] at h
    obtain ⟨_, rfl, _, rfl⟩ := h; exact act_ok_38 c hc

  | 39, h =>
    have e : prodInfo 39 = some ("simple_expr -> SUB simple_expr", "simple_expr", 2, ["SUB", "simple_expr"]) := by decide
    rw [e] at h; simp only [Option.some.injEq, Prod.mk.injEq] at h
    obtain ⟨_, rfl, _, rfl⟩ := h; exact act_ok_39 c hc

  | 40, h =>
    have e : prodInfo 40 = some ("simple_expr -> LPAREN expr RPAREN", "simple_expr", 3, ["LPAREN", "expr", "RPAREN"]) := by decide
    rw [e] at h; simp only [Option.some.injEq, Prod.mk.injEq] at h
    obtain ⟨_, rfl, _, rfl⟩ := h; exact act_ok_40 c hc

  | 41, h =>
    have e : prodInfo 41 = some ("simple_expr -> LPAREN expr COMMA expr RPAREN", "simple_expr", 5, ["LPAREN", "expr", "COMMA", "expr", "RPAREN"]) := by decide
    rw [e] at h; simp only [Option.some.injEq, Prod.mk.injEq] at h
    obtain ⟨_, rfl, _, rfl⟩ := h; exact act_ok_41 c hc

  | 42, h =>
    have e : prodInfo 42 = some ("literal -> NUMERIC_LITERAL", "literal", 1, ["NUMERIC_LITERAL"]) := by decide
    rw [e] at h; simp only [Option.some.injEq, Prod.mk.injEq] at h
    obtain ⟨_, rfl, _, rfl⟩ := h; exact act_ok_42 c hc

  | 43, h =>
    have e : prodInfo 43 = some ("literal -> ADD NUMERIC_LITERAL", "literal", 2, ["ADD", "NUMERIC_LITERAL"]) := by decide
    rw [e] at h; simp only [Option.some.injEq, Prod.mk.injEq] at h
    obtain ⟨_, rfl, _, rfl⟩ := h; exact act_ok_43 c hc

  | 44, h =>
    have e : prodInfo 44 = some ("literal -> SUB NUMERIC_LITERAL", "literal", 2, ["SUB", "NUMERIC_LITERAL"]) := by decide
    rw [e] at h; simp only [Option.some.injEq, Prod.mk.injEq] at h
    obtain ⟨_, rfl, _, rfl⟩ := h; exact act_ok_44 c hc

  | 45, h =>
    have e : prodInfo 45 = some ("literal -> STRING_LITERAL", "literal", 1, ["STRING_LITERAL"]) := by decide
    rw [e] at h; simp only [Option.some.injEq, Prod.mk.injEq] at h
    obtain ⟨_, rfl, _, rfl⟩ := h; exact act_ok_45 c hc

  | 46, h =>
    have e : prodInfo 46 = some ("literal -> TIME_LITERAL", "literal", 1, ["TIME_LITERAL"]) := by decide
    rw [e] at h; simp only [Option.some.injEq, Prod.mk.injEq] at h
    obtain ⟨_, rfl, _, rfl⟩ := h; exact act_ok_46 c hc

  | 47, h =>
    have e : prodInfo 47 = some ("literal -> RANGE_LITERAL", "literal", 1, ["RANGE_LITERAL"]) := by decide
    rw [e] at h; simp only [Option.some.injEq, Prod.mk.injEq] at h
    obtain ⟨_, rfl, _, rfl⟩ := h; exact act_ok_47 c hc

  | 48, h =>
    have e : prodInfo 48 = some ("function_call -> SIMPLE_IDENTIFIER LPAREN expr_list RPAREN", "function_call", 4, ["SIMPLE_IDENTIFIER", "LPAREN", "expr_list", "RPAREN"]) := by decide
    rw [e] at h; simp only [Option.some.injEq, Prod.mk.injEq] at h
    obtain ⟨_, rfl, _, rfl⟩ := h; exact act_ok_48 c hc

  | 49, h =>
    have e : prodInfo 49 = some ("expr_list -> expr_list COMMA expr", "expr_list", 3, ["expr_list", "COMMA", "expr"]) := by decide
    rw [e] at h; simp only [Option.some.injEq, Prod.mk.injEq] at h
    obtain ⟨_, rfl, _, rfl⟩ := h; exact act_ok_49 c hc

  | 50, h =>
    have e : prodInfo 50 = some ("expr_list -> expr", "expr_list", 1, ["expr"]) := by decide
    rw [e] at h; simp only [Option.some.injEq, Prod.mk.injEq] at h
    obtain ⟨_, rfl, _, rfl⟩ := h; exact act_ok_50 c hc

  | 51, h =>
    have e : prodInfo 51 = some ("expr_list -> empty", "expr_list", 1, ["empty"]) := by decide
    rw [e] at h; simp only [Option.some.injEq, Prod.mk.injEq] at h
    obtain ⟨_, rfl, _, rfl⟩ := h; exact act_ok_51 c hc

  | n + 52, h =>
    have : prodInfo (n + 52) = none := by
      unfold prodInfo
      have : Gen.Grammar.productions[n + 52]? = none := by
        rw [List.getElem?_eq_none_iff]; have : Gen.Grammar.productions.length = 52 := by decide
        omega
      rw [this]
    rw [this] at h; simp at h


/-! ### one reduction keeps the invariant -/

theorem prodInfo_prod {p : Nat} {text lhs : String} {len : Nat} {rhs : List String}
    (h : prodInfo p = some (text, lhs, len, rhs)) : Gen.Grammar.productions[p]? = some (text, lhs, len) := by
  unfold prodInfo at h
  split at h
  · rename_i t l n r h1 h2
    simp only [Option.some.injEq, Prod.mk.injEq] at h
    obtain ⟨rfl, rfl, rfl, rfl⟩ := h
    exact h1
  · simp at h

theorem reduce_good (hcons : edgesConsistent = true) (hstart : startHasNoPred = true)
    {ps : PState} {st p : Nat} (hG : Good ps.states ps.vals)
    (hs : ps.states.head? = some st) (hr : reduceOK st p = true) :
    (∃ ps', reduce ps p = .ok ps' ∧ Good ps'.states ps'.vals) ∨ reduce ps p = .error .value := by
  unfold reduceOK at hr
  cases hpi : prodInfo p with
  | none => simp [hpi] at hr
  | some info =>
    obtain ⟨text, lhs, len, rhs⟩ := info
    simp only [hpi, Bool.and_eq_true, beq_iff_eq, List.all_eq_true] at hr
    obtain ⟨hlen, hall⟩ := hr
    obtain ⟨s, ss, hst, hmem⟩ := hG.back_mem hstart len
    have hs' : s = st := by rw [hst] at hs; simpa using hs
    subst hs'
    have h3 := hall _ hmem
    simp only [Bool.and_eq_true, beq_iff_eq] at h3
    obtain ⟨⟨hmiss, hsyms⟩, hgoto⟩ := h3
    have hle : len ≤ ps.vals.length := by omega
    have hmin : min len ps.vals.length = len := by omega
    rw [hmin] at hsyms hgoto
    rw [List.take_take, Nat.min_eq_left (Nat.le_succ len)] at hsyms
    rw [List.getElem?_take_of_lt (Nat.lt_succ_self len)] at hgoto
    -- the origin state and its goto entry
    cases ho : ps.states[len]? with
    | none => simp [ho] at hgoto
    | some o =>
      simp only [ho] at hgoto
      cases hg : gotoOf o lhs with
      | none => simp [hg] at hgoto
      | some st' =>
        -- children have the shapes of the right-hand side
        have hk := hG.kinds hcons len hle
        have hk' := childrenOK_reverse hk
        rw [← List.map_reverse] at hk'
        have hrev : ((List.take len ps.states).map symOf).reverse = rhs := by
          rw [hsyms]; simp
        rw [List.map_reverse] at hk'
        rw [hrev] at hk'
        have hact := act_ok hpi _ hk'
        have hprod := prodInfo_prod hpi
        have hdrop : (ps.states.drop len).head? = some o := by rw [List.head?_drop]; exact ho
        rcases hact with ⟨v, hv, hkv⟩ | herr
        · left
          refine ⟨{ ps with states := st' :: ps.states.drop len, vals := v :: ps.vals.drop len }, ?_, ?_⟩
          · simp only [reduce, hprod, hv, hdrop, hg]
          · have hgd := hG.drop len hle
            cases hd : ps.states.drop len with
            | nil => rw [hd] at hdrop; simp at hdrop
            | cons o' rest =>
              rw [hd] at hdrop hgd
              have : o' = o := by simpa using hdrop
              subst this
              exact .push hgd (goto_edge hg) hkv
        · right
          simp only [reduce, hprod, herr]


/-! ### the lexer's fuel is enough -/

theorem span_snd_length (p : Char → Bool) : ∀ s : List Char, (span p s).2.length ≤ s.length
  | [] => by simp [span]
  | c :: cs => by
    simp only [span]
    split
    · have := span_snd_length p cs
      simp only [List.length_cons]; omega
    · simp

theorem step_skip_shorter {s r : List Char} (h : step s = .skip r) : r.length < s.length := by
  unfold step at h
  split at h
  · simp at h
  · rename_i c cs
    split at h
    · simp at h; subst h; simp
    · split at h
      · rename_i hc
        simp only [Step.skip.injEq] at h
        subst h
        have hc' : c = '\n' := by simpa using hc
        subst hc'
        simp only [span, beq_self_eq_true, if_true]
        have := span_snd_length (fun x => x == '\n') cs
        simp only [List.length_cons]; omega
      · split at h <;> simp at h

theorem nextTok_error : ∀ (fuel : Nat) (s : List Char) (e : Err), s.length < fuel → nextTok fuel s = .error e → e = .lex
  | 0, _, _, h, _ => by omega
  | fuel + 1, s, e, hlt, h => by
    simp only [nextTok] at h
    split at h
    · simp at h
    · simp at h; exact h.symm
    · rename_i r hr
      have := step_skip_shorter hr
      exact nextTok_error fuel r e (by omega) h
    · simp at h


/-! ### the driver never gets stuck -/

/-- What a caller of the parser may see: a value of the shape of `input` (a tree, or nothing for an
empty expression), one of the four user-facing errors, or — in the model only — exhausted fuel. -/
def Documented : Except Err Val → Prop
  | .ok v => kindOK "input" v = true
  | .error .lex => True
  | .error .parse => True
  | .error .eof => True
  | .error .value => True
  | .error (.internal m) => m = "parser fuel"

structure TablesOK : Prop where
  cons : edgesConsistent = true
  start : startHasNoPred = true
  reds : reducesOK = true
  acts : actionsOK = true

theorem reducePair_ok (T : TablesOK) {s p : Nat} (h : (s, p) ∈ reducePairs) : reduceOK s p = true := by
  have := T.reds
  unfold reducesOK at this
  rw [List.all_eq_true] at this
  exact this _ h

theorem action_row_ok (T : TablesOK) {st : Nat} {la : String} {k n : Nat} (h : actionOf st la = some (k, n)) :
    kindOf la = .tok ∧ (k = 0 → la ≠ "$end") ∧ (k = 1 → reduceOK st n = true) ∧ (k ≠ 0 → k ≠ 1 → acceptOK st = true) := by
  obtain ⟨row, h1, h2⟩ := actionOf_mem h
  have := T.acts
  unfold actionsOK at this
  rw [List.all_eq_true] at this
  have h3 := this _ h1
  simp only [List.all_eq_true] at h3
  have h4 := h3 _ h2
  simp only [Bool.and_eq_true, Bool.or_eq_true, bne_iff_ne, ne_eq, beq_iff_eq, Bool.not_eq_true'] at h4
  obtain ⟨⟨⟨_, hk⟩, hend⟩, hacc⟩ := h4
  refine ⟨hk, ?_, ?_, ?_⟩
  · intro hk0; rcases hend with h | h
    · exact absurd hk0 h
    · exact h
  · intro hk1
    subst hk1
    apply reducePair_ok T
    unfold reducePairs
    rw [List.mem_eraseDups]
    apply List.mem_append_left
    rw [List.mem_flatMap]
    refine ⟨(st, row), h1, ?_⟩
    rw [List.mem_filterMap]
    exact ⟨(la, 1, n), h2, by simp⟩
  · intro h0 h1
    rcases hacc with (h | h) | h
    · exact absurd h h0
    · exact absurd h h1
    · exact h

theorem defaulted_ok (T : TablesOK) {st p : Nat} (h : defaultedOf st = some p) : reduceOK st p = true := by
  apply reducePair_ok T
  unfold reducePairs
  rw [List.mem_eraseDups]
  exact List.mem_append_right _ (defaultedOf_mem h)

theorem Good.head {st : List Nat} {vs : List Val} (h : Good st vs) : ∃ s, st.head? = some s := by
  cases h <;> simp

theorem run_documented (T : TablesOK) : ∀ (fuel : Nat) (ps : PState),
    Good ps.states ps.vals → Documented (run fuel ps)
  | 0, _, _ => by simp [run, Documented]
  | fuel + 1, ps, hG => by
    obtain ⟨st, hst⟩ := hG.head
    unfold run
    simp only [hst]
    split
    · -- a defaulted state: reduce without lookahead
      rename_i prodIdx hdef
      have hdef' : defaultedOf st = some prodIdx := by
        split at hdef
        · exact hdef
        · simp at hdef
      rcases reduce_good T.cons T.start hG hst (defaulted_ok T hdef') with ⟨ps', h1, h2⟩ | h1
      · rw [h1]; exact run_documented T fuel ps' h2
      · rw [h1]; simp [Documented]
    · -- fetch the lookahead
      split
      · rename_i e hf
        have he : e = .lex := by
          split at hf
          · simp at hf
          · exact nextTok_error _ _ e (Nat.lt_succ_self _) hf
        subst he; simp [Documented]
      · rename_i t rest hf
        split
        · -- no action: syntax error
          cases t <;> simp [Documented]
        · -- shift
          rename_i n hact
          obtain ⟨hk, hend, _, _⟩ := action_row_ok T hact
          apply run_documented T fuel
          cases hst' : ps.states with
          | nil => rw [hst'] at hst; simp at hst
          | cons s ss =>
            rw [hst'] at hst hG
            have : s = st := by simpa using hst
            subst this
            refine .push hG (shift_edge hact) ?_
            cases t with
            | none => exact absurd rfl (hend rfl)
            | some tok => simp [kindOK, hk]
        · -- reduce
          rename_i n hact
          obtain ⟨_, _, hred, _⟩ := action_row_ok T hact
          have hG' : Good ({ ps with la := some t, input := rest } : PState).states
              ({ ps with la := some t, input := rest } : PState).vals := hG
          rcases reduce_good T.cons T.start hG' hst (hred rfl) with ⟨ps', h1, h2⟩ | h1
          · rw [h1]; exact run_documented T fuel ps' h2
          · rw [h1]; simp [Documented]
        · -- accept
          rename_i k n hns hnr hact
          obtain ⟨_, _, _, hacc⟩ := action_row_ok T hact
          have hk0 : k ≠ 0 := fun h => hns h
          have hk1 : k ≠ 1 := fun h => hnr h
          have hao := hacc hk0 hk1
          unfold acceptOK at hao
          rw [List.all_eq_true] at hao
          obtain ⟨s, ss, hss, hmem⟩ := hG.back_mem T.start 1
          have hs' : s = st := by rw [hss] at hst; simpa using hst
          subst hs'
          have h3 := hao _ hmem
          simp only [Bool.and_eq_true, beq_iff_eq] at h3
          obtain ⟨hmiss, hsym⟩ := h3
          have hle : 1 ≤ ps.vals.length := by omega
          have hmin : min 1 ps.vals.length = 1 := by omega
          rw [hmin, List.take_take] at hsym
          have hk := hG.kinds T.cons 1 hle
          simp only [Nat.min_self, Nat.reduceAdd] at hsym
          have hsym' : (List.take 1 ps.states).map symOf = ["input"] := by
            simpa using hsym
          rw [hsym'] at hk
          cases hv : ps.vals with
          | nil => rw [hv] at hle; simp at hle
          | cons v vs =>
            rw [hv] at hk
            simp only [List.take_succ_cons, List.take_zero, childrenOK, Bool.and_true] at hk
            simp [Documented, hk]

end LR
