import ButlerModel.Driver.C11
import ButlerModel.Driver.C15
import ButlerModel.Driver.C12
/-! Line-protocol driver: one request per line on stdin, one reply per line on stdout.
The first token selects the model. -/

def dispatch (line : String) : String :=
  let toks := (line.splitOn " ").filter (· ≠ "")
  match toks with
  | "ts" :: rest => Driver.C11.handle rest
  | "pred" :: rest => Driver.C15.handle rest
  | "dim" :: rest => Driver.C12.handle rest
  | _ => "bad-op"

partial def loop (h : IO.FS.Stream) (out : IO.FS.Stream) : IO Unit := do
  let line ← h.getLine
  if line.isEmpty then return ()
  let l := if line.endsWith "\n" then (line.dropEnd 1).toString else line
  out.putStrLn (dispatch l)
  loop h out

def main : IO Unit := do
  let out ← IO.getStdout
  loop (← IO.getStdin) out
  out.flush
