import ButlerModel.Driver.C11
import ButlerModel.Driver.C15
import ButlerModel.Driver.C12
import ButlerModel.Driver.C04
import ButlerModel.Driver.C03
import ButlerModel.Driver.C17
import ButlerModel.Driver.C14
import ButlerModel.Driver.C16
import ButlerModel.Driver.C18
import ButlerModel.Driver.C13
import ButlerModel.Driver.C02
import ButlerModel.Driver.C10
import ButlerModel.Driver.C07
import ButlerModel.Driver.C09
import ButlerModel.Driver.C01
import ButlerModel.Driver.C08
import ButlerModel.Driver.C19
import ButlerModel.Driver.C20
import ButlerModel.Driver.C05
import ButlerModel.Driver.C06
import ButlerModel.Driver.C17r
import ButlerModel.Driver.C06s
import ButlerModel.Driver.C13f
import ButlerModel.Driver.C10m
/-! Line-protocol driver: one request per line on stdin, one reply per line on stdout.
The first token selects the model; stateful models keep their state in `DState`. -/

structure DState where
  cal : Calib.State := []
  ch : Driver.C03.St := {}
  cache : Driver.C17.St := {}
  page : Driver.C16.St := {}
  did : Driver.C13.St := {}
  reg : Registry.St := {}
  repo : Registry.Repo := {}
  art : Artifacts.S := {}
  store : Store.S := {}
  crash : Driver.C08.St := {}
  xfer : Transfer.Repo := {}
  rc : RegCache.S := {}
  sp : Driver.C06s.St := {}
  fr : Driver.C13f.St := {}

def step (st : DState) (line : String) : DState × String :=
  let toks := (line.splitOn " ").filter (· ≠ "")
  match toks with
  | "ts" :: rest => (st, Driver.C11.handle rest)
  | "pred" :: rest => (st, Driver.C15.handle rest)
  | "dim" :: rest => (st, Driver.C12.handle rest)
  | "expr" :: rest => (st, Driver.C14.handle rest)
  | "cfg" :: rest => (st, Driver.C18.handle rest)
  | "jn" :: rest => (st, Driver.C06.handle rest)
  | "ev" :: rest => (st, Driver.C05.handle rest)
  | "conc" :: rest => (st, Driver.C20.handle rest)
  | "txn" :: rest => (st, Driver.C07.handle rest)
  | "txc" :: rest => (st, Driver.C07c.handle rest)
  | "cal" :: rest => let (c, out) := Driver.C04.handle st.cal rest; ({ st with cal := c }, out)
  | "ch" :: rest => let (c, out) := Driver.C03.handle st.ch rest; ({ st with ch := c }, out)
  | "cache" :: rest => let (c, out) := Driver.C17.handle st.cache rest; ({ st with cache := c }, out)
  | "page" :: rest => let (c, out) := Driver.C16.handle st.page rest; ({ st with page := c }, out)
  | "did" :: rest => let (c, out) := Driver.C13.handle st.did rest; ({ st with did := c }, out)
  | "reg" :: rest => let (c, out) := Driver.C02.handle st.reg rest; ({ st with reg := c }, out)
  | "path" :: rest => (st, Driver.C09.handlePath rest)
  | "rc" :: rest => let (c, out) := Driver.C17r.handle st.rc rest; ({ st with rc := c }, out)
  | "sp" :: rest => let (c, out) := Driver.C06s.handle st.sp rest; ({ st with sp := c }, out)
  | "mx" :: rest => (st, Driver.C10m.handle rest)
  | "fr" :: rest => let (c, out) := Driver.C13f.handle st.fr rest; ({ st with fr := c }, out)
  | "xfer" :: rest => let (c, out) := Driver.C19.handle st.xfer rest; ({ st with xfer := c }, out)
  | "crash" :: rest => let (c, out) := Driver.C08.handle st.crash rest; ({ st with crash := c }, out)
  | "st" :: rest => let (c, out) := Driver.C01.handle st.store rest; ({ st with store := c }, out)
  | "art" :: rest => let (c, out) := Driver.C09.handle st.art rest; ({ st with art := c }, out)
  | "repo" :: rest => let (c, out) := Driver.C10.handle st.repo rest; ({ st with repo := c }, out)
  | _ => (st, "bad-op")

partial def loop (h : IO.FS.Stream) (out : IO.FS.Stream) (st : DState) : IO Unit := do
  let line ← h.getLine
  if line.isEmpty then return ()
  let l := if line.endsWith "\n" then (line.dropEnd 1).toString else line
  let (st', reply) := step st l
  out.putStrLn reply
  loop h out st'

def main : IO Unit := do
  let out ← IO.getStdout
  loop (← IO.getStdin) out {}
  out.flush
