import ButlerModel.Props.C03
import ButlerModel.Props.C04
import ButlerModel.Props.C11
import ButlerModel.Props.C12
import ButlerModel.Props.C14
import ButlerModel.Props.C15
import ButlerModel.Props.C16
import ButlerModel.Props.C17
