import ButlerModel.Props.C11
