"""./check <PROP> [--tier quick|thorough] [--replay FILE]"""
from __future__ import annotations

import argparse
import importlib
import json
import os
import sys
import traceback

from . import core


def main() -> int:
    ap = argparse.ArgumentParser()
    ap.add_argument("prop")
    ap.add_argument("--tier", default=os.environ.get("VERIF_TIER", "quick"), choices=["quick", "thorough"])
    ap.add_argument("--replay")
    a = ap.parse_args()
    seed = int(os.environ.get("VERIF_SEED", "0") or 0)
    ctx = core.Ctx(prop=a.prop, tier=a.tier, seed=seed)
    mod = importlib.import_module(f"checks.{a.prop.lower()}")
    if a.replay:
        content = json.load(open(a.replay))
        return mod.replay(ctx, content)
    try:
        mod.run(ctx)
    except Exception as e:
        traceback.print_exc()
        tb = traceback.extract_tb(e.__traceback__)
        in_repo = [f for f in tb if f.filename.startswith(core.REPO + "/")]
        if in_repo and not isinstance(e, (MemoryError, KeyboardInterrupt)):
            # the implementation itself blew up while being driven: the correspondence is broken
            f = in_repo[-1]
            ctx.broken.append(
                f"correspondence: implementation raised {type(e).__name__}: {str(e)[:200]} at "
                f"{os.path.relpath(f.filename, core.REPO)}:{f.lineno} ({f.name}) while being driven by the harness"
            )
            return core.finish(ctx, level=getattr(mod, "LEVEL", "proof"))
        # an internal failure of the machinery is not a verdict: exit 2
        print(f"[{a.prop}] INTERNAL ERROR of the check machinery: {type(e).__name__}: {e}", file=sys.stderr)
        return 2
    return core.finish(ctx, level=getattr(mod, "LEVEL", "proof"))


if __name__ == "__main__":
    sys.exit(main())
