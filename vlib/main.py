"""./check <PROP> [--tier quick|thorough] [--replay FILE]"""
from __future__ import annotations

import argparse
import importlib
import json
import os
import sys
import traceback

from . import core


def main() -> int:
    ap = argparse.ArgumentParser()
    ap.add_argument("prop")
    ap.add_argument("--tier", default=os.environ.get("VERIF_TIER", "quick"), choices=["quick", "thorough"])
    ap.add_argument("--replay")
    a = ap.parse_args()
    seed = int(os.environ.get("VERIF_SEED", "0") or 0)
    ctx = core.Ctx(prop=a.prop, tier=a.tier, seed=seed)
    mod = importlib.import_module(f"checks.{a.prop.lower()}")
    if a.replay:
        content = json.load(open(a.replay))
        return mod.replay(ctx, content)
    # Watchdog: a check that does not come back is reported, not waited for.  If the time runs out while the implementation is
    # being driven (frames under the repository on the stack) that is a broken correspondence — the implementation no longer
    # answers — otherwise an internal error (exit 2).
    import signal

    class _Timeout(BaseException):
        pass

    limit = int(os.environ.get("VERIF_TIMEOUT", "1500" if a.tier == "quick" else "14400"))

    def _alarm(signum, frame):
        raise _Timeout(f"no result after {limit} s")

    signal.signal(signal.SIGALRM, _alarm)
    signal.alarm(limit)
    try:
        mod.run(ctx)
        signal.alarm(0)
    except _Timeout as e:
        tb = traceback.extract_tb(e.__traceback__)
        in_repo = [f for f in tb if f.filename.startswith(core.REPO + "/")]
        if in_repo:
            f = in_repo[-1]
            ctx.broken.append(f"correspondence: the implementation did not return ({e}) at "
                              f"{os.path.relpath(f.filename, core.REPO)}:{f.lineno} ({f.name}) while being driven by the harness")
            return core.finish(ctx, level=getattr(mod, "LEVEL", "proof"))
        print(f"[{a.prop}] TIMEOUT of the check machinery: {e}", file=sys.stderr)
        return 2
    except Exception as e:
        signal.alarm(0)
        traceback.print_exc()
        tb = traceback.extract_tb(e.__traceback__)
        in_repo = [f for f in tb if f.filename.startswith(core.REPO + "/")]
        if in_repo and not isinstance(e, (MemoryError, KeyboardInterrupt)):
            # the implementation itself blew up while being driven: the correspondence is broken
            f = in_repo[-1]
            ctx.broken.append(
                f"correspondence: implementation raised {type(e).__name__}: {str(e)[:200]} at "
                f"{os.path.relpath(f.filename, core.REPO)}:{f.lineno} ({f.name}) while being driven by the harness"
            )
            return core.finish(ctx, level=getattr(mod, "LEVEL", "proof"))
        # an internal failure of the machinery is not a verdict: exit 2
        print(f"[{a.prop}] INTERNAL ERROR of the check machinery: {type(e).__name__}: {e}", file=sys.stderr)
        return 2
    return core.finish(ctx, level=getattr(mod, "LEVEL", "proof"))


if __name__ == "__main__":
    sys.exit(main())
