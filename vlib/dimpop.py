"""Seeded populations of the default dimension universe (used by C06)."""
from __future__ import annotations

import itertools


def box(lon0, lat0, lon1, lat1):
    from lsst import sphgeom

    pts = [(lon0, lat0), (lon1, lat0), (lon1, lat1), (lon0, lat1)]
    return sphgeom.ConvexPolygon([sphgeom.UnitVector3d(sphgeom.LonLat.fromDegrees(lo, la)) for lo, la in pts])


def generate(rng, small=True):
    """Returns {element: [record dict, ...]} with foreign keys consistent; regions as (lon0, lat0, lon1, lat1) tuples."""
    pop = {k: [] for k in ("instrument", "skymap", "day_obs", "detector", "group", "physical_filter", "subfilter", "tract", "visit_system",
                           "exposure", "patch", "visit", "visit_definition", "visit_detector_region", "visit_system_membership")}
    bands = ["g", "r", "i"]
    used_bands = set()
    for inst in ("I1", "I2")[: rng.choice([1, 2, 2])]:
        pop["instrument"].append({"name": inst})
        pfs = []
        for j in range(rng.randint(1, 3)):
            band = rng.choice(bands)
            used_bands.add(band)
            pfs.append(f"{inst}-f{j}")
            pop["physical_filter"].append({"instrument": inst, "name": pfs[-1], "band": band})
        dets = list(range(1, rng.randint(2, 4)))
        for d in dets:
            pop["detector"].append({"instrument": inst, "id": d, "full_name": f"d{d}"})
        days = [20250101 + j for j in range(rng.randint(1, 2))]
        for d in days:
            pop["day_obs"].append({"instrument": inst, "id": d})
        groups = [f"g{j}" for j in range(rng.randint(1, 3))]
        for g in groups:
            pop["group"].append({"instrument": inst, "name": g})
        exps = []
        for j in range(rng.randint(0, 4)):
            exps.append(100 + j)
            pop["exposure"].append({"instrument": inst, "id": exps[-1], "obs_id": f"{inst}-e{j}", "physical_filter": rng.choice(pfs),
                                    "day_obs": rng.choice(days), "group": rng.choice(groups)})
        systems = list(range(rng.randint(0, 2)))
        for s in systems:
            pop["visit_system"].append({"instrument": inst, "id": s, "name": f"vs{s}"})
        for j in range(rng.randint(0, 4)):
            v = 10 + j
            lon0, lat0 = rng.choice([0, 2, 4, 6]), rng.choice([0, 2, 4])
            w, h = rng.choice([2, 4]), rng.choice([2, 4])
            reg = (lon0, lat0, lon0 + w, lat0 + h)
            pop["visit"].append({"instrument": inst, "id": v, "name": f"{inst}-v{j}", "physical_filter": rng.choice(pfs), "day_obs": rng.choice(days),
                                 "region": reg if rng.random() < 0.9 else None})
            if rng.random() < 0.45:
                # stored as a lon/lat box, shrunk so that it lies strictly inside its cell (no touching edges, where a box and a
                # great-circle polygon with the same corners differ)
                pop["visit"][-1]["shape"] = "box"
                if pop["visit"][-1]["region"] is not None:
                    pop["visit"][-1]["region"] = (lon0 + 0.3, lat0 + 0.3, lon0 + w - 0.3, lat0 + h - 0.3)
            for e in exps:
                if rng.random() < 0.4:
                    pop["visit_definition"].append({"instrument": inst, "visit": v, "exposure": e})
            for s in systems:
                if rng.random() < 0.6:
                    pop["visit_system_membership"].append({"instrument": inst, "visit": v, "visit_system": s})
            for d in dets:
                if rng.random() < 0.7 and reg is not None:
                    # a detector covers one half of the visit footprint
                    half = (lon0, lat0, lon0 + w / 2, lat0 + h) if d % 2 else (lon0 + w / 2, lat0, lon0 + w, lat0 + h)
                    pop["visit_detector_region"].append({"instrument": inst, "visit": v, "detector": d, "region": half})
    for b in sorted(used_bands):
        for j in range(rng.randint(0, 2)):
            pop["subfilter"].append({"band": b, "id": j})
    if rng.random() < 0.6:
        # a subfilter whose band no physical_filter has (nothing forbids it: `band` has no table, so there is no foreign key)
        pop["subfilter"].append({"band": rng.choice(["z"] + sorted(set(bands) - used_bands)), "id": rng.choice([0, 5])})
    for sm in ("S1", "S2")[: rng.choice([1, 1, 2])]:
        pop["skymap"].append({"name": sm, "hash": sm.encode() * 4, "tract_max": 10, "patch_nx_max": 4, "patch_ny_max": 4})
        for t in range(rng.randint(1, 3)):
            lon0, lat0 = rng.choice([0, 2, 4, 8]), rng.choice([0, 2, 6])
            reg = (lon0, lat0, lon0 + 4, lat0 + 4)
            pop["tract"].append({"skymap": sm, "id": t, "region": reg})
            for p in range(rng.randint(0, 2)):
                sub = (lon0 + 2 * p, lat0, lon0 + 2 * p + 2, lat0 + 4)
                pop["patch"].append({"skymap": sm, "tract": t, "id": p, "cell_x": p, "cell_y": 0, "region": sub})
    return pop


def region_of(rec):
    """The region object a record is stored with: a great-circle polygon, or (shape='box') a lon/lat sphgeom.Box."""
    from lsst import sphgeom

    r = rec.get("region")
    if r is None:
        return None
    if rec.get("shape") == "box":
        return sphgeom.Box.fromDegrees(*r)
    return box(*r)


def materialise(rec):
    out = dict(rec)
    if "region" in out:
        out["region"] = region_of(rec)
    out.pop("shape", None)
    return out


ORDER = ["instrument", "skymap", "day_obs", "detector", "group", "physical_filter", "subfilter", "tract", "visit_system", "exposure", "patch", "visit",
         "visit_definition", "visit_detector_region", "visit_system_membership"]


def insert_all(butler, pop, rng=None, mode="insert"):
    """mode: insert (in dependency order), shuffled (records of each element shuffled), sync (one by one through syncDimensionData),
    replace (regions first inserted displaced, then corrected with replace=True / sync update=True)."""
    reg = butler.registry
    for el in ORDER:
        recs = list(pop[el])
        if rng is not None and mode in ("shuffled", "sync", "replace", "null-sync"):
            rng.shuffle(recs)
        if not recs:
            continue
        if mode == "sync":
            for r in recs:
                reg.syncDimensionData(el, materialise(r))
        elif mode == "null-sync" and any("region" in r for r in recs):
            # first stored without a region, then given one through syncDimensionData(update=True)
            reg.insertDimensionData(el, *[materialise({**r, "region": None}) for r in recs])
            for r in recs:
                if r.get("region") is not None:
                    reg.syncDimensionData(el, materialise(r), update=True)
        elif mode == "replace" and el in ("visit_definition", "visit_system_membership"):
            # key-only membership tables written with replace=True although nothing is there yet
            reg.insertDimensionData(el, *[materialise(r) for r in recs], replace=True)
        elif mode == "replace" and any("region" in r for r in recs):
            wrong = []
            for r in recs:
                w = dict(r)
                if w.get("region") is not None:
                    lon0, lat0, lon1, lat1 = w["region"]
                    w["region"] = (lon0 + 40, lat0, lon1 + 40, lat1)  # far away
                wrong.append(materialise(w))
            reg.insertDimensionData(el, *wrong)
            half = len(recs) // 2
            if recs[:half]:
                reg.insertDimensionData(el, *[materialise(r) for r in recs[:half]], replace=True)
            for r in recs[half:]:
                reg.syncDimensionData(el, materialise(r), update=True)
        else:
            reg.insertDimensionData(el, *[materialise(r) for r in recs])
