"""Helpers to create and populate scratch repositories with the real Butler (SQLite + file datastore)."""
from __future__ import annotations

import logging
import os
import warnings

from . import core

warnings.filterwarnings("ignore")
logging.disable(logging.WARNING)


class Scratch:
    """A scratch directory outside /repo and /verif, removed on exit."""

    def __init__(self, prefix="verif-"):
        self.prefix = prefix

    def __enter__(self):
        self.path = core.scratch_dir(self.prefix)
        os.environ["DAF_BUTLER_CACHE_DIRECTORY"] = os.path.join(self.path, "_cache")
        return self.path

    def __exit__(self, *a):
        core.rmtree(self.path)


def make_butler(path: str, run: str | None = None, **kw):
    from lsst.daf.butler import Butler

    if not os.path.exists(os.path.join(path, "butler.yaml")):
        Butler.makeRepo(path)
    return Butler.from_config(path, writeable=True, run=run, **kw)


def basic_dimensions(butler, instrument="I", detectors=(1, 2, 3), filters=(("f", "r"),)):
    reg = butler.registry
    reg.insertDimensionData("instrument", {"name": instrument})
    for d in detectors:
        reg.insertDimensionData("detector", {"instrument": instrument, "id": d, "full_name": f"d{d}"})
    for f, band in filters:
        reg.insertDimensionData("physical_filter", {"instrument": instrument, "name": f, "band": band})
