"""Shared machinery for every property check (see DESIGN.md §2.3).

A property module `checks/cXX.py` exposes `run(ctx)`; this file provides
 * regeneration + Lean build with error → theorem attribution,
 * the audit (forbidden-token grep, `#print axioms` for every property theorem),
 * the model driver (line protocol over `lake env lean --run Driver.lean`),
 * evidence writing, violation / known-finding reporting.
"""
from __future__ import annotations

import fcntl
import hashlib
import json
import os
import random
import re
import shutil
import subprocess
import sys
import tempfile
import time
from dataclasses import dataclass, field

VERIF = os.path.dirname(os.path.dirname(os.path.abspath(__file__)))
REPO = os.environ.get("VERIF_REPO", "/repo")
LEAN_DIR = os.path.join(VERIF, "lean", "ButlerModel")
GEN_DIR = os.path.join(LEAN_DIR, "ButlerModel", "Gen")
PROPS_DIR = os.path.join(LEAN_DIR, "ButlerModel", "Props")
EVIDENCE_DIR = os.path.join(VERIF, "evidence")
REPLAY_DIR = os.path.join(VERIF, "replays")
KNOWN_FILE = os.path.join(VERIF, "known_findings.json")
ALLOWED_AXIOMS = {"propext", "Classical.choice", "Quot.sound"}
FORBIDDEN = re.compile(r"\bsorry\b|\badmit\b|^\s*axiom\s|native_decide|bv_decide|implemented_by|\bunsafe\s|maxHeartbeats\s+0\b", re.M)

os.environ.setdefault("LSST_DAF_BUTLER_VERIF", "1")


class Lock:
    """Serialise regeneration + lake builds between concurrently running checks."""

    def __init__(self, name: str = "lean"):
        self.path = os.path.join(LEAN_DIR, f".{name}.lock")

    def __enter__(self):
        self.f = open(self.path, "w")
        fcntl.flock(self.f, fcntl.LOCK_EX)
        return self

    def __exit__(self, *a):
        fcntl.flock(self.f, fcntl.LOCK_UN)
        self.f.close()


@dataclass
class Violation:
    what: str  # one line
    key: str  # canonical witness key, matched against known_findings.json
    replay: dict  # content of the replay file
    found_input: bool = True


@dataclass
class Ctx:
    prop: str
    tier: str
    seed: int
    t0: float = field(default_factory=time.time)
    obligations: list[str] = field(default_factory=list)
    discharged: list[str] = field(default_factory=list)
    not_proved: list[str] = field(default_factory=list)
    axioms: dict = field(default_factory=dict)
    evaluations: int = 0
    nontrivial: set = field(default_factory=set)
    hist: dict = field(default_factory=dict)
    samples: list = field(default_factory=list)
    violations: list[Violation] = field(default_factory=list)
    known_hit: list[str] = field(default_factory=list)
    broken: list[str] = field(default_factory=list)  # names of ties / obligations that no longer check
    notes: list[str] = field(default_factory=list)
    extra: dict = field(default_factory=dict)
    rule: str = ""
    assumptions: list[str] = field(default_factory=list)
    trusted: list[str] = field(default_factory=list)
    exhaustive: bool | None = None

    @property
    def rng(self) -> random.Random:
        if not hasattr(self, "_rng"):
            self._rng = random.Random(f"{self.prop}-{self.seed}")
        return self._rng

    def count(self, key: str, n: int = 1):
        self.hist[key] = self.hist.get(key, 0) + n

    def sample(self, s, cap: int = 8):
        if len(self.samples) < cap:
            self.samples.append(s)

    def quick(self) -> bool:
        return self.tier == "quick"


# --------------------------------------------------------------------------- Lean


def run(cmd, cwd=None, inp=None, timeout=None, env=None):
    p = subprocess.run(cmd, cwd=cwd, input=inp, capture_output=True, text=True, timeout=timeout, env=env)
    return p.returncode, p.stdout, p.stderr


def theorem_spans(path: str) -> list[tuple[int, int, str]]:
    """[(first_line, last_line, theorem name)] for a Lean source file."""
    lines = open(path).read().split("\n")
    starts = []
    for i, l in enumerate(lines, 1):
        m = re.match(r"\s*(?:private\s+|protected\s+)?(theorem|lemma|example|def|instance|abbrev)\s+([^\s:({\[]+)?", l)
        if m and not l.startswith(" "):
            starts.append((i, m.group(1), m.group(2) or "<anon>"))
    spans = []
    for k, (ln, kind, name) in enumerate(starts):
        end = starts[k + 1][0] - 1 if k + 1 < len(starts) else len(lines)
        spans.append((ln, end, f"{kind} {name}"))
    return spans


def property_theorems(prop: str) -> list[str]:
    """Fully qualified names of the theorems in Props/<prop>.lean."""
    path = os.path.join(PROPS_DIR, f"{prop}.lean")
    src = open(path).read()
    ns = []
    names = []
    for l in src.split("\n"):
        m = re.match(r"namespace\s+(\S+)", l)
        if m:
            ns.append(m.group(1))
            continue
        m = re.match(r"end\s+(\S+)", l)
        if m and ns and ns[-1] == m.group(1):
            ns.pop()
            continue
        m = re.match(r"(?:private\s+|protected\s+)?theorem\s+([^\s:({\[]+)", l)
        if m:
            names.append(".".join(ns + [m.group(1)]))
    return names


def lean_build(ctx: Ctx, targets: list[str]) -> bool:
    """`lake build <targets>`; on failure records the theorems that no longer check."""
    rc, out, err = run(["lake", "build"] + targets, cwd=LEAN_DIR, timeout=3000)
    if rc == 0:
        return True
    text = out + err
    broken = set()
    for m in re.finditer(r"error: (\S+?\.lean):(\d+):(\d+): (.*)", text):
        f, ln, msg = m.group(1), int(m.group(2)), m.group(4)
        path = f if os.path.isabs(f) else os.path.join(LEAN_DIR, f)
        where = f"{os.path.relpath(path, LEAN_DIR)}:{ln}"
        try:
            for a, b, name in theorem_spans(path):
                if a <= ln <= b:
                    where = f"{os.path.relpath(path, LEAN_DIR)}: {name} (line {ln})"
                    break
        except OSError:
            pass
        broken.add(f"{where}: {msg[:160]}")
    if not broken:
        broken.add("lake build failed: " + text[-400:].replace("\n", " | "))
    ctx.broken.extend(sorted(broken))
    ctx.extra["lean_build_log_tail"] = text[-3000:]
    return False


def strip_comments(src: str) -> str:
    src = re.sub(r"/-.*?-/", "", src, flags=re.S)
    src = re.sub(r"--.*", "", src)
    return src


def lean_audit(ctx: Ctx, modules: list[str]) -> bool:
    """Forbidden-token grep over the whole library + `#print axioms` of every property theorem."""
    ok = True
    for root, _, files in os.walk(os.path.join(LEAN_DIR, "ButlerModel")):
        for f in files:
            if f.endswith(".lean"):
                p = os.path.join(root, f)
                m = FORBIDDEN.search(strip_comments(open(p).read()))
                if m:
                    ctx.broken.append(f"audit: forbidden token {m.group(0)!r} in {os.path.relpath(p, LEAN_DIR)}")
                    ok = False
    thms = property_theorems(ctx.prop)
    ctx.obligations = list(thms)
    audit = "import ButlerModel.Props.%s\n" % ctx.prop + "".join(f"#print axioms {t}\n" for t in thms)
    apath = os.path.join(LEAN_DIR, f".audit_{ctx.prop}.lean")
    open(apath, "w").write(audit)
    rc, out, err = run(["lake", "env", "lean", apath], cwd=LEAN_DIR, timeout=1200)
    os.remove(apath)
    text = out + err
    # parse: "'C11.foo' depends on axioms: [propext, Quot.sound]"  or "... does not depend on any axioms"
    seen = {}
    for m in re.finditer(r"'([^']+)' (?:depends on axioms: \[([^\]]*)\]|does not depend on any axioms)", text, flags=re.S):
        axs = [a.strip() for a in (m.group(2) or "").replace("\n", " ").split(",") if a.strip()]
        seen[m.group(1)] = axs
    for t in thms:
        if t not in seen:
            ctx.broken.append(f"audit: no axiom report for {t}")
            ok = False
            continue
        bad = [a for a in seen[t] if a not in ALLOWED_AXIOMS]
        if bad:
            ctx.broken.append(f"audit: {t} depends on non-standard axioms {bad}")
            ok = False
        else:
            ctx.discharged.append(t)
    ctx.axioms = {t: seen.get(t) for t in thms}
    if rc != 0 and ok:
        ctx.broken.append("audit: lean exited non-zero: " + text[-300:])
        ok = False
    return ok


def leanchecker(ctx: Ctx, modules: list[str]) -> bool:
    rc, out, err = run(["lake", "env", "leanchecker"] + modules, cwd=LEAN_DIR, timeout=3000)
    ctx.extra["leanchecker"] = {"modules": modules, "rc": rc, "tail": (out + err)[-300:]}
    if rc != 0:
        ctx.broken.append("leanchecker rejected " + ",".join(modules))
    return rc == 0


def driver(lines: list[str], timeout: int = 1800) -> list[str]:
    """Run the Lean model driver on request lines; one reply line per request."""
    inp = "\n".join(lines) + "\n"
    exe = os.path.join(LEAN_DIR, ".lake", "build", "bin", "driver")
    if os.path.exists(exe) and os.environ.get("VERIF_DRIVER_INTERP") != "1":
        cmd = [exe]
    else:
        cmd = ["lake", "env", "lean", "--run", "Driver.lean"]
    rc, out, err = run(cmd, cwd=LEAN_DIR, inp=inp, timeout=timeout)
    if rc != 0:
        raise RuntimeError(f"model driver failed rc={rc}: {err[-500:]} {out[-200:]}")
    res = out.split("\n")
    if res and res[-1] == "":
        res.pop()
    if len(res) != len(lines):
        raise RuntimeError(f"model driver returned {len(res)} lines for {len(lines)} requests: {err[-300:]}")
    return res


# --------------------------------------------------------------------------- reporting


def load_known() -> list[dict]:
    if os.path.exists(KNOWN_FILE):
        return json.load(open(KNOWN_FILE))["findings"]
    return []


def write_replay(prop: str, content: dict) -> str:
    os.makedirs(REPLAY_DIR, exist_ok=True)
    blob = json.dumps(content, indent=1, sort_keys=True, default=str)
    h = hashlib.sha256(blob.encode()).hexdigest()[:12]
    path = os.path.join(REPLAY_DIR, f"{prop}-{h}.json")
    open(path, "w").write(blob)
    return path


def finish(ctx: Ctx, level: str = "proof", checker_cmd: str = "") -> int:
    """Write evidence, print VIOLATION / KNOWN-FINDING lines, return the exit code."""
    known = [k for k in load_known() if k["property"] == ctx.prop and k.get("status") == "known"]
    known_keys = {k["key"]: k for k in known}
    unlisted = []
    for v in ctx.violations:
        if v.key in known_keys:
            if v.key not in ctx.known_hit:
                ctx.known_hit.append(v.key)
        else:
            unlisted.append(v)
    for k in ctx.known_hit:
        print(f"KNOWN-FINDING: property={ctx.prop} {known_keys[k]['what']}")
    rc = 0
    # a broken obligation / tie with no concrete failing input is still a violation
    if ctx.broken and not unlisted:
        replay = write_replay(ctx.prop, {
            "property": ctx.prop, "kind": "broken-obligation", "no_failing_input_found": True,
            "broken": ctx.broken, "notes": ctx.notes, "lean_log_tail": ctx.extra.get("lean_build_log_tail", ""),
        })
        print(f"VIOLATION property={ctx.prop} replay={replay} no-failing-input-found")
        rc = 1
    for v in unlisted[:5]:
        content = dict(v.replay)
        content.update({"property": ctx.prop, "what": v.what, "key": v.key, "broken": ctx.broken})
        replay = write_replay(ctx.prop, content)
        print(f"# {v.what}")
        print(f"VIOLATION property={ctx.prop} replay={replay}" + ("" if v.found_input else " no-failing-input-found"))
        rc = 1
    n_obl = len(ctx.obligations)
    cov = {
        "obligations": n_obl,
        "discharged": len(ctx.discharged),
        "checker_cmd": checker_cmd or f"cd lean/ButlerModel && lake build ButlerModel.Props.{ctx.prop} && lake env lean <audit: #print axioms of every theorem in Props/{ctx.prop}.lean>",
        "trusted_base": ctx.trusted or [
            "Lean 4.33.0 kernel", "axioms: propext, Classical.choice, Quot.sound (audited per theorem)",
        ],
        "theorems": ctx.obligations,
        "not_proved": ctx.not_proved,
        "evaluations": ctx.evaluations,
        "distinct_nontrivial": len(ctx.nontrivial),
        "rule": ctx.rule,
        "samples": ctx.samples or ["(none)"],
        "histogram": ctx.hist,
        "broken": ctx.broken,
        "known_findings_reproduced": ctx.known_hit,
        "notes": ctx.notes,
    }
    if n_obl == 0 or not ctx.discharged:
        # nothing discharged (build / translation broke): the proof-level keys would be invalid (minimum 1);
        # report them under other names and let the exploration-style counts carry the evidence
        try:
            cov["obligations_total"] = len(property_theorems(ctx.prop))
        except OSError:
            cov["obligations_total"] = 0
        cov["discharged_count"] = 0
        del cov["obligations"], cov["discharged"]
        cov["evaluations"] = max(cov["evaluations"], 1)
    if ctx.exhaustive is not None:
        cov["exhaustive"] = ctx.exhaustive
    cov.update({k: v for k, v in ctx.extra.items() if k != "lean_build_log_tail"})
    ev = {
        "property_id": ctx.prop,
        "tier": ctx.tier,
        "seed": ctx.seed,
        "level": level,
        "coverage": cov,
        "assumptions": ctx.assumptions,
        "wall_s": round(time.time() - ctx.t0, 2),
        "violations": len(unlisted) + (1 if (ctx.broken and not unlisted) else 0),
    }
    os.makedirs(EVIDENCE_DIR, exist_ok=True)
    tmp = os.path.join(EVIDENCE_DIR, f".{ctx.prop}.json.tmp")
    json.dump(ev, open(tmp, "w"), indent=1, default=str)
    os.replace(tmp, os.path.join(EVIDENCE_DIR, f"{ctx.prop}.json"))
    print(f"[{ctx.prop}] tier={ctx.tier} seed={ctx.seed} obligations={n_obl} discharged={len(ctx.discharged)} "
          f"evaluations={ctx.evaluations} nontrivial={len(ctx.nontrivial)} broken={len(ctx.broken)} "
          f"violations={ev['violations']} known={len(ctx.known_hit)} wall={ev['wall_s']}s")
    return rc


def scratch_dir(prefix: str = "verif-") -> str:
    base = os.environ.get("VERIF_SCRATCH") or tempfile.gettempdir()
    return tempfile.mkdtemp(prefix=prefix, dir=base)


def rmtree(p: str):
    shutil.rmtree(p, ignore_errors=True)
