"""The registry's own tables, read straight from the SQLite file (read-only connection): what the code wrote, as opposed to
what its query APIs answer.  Used by checks that tie a model's state to the implementation's durable state."""
from __future__ import annotations

import sqlite3


def snapshot(root: str) -> dict:
    con = sqlite3.connect(f"file:{root}/gen3.sqlite3?mode=ro", uri=True)
    try:
        coll = {cid: (name, typ) for cid, name, typ in con.execute("SELECT collection_id, name, type FROM collection")}
        types = {tid: (name, tags, calibs) for tid, name, tags, calibs in
                 con.execute("SELECT id, name, tag_association_table, calibration_association_table FROM dataset_type")}
        out = {"collections": {name: typ for name, typ in coll.values()},
               "datasets": {did: (types[tid][0], coll[rid][0]) for did, tid, rid in con.execute("SELECT id, dataset_type_id, run_id FROM dataset")
                            if tid in types and rid in coll},
               "dangling_datasets": [did for did, tid, rid in con.execute("SELECT id, dataset_type_id, run_id FROM dataset") if tid not in types or rid not in coll],
               "tags": set(), "calibs": set(), "summary_types": set(), "summary_instrument": set()}
        for table in sorted({t[1] for t in types.values() if t[1]}):
            for tid, did, cid in con.execute(f"SELECT dataset_type_id, dataset_id, collection_id FROM {table}"):
                out["tags"].add((coll.get(cid, (f"?{cid}",))[0], did, types.get(tid, (f"?{tid}",))[0]))
        for table in sorted({t[2] for t in types.values() if t[2]}):
            for tid, did, cid, b, e in con.execute(f"SELECT dataset_type_id, dataset_id, collection_id, timespan_begin, timespan_end FROM {table}"):
                out["calibs"].add((coll.get(cid, (f"?{cid}",))[0], did, types.get(tid, (f"?{tid}",))[0], b, e))
        for cid, tid in con.execute("SELECT collection_id, dataset_type_id FROM collection_summary_dataset_type"):
            out["summary_types"].add((coll.get(cid, (f"?{cid}",))[0], types.get(tid, (f"?{tid}",))[0]))
        for cid, inst in con.execute("SELECT collection_id, instrument FROM collection_summary_instrument"):
            out["summary_instrument"].add((coll.get(cid, (f"?{cid}",))[0], inst))
        return out
    finally:
        con.close()
