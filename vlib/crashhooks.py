"""Effect recorder / crash injector used inside a forked child process (C08).

Every durable effect the real code performs is reported as one *event*: a modifying SQL statement, BEGIN /
COMMIT / ROLLBACK, and the file primitives under lsst.resources (write, os.rename, os.link, os.remove,
shutil.copy / move).  Events are appended to a trace file (flushed) before they are executed.  With
`crash_at = k` the process exits hard (os._exit) immediately before event k is executed; with mode "mid" and
event k being a file write or copy, half of the bytes are written first.
"""
from __future__ import annotations

import json
import os
import shutil


class Hooks:
    def __init__(self, trace_path, crash_at=None, mode="before"):
        self.trace_path = trace_path
        self.crash_at = crash_at
        self.mode = mode
        self.n = 0
        self.active = False
        self.fh = open(trace_path, "a")

    def event(self, kind, **info):
        """Returns True when the caller should perform a half-done version of the effect and die."""
        if not self.active:
            return False
        self.n += 1
        rec = {"n": self.n, "kind": kind}
        rec.update(info)
        self.fh.write(json.dumps(rec, default=str) + "\n")
        self.fh.flush()
        os.fsync(self.fh.fileno())
        if self.crash_at is not None and self.n == self.crash_at:
            if self.mode == "mid" and kind in ("write", "copy"):
                return True
            os._exit(77)
        return False

    def die(self):
        os._exit(78)


def install(h: Hooks):
    import sqlalchemy
    from sqlalchemy import event
    from sqlalchemy.engine import Engine

    def before_cursor_execute(conn, cursor, statement, parameters, context, executemany):
        st = statement.lstrip()
        word = st.split(None, 1)[0].upper() if st else ""
        if word in ("INSERT", "UPDATE", "DELETE", "BEGIN", "SAVEPOINT", "RELEASE", "ROLLBACK", "REPLACE"):
            params = parameters if executemany else [parameters]
            flat = []
            for p in params:
                if isinstance(p, dict):
                    flat.append({k: str(v) for k, v in p.items()})
                else:
                    flat.append([str(v) for v in (p or [])])
            h.event("sql", statement=" ".join(st.split())[:300], params=flat[:50], db=str(conn.engine.url.database))

    event.listen(Engine, "before_cursor_execute", before_cursor_execute)
    event.listen(Engine, "commit", lambda conn: h.event("commit", db=str(conn.engine.url.database)))
    event.listen(Engine, "rollback", lambda conn: h.event("rollback", db=str(conn.engine.url.database)))

    real_rename, real_link, real_remove, real_unlink = os.rename, os.link, os.remove, os.unlink
    real_copy, real_move, real_copyfile = shutil.copy, shutil.move, shutil.copyfile

    def rename(a, b, *args, **kw):
        h.event("rename", src=str(a), dst=str(b))
        return real_rename(a, b, *args, **kw)

    def link(a, b, *args, **kw):
        h.event("link", src=str(a), dst=str(b))
        return real_link(a, b, *args, **kw)

    def remove(p, *args, **kw):
        h.event("remove", path=str(p))
        return real_remove(p, *args, **kw)

    def unlink(p, *args, **kw):
        h.event("remove", path=str(p))
        return real_unlink(p, *args, **kw)

    def copy(a, b, *args, **kw):
        if h.event("copy", src=str(a), dst=str(b), size=os.path.getsize(a)):
            with open(a, "rb") as fi, open(b, "wb") as fo:
                data = fi.read()
                fo.write(data[: max(1, len(data) // 2)])
                fo.flush()
            h.die()
        return real_copy(a, b, *args, **kw)

    def move(a, b, *args, **kw):
        h.event("rename", src=str(a), dst=str(b))
        was = h.active
        h.active = False  # shutil.move calls os.rename itself
        try:
            return real_move(a, b, *args, **kw)
        finally:
            h.active = was

    real_symlink = os.symlink

    def symlink(a, b, *args, **kw):
        h.event("link", src=str(a), dst=str(b), symbolic=True)
        return real_symlink(a, b, *args, **kw)

    os.symlink = symlink
    os.rename, os.link, os.remove, os.unlink = rename, link, remove, unlink
    shutil.copy, shutil.move = copy, move

    from lsst.resources.file import FileResourcePath

    real_write = FileResourcePath.write

    def write(self, data, overwrite=True):
        if h.event("write", path=self.ospath, size=len(data)):
            d = os.path.dirname(self.ospath)
            os.makedirs(d, exist_ok=True)
            with open(self.ospath, "wb") as fo:
                fo.write(data[: max(1, len(data) // 2)])
                fo.flush()
            h.die()
        return real_write(self, data, overwrite=overwrite)

    FileResourcePath.write = write
