"""Regenerate every Gen/*.lean from /repo's working tree:  python -m vlib.regen all"""
import importlib
import os
import sys

from . import core

GENERATORS = ["gen_timespan", "gen_universe", "gen_grammar", "gen_inrange", "gen_predicate", "gen_postprocessing", "gen_cache", "gen_decertify", "gen_chain", "gen_toggle", "gen_exists", "gen_config", "gen_dstxn", "gen_trash", "gen_standardize", "gen_template", "gen_sync", "gen_export", "gen_summary"]


def main():
    sys.path.insert(0, os.path.join(core.VERIF, "translate"))
    with core.Lock():
        for g in GENERATORS:
            m = importlib.import_module(g)
            m.generate(core.GEN_DIR)
            print("generated", g)


if __name__ == "__main__":
    main()
