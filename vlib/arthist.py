"""Histories over datasets that share artifacts (used by C09 and, for the existence reports, by C10).

A real Butler sits inside a sentinel area; a second repository produces zips.  Every operation is mirrored
to the Lean model `Artifacts` (C09 mode) and to the harness's own reference sets.
"""
from __future__ import annotations

import hashlib
import os
import sqlite3

from . import core, repo


def _listing(top, skip=None):
    out = {}
    for dp, ds, fs in os.walk(top):
        if skip:
            ds[:] = [d for d in ds if not os.path.abspath(os.path.join(dp, d)).startswith(skip)]
        for f in fs:
            p = os.path.join(dp, f)
            with open(p, "rb") as fh:
                out[os.path.relpath(p, top)] = hashlib.sha1(fh.read()).hexdigest()[:10]
    return out


def histories(ctx, model_ok, tmp, mode, trust=False):
    """`trust=True`: the datastore is configured with trust_get_request (it may guess locations of datasets it has no records
    for); the histories then also hold datasets without records — registered only, or stored and then forgotten — and removal
    calls mix them with recorded ones.  Those histories are decided by the reference-set oracle only (the model has no trust mode)."""
    from lsst.daf.butler import Butler, Config, DatasetExistence, DatasetRef, DatasetType, FileDataset

    rng = ctx.rng
    area = os.path.join(tmp, "area-trust" if trust else "area")
    root = os.path.join(area, "in", "repo")
    ext = os.path.join(area, "ext")
    os.makedirs(os.path.join(area, "in"))
    os.makedirs(ext)
    with open(os.path.join(area, "in", "sentinel.txt"), "w") as fh:
        fh.write("do not touch\n")
    N = 1500 if ctx.quick() else 60000
    n_hist = (40 if mode == "C09" else 10) if ctx.quick() else 250
    if trust:
        n_hist = 14 if ctx.quick() else 200

    def furnish(path, run):
        if trust:
            Butler.makeRepo(path, config=Config({"datastore": {"trust_get_request": True}}))
        bb = repo.make_butler(path, run=run)
        bb.registry.insertDimensionData("instrument", {"name": "I"})
        bb.registry.insertDimensionData("detector", *[{"instrument": "I", "id": i, "full_name": f"d{i}"} for i in range(1, N)])
        d = DatasetType("dt", {"instrument", "detector"}, "StructuredDataDict", universe=bb.dimensions)
        bb.registry.registerDatasetType(d)
        bb.registry.registerDatasetType(DatasetType("dt2", {"instrument", "detector"}, "StructuredDataDict", universe=bb.dimensions))
        return bb, d

    b, dt = furnish(root, "base")
    dt2 = b.get_dataset_type("dt2")
    if trust and not getattr(b._datastore, "trustGetRequest", False):
        ctx.broken.append("harness: the datastore is not in trust mode")
    src, _ = furnish(os.path.join(area, "src"), "base")
    absroot = os.path.abspath(root)
    req, impl = [], []

    def viol(what, key, replay):
        ctx.violations.append(core.Violation(what=what, key=key, replay=replay))

    nid = 0
    pathno = {}  # artifact path string (relative to root, or absolute for direct) -> number

    def pno(p):
        return pathno.setdefault(p, len(pathno) + 1)

    fmt = lambda s_: ",".join(map(str, sorted(s_))) or "-"  # noqa: E731

    for h in range(n_hist):
        runs = [f"h{h}a", f"h{h}b"]
        for r_ in runs:
            b.registry.registerRun(r_)
        if model_ok or True:
            req.append("art new"), impl.append("ok")
        refs, content, art, kind_of, run_of = {}, {}, {}, {}, {}
        live, trashed = set(), set()  # datastore's view: stored / moved to trash and not yet emptied
        orphan = set()  # trust mode: registered datasets the datastore has no records for (their artifact may or may not exist)
        registered = set()
        ext_files = {}  # path -> hash, files behind absolute URIs
        ops = []
        partial = False
        n_steps = rng.randint(10, 28)
        for step in range(n_steps):
            if nid + 8 >= N:
                break
            r = rng.random()
            line = None
            stored_now = sorted(live)
            r2 = rng.random()
            if stored_now and r2 < 0.07:
                # a batch that names an already stored dataset again, next to a new one, with a copying transfer: it must be
                # refused and must change nothing (in particular it must not replace or remove the stored artifact)
                cands = [i for i in stored_now if kind_of[i] == "plain"]
                if not cands:
                    continue
                d_old = rng.choice(cands)
                nid += 1
                i = nid
                how = rng.choice(["copy", "copy", "auto", "link", "move"])
                f_new, f_old = os.path.join(ext, f"again_new{i}.yaml"), os.path.join(ext, f"again_old{i}.yaml")
                for f_, n_ in ((f_new, i), (f_old, -i)):
                    with open(f_, "w") as fh:
                        fh.write(f"n: {n_}\n")
                batch = [FileDataset(path=f_new, refs=[DatasetRef(dt, {"instrument": "I", "detector": i}, run=run_of[d_old])]),
                         FileDataset(path=f_old, refs=[refs[d_old]])]
                if rng.random() < 0.5:
                    batch.reverse()
                try:
                    b.ingest(*batch, transfer=how)
                    refused = False
                except Exception:
                    refused = True
                ops.append(f"reingest-overlap-{how} new={i} stored={d_old}")
                ctx.count("reingest-overlap:" + ("refused" if refused else "accepted"))
                for f_ in (f_new, f_old):
                    if os.path.exists(f_):
                        os.remove(f_)
                    elif refused:
                        viol(f"a refused ingest({how}) removed its source file {os.path.basename(f_)}", f"reingest-src:{ops}", {"kind": "art-history", "ops": ops})
                if not refused:
                    viol(f"ingest({how}) of a batch naming the stored dataset {d_old} again was accepted", f"reingest-accepted:{ops}", {"kind": "art-history", "ops": ops})
                    break
                line = None
            elif stored_now and not trust and 0.07 <= r2 < 0.11:
                # storing again under the resolved ref of a dataset that is still stored (a retried task writing its predefined
                # output once more): must be refused, and the stored artifact must stay what and where it is
                cands = [i for i in stored_now if kind_of[i] in ("plain", "zip")]
                if not cands:
                    continue
                d_old = rng.choice(cands)
                try:
                    b.put({"n": -d_old}, refs[d_old])
                    refused = False
                except Exception:
                    refused = True
                ops.append(f"re-put stored={d_old}")
                ctx.count("re-put:" + ("refused" if refused else "accepted"))
                if not refused:
                    viol(f"put under the resolved ref of the stored dataset {d_old} was accepted", f"reput-accepted:{ops}", {"kind": "art-history", "ops": ops})
                    break
                line = None
            elif trust and r2 < 0.17:
                # a dataset the registry knows and the datastore has no records for
                nid += 1
                i = nid
                run = rng.choice(runs)
                rf = DatasetRef(dt, b.registry.expandDataId(instrument="I", detector=i), run=run)
                b.registry._importDatasets([rf])
                refs[i], content[i], art[i], kind_of[i], run_of[i] = rf, None, None, "none", run
                registered.add(i), orphan.add(i)
                line = None
                ops.append(f"register-only {i}")
            elif trust and r2 < 0.24 and [i for i in stored_now if kind_of[i] == "plain" and sum(1 for j in refs if art[j] == art[i]) == 1]:
                # stored, then forgotten: the artifact stays where the template puts it, the records are gone
                i = rng.choice([i for i in stored_now if kind_of[i] == "plain" and sum(1 for j in refs if art[j] == art[i]) == 1])
                b._datastore.forget([refs[i]])
                live.discard(i), orphan.add(i)
                kind_of[i] = "forgotten"
                line = None
                ops.append(f"forget {i}")
            elif r < 0.16 or not stored_now:
                nid += 1
                i = nid
                run = rng.choice(runs)
                refs[i] = b.put({"n": i}, dt, instrument="I", detector=i, run=run)
                content[i] = {"n": i}
                art[i] = os.path.relpath(b.getURI(refs[i]).ospath, absroot)
                kind_of[i], run_of[i] = "plain", run
                live.add(i), registered.add(i)
                line = f"art store {i} {pno(art[i])} plain"
                ops.append(f"put {i}")
            elif r < 0.32:
                k = rng.choice([1, 2, 2, 3])
                ids = list(range(nid + 1, nid + 1 + k))
                nid += k
                run = rng.choice(runs)
                how = rng.choice(["copy", "move"])
                srcf = os.path.join(ext, f"in{ids[0]}.yaml")
                with open(srcf, "w") as fh:
                    fh.write(f"n: {ids[0]}\n")
                rr = [DatasetRef(dt, {"instrument": "I", "detector": i}, run=run) for i in ids]
                if len(ids) >= 2 and rng.random() < 0.35:
                    # two datasets of *different dataset types* with one and the same data ID and run, in one file
                    rr[1] = DatasetRef(dt2, {"instrument": "I", "detector": ids[0]}, run=run)
                    ctx.count("shared-file-two-dataset-types")
                b.ingest(FileDataset(path=srcf, refs=rr), transfer=how)
                if how == "copy":
                    os.remove(srcf)
                elif os.path.exists(srcf):
                    viol(f"ingest(move) left the source file {srcf} in place", f"move-left:{ops}", {"kind": "art-history", "ops": ops})
                p = os.path.relpath(b.getURI(rr[0]).ospath, absroot)
                for i, rf in zip(ids, rr):
                    refs[i], content[i], art[i], kind_of[i], run_of[i] = rf, {"n": ids[0]}, p, "plain", run
                    live.add(i), registered.add(i)
                line = f"art store {','.join(map(str, ids))} {pno(p)} plain"
                ops.append(f"ingest-{how} {ids}")
            elif r < 0.36:
                # a file outside the root, named through the root ("<root>/../../ext/x.yaml"), ingested in place (transfer None /
                # auto) or with transfer="split": it is not below the root, so it must be refused or treated as not owned
                nid += 1
                i = nid
                run = rng.choice(runs)
                srcf = os.path.join(ext, f"sneak{i}.yaml")
                with open(srcf, "w") as fh:
                    fh.write(f"n: {i}\n")
                how = rng.choice(["split", "split", None, "auto"])
                spelled = f"file://{root}/../../ext/sneak{i}.yaml"
                rf = DatasetRef(dt, {"instrument": "I", "detector": i}, run=run)
                try:
                    b.ingest(FileDataset(path=spelled, refs=[rf]), transfer=how)
                    accepted = True
                except Exception:
                    accepted = False
                ops.append(f"ingest-{how}-through-root {'accepted' if accepted else 'refused'} [{i}]")
                ctx.count(f"ingest-through-root:{how}:{'accepted' if accepted else 'refused'}")
                if not accepted:
                    os.remove(srcf)
                    continue
                ext_files[srcf] = True
                refs[i], content[i], art[i], kind_of[i], run_of[i] = rf, {"n": i}, srcf, "direct", run
                live.add(i), registered.add(i)
                line = f"art store {i} {pno(srcf)} direct"
            elif r < 0.44:
                k = rng.choice([1, 2])
                ids = list(range(nid + 1, nid + 1 + k))
                nid += k
                run = rng.choice(runs)
                # the file the absolute URI points at lives outside the root, or — still not owned — in a directory below it
                where = ext if rng.random() < 0.5 else os.path.join(root, "archive")
                os.makedirs(where, exist_ok=True)
                srcf = os.path.join(where, f"direct{ids[0]}.yaml")
                with open(srcf, "w") as fh:
                    fh.write(f"n: {ids[0]}\n")
                rr = [DatasetRef(dt, {"instrument": "I", "detector": i}, run=run) for i in ids]
                b.ingest(FileDataset(path=srcf, refs=rr), transfer="direct")
                ext_files[srcf] = True
                for i, rf in zip(ids, rr):
                    refs[i], content[i], art[i], kind_of[i], run_of[i] = rf, {"n": ids[0]}, srcf, "direct", run
                    live.add(i), registered.add(i)
                line = f"art store {','.join(map(str, ids))} {pno(srcf)} direct"
                ops.append(f"ingest-direct {ids}")
            elif r < 0.58:
                k = rng.choice([2, 2, 3])
                ids = list(range(nid + 1, nid + 1 + k))
                nid += k
                run = rng.choice(runs)
                if run not in set(src.registry.queryCollections()):
                    src.registry.registerRun(run)
                rr = [src.put({"n": i}, dt, instrument="I", detector=i, run=run) for i in ids]
                z = src.retrieve_artifacts_zip(rr, ext)
                if not trust and rng.random() < 0.45:
                    # the zip is put below the root by the user, under a directory name of their choosing ('_', '#', blanks
                    # are all legal in file names), and ingested where it is: from then on it is an artifact like any other
                    import shutil as _sh

                    dname = rng.choice(["my_zips", "night#2", "a b", "x_y#z_1", "plain"])  # no "%": lsst.resources re-interprets it (outside daf_butler)
                    in_store = os.path.join(root, dname, f"bundle_{ids[0]}.zip")
                    os.makedirs(os.path.dirname(in_store), exist_ok=True)
                    _sh.move(z.ospath, in_store)
                    b.ingest_zip(in_store, transfer=None)
                    p = os.path.relpath(in_store, absroot)
                    ctx.count(f"zip-in-place:{dname}")
                else:
                    b.ingest_zip(z, transfer="copy")
                    os.remove(z.ospath)
                    p = os.path.relpath(b.getURI(rr[0]).ospath, absroot)
                for i, rf in zip(ids, rr):
                    refs[i], content[i], art[i], kind_of[i], run_of[i] = rf, {"n": i}, p, "zip", run
                    live.add(i), registered.add(i)
                line = f"art store {','.join(map(str, ids))} {pno(p)} zip"
                ops.append(f"ingest-zip {ids}")
            elif r < 0.80:
                # prune 1-3 stored datasets, preferably chosen across different artifacts and leaving siblings behind
                pool = stored_now + sorted(orphan)
                k = min(len(pool), rng.choice([1, 1, 2, 2, 3]) + (1 if orphan else 0))
                ids = rng.sample(pool, k)
                if orphan and not (set(ids) & orphan):
                    ids[0] = rng.choice(sorted(orphan))
                    ids = sorted(set(ids))
                purge = rng.random() < 0.6
                try:
                    if purge:
                        b.pruneDatasets([refs[i] for i in ids], purge=True, unstore=True, disassociate=True)
                    else:
                        b.pruneDatasets([refs[i] for i in ids], unstore=True, disassociate=False, purge=False)
                except Exception as e:
                    # a removal that is refused has removed nothing: the reference sets stay as they are and the observation
                    # below judges what is on disk against them
                    ops.append(f"{'purge' if purge else 'unstore'}-raised-{type(e).__name__} {ids}")
                    ctx.count("prune-raised")
                    ids = []
                    purge = False
                if purge:
                    registered.difference_update(ids)
                if trust and not purge:
                    # unstored, still registered: from now on a dataset the datastore has no records for; removing it again later
                    # (trust mode looks for a file where the template would put it) must not touch what others refer to
                    for i in set(ids) & live:
                        orphan.add(i)
                        kind_of[i] = "none"
                live.difference_update(ids)
                for i in set(ids) & orphan:
                    # a record-less dataset that is unstored has no artifact any more (trust mode removes the guessed file);
                    # when purged it is gone altogether
                    kind_of[i] = "none"
                    if purge:
                        orphan.discard(i)
                trashed.clear()
                if ids:
                    req.append(f"art trash {','.join(map(str, ids))}"), impl.append("ok")
                    ops.append(f"{'purge' if purge else 'unstore'} {ids}")
                line = "art empty"
            elif r < 0.86:
                ids = rng.sample(stored_now, min(len(stored_now), rng.choice([1, 2])))
                b._datastore.trash([refs[i] for i in ids])
                live.difference_update(ids)
                trashed.update(ids)
                line = f"art trash {','.join(map(str, ids))}"
                ops.append(f"trash {ids}")
            elif r < 0.92:
                b._datastore.emptyTrash()
                trashed.clear()
                line = "art empty"
                ops.append("emptyTrash")
            else:
                run = rng.choice(runs)
                ids = sorted(i for i in registered if run_of[i] == run)
                if trust and set(ids) - live - trashed:
                    # removeRuns looks its datasets up without dimension records, which a trusting datastore cannot format
                    continue
                if not trust and rng.random() < 0.35:
                    # the run is, for the moment, a child of a CHAINED collection: the registry refuses to remove it, the call
                    # fails as a whole — and must not have removed a single artifact
                    from lsst.daf.butler import CollectionType as _CT

                    holder = f"holds_{run}_{step}"
                    b.registry.registerCollection(holder, _CT.CHAINED)
                    b.registry.setCollectionChain(holder, [run])
                    try:
                        b.removeRuns([run], unstore=True)
                        refused = False
                    except Exception:
                        refused = True
                    b.registry.setCollectionChain(holder, [])
                    b.registry.removeCollection(holder)
                    ops.append(f"removeRuns-refused {run[-1]} {ids}")
                    ctx.count("removeRuns-refused")
                    if not refused:
                        viol(f"removeRuns of a run that is a child of a CHAINED collection was accepted", f"rmrun-chained-accepted:{ops}", {"kind": "art-history", "ops": ops})
                        break
                    # (whatever the failed call moved to the trash and back is judged by the observation below; the next emptying of
                    # the trash must find nothing of it)
                    b._datastore.emptyTrash()
                    trashed.clear()
                    req.append("art empty"), impl.append("ok")
                    line = None
                    ids = None
                if ids is None:
                    pass
                else:
                  b.removeRuns([run], unstore=True)
                  b.registry.registerRun(run)
                  registered.difference_update(ids)
                  live.difference_update(ids)
                  orphan.difference_update(ids)
                  trashed.clear()
                  req.append(f"art trash {','.join(map(str, ids)) or '-'}"), impl.append("ok")
                  line = "art empty"
                  ops.append(f"removeRuns {run[-1]} {ids}")
            if line is not None:
                req.append(line), impl.append("ok")
            if trust:
                # a datastore in trust mode formats the file template itself: it needs expanded data ids
                for i in refs:
                    if not refs[i].dataId.hasRecords():
                        refs[i] = refs[i].expanded(b.registry.expandDataId(refs[i].dataId))
            ctx.evaluations += 1
            ctx.count(ops[-1].split()[0])

            # ------------------------------------------------ observation
            files = {k: v for k, v in _listing(root).items() if "sqlite" not in k and k != "butler.yaml" and not k.startswith("archive/")}
            unknown = [f for f in files if f not in pathno]
            disk = {pathno[f] for f in files if f in pathno}
            # the datastore's own bookkeeping, read straight from its tables: which datasets have file records / a location row,
            # which wait in the trash table, and which path each record names
            by_uuid = {refs[i].id.hex: i for i in refs}
            con = sqlite3.connect(f"file:{root}/gen3.sqlite3?mode=ro", uri=True)
            try:
                rec_rows = con.execute("SELECT dataset_id, path FROM file_datastore_records").fetchall()
                loc_rows = {r_[0] for r_ in con.execute("SELECT dataset_id FROM dataset_location")}
                trash_rows = {r_[0] for r_ in con.execute("SELECT dataset_id FROM dataset_location_trash")}
            finally:
                con.close()
            db_live = {by_uuid.get(u_, u_) for u_ in loc_rows}
            db_trash = {by_uuid.get(u_, u_) for u_ in trash_rows}
            db_recs = {by_uuid.get(u_, u_) for u_, _ in rec_rows}
            req.append("art state")
            if all(isinstance(x, int) for x in db_live | db_trash):
                impl.append(f"disk={fmt(disk)} live={fmt(db_live)} trash={fmt(db_trash)} recs={len(rec_rows)}")
            else:
                impl.append("rows-of-unknown-datasets")
            # oracle: an owned artifact is present iff a stored or trashed-but-not-emptied dataset refers to it
            owners = {}
            for i in live | trashed:
                if kind_of[i] != "direct":
                    owners.setdefault(art[i], set()).add(i)
            for i in orphan:
                if kind_of[i] == "forgotten":
                    owners.setdefault(art[i], set()).add(i)
            shared_partial = any(len({j for j in refs if art[j] == p and kind_of[j] != "direct"}) > len(o) for p, o in owners.items())
            partial = partial or shared_partial or (trust and any(o.startswith(("purge", "unstore")) for o in ops) and bool(ext_files or shared_partial))
            problems = []
            if db_live != live or db_trash != trashed or db_recs != live | trashed:
                problems.append(f"datastore tables: location rows {sorted(db_live, key=str)}, trash rows {sorted(db_trash, key=str)}, file records {sorted(db_recs, key=str)}; "
                                f"the history stored {sorted(live)} and trashed {sorted(trashed)}")
            for u_, path_ in rec_rows:
                i_ = by_uuid.get(u_)
                if i_ is not None and art.get(i_) is not None:
                    want_p = art[i_] if kind_of[i_] != "direct" else None
                    # a zip member is recorded as <artifact>#zip-path=<member>; '#' may also occur in the artifact's own path
                    got_p = path_[: path_.rfind("#zip-path=")] if "#zip-path=" in path_ else path_
                    if want_p is not None and got_p != want_p:
                        problems.append(f"the record of dataset {i_} names {got_p}, its artifact is {want_p}")
            for p in set(owners) - set(files):
                problems.append(f"artifact {p} is gone although datasets {sorted(owners[p])} still refer to it")
            for p in set(files) - set(owners):
                if p in pathno:
                    problems.append(f"artifact {p} is still there although no stored dataset refers to it")
            if unknown:
                problems.append(f"unexpected files under the root: {unknown}")
            for p in ext_files:
                if not os.path.exists(p):
                    problems.append(f"external file {os.path.basename(p)} behind an absolute URI was deleted")
            outside = _listing(area, skip=absroot)
            allowed = {os.path.relpath(p, area) for p in ext_files} | {"in/sentinel.txt"}
            extra_out = [k for k in outside if k not in allowed and not k.startswith("src/")]
            if extra_out:
                problems.append(f"files outside the root and outside the source area: {extra_out}")
            if "in/sentinel.txt" not in outside:
                problems.append("the sentinel next to the root disappeared")
            if mode == "C09":
                for i in sorted(live):
                    try:
                        got = b.get(refs[i])
                        if got != content[i]:
                            problems.append(f"dataset {i} reads back {got}, stored {content[i]}")
                    except Exception as e:
                        problems.append(f"dataset {i} ({kind_of[i]} artifact {art[i]}) cannot be read: {type(e).__name__}")
                        break
            if problems:
                viol(f"after {ops[-4:]}: " + "; ".join(problems[:3]), f"art:{ops}", {"kind": "art-history", "ops": ops, "problems": problems})
                break
            if mode == "C10":
                E = DatasetExistence
                allrefs = [refs[i] for i in sorted(refs)]
                many = b._exists_many(allrefs, full_check=True)
                stored_many = b.stored_many(allrefs)
                bad = []
                for i in sorted(refs):
                    truth_art = (kind_of[i] == "direct" and os.path.exists(art[i])) or (kind_of[i] != "direct" and art[i] in files)
                    # a dataset moved to the trash but not yet emptied still has its records: the datastore knows it
                    known = i in live or i in trashed
                    want = ("R" if i in registered else "-") + ("D" if known else "-") + ("A" if (known and truth_art) else "-")
                    ex = b.exists(refs[i], full_check=True)
                    fl = ("R" if (ex & E.RECORDED) == E.RECORDED else "-") + ("D" if (ex & E.DATASTORE) == E.DATASTORE else "-") + (
                        "A" if (ex & E._ARTIFACT) == E._ARTIFACT else "-")
                    mfl = many[refs[i]]
                    mfl = ("R" if (mfl & E.RECORDED) == E.RECORDED else "-") + ("D" if (mfl & E.DATASTORE) == E.DATASTORE else "-") + (
                        "A" if (mfl & E._ARTIFACT) == E._ARTIFACT else "-")
                    st = b.stored(refs[i])
                    stm = stored_many[refs[i]]
                    truth_stored = known and truth_art
                    if fl != want:
                        bad.append(f"dataset {i} ({kind_of[i]}): exists() flags {fl}, truth {want}")
                    if mfl != want:
                        bad.append(f"dataset {i} ({kind_of[i]}, artifact shared by {sorted(j for j in live if art[j] == art[i])}): _exists_many flags {mfl}, truth {want}")
                    if st != truth_stored or stm != truth_stored:
                        bad.append(f"dataset {i} ({kind_of[i]}): stored()={st} stored_many()={stm}, truth {truth_stored}")
                    if bad:
                        break
                if bad:
                    shared = any("shared by" in x and "," in x.split("shared by")[1].split(")")[0] for x in bad)
                    viol(f"after {ops[-4:]}: " + "; ".join(bad[:2]),
                         "exists-many-shared-artifact" if shared and not any("exists() flags" in x for x in bad) else f"exist:{ops}",
                         {"kind": "art-history", "ops": ops, "problems": bad})
                    break
        if partial:
            ctx.nontrivial.add(tuple(ops))
        ctx.sample(ops[:10], cap=3)
        # leave nothing behind for the next history
        try:
            if trust and registered - live:
                b.pruneDatasets([refs[i] for i in sorted(registered - live)], purge=True, unstore=True, disassociate=True)
            b.removeRuns(runs, unstore=True)
            b._datastore.emptyTrash()
        except Exception as e:
            # the removal of everything a history made is part of the history: what it leaves behind is judged below; a failure
            # on its own is not a violation of this property, but the next history needs a fresh pair of runs (they have them)
            import sqlite3 as _sq

            _con = _sq.connect(f"file:{root}/gen3.sqlite3?mode=ro", uri=True)
            _left = [bytes(r_[0]).hex() if isinstance(r_[0], (bytes, memoryview)) else str(r_[0]).replace("-", "") for r_ in _con.execute("SELECT dataset_id FROM dataset_location")]
            _con.close()
            _by = {refs[i].id.hex: i for i in refs}
            ctx.notes.append(f"cleanup after history {h} (ops {ops}) raised {type(e).__name__}: {str(e)[:120]}; location rows left: "
                             f"{[( _by.get(u_, u_), kind_of.get(_by.get(u_))) for u_ in _left]}; orphan={sorted(orphan)} live={sorted(live)} trashed={sorted(trashed)}")
            ctx.count("cleanup-raised")
            continue
        left = [k for k in _listing(root) if "sqlite" not in k and k != "butler.yaml" and not k.startswith("archive/")]
        if left and not any(v.key.startswith("art:") for v in ctx.violations):
            viol(f"after removing both runs of history {ops[-6:]} the root still holds {left[:4]}", f"art-left:{ops}",
                 {"kind": "art-history", "ops": ops + ["removeRuns both"], "left": left})
        for f in left:
            os.remove(os.path.join(root, f))
        for f in ext_files:
            if os.path.exists(f):
                os.remove(f)

    if model_ok and mode == "C09" and not trust:
        got = core.driver(req)
        nd = 0
        for line, m, i in zip(req, got, impl):
            if m != i:
                nd += 1
                if nd <= 5:
                    ctx.broken.append(f"correspondence: `{line}` model={m} implementation={i}")
        ctx.extra["art_correspondence_lines"] = len(req)
        ctx.extra["art_correspondence_disagreements"] = nd
