"""C13 — data IDs mean one thing: standardisation and expansion are consistent.

Model: Model/DataId.lean (DataCoordinate.standardize, ==/hash, subset; SqlRegistry.expandDataId as the walk
over lookup_order with setdefault-and-compare) on top of the dimension-universe model of C12.
Tie: F (universe tables extracted each run) + C (generated mappings / kwargs / defaults over sampled
dimension groups through the real DataCoordinate.standardize and Registry.expandDataId on a populated
SQLite registry, compared with the model).
Oracle (model-free): key/value-set semantics and a brute-force consistency check against the stored records.
"""
from __future__ import annotations

import itertools
import os
import sys

from vlib import core, repo

LEVEL = "proof"
LEAN_TARGETS = ["ButlerModel.Props.C13", "driver"]


def gen(ctx):
    sys.path.insert(0, os.path.join(core.VERIF, "translate"))
    import gen_universe
    try:
        return gen_universe.generate(core.GEN_DIR)
    except Exception as e:
        ctx.broken.append(f"fact extraction (universe): {type(e).__name__}: {e}")
        return None


def run(ctx):
    ctx.rule = (
        "seeded (mapping, kwargs, defaults, dimensions) combinations over dimension groups of the populated dimensions "
        "(instrument, detector, physical_filter, band, day_obs, group, exposure, visit): extra / missing / overriding / "
        "defaulted keys, numpy integers, key permutations; pairs for ==/hash/subset/union; expansion of consistent and "
        "inconsistent inputs (wrong implied values, contradictory visit/exposure, missing visit_definition, unknown values); "
        "non-trivial = distinct inputs over a group with at least one implied dimension"
    )
    ctx.assumptions = ["SQLite returns the stored dimension records unchanged (fetch_one)"]
    with core.Lock():
        # T-tie: DataCoordinate.standardize for a plain mapping (merge order of mapping / keywords / defaults, the empty group, the
        # full / required-only / missing-key outcomes) is translated from the working tree into Gen/StandardizePy.lean;
        # C13.Translated.translated_standardize identifies it with the model's `standardize`
        import sys as _sys

        _sys.path.insert(0, os.path.join(core.VERIF, "translate"))
        try:
            import gen_standardize

            gen_standardize.generate(core.GEN_DIR)
        except Exception as e:
            ctx.broken.append(f"translation: DataCoordinate.standardize: {type(e).__name__}: {e}")
        ok = gen(ctx) is not None
        built = ok and core.lean_build(ctx, LEAN_TARGETS)
        if built:
            core.lean_audit(ctx, ["ButlerModel.Props.C13"])
            if not ctx.quick():
                core.leanchecker(ctx, ["ButlerModel.Props.C13"])
    with repo.Scratch("verif-c13-") as tmp:
        correspondence(ctx, built, tmp)
        butler_level(ctx, tmp, built)


def correspondence(ctx, model_ok, tmp):
    import numpy
    from lsst.daf.butler import DataCoordinate, DimensionGroup
    from lsst.daf.butler._exceptions import DataIdValueError, DimensionNameError, InconsistentDataIdError

    rng = ctx.rng
    b = repo.make_butler(os.path.join(tmp, "r"))
    reg = b.registry
    u = b.dimensions
    repo.basic_dimensions(b, detectors=(1, 2), filters=(("f1", "r"), ("f2", "g")))
    for day in (20240101, 20240102):
        reg.insertDimensionData("day_obs", {"instrument": "I", "id": day})
    for g in ("g1", "g2"):
        reg.insertDimensionData("group", {"instrument": "I", "name": g})
    # exposure 13 has the filter and day of visit 1 but is not one of its exposures: only the visit_definition rows tell
    EXP = {10: ("f1", 20240101, "g1"), 11: ("f2", 20240102, "g2"), 12: ("f1", 20240102, "g1"), 13: ("f1", 20240101, "g1")}
    for e, (f, day, g) in EXP.items():
        reg.insertDimensionData("exposure", {"instrument": "I", "id": e, "obs_id": f"o{e}", "physical_filter": f, "day_obs": day, "group": g})
    VIS = {1: ("f1", 20240101), 2: ("f2", 20240102)}
    for v, (f, day) in VIS.items():
        reg.insertDimensionData("visit", {"instrument": "I", "id": v, "name": f"v{v}", "physical_filter": f, "day_obs": day})
    # (2, 12) joins a visit and an exposure whose own records contradict each other (filter f2 vs f1)
    VDEF = [(1, 10), (2, 11), (2, 12)]
    for v, e in VDEF:
        reg.insertDimensionData("visit_definition", {"instrument": "I", "visit": v, "exposure": e})
    BAND = {"f1": "r", "f2": "g"}

    elems = [e.name for e in u.sorted(u.elements.names)]
    idx = {n: i for i, n in enumerate(elems)}
    codes = {}

    def code(v):
        v = int(v) if isinstance(v, numpy.integer) else v
        if v not in codes:
            codes[v] = len(codes) + 1
        return codes[v]

    def enc(m):
        return ",".join(f"{idx[k]}={code(v)}" for k, v in m.items()) or "-"

    req, impl = ["did new"], ["ok"]
    # records for the model
    def rec(elem, keys, implied):
        req.append(f"did rec {idx[elem]} {enc(keys)} {enc(implied)}")
        impl.append("ok")

    rec("instrument", {"instrument": "I"}, {})
    for d in (1, 2):
        rec("detector", {"instrument": "I", "detector": d}, {})
    for f, bd in BAND.items():
        rec("physical_filter", {"instrument": "I", "physical_filter": f}, {"band": bd})
    for bd in ("r", "g"):
        rec("band", {"band": bd}, {})
    for day in (20240101, 20240102):
        rec("day_obs", {"instrument": "I", "day_obs": day}, {})
    for g in ("g1", "g2"):
        rec("group", {"instrument": "I", "group": g}, {})
    for e, (f, day, g) in EXP.items():
        rec("exposure", {"instrument": "I", "exposure": e}, {"physical_filter": f, "day_obs": day, "group": g})
    for v, (f, day) in VIS.items():
        rec("visit", {"instrument": "I", "visit": v}, {"physical_filter": f, "day_obs": day})
    for v, e in VDEF:
        rec("visit_definition", {"instrument": "I", "visit": v, "exposure": e}, {})
    req.append("did defrel " + ",".join(str(idx[e.name]) for e in u.elements if getattr(e, "defines_relationships", False)))
    impl.append("ok")

    def viol(what, key, replay):
        ctx.violations.append(core.Violation(what=what, key=key, replay=replay))

    POOL = {
        "instrument": ["I", "I", "I", "J"], "detector": [1, 2, 3], "physical_filter": ["f1", "f2", "f9"], "band": ["r", "g", "i"],
        "day_obs": [20240101, 20240102], "group": ["g1", "g2"], "exposure": [10, 11, 12, 13, 13, 99], "visit": [1, 2, 7],
    }
    dims_pool = list(POOL)

    def render(d):
        vals = dict(d.mapping) if d.hasFull() else dict(d.required)
        return (f"dims={','.join(str(idx[n]) for n in d.dimensions.names) or ''} full={'true' if d.hasFull() else 'false'} "
                f"vals={','.join(f'{k}={v}' for k, v in sorted((idx[k], code(v)) for k, v in vals.items())) or '-'}")

    def np_maybe(v):
        if isinstance(v, int) and rng.random() < 0.2:
            return rng.choice([numpy.int64, numpy.int32])(v)
        return v

    n_cases = 1500 if ctx.quick() else 30000
    for c in range(n_cases):
        names = [d for d in dims_pool if rng.random() < 0.35] or ["instrument"]
        G = DimensionGroup(u, names)
        # a consistent underlying truth to draw from, then perturb
        truth = {"instrument": "I", "detector": rng.choice([1, 2])}
        v = rng.choice([1, 2])
        e = rng.choice([x for vv, x in VDEF if vv == v]) if rng.random() < 0.7 else rng.choice([10, 11, 12, 13, 13])
        truth.update(visit=v, exposure=e)
        src = rng.choice(["visit", "exposure"]) if {"visit", "exposure"} <= set(G.names) else ("visit" if "visit" in G.names else "exposure")
        f, day = VIS[v] if src == "visit" else EXP[e][:2]
        truth.update(physical_filter=f, band=BAND[f], day_obs=day, group=EXP[e][2])
        mapping, kwargs = {}, {}
        for d in G.names:
            r = rng.random()
            is_req = d in G.required
            if r < (0.92 if is_req else 0.5):
                val = truth[d] if rng.random() < 0.85 else rng.choice(POOL[d])
                (kwargs if rng.random() < 0.25 else mapping)[d] = np_maybe(val)
        for d in dims_pool:
            if d not in G.names and rng.random() < 0.25:
                mapping[d] = rng.choice(POOL[d])  # extra key
        for d in list(mapping):
            if rng.random() < 0.1:
                kwargs[d] = np_maybe(rng.choice(POOL[d]))  # kwargs override the mapping
        defaults = None
        if rng.random() < 0.3:
            defaults = DataCoordinate.standardize(instrument="I", universe=u)
        explicit = rng.random() < 0.7
        dims_arg = G if explicit else None
        items = list(mapping.items())
        rng.shuffle(items)
        mapping = dict(items)
        try:
            d1 = DataCoordinate.standardize(mapping, dimensions=dims_arg, universe=u, defaults=defaults, **kwargs)
            out = "ok " + render(d1)
        except DimensionNameError:
            d1, out = None, "err DimensionNameError"
        except Exception as ex:
            d1, out = None, f"err INTERNAL:{type(ex).__name__}"
        req.append(f"did std default {','.join(str(idx[n]) for n in names) if explicit else '*'} {enc(mapping)} {enc(kwargs)} "
                   f"{enc({'instrument': 'I'}) if defaults is not None else '-'}")
        impl.append(out)
        ctx.evaluations += 1
        if G.implied:
            ctx.nontrivial.add(("std", tuple(sorted(names)), tuple(sorted((k, str(v_)) for k, v_ in mapping.items())), tuple(sorted(kwargs)), explicit))
        merged = {**mapping, **kwargs}
        if defaults is not None:
            merged.setdefault("instrument", "I")
        if d1 is not None:
            Gr = d1.dimensions
            problems = []
            if explicit and Gr != G:
                problems.append("dimensions differ from the requested ones")
            for k in Gr.required:
                if k not in merged or d1[k] != merged[k] or type(d1[k]) not in (int, str):
                    problems.append(f"required value of {k} is {d1[k]!r}, given {merged.get(k)!r}")
            if d1.hasFull():
                for k in Gr.implied:
                    if d1[k] != merged.get(k):
                        problems.append(f"implied value of {k} is {d1[k]!r}, given {merged.get(k)!r}")
            # re-standardising with permuted keys and an extra key gives an equal data ID with the same hash
            if explicit:
                items2 = list(merged.items())
                rng.shuffle(items2)
                extra = [d for d in dims_pool if d not in G.names]
                m2 = dict(items2)
                if extra:
                    m2[extra[0]] = rng.choice(POOL[extra[0]])
                d2 = DataCoordinate.standardize(m2, dimensions=G, universe=u)
                if not (d2 == d1 and hash(d2) == hash(d1)):
                    problems.append("equal inputs (permuted, extra key) give unequal data IDs or hashes")
                # subset commutes with the underlying key/value sets
                sub_names = [n for n in Gr.names if rng.random() < 0.5]
                H = DimensionGroup(u, sub_names)
                if H <= Gr:
                    try:
                        s1 = d1.subset(H)
                        s2 = DataCoordinate.standardize({k: merged[k] for k in H.required}, dimensions=H, universe=u)
                        if s1 != s2:
                            problems.append(f"subset({list(H.names)}) differs from standardising the restricted mapping")
                    except KeyError:
                        if d1.hasFull() or set(H.required) <= set(Gr.required):
                            problems.append(f"subset({list(H.names)}) raised KeyError although all needed values are known")
            if problems:
                viol(f"standardize({mapping}, dimensions={list(names) if explicit else None}, kwargs={kwargs}): " + "; ".join(problems[:3]),
                     f"std:{sorted(names)}:{sorted(map(str, merged.items()))}:{explicit}", {"kind": "standardize", "mapping": str(mapping), "kwargs": str(kwargs)})
        elif explicit and all(k in merged for k in G.required):
            viol(f"standardize({mapping}, dimensions={list(names)}, kwargs={kwargs}) refused although every required key has a value",
                 f"std-refused:{sorted(names)}:{sorted(map(str, merged.items()))}", {"kind": "standardize", "mapping": str(mapping), "kwargs": str(kwargs)})

        # ---- the same call with the mapping handed over as a DataCoordinate (the keywords still extend / override it)
        if explicit and rng.random() < 0.35:
            known = {k: v_ for k, v_ in mapping.items() if k in POOL}
            try:
                dc = DataCoordinate.standardize(known, universe=u)
            except Exception:
                dc = None
            if dc is not None:
                flat = {**(dict(dc.mapping) if dc.hasFull() else dict(dc.required)), **kwargs}
                ctx.count("datacoordinate-input")
                ctx.evaluations += 1

                def outcome(fn):
                    try:
                        r_ = fn()
                        return "ok", {k: r_[k] for k in (r_.dimensions.names if r_.hasFull() else r_.dimensions.required)}
                    except (DimensionNameError, InconsistentDataIdError, DataIdValueError) as exn:
                        return type(exn).__name__, None
                    except KeyError:
                        # a DataCoordinate that lacks a needed value answers with the KeyError that DimensionNameError specialises
                        return "DimensionNameError", None
                    except Exception as exn:
                        return "INTERNAL:" + type(exn).__name__, None
                for label, via_dc, via_dict in (
                    ("standardize", lambda: DataCoordinate.standardize(dc, dimensions=G, universe=u, **kwargs),
                     lambda: DataCoordinate.standardize(flat, dimensions=G, universe=u)),
                    ("expandDataId", lambda: reg.expandDataId(dc, dimensions=G, withDefaults=False, **kwargs),
                     lambda: reg.expandDataId(flat, dimensions=G, withDefaults=False)),
                ):
                    o1, o2 = outcome(via_dc), outcome(via_dict)
                    if o1 != o2:
                        viol(f"{label}(DataCoordinate{dict(dc.mapping) if dc.hasFull() else dict(dc.required)}, dimensions={list(names)}, **{kwargs}) gives {o1}, "
                             f"the same keys and values as a plain mapping give {o2}", f"dc-input:{label}:{sorted(names)}:{sorted(map(str, flat.items()))}",
                             {"kind": "datacoordinate-input", "call": label, "mapping": str(flat), "kwargs": str(kwargs), "dims": list(names)})

        # ---- expansion
        if explicit and rng.random() < 0.6:
            full_in = {**mapping, **kwargs}
            try:
                ex = reg.expandDataId(full_in, dimensions=G, withDefaults=False)
                eout = "ok " + (",".join(f"{k}={v_}" for k, v_ in sorted((idx[k], code(ex[k])) for k in G.names)) or "-")
            except DimensionNameError:
                ex, eout = None, "err DimensionNameError"
            except InconsistentDataIdError:
                ex, eout = None, "err InconsistentDataIdError"
            except DataIdValueError:
                ex, eout = None, "err DataIdValueError"
            except Exception as exn:
                ex, eout = None, f"err INTERNAL:{type(exn).__name__}"
            req.append(f"did expand default {','.join(str(idx[n]) for n in names)} {enc(full_in)}")
            impl.append(eout)
            ctx.evaluations += 1
            # brute-force oracle
            reqv = {k: full_in.get(k) for k in G.required}
            complete_implied = all(k in full_in for k in G.names)
            def consistent(vals):
                """Is there a consistent assignment of all of G's dimensions extending the required values `vals`?"""
                if any(v_ is None for v_ in vals.values()):
                    return None
                full = dict(vals)
                ok = vals.get("instrument", "I") == "I"
                def imply(k, v_):
                    nonlocal ok
                    if full.setdefault(k, v_) != v_:
                        ok = False
                if "detector" in full and full["detector"] not in (1, 2):
                    ok = False
                if "band" in full and "band" in G.required and full["band"] not in ("r", "g"):
                    ok = False
                if "day_obs" in full and full["day_obs"] not in (20240101, 20240102):
                    ok = False
                if "group" in full and full["group"] not in ("g1", "g2"):
                    ok = False
                if "physical_filter" in full and "physical_filter" in vals:
                    if full["physical_filter"] not in BAND:
                        ok = False
                if "exposure" in vals:
                    if vals["exposure"] not in EXP:
                        ok = False
                    else:
                        f_, d_, g_ = EXP[vals["exposure"]]
                        imply("physical_filter", f_), imply("day_obs", d_), imply("group", g_)
                if "visit" in vals:
                    if vals["visit"] not in VIS:
                        ok = False
                    else:
                        f_, d_ = VIS[vals["visit"]]
                        imply("physical_filter", f_), imply("day_obs", d_)
                if "visit" in vals and "exposure" in vals and (vals["visit"], vals["exposure"]) not in VDEF:
                    ok = False
                if ok and "physical_filter" in full and full["physical_filter"] in BAND:
                    imply("band", BAND[full["physical_filter"]])
                return full if ok else None
            start = dict(reqv)
            if complete_implied:
                start = {k: full_in[k] for k in G.names}
            want = consistent({k: (int(v_) if isinstance(v_, numpy.integer) else v_) for k, v_ in start.items()})
            if ex is not None:
                got = {k: ex[k] for k in G.names}
                if want is None:
                    viol(f"expandDataId({full_in}, dimensions={list(names)}) accepted an inconsistent data ID and returned {got}",
                         f"expand-accepts:{sorted(names)}:{sorted(map(str, full_in.items()))}", {"kind": "expand", "input": str(full_in), "dims": list(names)})
                elif any(got[k] != want[k] for k in G.names if k in want):
                    viol(f"expandDataId({full_in}, dimensions={list(names)}) = {got}, stored records say {want}",
                         f"expand-values:{sorted(names)}:{sorted(map(str, full_in.items()))}", {"kind": "expand", "input": str(full_in), "dims": list(names)})
                elif not ex.hasRecords():
                    viol(f"expandDataId({full_in}) result has no records", f"expand-norecords:{sorted(names)}", {"kind": "expand", "input": str(full_in)})
            else:
                if eout.startswith("err INTERNAL"):
                    viol(f"expandDataId({full_in}, dimensions={list(names)}) raised {eout[4:]}", f"expand-internal:{eout}:{sorted(names)}",
                         {"kind": "expand", "input": str(full_in), "dims": list(names)})
                elif want is not None and all(k in full_in for k in G.required):
                    viol(f"expandDataId({full_in}, dimensions={list(names)}) refused ({eout}) a consistent data ID", f"expand-refuses:{sorted(names)}:{sorted(map(str, full_in.items()))}",
                         {"kind": "expand", "input": str(full_in), "dims": list(names)})
            # ---- expanding an already expanded data ID again with a keyword that overrides one of its values: either a documented
            # refusal, or values and records of the *new* data ID as the stored records have them
            if ex is not None and rng.random() < 0.5:
                over = [(k, v_) for k in G.required for v_ in sorted(set(POOL.get(k, [])), key=str) if v_ != ex[k] and k != "instrument"]
                if over:
                    k_o, v_o = rng.choice(over)
                    ctx.count("re-expand-with-override")
                    try:
                        ex2 = reg.expandDataId(ex, **{k_o: v_o})
                    except (InconsistentDataIdError, DataIdValueError, DimensionNameError):
                        ex2 = None
                        ctx.count("re-expand-with-override:refused")
                    except Exception as exn:
                        ex2 = None
                        viol(f"expandDataId(<expanded {dict(ex.mapping)}>, {k_o}={v_o!r}) raised {type(exn).__name__}", f"re-expand-internal:{type(exn).__name__}",
                             {"kind": "re-expand", "input": str(dict(ex.mapping)), "override": [k_o, str(v_o)]})
                    if ex2 is not None:
                        req2 = {k: ex2[k] for k in ex2.dimensions.required}
                        want2 = consistent({k: (int(v_) if isinstance(v_, numpy.integer) else v_) for k, v_ in req2.items()})
                        got2 = {k: ex2[k] for k in ex2.dimensions.names}
                        stale = [el for el, r_ in ex2.records.items() if r_ is not None and
                                 any(ex2.get(k) != v_ for k, v_ in r_.dataId.required.items())]
                        if want2 is None or any(got2[k] != want2[k] for k in got2 if k in want2) or stale:
                            viol(f"expandDataId(<expanded {dict(ex.mapping)}>, {k_o}={v_o!r}) = {got2}"
                                 + (f" with the records of another data ID attached for {stale}" if stale else "")
                                 + f"; the stored records say {want2}", "re-expand-keeps-records-of-overridden-values" if stale else f"re-expand-values:{k_o}",
                                 {"kind": "re-expand", "input": str(dict(ex.mapping)), "override": [k_o, str(v_o)]})
    ctx.count("cases", n_cases)

    # ---- a data ID compared with a plain mapping: the same answer as comparing with the standardised mapping — also when the mapping
    # identifies more dimensions, or fewer (then simply unequal: no exception)
    cmp_pool = [{"instrument": "I"}, {"instrument": "I", "detector": 1}, {"instrument": "I", "detector": 2}, {"instrument": "I", "physical_filter": "f1"},
                {"instrument": "I", "physical_filter": "f1", "band": "r"}, {"physical_filter": "f1", "instrument": "I"}, {"instrument": "I", "visit": 1},
                {"instrument": "I", "visit": 1, "detector": 1}, {"instrument": "J"}, {}]
    for a_map in cmp_pool:
        a_dc = DataCoordinate.standardize(a_map, universe=u)
        for b_map in cmp_pool:
            b_dc = DataCoordinate.standardize(b_map, universe=u)
            want_eq = a_dc == b_dc
            ctx.evaluations += 1
            ctx.count("compare-with-mapping")
            try:
                got_eq = a_dc == b_map
            except Exception as e:
                got_eq = f"{type(e).__name__}"
            if got_eq != want_eq or (want_eq and hash(a_dc) != hash(b_dc)):
                viol(f"data ID {a_dc} == {b_map!r} gives {got_eq}; compared with the standardised mapping {b_dc} it gives {want_eq}"
                     + ("" if not want_eq or hash(a_dc) == hash(b_dc) else " (and the hashes differ)"),
                     f"compare-mapping:{sorted(a_map)}:{sorted(b_map)}", {"kind": "compare", "left": str(a_map), "right": str(b_map)})
    # ---- records written inside a block that fails and is caught inside an outer block that commits: afterwards expansion must not
    # know them (the record cache is emptied when the inner block is rolled back)
    try:
        with reg.transaction():
            try:
                with reg.transaction(savepoint=True):
                    reg.insertDimensionData("detector", {"instrument": "I", "id": 77, "full_name": "ghost"})
                    reg.insertDimensionData("physical_filter", {"instrument": "I", "name": "f1", "band": "z"}, replace=True)
                    reg.expandDataId(instrument="I", detector=77)
                    reg.expandDataId(instrument="I", physical_filter="f1")
                    raise RuntimeError("verif: inner block fails")
            except RuntimeError:
                pass
        ctx.evaluations += 1
        ctx.count("records-of-a-rolled-back-inner-block")
        problems = []
        try:
            reg.expandDataId(instrument="I", detector=77)
            problems.append("expandDataId still accepts the detector the rolled-back inner block had inserted")
        except DataIdValueError:
            pass
        band_now = reg.expandDataId(instrument="I", physical_filter="f1")["band"]
        if band_now != BAND["f1"]:
            problems.append(f"expandDataId reports band {band_now!r} for f1, the stored record says {BAND['f1']!r}")
        if problems:
            viol("an inner block that inserted / replaced dimension records failed and was caught inside a committing outer transaction: " + "; ".join(problems),
                 "records-of-rolled-back-inner-block", {"kind": "nested-rollback", "problems": problems})
    except Exception as e:
        viol(f"nested record transaction scenario raised {type(e).__name__}: {str(e)[:100]}", "nested-rollback-raise", {"kind": "nested-rollback"})
    # ---- unions of data IDs (plain and expanded operands) commute with the key/value sets and never claim records they lack
    expanded = []
    for v in (1, 2):
        for det in (1, 2):
            expanded.append(reg.expandDataId(instrument="I", visit=v))
            expanded.append(reg.expandDataId(instrument="I", detector=det))
            expanded.append(reg.expandDataId(instrument="I", exposure=dict((vv, x) for vv, x in VDEF[:2])[v]))
            expanded.append(DataCoordinate.standardize(instrument="I", visit=v, detector=det, universe=u))
    for a, c in itertools.product(expanded, expanded):
        ctx.evaluations += 1
        try:
            un = a.union(c)
        except Exception as exn:
            if all(a.get(k, c[k]) == c[k] for k in c.dimensions.required if k in a.dimensions.names):
                viol(f"union of {a} and {c} raised {type(exn).__name__}", f"union-raise:{a}:{c}", {"kind": "union", "a": str(a), "b": str(c)})
            continue
        merged = {**dict(a.required), **dict(c.required)}
        agree = all(dict(a.required).get(k, v_) == v_ for k, v_ in c.required.items())
        if not agree:
            continue
        want = DataCoordinate.standardize(merged, dimensions=a.dimensions | c.dimensions, universe=u)
        problems = []
        if un != want or hash(un) != hash(want):
            problems.append(f"is {un}, the united key/value sets give {want}")
        if un.hasRecords():
            for el in un.dimensions.elements:
                try:
                    un.records[el]
                except KeyError:
                    problems.append(f"claims hasRecords() but has no record for {el}")
                    break
        if un.hasFull():
            for k in un.dimensions.implied:
                try:
                    un[k]
                except KeyError:
                    problems.append(f"claims hasFull() but has no value for {k}")
        if problems:
            viol(f"union of {a} and {c} " + "; ".join(problems), f"union:{a}:{c}", {"kind": "union", "a": str(a), "b": str(c)})
    ctx.count("union-pairs", len(expanded) ** 2)

    # ---- the stored records change (sync with update): later expansions must follow
    before = reg.expandDataId(instrument="I", physical_filter="f2")["band"]
    reg.syncDimensionData("physical_filter", {"instrument": "I", "name": "f2", "band": "z"}, update=True)
    after = reg.expandDataId(instrument="I", physical_filter="f2")
    ctx.evaluations += 2
    if after["band"] != "z" or after.records["physical_filter"].band != "z":
        viol(f"after syncDimensionData(physical_filter f2, band='z', update=True) expandDataId still gives band={after['band']!r} "
             f"(record band {after.records['physical_filter'].band!r}; it was {before!r})", "stale-records-after-sync-update", {"kind": "sync-update"})
    v2 = reg.expandDataId(instrument="I", visit=2)
    if v2["band"] != "z":
        viol(f"after the update of physical_filter f2, expandDataId(visit=2) gives band={v2['band']!r}, stored record says 'z'",
             "stale-records-after-sync-update-visit", {"kind": "sync-update"})
    reg.syncDimensionData("detector", {"instrument": "I", "id": 1, "full_name": "renamed"}, update=True)
    if reg.expandDataId(instrument="I", detector=1).records["detector"].full_name != "renamed":
        viol("after syncDimensionData(detector 1, full_name='renamed', update=True) expandDataId returns the old record",
             "stale-records-after-sync-update-detector", {"kind": "sync-update"})
    for i in range(30, len(req), max(1, len(req) // 6)):
        ctx.sample({"request": req[i], "implementation": impl[i]})
    if model_ok:
        got = core.driver(req)
        nd = 0
        for line, m, i in zip(req, got, impl):
            if m != i:
                nd += 1
                if nd <= 5:
                    ctx.broken.append(f"correspondence: `{line}` model={m} implementation={i}")
        ctx.extra["correspondence_lines"] = len(req)
        ctx.extra["correspondence_disagreements"] = nd
    else:
        ctx.notes.append("model not built: correspondence skipped")


def butler_level(ctx, tmp, model_ok=False):
    """Data IDs as the Butler front end accepts them: keys defaulted from the default collections (also after clone()), and
    record-style keys (`seq_num=`, `exposure.obs_id`, a string for a detector) next to or instead of the dimension value."""
    from lsst.daf.butler import Butler, DatasetType
    from lsst.daf.butler._exceptions import ButlerUserError

    rng = ctx.rng

    def viol(what, key, replay):
        ctx.violations.append(core.Violation(what=what, key=key, replay=replay))

    root = os.path.join(tmp, "front")
    w = repo.make_butler(root)
    reg = w.registry
    INST = ("A", "B")
    EXPOSURES = {  # id -> (obs_id, seq_num, day_obs, exposure_time, target_name): seq_num 0, NULL target and zero time are ordinary stored values
        10: ("o10", 0, 20240101, 0.0, None), 11: ("o11", 1, 20240101, 30.0, "m31"), 12: ("o12", 2, 20240101, 30.0, "m31"),
        13: ("o13", 0, 20240102, 15.0, "x"), 14: ("o14", 1, 20240102, 15.0, "m42"),
    }
    DETECTORS = {1: ("D1", None, "S0"), 2: ("D2", "R2", "S0"), 3: ("D3", "R2", "S1"), 4: ("D4", "R4", None)}  # full_name, raft, name_in_raft
    for inst in INST:
        reg.insertDimensionData("instrument", {"name": inst})
        reg.insertDimensionData("physical_filter", {"instrument": inst, "name": "f", "band": "r"})
        reg.insertDimensionData("group", {"instrument": inst, "name": "g"})
        for day in (20240101, 20240102):
            reg.insertDimensionData("day_obs", {"instrument": inst, "id": day})
        for d, (fn, raft, nir) in DETECTORS.items():
            reg.insertDimensionData("detector", {"instrument": inst, "id": d, "full_name": fn, "raft": raft, "name_in_raft": nir})
    for e, (obs, seq, day, t, tgt) in EXPOSURES.items():
        reg.insertDimensionData("exposure", {"instrument": "A", "id": e, "obs_id": obs, "physical_filter": "f", "day_obs": day, "group": "g", "seq_num": seq,
                                             "exposure_time": t, "target_name": tgt})
    raw = DatasetType("raw", ["instrument", "exposure"], "StructuredDataDict", universe=w.dimensions)
    det = DatasetType("det", ["instrument", "detector"], "StructuredDataDict", universe=w.dimensions)
    reg.registerDatasetType(raw), reg.registerDatasetType(det)
    for r_ in ("runA", "runB", "runAB", "runNone"):
        reg.registerRun(r_)
    for e in EXPOSURES:
        w.put({"exposure": e}, "raw", instrument="A", exposure=e, run="runA")
    for d in DETECTORS:
        w.put({"i": "A", "d": d}, "det", instrument="A", detector=d, run="runA")
        w.put({"i": "B", "d": d}, "det", instrument="B", detector=d, run="runB")
    w.put({"i": "A", "d": 1, "ab": 1}, "det", instrument="A", detector=1, run="runAB")
    w.put({"i": "B", "d": 2, "ab": 1}, "det", instrument="B", detector=2, run="runAB")
    holds = {"runA": {"A"}, "runB": {"B"}, "runAB": {"A", "B"}, "runNone": set()}

    # ---- (1) record-style keys
    from lsst.daf.butler.registry import DataIdError

    def classify(fn):
        try:
            ref = fn()
            return ("found", dict(ref.dataId.required)) if ref is not None else ("none", None)
        except (ButlerUserError, DataIdError) as exn:
            return ("rejected", type(exn).__name__)
        except LookupError as exn:
            return ("lookup-error", type(exn).__name__)
        except Exception as exn:
            return ("INTERNAL", f"{type(exn).__name__}: {str(exn)[:80]}")

    # the same cases for the model (Model/Front.lean): records with numbered fields and coded values
    req, impl = [], []
    vcode = {}

    def vc(v):
        return vcode.setdefault(v, len(vcode) + 1)
    EXP_F = {"obs_id": 1, "seq_num": 2, "exposure_time": 3, "target_name": 4, "day_obs": 5}
    DET_F = {"full_name": 1, "raft": 2, "name_in_raft": 3}
    exp_recs = ";".join(f"{e}:" + ",".join(f"{fi}={'-' if v is None else vc(v)}" for fi, v in ((1, r_[0]), (2, r_[1]), (3, r_[3]), (4, r_[4]), (5, r_[2]))) for e, r_ in sorted(EXPOSURES.items()))
    det_recs = ";".join(f"{d}:" + ",".join(f"{fi + 1}={'-' if v is None else vc(v)}" for fi, v in enumerate(r_)) for d, r_ in sorted(DETECTORS.items()))

    n_cases = 250 if ctx.quick() else 6000
    for c in range(n_cases):
        use_exposure = rng.random() < 0.6
        data_id, kwargs = {"instrument": "A"}, {}
        if use_exposure:
            fields = {"obs_id": 0, "seq_num": 1, "exposure_time": 3, "target_name": 4}
            truth = rng.choice(sorted(EXPOSURES))
            give_id = rng.random() < 0.6
            chosen = rng.sample(sorted(fields), rng.randint(0 if give_id else 1, 2))
            # a unique-key or (day, sequence) specification when the id is missing, any fields when it is given
            if not give_id and "obs_id" not in chosen and rng.random() < 0.7:
                chosen = ["seq_num"]
            vals = {}
            for fld in chosen:
                src = truth if rng.random() < 0.6 else rng.choice(sorted(EXPOSURES))
                v = EXPOSURES[src][fields[fld]]
                if v is None:
                    continue
                vals[fld] = v
            if not give_id and "seq_num" in vals and "obs_id" not in vals:
                data_id["day_obs"] = EXPOSURES[truth][2] if rng.random() < 0.8 else rng.choice([20240101, 20240102])
            if give_id:
                data_id["exposure"] = truth
            for fld, v in vals.items():
                if rng.random() < 0.5:
                    data_id[f"exposure.{fld}"] = v
                else:
                    kwargs[fld] = v
            if not give_id and not vals:
                continue
            matching = [e for e, recd in EXPOSURES.items() if all(recd[fields[f_]] == v for f_, v in vals.items())
                        and ("day_obs" not in data_id or recd[2] == data_id["day_obs"]) and (not give_id or e == truth)]
            if give_id:
                want = ("found", {"instrument": "A", "exposure": truth}) if matching and ("day_obs" not in data_id) else None
                if not matching:
                    want = ("rejected",)
            else:
                want = ("found", {"instrument": "A", "exposure": matching[0]}) if len(matching) == 1 else ("rejected",)
            call = lambda: w.find_dataset("raw", dict(data_id), collections="runA", **kwargs)  # noqa: E731
            name = "raw"
        else:
            fields = {"full_name": 0, "raft": 1, "name_in_raft": 2}
            truth = rng.choice(sorted(DETECTORS))
            give_id = rng.random() < 0.5
            as_string = (not give_id) and rng.random() < 0.3
            chosen = [] if as_string else rng.sample(sorted(fields), rng.randint(0 if give_id else 1, 2))
            vals = {}
            for fld in chosen:
                src = truth if rng.random() < 0.6 else rng.choice(sorted(DETECTORS))
                v = DETECTORS[src][fields[fld]]
                if v is None:
                    continue
                vals[fld] = v
            if give_id:
                data_id["detector"] = truth
            if as_string:
                kwargs["detector"] = DETECTORS[truth][0] if rng.random() < 0.8 else "D9"
                vals = {"full_name": kwargs["detector"]}
            else:
                for fld, v in vals.items():
                    if rng.random() < 0.5:
                        data_id[f"detector.{fld}"] = v
                    else:
                        kwargs[fld] = v
            if not give_id and not vals:
                continue
            matching = [d for d, recd in DETECTORS.items() if all(recd[fields[f_]] == v for f_, v in vals.items()) and (not give_id or d == truth)]
            want = ("found", {"instrument": "A", "detector": matching[0]}) if len(matching) == 1 else ("rejected",)
            call = lambda: w.find_dataset("det", dict(data_id), collections="runA", **kwargs)  # noqa: E731
            name = "det"
        if want is None:
            continue
        got = classify(call)
        ctx.evaluations += 1
        ctx.count(f"record-keys:{name}:{'id+' if give_id else ''}{len(vals)}:{want[0]}")
        fmap = EXP_F if name == "raw" else DET_F
        mvals = dict(vals)
        if name == "raw" and "day_obs" in data_id:
            mvals["day_obs"] = data_id["day_obs"]
        if mvals:
            req.append(f"fr recs {exp_recs if name == 'raw' else det_recs}"), impl.append("ok")
            req.append(f"fr rewrite {truth if give_id else '-'} " + ",".join(f"{fmap[f_]}={vc(v)}" for f_, v in sorted(mvals.items())))
            impl.append(str(got[1]["exposure" if name == "raw" else "detector"]) if got[0] == "found" else ("rejected" if got[0] == "rejected" else f"{got[0]}:{got[1]}"))
        if want[0] == "rejected":
            ctx.nontrivial.add(("record-keys", c))
        ok = (got[0] == "rejected") if want[0] == "rejected" else (got == want)
        if not ok:
            viol(f"find_dataset({name!r}, {data_id}, **{kwargs}): {got}; the stored records say {want}"
                 + (" — the data ID names two different records (or none) and must be rejected" if want[0] == "rejected" else ""),
                 f"record-keys:{name}:{sorted(data_id.items(), key=str)}:{sorted(kwargs.items(), key=str)}",
                 {"kind": "record-keys", "dataset_type": name, "data_id": {k: str(v) for k, v in data_id.items()}, "kwargs": {k: str(v) for k, v in kwargs.items()}})

    # ---- (2) defaulted governor values follow the default collections, through clone() too
    def expected_default(colls, explicit):
        if explicit is not None:
            return explicit
        insts = set().union(*[holds[c_] for c_ in colls]) if colls else set()
        return next(iter(insts)) if len(insts) == 1 else None

    runno = {"runA": 1, "runB": 2, "runAB": 3, "runNone": 4}
    icode = {"A": 1, "B": 2}
    req.append("fr holds 1:1;2:2;3:1,2;4:-"), impl.append("ok")

    def check_defaults(bt, colls, explicit, how, line=None):
        ctx.evaluations += 1
        ctx.count("defaults:" + how.split(" ")[0])
        want_inst = expected_default(colls, explicit)
        got = dict(bt.registry.defaults.dataId.mapping)
        if line:
            req.append(line), impl.append(str(icode.get(got.get("instrument"), "-")))
        if got != ({"instrument": want_inst} if want_inst else {}):
            viol(f"{how}: default data ID is {got}; collections {colls} (explicit default {explicit}) determine {want_inst}", f"defaults:{how}", {"kind": "defaults", "how": how})
            return
        try:
            ex = bt.registry.expandDataId(detector=2)
            out = ex["instrument"]
        except DataIdError:
            out = None
        except Exception as exn:
            out = f"INTERNAL:{type(exn).__name__}"
        if out != want_inst:
            viol(f"{how}: expandDataId(detector=2) completes the instrument to {out!r}; the defaults determine {want_inst!r}", f"defaults-expand:{how}", {"kind": "defaults", "how": how})
            return
        # a lookup that relies on the default finds this butler's own dataset, or is refused when nothing is defaulted
        try:
            ref = bt.find_dataset("det", detector=2)
            out = dict(ref.dataId.required) if ref is not None else None
        except (DataIdError, ButlerUserError):
            out = "rejected"
        except Exception as exn:
            out = f"INTERNAL:{type(exn).__name__}"
        if want_inst is None:
            want = "rejected"
        else:
            first = next((c_ for c_ in colls if want_inst in holds[c_] and (c_ != "runAB" or want_inst == "B")), None)
            want = {"instrument": want_inst, "detector": 2} if first else None
        if out != want:
            viol(f"{how}: find_dataset('det', detector=2) gives {out}; with default instrument {want_inst!r} over {colls} it should give {want}", f"defaults-find:{how}", {"kind": "defaults", "how": how})

    runs = ["runA", "runB", "runAB", "runNone"]
    for _ in range(25 if ctx.quick() else 400):
        colls = rng.sample(runs, rng.randint(1, 2))
        explicit = rng.choice([None, None, "A", "B"])
        kw = {"instrument": explicit} if explicit else {}
        bt = Butler.from_config(root, collections=colls, **kw)
        how = f"from_config collections={colls} explicit={explicit}"
        check_defaults(bt, colls, explicit, how, f"fr mk {','.join(str(runno[c_]) for c_ in colls)} 1 {icode.get(explicit, '-')}")
        for _hop in range(rng.randint(1, 3)):
            colls2 = rng.sample(runs, rng.randint(1, 2))
            mode = rng.choice(["collections", "collections", "collections+dataId", "plain"])
            cl = ",".join(str(runno[c_]) for c_ in colls2)
            if mode == "collections":
                bt = bt.clone(collections=colls2)
                colls = colls2
                line = f"fr clone {cl} = ="
            elif mode == "collections+dataId":
                explicit = rng.choice(["A", "B"])
                bt = bt.clone(collections=colls2, dataId={"instrument": explicit})
                colls = colls2
                line = f"fr clone {cl} = {icode[explicit]}"
            else:
                bt = bt.clone()
                line = "fr clone = = ="
            how += f" -> clone({mode} {colls if mode != 'plain' else ''}{' ' + explicit if mode == 'collections+dataId' else ''})"
            check_defaults(bt, colls, explicit, how, line)
    del w
    if model_ok:
        got = core.driver(req)
        nd = 0
        for line, m, i in zip(req, got, impl):
            if m != i:
                nd += 1
                if nd <= 5:
                    ctx.broken.append(f"correspondence (front end): `{line[:160]}` model={m} implementation={i}")
        ctx.extra["front_correspondence_lines"] = len(req)
        ctx.extra["front_correspondence_disagreements"] = nd


def replay(ctx, content):
    print("replay:", content.get("what"))
    run(ctx)
    return core.finish(ctx)
