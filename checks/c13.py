"""C13 — data IDs mean one thing: standardisation and expansion are consistent.

Model: Model/DataId.lean (DataCoordinate.standardize, ==/hash, subset; SqlRegistry.expandDataId as the walk
over lookup_order with setdefault-and-compare) on top of the dimension-universe model of C12.
Tie: F (universe tables extracted each run) + C (generated mappings / kwargs / defaults over sampled
dimension groups through the real DataCoordinate.standardize and Registry.expandDataId on a populated
SQLite registry, compared with the model).
Oracle (model-free): key/value-set semantics and a brute-force consistency check against the stored records.
"""
from __future__ import annotations

import itertools
import os
import sys

from vlib import core, repo

LEVEL = "proof"
LEAN_TARGETS = ["ButlerModel.Props.C13", "driver"]


def gen(ctx):
    sys.path.insert(0, os.path.join(core.VERIF, "translate"))
    import gen_universe
    try:
        return gen_universe.generate(core.GEN_DIR)
    except Exception as e:
        ctx.broken.append(f"fact extraction (universe): {type(e).__name__}: {e}")
        return None


def run(ctx):
    ctx.rule = (
        "seeded (mapping, kwargs, defaults, dimensions) combinations over dimension groups of the populated dimensions "
        "(instrument, detector, physical_filter, band, day_obs, group, exposure, visit): extra / missing / overriding / "
        "defaulted keys, numpy integers, key permutations; pairs for ==/hash/subset/union; expansion of consistent and "
        "inconsistent inputs (wrong implied values, contradictory visit/exposure, missing visit_definition, unknown values); "
        "non-trivial = distinct inputs over a group with at least one implied dimension"
    )
    ctx.assumptions = ["SQLite returns the stored dimension records unchanged (fetch_one)"]
    with core.Lock():
        ok = gen(ctx) is not None
        built = ok and core.lean_build(ctx, LEAN_TARGETS)
        if built:
            core.lean_audit(ctx, ["ButlerModel.Props.C13"])
            if not ctx.quick():
                core.leanchecker(ctx, ["ButlerModel.Props.C13"])
    with repo.Scratch("verif-c13-") as tmp:
        correspondence(ctx, built, tmp)


def correspondence(ctx, model_ok, tmp):
    import numpy
    from lsst.daf.butler import DataCoordinate, DimensionGroup
    from lsst.daf.butler._exceptions import DataIdValueError, DimensionNameError, InconsistentDataIdError

    rng = ctx.rng
    b = repo.make_butler(os.path.join(tmp, "r"))
    reg = b.registry
    u = b.dimensions
    repo.basic_dimensions(b, detectors=(1, 2), filters=(("f1", "r"), ("f2", "g")))
    for day in (20240101, 20240102):
        reg.insertDimensionData("day_obs", {"instrument": "I", "id": day})
    for g in ("g1", "g2"):
        reg.insertDimensionData("group", {"instrument": "I", "name": g})
    EXP = {10: ("f1", 20240101, "g1"), 11: ("f2", 20240102, "g2"), 12: ("f1", 20240102, "g1")}
    for e, (f, day, g) in EXP.items():
        reg.insertDimensionData("exposure", {"instrument": "I", "id": e, "obs_id": f"o{e}", "physical_filter": f, "day_obs": day, "group": g})
    VIS = {1: ("f1", 20240101), 2: ("f2", 20240102)}
    for v, (f, day) in VIS.items():
        reg.insertDimensionData("visit", {"instrument": "I", "id": v, "name": f"v{v}", "physical_filter": f, "day_obs": day})
    # (2, 12) joins a visit and an exposure whose own records contradict each other (filter f2 vs f1)
    VDEF = [(1, 10), (2, 11), (2, 12)]
    for v, e in VDEF:
        reg.insertDimensionData("visit_definition", {"instrument": "I", "visit": v, "exposure": e})
    BAND = {"f1": "r", "f2": "g"}

    elems = [e.name for e in u.sorted(u.elements.names)]
    idx = {n: i for i, n in enumerate(elems)}
    codes = {}

    def code(v):
        v = int(v) if isinstance(v, numpy.integer) else v
        if v not in codes:
            codes[v] = len(codes) + 1
        return codes[v]

    def enc(m):
        return ",".join(f"{idx[k]}={code(v)}" for k, v in m.items()) or "-"

    req, impl = ["did new"], ["ok"]
    # records for the model
    def rec(elem, keys, implied):
        req.append(f"did rec {idx[elem]} {enc(keys)} {enc(implied)}")
        impl.append("ok")

    rec("instrument", {"instrument": "I"}, {})
    for d in (1, 2):
        rec("detector", {"instrument": "I", "detector": d}, {})
    for f, bd in BAND.items():
        rec("physical_filter", {"instrument": "I", "physical_filter": f}, {"band": bd})
    for bd in ("r", "g"):
        rec("band", {"band": bd}, {})
    for day in (20240101, 20240102):
        rec("day_obs", {"instrument": "I", "day_obs": day}, {})
    for g in ("g1", "g2"):
        rec("group", {"instrument": "I", "group": g}, {})
    for e, (f, day, g) in EXP.items():
        rec("exposure", {"instrument": "I", "exposure": e}, {"physical_filter": f, "day_obs": day, "group": g})
    for v, (f, day) in VIS.items():
        rec("visit", {"instrument": "I", "visit": v}, {"physical_filter": f, "day_obs": day})
    for v, e in VDEF:
        rec("visit_definition", {"instrument": "I", "visit": v, "exposure": e}, {})
    req.append("did defrel " + ",".join(str(idx[e.name]) for e in u.elements if getattr(e, "defines_relationships", False)))
    impl.append("ok")

    def viol(what, key, replay):
        ctx.violations.append(core.Violation(what=what, key=key, replay=replay))

    POOL = {
        "instrument": ["I", "I", "I", "J"], "detector": [1, 2, 3], "physical_filter": ["f1", "f2", "f9"], "band": ["r", "g", "i"],
        "day_obs": [20240101, 20240102], "group": ["g1", "g2"], "exposure": [10, 11, 12, 99], "visit": [1, 2, 7],
    }
    dims_pool = list(POOL)

    def render(d):
        vals = dict(d.mapping) if d.hasFull() else dict(d.required)
        return (f"dims={','.join(str(idx[n]) for n in d.dimensions.names) or ''} full={'true' if d.hasFull() else 'false'} "
                f"vals={','.join(f'{k}={v}' for k, v in sorted((idx[k], code(v)) for k, v in vals.items())) or '-'}")

    def np_maybe(v):
        if isinstance(v, int) and rng.random() < 0.2:
            return rng.choice([numpy.int64, numpy.int32])(v)
        return v

    n_cases = 1500 if ctx.quick() else 30000
    for c in range(n_cases):
        names = [d for d in dims_pool if rng.random() < 0.35] or ["instrument"]
        G = DimensionGroup(u, names)
        # a consistent underlying truth to draw from, then perturb
        truth = {"instrument": "I", "detector": rng.choice([1, 2])}
        v = rng.choice([1, 2])
        e = rng.choice([x for vv, x in VDEF if vv == v]) if rng.random() < 0.7 else rng.choice([10, 11, 12])
        truth.update(visit=v, exposure=e)
        src = rng.choice(["visit", "exposure"]) if {"visit", "exposure"} <= set(G.names) else ("visit" if "visit" in G.names else "exposure")
        f, day = VIS[v] if src == "visit" else EXP[e][:2]
        truth.update(physical_filter=f, band=BAND[f], day_obs=day, group=EXP[e][2])
        mapping, kwargs = {}, {}
        for d in G.names:
            r = rng.random()
            is_req = d in G.required
            if r < (0.92 if is_req else 0.5):
                val = truth[d] if rng.random() < 0.85 else rng.choice(POOL[d])
                (kwargs if rng.random() < 0.25 else mapping)[d] = np_maybe(val)
        for d in dims_pool:
            if d not in G.names and rng.random() < 0.25:
                mapping[d] = rng.choice(POOL[d])  # extra key
        for d in list(mapping):
            if rng.random() < 0.1:
                kwargs[d] = np_maybe(rng.choice(POOL[d]))  # kwargs override the mapping
        defaults = None
        if rng.random() < 0.3:
            defaults = DataCoordinate.standardize(instrument="I", universe=u)
        explicit = rng.random() < 0.7
        dims_arg = G if explicit else None
        items = list(mapping.items())
        rng.shuffle(items)
        mapping = dict(items)
        try:
            d1 = DataCoordinate.standardize(mapping, dimensions=dims_arg, universe=u, defaults=defaults, **kwargs)
            out = "ok " + render(d1)
        except DimensionNameError:
            d1, out = None, "err DimensionNameError"
        except Exception as ex:
            d1, out = None, f"err INTERNAL:{type(ex).__name__}"
        req.append(f"did std default {','.join(str(idx[n]) for n in names) if explicit else '*'} {enc(mapping)} {enc(kwargs)} "
                   f"{enc({'instrument': 'I'}) if defaults is not None else '-'}")
        impl.append(out)
        ctx.evaluations += 1
        if G.implied:
            ctx.nontrivial.add(("std", tuple(sorted(names)), tuple(sorted((k, str(v_)) for k, v_ in mapping.items())), tuple(sorted(kwargs)), explicit))
        merged = {**mapping, **kwargs}
        if defaults is not None:
            merged.setdefault("instrument", "I")
        if d1 is not None:
            Gr = d1.dimensions
            problems = []
            if explicit and Gr != G:
                problems.append("dimensions differ from the requested ones")
            for k in Gr.required:
                if k not in merged or d1[k] != merged[k] or type(d1[k]) not in (int, str):
                    problems.append(f"required value of {k} is {d1[k]!r}, given {merged.get(k)!r}")
            if d1.hasFull():
                for k in Gr.implied:
                    if d1[k] != merged.get(k):
                        problems.append(f"implied value of {k} is {d1[k]!r}, given {merged.get(k)!r}")
            # re-standardising with permuted keys and an extra key gives an equal data ID with the same hash
            if explicit:
                items2 = list(merged.items())
                rng.shuffle(items2)
                extra = [d for d in dims_pool if d not in G.names]
                m2 = dict(items2)
                if extra:
                    m2[extra[0]] = rng.choice(POOL[extra[0]])
                d2 = DataCoordinate.standardize(m2, dimensions=G, universe=u)
                if not (d2 == d1 and hash(d2) == hash(d1)):
                    problems.append("equal inputs (permuted, extra key) give unequal data IDs or hashes")
                # subset commutes with the underlying key/value sets
                sub_names = [n for n in Gr.names if rng.random() < 0.5]
                H = DimensionGroup(u, sub_names)
                if H <= Gr:
                    try:
                        s1 = d1.subset(H)
                        s2 = DataCoordinate.standardize({k: merged[k] for k in H.required}, dimensions=H, universe=u)
                        if s1 != s2:
                            problems.append(f"subset({list(H.names)}) differs from standardising the restricted mapping")
                    except KeyError:
                        if d1.hasFull() or set(H.required) <= set(Gr.required):
                            problems.append(f"subset({list(H.names)}) raised KeyError although all needed values are known")
            if problems:
                viol(f"standardize({mapping}, dimensions={list(names) if explicit else None}, kwargs={kwargs}): " + "; ".join(problems[:3]),
                     f"std:{sorted(names)}:{sorted(map(str, merged.items()))}:{explicit}", {"kind": "standardize", "mapping": str(mapping), "kwargs": str(kwargs)})
        elif explicit and all(k in merged for k in G.required):
            viol(f"standardize({mapping}, dimensions={list(names)}, kwargs={kwargs}) refused although every required key has a value",
                 f"std-refused:{sorted(names)}:{sorted(map(str, merged.items()))}", {"kind": "standardize", "mapping": str(mapping), "kwargs": str(kwargs)})

        # ---- expansion
        if explicit and rng.random() < 0.6:
            full_in = {**mapping, **kwargs}
            try:
                ex = reg.expandDataId(full_in, dimensions=G, withDefaults=False)
                eout = "ok " + (",".join(f"{k}={v_}" for k, v_ in sorted((idx[k], code(ex[k])) for k in G.names)) or "-")
            except DimensionNameError:
                ex, eout = None, "err DimensionNameError"
            except InconsistentDataIdError:
                ex, eout = None, "err InconsistentDataIdError"
            except DataIdValueError:
                ex, eout = None, "err DataIdValueError"
            except Exception as exn:
                ex, eout = None, f"err INTERNAL:{type(exn).__name__}"
            req.append(f"did expand default {','.join(str(idx[n]) for n in names)} {enc(full_in)}")
            impl.append(eout)
            ctx.evaluations += 1
            # brute-force oracle
            reqv = {k: full_in.get(k) for k in G.required}
            complete_implied = all(k in full_in for k in G.names)
            def consistent(vals):
                """Is there a consistent assignment of all of G's dimensions extending the required values `vals`?"""
                if any(v_ is None for v_ in vals.values()):
                    return None
                full = dict(vals)
                ok = vals.get("instrument", "I") == "I"
                def imply(k, v_):
                    nonlocal ok
                    if full.setdefault(k, v_) != v_:
                        ok = False
                if "detector" in full and full["detector"] not in (1, 2):
                    ok = False
                if "band" in full and "band" in G.required and full["band"] not in ("r", "g"):
                    ok = False
                if "day_obs" in full and full["day_obs"] not in (20240101, 20240102):
                    ok = False
                if "group" in full and full["group"] not in ("g1", "g2"):
                    ok = False
                if "physical_filter" in full and "physical_filter" in vals:
                    if full["physical_filter"] not in BAND:
                        ok = False
                if "exposure" in vals:
                    if vals["exposure"] not in EXP:
                        ok = False
                    else:
                        f_, d_, g_ = EXP[vals["exposure"]]
                        imply("physical_filter", f_), imply("day_obs", d_), imply("group", g_)
                if "visit" in vals:
                    if vals["visit"] not in VIS:
                        ok = False
                    else:
                        f_, d_ = VIS[vals["visit"]]
                        imply("physical_filter", f_), imply("day_obs", d_)
                if "visit" in vals and "exposure" in vals and (vals["visit"], vals["exposure"]) not in VDEF:
                    ok = False
                if ok and "physical_filter" in full and full["physical_filter"] in BAND:
                    imply("band", BAND[full["physical_filter"]])
                return full if ok else None
            start = dict(reqv)
            if complete_implied:
                start = {k: full_in[k] for k in G.names}
            want = consistent({k: (int(v_) if isinstance(v_, numpy.integer) else v_) for k, v_ in start.items()})
            if ex is not None:
                got = {k: ex[k] for k in G.names}
                if want is None:
                    viol(f"expandDataId({full_in}, dimensions={list(names)}) accepted an inconsistent data ID and returned {got}",
                         f"expand-accepts:{sorted(names)}:{sorted(map(str, full_in.items()))}", {"kind": "expand", "input": str(full_in), "dims": list(names)})
                elif any(got[k] != want[k] for k in G.names if k in want):
                    viol(f"expandDataId({full_in}, dimensions={list(names)}) = {got}, stored records say {want}",
                         f"expand-values:{sorted(names)}:{sorted(map(str, full_in.items()))}", {"kind": "expand", "input": str(full_in), "dims": list(names)})
                elif not ex.hasRecords():
                    viol(f"expandDataId({full_in}) result has no records", f"expand-norecords:{sorted(names)}", {"kind": "expand", "input": str(full_in)})
            else:
                if eout.startswith("err INTERNAL"):
                    viol(f"expandDataId({full_in}, dimensions={list(names)}) raised {eout[4:]}", f"expand-internal:{eout}:{sorted(names)}",
                         {"kind": "expand", "input": str(full_in), "dims": list(names)})
                elif want is not None and all(k in full_in for k in G.required):
                    viol(f"expandDataId({full_in}, dimensions={list(names)}) refused ({eout}) a consistent data ID", f"expand-refuses:{sorted(names)}:{sorted(map(str, full_in.items()))}",
                         {"kind": "expand", "input": str(full_in), "dims": list(names)})
    ctx.count("cases", n_cases)

    # ---- unions of data IDs (plain and expanded operands) commute with the key/value sets and never claim records they lack
    expanded = []
    for v in (1, 2):
        for det in (1, 2):
            expanded.append(reg.expandDataId(instrument="I", visit=v))
            expanded.append(reg.expandDataId(instrument="I", detector=det))
            expanded.append(reg.expandDataId(instrument="I", exposure=dict((vv, x) for vv, x in VDEF[:2])[v]))
            expanded.append(DataCoordinate.standardize(instrument="I", visit=v, detector=det, universe=u))
    for a, c in itertools.product(expanded, expanded):
        ctx.evaluations += 1
        try:
            un = a.union(c)
        except Exception as exn:
            if all(a.get(k, c[k]) == c[k] for k in c.dimensions.required if k in a.dimensions.names):
                viol(f"union of {a} and {c} raised {type(exn).__name__}", f"union-raise:{a}:{c}", {"kind": "union", "a": str(a), "b": str(c)})
            continue
        merged = {**dict(a.required), **dict(c.required)}
        agree = all(dict(a.required).get(k, v_) == v_ for k, v_ in c.required.items())
        if not agree:
            continue
        want = DataCoordinate.standardize(merged, dimensions=a.dimensions | c.dimensions, universe=u)
        problems = []
        if un != want or hash(un) != hash(want):
            problems.append(f"is {un}, the united key/value sets give {want}")
        if un.hasRecords():
            for el in un.dimensions.elements:
                try:
                    un.records[el]
                except KeyError:
                    problems.append(f"claims hasRecords() but has no record for {el}")
                    break
        if un.hasFull():
            for k in un.dimensions.implied:
                try:
                    un[k]
                except KeyError:
                    problems.append(f"claims hasFull() but has no value for {k}")
        if problems:
            viol(f"union of {a} and {c} " + "; ".join(problems), f"union:{a}:{c}", {"kind": "union", "a": str(a), "b": str(c)})
    ctx.count("union-pairs", len(expanded) ** 2)

    # ---- the stored records change (sync with update): later expansions must follow
    before = reg.expandDataId(instrument="I", physical_filter="f2")["band"]
    reg.syncDimensionData("physical_filter", {"instrument": "I", "name": "f2", "band": "z"}, update=True)
    after = reg.expandDataId(instrument="I", physical_filter="f2")
    ctx.evaluations += 2
    if after["band"] != "z" or after.records["physical_filter"].band != "z":
        viol(f"after syncDimensionData(physical_filter f2, band='z', update=True) expandDataId still gives band={after['band']!r} "
             f"(record band {after.records['physical_filter'].band!r}; it was {before!r})", "stale-records-after-sync-update", {"kind": "sync-update"})
    v2 = reg.expandDataId(instrument="I", visit=2)
    if v2["band"] != "z":
        viol(f"after the update of physical_filter f2, expandDataId(visit=2) gives band={v2['band']!r}, stored record says 'z'",
             "stale-records-after-sync-update-visit", {"kind": "sync-update"})
    reg.syncDimensionData("detector", {"instrument": "I", "id": 1, "full_name": "renamed"}, update=True)
    if reg.expandDataId(instrument="I", detector=1).records["detector"].full_name != "renamed":
        viol("after syncDimensionData(detector 1, full_name='renamed', update=True) expandDataId returns the old record",
             "stale-records-after-sync-update-detector", {"kind": "sync-update"})
    for i in range(30, len(req), max(1, len(req) // 6)):
        ctx.sample({"request": req[i], "implementation": impl[i]})
    if model_ok:
        got = core.driver(req)
        nd = 0
        for line, m, i in zip(req, got, impl):
            if m != i:
                nd += 1
                if nd <= 5:
                    ctx.broken.append(f"correspondence: `{line}` model={m} implementation={i}")
        ctx.extra["correspondence_lines"] = len(req)
        ctx.extra["correspondence_disagreements"] = nd
    else:
        ctx.notes.append("model not built: correspondence skipped")


def replay(ctx, content):
    print("replay:", content.get("what"))
    run(ctx)
    return core.finish(ctx)
