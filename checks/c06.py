"""C06 — queries relate dimensions exactly as the stored records relate them.

Model: Model/Join.lean (tables over dimension columns, natural join); theorems in Props/C06.lean (sat_join,
query_exact: a combination is returned iff it is consistent with every contributing table;
join_order_irrelevant; more_tables_fewer_rows).
Model/Spatial.lean (the materialised common-skypix overlap tables under insert / skip_existing / replace / sync, the
candidate join, Postprocessing.apply with its threaded limit over raw pages, materialize); theorems C06.Spatial.*
(run_inv, query_exact_pairs, history_query_exact, same_records_same_answer, applyPages_spec, query_page_size_irrelevant,
query_limit_prefix, materialize_read_back, run_exact, skip_existing_leaves_extra_rows).
Tie: F + C — the dimension groups are enumerated from the live universe (every dependency-closed subset of its
non-skypix dimensions) together with each element's required / implied / always-join / spatial-family metadata;
for seeded record populations the tables that the rule "dimension tables + always-joined membership tables +
overlap of the finest elements of two spatial families" selects are sent to the model, and
Butler.query_data_ids / Registry.queryDataIds are run on real repositories populated in several insertion
histories (bulk insert, shuffled + syncDimensionData, displaced regions corrected by replace / sync update).
Oracle (model-free): a backtracking search straight over the record dictionaries: every dimension value has a
record whose required and implied values are the combination's, every always-joined element whose dimensions
are all present has a row, and when two spatial families meet the regions (sphgeom) are not disjoint.
"""
from __future__ import annotations

import itertools
import os

from vlib import core, dimpop, repo

LEVEL = "proof"
LEAN_TARGETS = ["ButlerModel.Props.C06", "driver"]

DIMS = ["band", "instrument", "skymap", "day_obs", "detector", "group", "physical_filter", "subfilter", "tract", "visit_system", "exposure", "patch", "visit"]
KEY = {"instrument": "name", "skymap": "name", "group": "name", "physical_filter": "name"}  # the others use "id"


def run(ctx):
    ctx.rule = (
        "all dependency-closed subsets of the default universe's 13 non-skypix dimensions (enumerated from the live universe; quick: a "
        "seeded sample plus every group in which two spatial families meet); seeded record populations (1-2 instruments, filters with "
        "bands, detectors, days, groups, exposures, visits with regions or NULL region, visit definitions and visit-system memberships "
        "on subsets, per-detector regions on subsets, 1-2 skymaps with tracts and patches on an integer grid so that regions touch, nest "
        "and are disjoint); four insertion histories per population (bulk insert; shuffled + sync; displaced regions corrected by replace / sync-update and key-only tables written with replace; NULL regions filled in by sync-update), regions stored as great-circle polygons or lon/lat boxes; non-trivial = (group, population) pairs whose result is neither "
        "empty nor the full product of the value domains"
    )
    ctx.assumptions = [
        "region relations are sphgeom's (ConvexPolygon.relate): geometry is trusted, not modelled",
        "skypix dimensions and user-requested explicit spatial constraints (where-clause overlaps) are outside this check",
    ]
    with core.Lock():
        built = core.lean_build(ctx, LEAN_TARGETS)
        if built:
            core.lean_audit(ctx, ["ButlerModel.Props.C06"])
            if not ctx.quick():
                core.leanchecker(ctx, ["ButlerModel.Props.C06"])
    with repo.Scratch("verif-c06-") as tmp:
        joins(ctx, built, tmp)
        big_join(ctx, built, tmp)
        spatial_histories(ctx, built, tmp)


def val(el, rec, dim):
    if dim == el:
        return rec[KEY.get(el, "id")]
    return rec[dim]


def overlap(rec1, rec2):
    """Not provably disjoint, for the region objects as stored (sphgeom's relation is the arbiter)."""
    from lsst import sphgeom

    if rec1.get("region") is None or rec2.get("region") is None:
        return False
    # the exact relation of the rectangles as great-circle polygons: a region stored as a lon/lat Box is placed strictly inside
    # its grid cell (0.3 degrees from every grid line), so the tiny difference between a lon/lat box and the polygon with the
    # same corners cannot change the answer, while sphgeom's Box-versus-polygon relation is only tri-state
    return not (dimpop.box(*rec1["region"]).relate(dimpop.box(*rec2["region"])) & sphgeom.DISJOINT)


def constraints(G, pop, meta):
    """[(dims tuple, set of allowed value tuples)] — straight from the records and the property statement."""
    cons = []
    G = set(G)
    bands = {r["band"] for r in pop["physical_filter"]}
    for d in G:
        if d == "band":
            # `band` has no table of its own: its values are the bands of the physical_filter records.  A group in which another
            # dimension carries the band (subfilter requires it, physical_filter implies it) takes it from those records; a
            # subfilter record whose band no physical_filter has (there is no foreign key) is still a stored record of its group
            if not ({"subfilter", "physical_filter"} & G):
                cons.append((("band",), {(b,) for b in bands}))
            continue
        cols = tuple(meta[d]["required"]) + tuple(meta[d]["implied"])
        cons.append((cols, {tuple(val(d, r, c) for c in cols) for r in pop[d]}))
    for el in ("visit_definition", "visit_system_membership"):
        if set(meta[el]["required"]) <= G:
            cols = tuple(meta[el]["required"])
            cons.append((cols, {tuple(r[c] for c in cols) for r in pop[el]}))
    obs = None
    if "visit" in G:
        obs = "visit_detector_region" if "detector" in G else "visit"
    sky = "patch" if "patch" in G else ("tract" if "tract" in G else None)
    if obs and sky:
        ocols, scols = tuple(meta[obs]["required"]), tuple(meta[sky]["required"])
        allowed = set()
        for r1 in pop[obs]:
            for r2 in pop[sky]:
                if overlap(r1, r2):
                    allowed.add(tuple(val(obs, r1, c) for c in ocols) + tuple(val(sky, r2, c) for c in scols))
        cons.append((ocols + scols, allowed))
    return cons


def brute(G, cons):
    """All assignments of G consistent with every constraint (backtracking over the dimensions)."""
    order = [d for d in DIMS if d in G]
    domains = {d: set() for d in order}
    for cols, allowed in cons:
        for i, c in enumerate(cols):
            domains[c] |= {t[i] for t in allowed}
    out = []

    def ok(assign):
        for cols, allowed in cons:
            if all(c in assign for c in cols):
                if tuple(assign[c] for c in cols) not in allowed:
                    return False
        return True

    def rec(i, assign):
        if i == len(order):
            out.append(tuple(assign[d] for d in order))
            return
        for v in sorted(domains[order[i]], key=repr):
            assign[order[i]] = v
            if ok(assign):
                rec(i + 1, assign)
            del assign[order[i]]

    rec(0, {})
    return set(out)


def joins(ctx, model_ok, tmp):
    from lsst.daf.butler import Butler, DimensionUniverse

    rng = ctx.rng
    u = DimensionUniverse()
    meta = {}
    for e in u.elements:
        if e.name in DIMS or e.name in ("visit_definition", "visit_system_membership", "visit_detector_region"):
            meta[e.name] = {"required": list(e.required.names), "implied": list(e.implied.names), "always_join": bool(getattr(e, "alwaysJoin", False)),
                            "spatial": e.spatial.name if e.spatial else None}
    # facts the rule relies on, read from the live universe
    facts_ok = (meta["visit_definition"]["always_join"] and meta["visit_system_membership"]["always_join"] and not meta["visit_detector_region"]["always_join"]
                and meta["visit"]["spatial"] == meta["visit_detector_region"]["spatial"] and meta["tract"]["spatial"] == meta["patch"]["spatial"]
                and meta["visit"]["spatial"] != meta["tract"]["spatial"] and sorted(n for n in u.dimensions.names if "htm" not in n and "healpix" not in n) == sorted(DIMS))
    if not facts_ok:
        ctx.broken.append("facts: the universe's always-join / spatial-family metadata is not what the join rule assumes")
    groups = []
    for k in range(0, len(DIMS) + 1):
        for sub in itertools.combinations(DIMS, k):
            if set(u.conform(sub).names) == set(sub):
                groups.append(tuple(sub))
    ctx.extra["dimension_groups"] = len(groups)
    spatial_groups = [g for g in groups if "visit" in g and ("tract" in g or "patch" in g)]
    req, impl = [], []

    def viol(what, key, replay):
        ctx.violations.append(core.Violation(what=what, key=key, replay=replay))

    empty = os.path.join(tmp, "empty")
    Butler.makeRepo(empty)
    import shutil

    n_pop = 6 if ctx.quick() else 25
    for pi in range(n_pop):
        pop = dimpop.generate(rng)
        butlers = {}
        for mode in ("insert", "sync", "replace", "null-sync"):
            root = os.path.join(tmp, f"p{pi}_{mode}")
            shutil.copytree(empty, root)
            butlers[mode] = Butler.from_config(root, writeable=True)
            dimpop.insert_all(butlers[mode], pop, rng=rng, mode=mode)
        chosen = groups if not ctx.quick() else (rng.sample(spatial_groups, 14) + rng.sample(groups, 46))
        numv = {d: {} for d in DIMS}

        def nv(d, v):
            return numv[d].setdefault(v, len(numv[d]) + 1)

        for G in chosen:
            if not G:
                continue
            cons = constraints(G, pop, meta)
            want = brute(G, cons)
            order = [d for d in DIMS if d in G]
            ctx.evaluations += 1
            ctx.count(f"group-size:{len(G)}")
            full = 1
            for d in order:
                full *= max(1, len({t[i] for cols, allowed in cons for i, c in enumerate(cols) if c == d for t in allowed}))
            if 0 < len(want) < full:
                ctx.nontrivial.add((pi, G))
            results = {}
            for mode, b in butlers.items():
                for api in ("query_data_ids", "queryDataIds") if mode == "insert" else ("query_data_ids",):
                    try:
                        if api == "query_data_ids":
                            res = b.query_data_ids(list(G), explain=False, limit=None)
                        else:
                            res = b.registry.queryDataIds(list(G))
                        got = {tuple(d.mapping[x] for x in order) for d in res}
                    except Exception as e:
                        got = f"{type(e).__name__}: {str(e)[:100]}"
                    results[(mode, api)] = got
            if G in spatial_groups or rng.random() < 0.15:
                # the same relation read back from a materialised query (a temporary table), whole and projected
                try:
                    with butlers["insert"].query() as q:
                        m = q.join_dimensions(list(G)).materialize()
                        results[("insert", "materialize")] = {tuple(d.mapping[x] for x in order) for d in m.data_ids(list(G))}
                        ctx.count("materialize")
                except Exception as e:
                    results[("insert", "materialize")] = f"{type(e).__name__}: {str(e)[:100]}"
            for (mode, api), got in results.items():
                if got != want:
                    extra = sorted(got - want, key=repr)[:2] if isinstance(got, set) else got
                    missing = sorted(want - got, key=repr)[:2] if isinstance(got, set) else ""
                    viol(f"{api} over {list(G)} on population {pi} (records entered by {mode}): returns {len(got) if isinstance(got, set) else got} combinations, "
                         f"the stored records allow {len(want)}; not allowed but returned: {extra}; allowed but missing: {missing}",
                         f"c06:{api}:{mode}:{G}", {"kind": "join", "group": list(G), "population": pi, "mode": mode, "api": api})
                    break
            # the model: the same tables, natural join
            cols = {d: i + 1 for i, d in enumerate(DIMS)}
            toks = ["jn", "run", "OUT", ",".join(str(cols[d]) for d in order)]
            for ccols, allowed in cons:
                toks += ["T", ",".join(str(cols[c]) for c in ccols)]
                for t in sorted(allowed, key=repr):
                    toks += ["R", ",".join(str(nv(c, v)) for c, v in zip(ccols, t))]
            req.append(" ".join(toks))
            got = results[("insert", "query_data_ids")]
            if isinstance(got, set):
                rows = sorted([nv(d, v) for d, v in zip(order, t)] for t in got)
                impl.append(";".join(".".join(map(str, r_)) for r_ in rows) or "-")
            else:
                impl.append("error")
            ctx.sample({"group": list(G), "rows": len(want)}, cap=6)
        for b in butlers.values():
            del b
        for mode in ("insert", "sync", "replace", "null-sync"):
            shutil.rmtree(os.path.join(tmp, f"p{pi}_{mode}"), ignore_errors=True)
    if model_ok:
        got = core.driver(req)
        nd = 0
        for line, m, i in zip(req, got, impl):
            if m != i:
                nd += 1
                if nd <= 5:
                    ctx.broken.append(f"correspondence: `{line[:120]}` model={m[:200]} implementation={i[:200]}")
        ctx.extra["correspondence_lines"] = len(req)
        ctx.extra["correspondence_disagreements"] = nd


def big_join(ctx, model_ok, tmp):
    """A spatial join whose candidate set (pairs sharing a common-skypix cell) runs to several result pages and holds many
    near misses: visits are 2x2-degree footprints shrunk by 0.2 degrees on a 1-degree patch grid, so each overlaps exactly the
    four patches under it while sharing cells with the ring of patches around them."""
    from lsst import sphgeom
    from lsst.daf.butler import Butler

    rng = ctx.rng
    root = os.path.join(tmp, "big")
    Butler.makeRepo(root)
    b = Butler.from_config(root, writeable=True)
    reg = b.registry
    nx = 10
    nv = 320 if ctx.quick() else 1500
    reg.insertDimensionData("instrument", {"name": "I"})
    reg.insertDimensionData("physical_filter", {"instrument": "I", "name": "f", "band": "r"})
    reg.insertDimensionData("day_obs", {"instrument": "I", "id": 20250101})
    reg.insertDimensionData("skymap", {"name": "S", "hash": b"S" * 4, "tract_max": 2, "patch_nx_max": nx, "patch_ny_max": nx})
    reg.insertDimensionData("tract", {"skymap": "S", "id": 0, "region": dimpop.box(0, 0, nx, nx)})
    patches = {}
    for x in range(nx):
        for y in range(nx):
            patches[x * nx + y] = (x, y, x + 1, y + 1)
    reg.insertDimensionData("patch", *[{"skymap": "S", "tract": 0, "id": k, "cell_x": k // nx, "cell_y": k % nx, "region": dimpop.box(*r)} for k, r in patches.items()])
    visits = {}
    for v in range(1, nv + 1):
        x, y = rng.randint(0, nx - 2), rng.randint(0, nx - 2)
        visits[v] = (x + 0.2, y + 0.2, x + 1.8, y + 1.8) if rng.random() < 0.97 else None
    recs = [{"instrument": "I", "id": v, "name": f"v{v}", "physical_filter": "f", "day_obs": 20250101, "region": dimpop.box(*r) if r else None} for v, r in visits.items()]
    rng.shuffle(recs)
    for i in range(0, len(recs), 57):
        reg.insertDimensionData("visit", *recs[i:i + 57])
    want = set()
    near = 0
    for v, r in visits.items():
        if r is None:
            continue
        pv = dimpop.box(*r)
        for k, pr in patches.items():
            if abs(pr[0] - r[0]) < 3 and abs(pr[1] - r[1]) < 3:
                if not (pv.relate(dimpop.box(*pr)) & sphgeom.DISJOINT):
                    want.add((k, v))
                else:
                    near += 1
    ctx.extra["big_join"] = {"visits": nv, "patches": len(patches), "overlapping_pairs": len(want), "disjoint_neighbours": near}

    def viol(what, key, replay):
        ctx.violations.append(core.Violation(what=what, key=key, replay=replay))

    results = {}
    try:
        results["query_data_ids"] = {(d["patch"], d["visit"]) for d in b.query_data_ids(["visit", "patch"], explain=False, limit=None)}
    except Exception as e:
        results["query_data_ids"] = f"{type(e).__name__}: {str(e)[:100]}"
    try:
        results["queryDataIds"] = {(d["patch"], d["visit"]) for d in reg.queryDataIds(["visit", "patch"])}
    except Exception as e:
        results["queryDataIds"] = f"{type(e).__name__}: {str(e)[:100]}"
    try:
        with b.query() as q:
            m = q.join_dimensions(["visit", "patch"]).materialize()
            results["materialize"] = {(d["patch"], d["visit"]) for d in m.data_ids(["visit", "patch"])}
            results["materialize-projected"] = {(d["visit"],) for d in m.data_ids(["visit"])}
            results["ordered-pages"] = {(d["patch"], d["visit"]) for d in q.data_ids(["visit", "patch"]).order_by("visit", "patch")}
            results["where-half"] = {(d["patch"], d["visit"]) for d in q.data_ids(["visit", "patch"]).where(f"visit > {nv // 2}")}
    except Exception as e:
        results.setdefault("materialize", f"{type(e).__name__}: {str(e)[:100]}")
    wants = {"materialize-projected": {(v,) for _, v in want}, "where-half": {(k, v) for k, v in want if v > nv // 2}}
    for api, got in results.items():
        ctx.evaluations += 1
        ctx.count("big-join:" + api)
        w = wants.get(api, want)
        if got != w:
            extra = sorted(got - w)[:3] if isinstance(got, set) else got
            missing = sorted(w - got)[:3] if isinstance(got, set) else ""
            viol(f"{api} over visit x patch on {nv} visits and {len(patches)} patches returns {len(got) if isinstance(got, set) else got} pairs, the stored regions "
                 f"allow {len(w)}; not allowed but returned: {extra}; allowed but missing: {missing}", f"c06:big:{api}", {"kind": "big-join", "api": api})
    if want and near:
        ctx.nontrivial.add(("big", nv))
    if model_ok and isinstance(results.get("query_data_ids"), set):
        # the model on the same tables: patch(skymap, tract, patch), visit(instrument, visit), overlap(patch, visit)
        toks = ["jn", "run", "OUT", "1,2", "T", "1"] + [x for k in sorted(patches) for x in ("R", str(k + 1))]
        toks += ["T", "2"] + [x for v in sorted(visits) for x in ("R", str(v))]
        toks += ["T", "1,2"] + [x for k, v in sorted(want) for x in ("R", f"{k + 1},{v}")]
        out = core.driver([" ".join(toks)])[0]
        impl = ";".join(f"{k + 1}.{v}" for k, v in sorted(results["query_data_ids"])) or "-"
        if out != impl:
            ctx.broken.append(f"correspondence: big join: model returns {len(out.split(';'))} rows, implementation {len(impl.split(';'))}")
        ctx.extra["big_join_correspondence"] = out == impl
    del b


def spatial_histories(ctx, model_ok, tmp):
    """Histories of record operations on two spatial elements (visit, patch) against Model/Spatial.lean: after every call the
    materialised overlap tables (read straight from the SQLite file) and the records are compared with the model's, and the
    visit x patch query with the model's query and with the regions of the final records (sphgeom)."""
    import sqlite3

    from lsst import sphgeom
    from lsst.daf.butler import Butler

    rng = ctx.rng
    pool = {}
    rid = 0
    for x in range(3):
        for y in range(3):
            rid += 1
            pool[rid] = (x, y, x + 1, y + 1)
    for x, y in ((0, 0), (1, 0), (1, 1), (2, 2)):
        rid += 1
        pool[rid] = (x + 0.2, y + 0.2, x + 0.8, y + 0.8)
    pool[rid + 1] = (0, 0, 3, 3)
    pool[rid + 2] = (40, 40, 41, 41)
    polys = {r: dimpop.box(*v) for r, v in pool.items()}
    u = Butler.get_known_repos  # noqa: F841  (keeps the import used)
    n_hist = 6 if ctx.quick() else 60
    disagreements = 0
    lines_total = 0

    def viol(what, key, replay):
        ctx.violations.append(core.Violation(what=what, key=key, replay=replay))

    for h in range(n_hist):
        root = os.path.join(tmp, f"sp{h}")
        Butler.makeRepo(root)
        b = Butler.from_config(root, writeable=True)
        reg = b.registry
        pix = b.dimensions.commonSkyPix.pixelization
        reg.insertDimensionData("instrument", {"name": "I"})
        reg.insertDimensionData("physical_filter", {"instrument": "I", "name": "f", "band": "r"})
        reg.insertDimensionData("day_obs", {"instrument": "I", "id": 20250101})
        reg.insertDimensionData("skymap", {"name": "S", "hash": b"S" * 4, "tract_max": 2, "patch_nx_max": 10, "patch_ny_max": 10})
        reg.insertDimensionData("tract", {"skymap": "S", "id": 0, "region": dimpop.box(0, 0, 3, 3)})
        req, impl = ["sp new"], ["ok"]
        for r, poly in polys.items():
            px = sorted(i for b_, e_ in pix.envelope(poly) for i in range(b_, e_))
            req.append(f"sp reg {r} {','.join(map(str, px))}"), impl.append("ok")
        for r1, p1 in polys.items():
            for r2, p2 in polys.items():
                if not (p1.relate(p2) & sphgeom.DISJOINT):
                    req.append(f"sp rel {r1} {r2}"), impl.append("ok")
        req.append("sp geosound"), impl.append("ok")
        final = {1: {}, 2: {}}  # the harness's own record of what each accepted call stored
        ops = []

        def record(el, k, r):
            if el == 1:
                return {"instrument": "I", "id": k, "name": f"v{k}", "physical_filter": "f", "day_obs": 20250101, "region": polys[r] if r else None}
            return {"skymap": "S", "tract": 0, "id": k, "cell_x": k, "cell_y": 0, "region": polys[r] if r else None}

        def overlap_rows(el):
            con = sqlite3.connect(f"file:{root}/gen3.sqlite3?mode=ro", uri=True)
            try:
                name, col = ("visit_skypix_overlap", "visit") if el == 1 else ("patch_skypix_overlap", "patch")
                rows = con.execute(f"SELECT {col}, skypix_index FROM {name}").fetchall()
            finally:
                con.close()
            by = {}
            for k, t in rows:
                by.setdefault(k, set()).add(t)
            return ";".join(f"{k}:" + ",".join(map(str, sorted(by[k]))) for k in sorted(by)) or "-"

        def stored_records(el):
            name = "visit" if el == 1 else "patch"
            out = []
            for rec in reg.queryDimensionRecords(name):
                rr = "-"
                if rec.region is not None:
                    enc = rec.region.encode()
                    rr = next((str(r) for r, p_ in polys.items() if p_.encode() == enc), "?")
                out.append((rec.id, rr))
            return ";".join(f"{k}:{r}" for k, r in sorted(out)) or "-"

        # corpus (runs first): the witness of C06-a — a record kept by skip_existing must keep its overlap rows as they are
        corpus = [(1, "ins", [(1, None), (2, 1)]), (2, "ins", [(1, 1), (2, 5)]), (1, "skip", [(1, 1), (2, 9), (3, 2)]), (2, "skip", [(2, 1)]),
                  (1, "sync1", [(3, 2)])] if h == 0 else []
        n_ops = len(corpus) if corpus else rng.randint(8, 18)
        for step in range(n_ops):
            el = rng.choice([1, 2])
            kind = rng.choice(["ins", "ins", "skip", "skip", "repl", "sync0", "sync1", "sync1"])
            nb = 1 if kind.startswith("sync") else rng.choice([1, 2, 3, 4])
            keys = rng.sample(range(1, 8), nb)
            if kind == "ins" and nb > 1 and rng.random() < 0.1:
                keys[-1] = keys[0]
            batch = [(k, rng.choice([None] + list(polys))) for k in keys]
            with_region = sorted(k for k, r in final[el].items() if r)
            if not corpus and kind in ("repl", "sync1") and with_region and rng.random() < 0.35:
                # every record of the call loses its region: the call has overlap rows to delete and none to write
                keys = rng.sample(with_region, min(len(with_region), 1 if kind == "sync1" else rng.choice([1, 2])))
                batch = [(k, None) for k in keys]
                ctx.count("spatial:all-regions-to-null")
            if corpus:
                el, kind, batch = corpus[step]
                keys = [k for k, _ in batch]
            name = "visit" if el == 1 else "patch"
            if not corpus and kind == "skip" and final[el] and rng.random() < 0.6:
                # offer an existing record with another region
                k0 = rng.choice(sorted(final[el]))
                if k0 not in keys:
                    batch[0] = (k0, rng.choice([r for r in polys if r != final[el][k0]]))
            if not corpus and kind.startswith("sync") and final[el] and rng.random() < 0.6 and not all(r is None for _, r in batch):
                k0 = rng.choice(sorted(final[el]))
                batch = [(k0, rng.choice([final[el][k0], None] + list(polys)))]
            spelled = ",".join(f"{k}:{r if r else '-'}" for k, r in batch)
            recs = [record(el, k, r) for k, r in batch]
            # now and then the call fails part-way: a one-shot fault on the first statement that writes the element's
            # overlap table.  The call must then have changed nothing — neither records nor overlap rows.
            fault = {"armed": (not corpus) and kind in ("ins", "skip", "repl") and rng.random() < 0.15, "fired": False}
            if fault["armed"]:
                import sqlalchemy

                def _fault_hook(conn, cursor, statement, parameters, context, executemany, _f=fault):
                    st_ = statement.lstrip().upper()
                    if _f["armed"] and "_SKYPIX_OVERLAP" in st_ and (st_.startswith("INSERT") or st_.startswith("DELETE")):
                        _f["armed"], _f["fired"] = False, True
                        raise RuntimeError("verif: injected fault while writing overlap rows")

                sqlalchemy.event.listen(b._registry._db._engine, "before_cursor_execute", _fault_hook)
            try:
                if kind == "ins":
                    reg.insertDimensionData(name, *recs)
                    out = "ok"
                elif kind == "skip":
                    reg.insertDimensionData(name, *recs, skip_existing=True)
                    out = "ok"
                elif kind == "repl":
                    reg.insertDimensionData(name, *recs, replace=True)
                    out = "ok"
                else:
                    res = reg.syncDimensionData(name, recs[0], update=(kind == "sync1"))
                    out = "inserted" if res is True else ("same" if res is False else "updated")
            except Exception as e:
                out = "conflict" if kind.startswith("sync") else "refused"
                ctx.count(f"spatial-refused:{type(e).__name__}")
            finally:
                if fault["armed"] or fault["fired"]:
                    fault["armed"] = False
                    sqlalchemy.event.remove(b._registry._db._engine, "before_cursor_execute", _fault_hook)
            if fault["fired"]:
                # the model is not told about the call: the probes below compare with its unchanged state
                ctx.count(f"spatial-op:{kind}:fault->{out}")
                ops.append(f"{kind} {name} {spelled} with a fault on the overlap write -> {out}")
                if out == "ok":
                    viol(f"after {ops[-3:]}: the call reported success although writing its overlap rows failed", f"sp-fault-ok:{ops}",
                         {"kind": "spatial-history", "ops": ops})
                    break
            elif kind.startswith("sync"):
                req.append(f"sp sync {el} {spelled} {kind[-1]}")
            else:
                req.append(f"sp {kind} {el} {spelled}")
            if not fault["fired"]:
                impl.append(out)
                ops.append(f"{kind} {name} {spelled} -> {out}")
            ctx.count(f"spatial-op:{kind}:{out}")
            ctx.evaluations += 1
            # the harness's own bookkeeping of the final records (model-free)
            if out in ("ok", "inserted", "updated") and not fault["fired"]:
                for k, r in batch:
                    if kind == "skip" and k in final[el]:
                        if final[el][k] != r:
                            ctx.count("spatial:skip-existing-other-region")
                        continue
                    final[el][k] = r
            req.append(f"sp ov {el}"), impl.append(overlap_rows(el))
            req.append(f"sp recs {el}"), impl.append(stored_records(el))
            want_recs = ";".join(f"{k}:{r if r else '-'}" for k, r in sorted(final[el].items())) or "-"
            if impl[-1] != want_recs:
                viol(f"after {ops[-3:]}: the stored {name} records are {impl[-1]}, the accepted calls stored {want_recs}", f"sp-recs:{ops}", {"kind": "spatial-history", "ops": ops})
                break
            if step % 3 == 2 or step == n_ops - 1:
                want = sorted((v, p_) for v, r1 in final[1].items() for p_, r2 in final[2].items()
                              if r1 and r2 and not (polys[r1].relate(polys[r2]) & sphgeom.DISJOINT))
                try:
                    got = sorted({(d["visit"], d["patch"]) for d in b.query_data_ids(["visit", "patch"], explain=False, limit=None)})
                except Exception as e:
                    got = f"{type(e).__name__}: {str(e)[:100]}"
                req.append("sp query 2000 -"), impl.append(";".join(f"{a}.{c}" for a, c in got) or "-" if isinstance(got, list) else "error")
                if got != want:
                    viol(f"after {ops[-4:]}: visit x patch returns {got if not isinstance(got, list) else len(got)} pairs, the final regions allow {len(want)}; "
                         f"extra {sorted(set(got) - set(want))[:3] if isinstance(got, list) else ''} missing {sorted(set(want) - set(got))[:3] if isinstance(got, list) else ''}",
                         f"sp-query:{ops}", {"kind": "spatial-history", "ops": ops})
                    break
                if want:
                    ctx.nontrivial.add(("sp", h, step))
                    L = rng.randint(1, len(want) + 1)
                    try:
                        lim = list(b.query_data_ids(["visit", "patch"], explain=False, limit=L))
                        pairs = {(d["visit"], d["patch"]) for d in lim}
                        req.append(f"sp query 2000 {L}"), impl.append(f"count={len(lim)}")
                        if not pairs <= set(want) or len(lim) != min(L, len(want)):
                            viol(f"after {ops[-4:]}: visit x patch with limit={L} returns {len(lim)} rows ({sorted(pairs - set(want))[:3]} not allowed); {len(want)} pairs exist",
                                 f"sp-limit:{ops}", {"kind": "spatial-history", "ops": ops, "limit": L})
                            break
                    except Exception as e:
                        viol(f"visit x patch with limit={L} raised {type(e).__name__}: {str(e)[:100]}", f"sp-limit-raise:{ops}", {"kind": "spatial-history", "ops": ops, "limit": L})
                        break
        ctx.sample(ops[:8], cap=8)
        del b
        import shutil
        shutil.rmtree(root, ignore_errors=True)
        if model_ok:
            got = core.driver(req)
            lines_total += len(req)
            for line, m, i in zip(req, got, impl):
                if m != i:
                    disagreements += 1
                    if disagreements <= 5:
                        ctx.broken.append(f"correspondence (spatial history {h}: {ops[-3:]}): `{line[:80]}` model={m[:160]} implementation={i[:160]}")
    ctx.extra["spatial_correspondence_lines"] = lines_total
    ctx.extra["spatial_correspondence_disagreements"] = disagreements


def replay(ctx, content):
    print("replay:", content.get("what"))
    print({k: content.get(k) for k in ("group", "population", "mode", "api")})
    run(ctx)
    return core.finish(ctx)
