"""C10 — removal is complete and precise, and existence reports tell the truth.

Model: Model/Registry.lean `Repo` (registry tables + datastore-held flags + artifacts present);
theorems in Props/C10.lean (purge_exact, purge_members, others untouched, targets gone, orphan_refused,
purge keeps the invariants, existence flags consistent, external deletion changes one flag).
Tie: C — seeded histories on a real Butler (SQLite + file datastore): put, tagging, certification,
chaining, prunes in the three legal modes, removeRuns, external deletion of artifacts; after every step all
datasets are probed (exists, stored, _exists_many, query membership, directory listing).
Oracle (model-free): sets kept by the harness (registered / datastore-known / on disk / membership).
"""
from __future__ import annotations

import os

from vlib import core, repo

LEVEL = "proof"
LEAN_TARGETS = ["ButlerModel.Props.C10", "driver"]


def run(ctx):
    ctx.rule = (
        "seeded histories of 12-30 operations over {put, associate, certify, chain, pruneDatasets(unstore only), "
        "pruneDatasets(disassociate from tags), pruneDatasets(purge+unstore), registry.removeDatasets (stored / not stored), "
        "removeRuns, external os.remove of an artifact}; after every step, for every dataset ever created: Butler.exists "
        "(full check), Butler.stored, _exists_many, membership in every collection via query_datasets, and the recursive "
        "listing of the datastore root; non-trivial = histories with a purge or removeRuns while other datasets stay"
    )
    ctx.assumptions = ["the file system reports existence of the artifacts truthfully; one client, no concurrency (C20)"]
    with core.Lock():
        # T-tie: the DatasetExistence flag values, its __bool__ and the tail of DirectButler.exists (how the datastore's answers
        # are folded into the flags) are translated from the working tree into Gen/ExistsPy.lean; C10.Translated.exists_flags /
        # exists_truth are proved about the translation.  The values read from the source text are compared with the live enum.
        import sys as _sys

        _sys.path.insert(0, os.path.join(core.VERIF, "translate"))
        try:
            import gen_exists

            facts = gen_exists.generate(core.GEN_DIR)
            from lsst.daf.butler import DatasetExistence as _DE

            live = {m: getattr(_DE, m).value for m in facts["members"]}
            if live != facts["members"]:
                ctx.broken.append(f"facts: DatasetExistence values read from the source {facts['members']} differ from the live enum {live}")
        except Exception as e:
            ctx.broken.append(f"translation: DatasetExistence / DirectButler.exists: {type(e).__name__}: {e}")
        built = core.lean_build(ctx, LEAN_TARGETS)
        if built:
            core.lean_audit(ctx, ["ButlerModel.Props.C10"])
            if not ctx.quick():
                core.leanchecker(ctx, ["ButlerModel.Props.C10"])
    with repo.Scratch("verif-c10-") as tmp:
        correspondence(ctx, built, tmp)
        # existence reports over datasets that share artifacts (multi-dataset ingests, zips, direct ingests)
        from vlib import arthist
        arthist.histories(ctx, False, tmp, mode="C10")
        chained_existence(ctx, tmp)
        big_removal(ctx, tmp)
        mexists_unit(ctx, built, tmp)


def correspondence(ctx, model_ok, tmp):
    from lsst.daf.butler import CollectionType, DatasetExistence, DatasetType, Timespan
    from lsst.daf.butler.registry import OrphanedRecordError

    rng = ctx.rng
    root = os.path.join(tmp, "r")
    b = repo.make_butler(root)
    repo.basic_dimensions(b, detectors=(1, 2, 3))
    reg = b.registry
    dts = [DatasetType(f"t{i}", {"instrument", "detector"}, "StructuredDataDict", universe=b.dimensions, isCalibration=(i == 1)) for i in range(2)]
    for d in dts:
        reg.registerDatasetType(d)
    req, impl = [], []
    n_hist = 20 if ctx.quick() else 150

    def viol(what, key, replay):
        ctx.violations.append(core.Violation(what=what, key=key, replay=replay))

    def listing():
        out = set()
        for dp, _, fs in os.walk(root):
            for f in fs:
                if f.endswith(".yaml") and "butler.yaml" not in f:
                    out.add(os.path.relpath(os.path.join(dp, f), root))
        return out

    for h in range(n_hist):
        runs = [f"run{h}_{i}" for i in range(3)]
        tag, cal, chain = f"tag{h}", f"cal{h}", f"chain{h}"
        req.append("repo new"), impl.append("ok")
        for i, rn in enumerate(runs):
            reg.registerRun(rn)
            req.append(f"repo reg regcoll {i} R"), impl.append("True")
        reg.registerCollection(tag, CollectionType.TAGGED)
        req.append("repo reg regcoll 3 T"), impl.append("True")
        reg.registerCollection(cal, CollectionType.CALIBRATION)
        reg.registerCollection(chain, CollectionType.CHAINED)
        reg.setCollectionChain(chain, [tag] + runs)
        for t in range(2):
            req.append(f"repo reg regtype {t} 0"), impl.append("True")
        refs, path = {}, {}
        o_reg, o_ds, o_disk, o_tag, o_cal = set(), set(), set(), set(), set()
        info = {}
        nid = 1
        ops = []
        interesting = False
        n_steps_h = rng.randint(12, 30)
        force_keep = False
        for step in range(n_steps_h):
            r = rng.random()
            if step == n_steps_h - 2 and o_ds and rng.random() < 0.6:
                # towards the end of most histories: a run with stored datasets is removed while its artifacts stay (unstore=False)
                r, force_keep = 0.9, True
            live = sorted(o_reg)
            if r < 0.32 or not live:
                t, k, c = rng.randrange(2), rng.choice([1, 2, 3]), rng.randrange(3)
                line = f"repo put {nid} {t} {k} {c}"
                clash = any(info[i] == (t, k, c) for i in o_reg)
                try:
                    ref = b.put({"n": nid}, dts[t], instrument="I", detector=k, run=runs[c])
                    out = "ok"
                    refs[nid] = ref
                    info[nid] = (t, k, c)
                    o_reg.add(nid), o_ds.add(nid), o_disk.add(nid)
                    path[nid] = b.getURI(ref).ospath
                    # a file left behind by removeRuns(unstore=False) at the same path has just been overwritten: from now on the
                    # file at that path is this dataset's, and goes when this dataset goes
                    for j in list(o_disk):
                        if j != nid and path[j] == path[nid]:
                            o_disk.discard(j)
                    nid += 1
                except Exception as e:
                    out = "err ConflictingDefinitionError" if "Conflict" in type(e).__name__ else f"err INTERNAL:{type(e).__name__}"
                if (out == "ok") == clash:
                    viol(f"put of type {t} detector {k} into run {c} -> {out} although the slot is {'taken' if clash else 'free'}", f"put:{ops}",
                         {"kind": "history", "ops": ops + [line]})
            elif r < 0.44:
                ids = [i for i in rng.sample(live, min(len(live), 2)) if info[i][0] == 0]
                if not ids:
                    continue
                line = "repo reg assoc 3 " + ",".join(map(str, ids))
                cur = {(info[i][0], info[i][1]): i for i in o_tag}
                okk = True
                for i in ids:
                    if cur.get((info[i][0], info[i][1]), i) != i:
                        okk = False
                    cur[(info[i][0], info[i][1])] = i
                try:
                    reg.associate(tag, [refs[i] for i in ids])
                    out = "ok"
                    o_tag.update(ids)
                except Exception as e:
                    out = "err " + type(e).__name__
                if (out == "ok") != okk:
                    viol(f"associate {ids} -> {out}, expected {'ok' if okk else 'conflict'}", f"assoc:{ops}", {"kind": "history", "ops": ops + [line]})
            elif r < 0.49:
                cands = [i for i in live if info[i][0] == 1 and i not in o_cal and not any(info[j][1] == info[i][1] for j in o_cal)]
                if not cands:
                    continue
                i = rng.choice(cands)
                reg.certify(cal, [refs[i]], Timespan(None, None))
                o_cal.add(i)
                line = None  # (calibration membership is C04's model; here it only has to vanish with the dataset)
                ops.append(f"certify {i}")
            elif r < 0.58:
                ids = rng.sample(live, min(len(live), rng.choice([1, 2])))
                line = "repo unstore " + ",".join(map(str, ids))
                b.pruneDatasets([refs[i] for i in ids], unstore=True, disassociate=False, purge=False)
                out = "ok"
                o_ds.difference_update(ids), o_disk.difference_update(ids)
            elif r < 0.68 and o_tag:
                ids = rng.sample(sorted(o_tag), min(len(o_tag), 2))
                line = "repo reg disassoc 3 " + ",".join(map(str, ids))
                # `tags` is documented as an iterable: hand over a list, a tuple or a single-pass generator
                tags_arg = rng.choice([[tag], (tag,), (x for x in [tag]), iter([tag]), iter((tag,))])
                b.pruneDatasets([refs[i] for i in ids], disassociate=True, tags=tags_arg, unstore=False, purge=False)
                out = "ok"
                o_tag.difference_update(ids)
            elif r < 0.82:
                ids = rng.sample(live, min(len(live), rng.choice([1, 1, 2, 3])))
                line = "repo purge " + ",".join(map(str, ids))
                b.pruneDatasets([refs[i] for i in ids], purge=True, unstore=True, disassociate=True)
                out = "ok"
                for s_ in (o_reg, o_ds, o_disk, o_tag, o_cal):
                    s_.difference_update(ids)
                interesting = interesting or bool(o_reg)
            elif r < 0.88:
                i = rng.choice(live)
                line = f"repo reg rmds {i}"
                try:
                    reg.removeDatasets([refs[i]])
                    out = "ok"
                    for s_ in (o_reg, o_tag, o_cal):
                        s_.discard(i)
                except OrphanedRecordError:
                    out = "err OrphanedRecordError"
                except Exception as e:
                    out = "err INTERNAL:" + type(e).__name__
                if (out == "ok") == (i in o_ds):
                    viol(f"registry.removeDatasets({i}) -> {out} while the datastore {'still holds' if i in o_ds else 'does not hold'} it",
                         f"orphan:{ops}", {"kind": "history", "ops": ops + [line]})
            elif r < 0.93:
                c = rng.randrange(3)
                if force_keep:
                    stored_runs = sorted({info[i][2] for i in o_ds})
                    c = rng.choice(stored_runs) if stored_runs else c
                if rng.random() < 0.3 and not force_keep:
                    # a removal that must be refused as a whole: runs[c] is still a child of the chain, and another
                    # run comes first in the same call; nothing may change, now or at a later trash emptying
                    c0 = (c + 1) % 3
                    uns = rng.random() < 0.7
                    try:
                        b.removeRuns([runs[c0], runs[c]], unstore=uns)
                        refused = False
                    except Exception:
                        refused = True
                    ops.append(f"rmrun-refused {c0},{c} unstore={uns}")
                    ctx.count("rmrun-refused")
                    if not refused:
                        # not what the implementation does today; keep going on a fresh footing rather than guess
                        ctx.broken.append("correspondence: removeRuns of a run that is still a child of a CHAINED collection was accepted")
                        break
                    line = None
                else:
                    line = f"repo rmrun {c}"
                    # the run is a child of the chain: take it out first (documented requirement), then remove, then re-create it
                    kids = [x for x in reg.getCollectionChain(chain) if x != runs[c]]
                    reg.setCollectionChain(chain, kids)
                    keep_files = False
                    force_keep_now, force_keep = force_keep, False
                    try:
                        if rng.random() < 0.3 and not force_keep_now:
                            # the removal happens inside a caching context that already knows the run: the same context must not
                            # go on listing the run, answering for it, or accepting it as a search path
                            from lsst.daf.butler import MissingCollectionError as _MCE

                            ctx.count("rmrun-inside-caching-context")
                            with reg.caching_context():
                                list(reg.queryCollections())
                                reg.getCollectionType(runs[c])
                                b.removeRuns([runs[c]], unstore=True)
                                still = []
                                if runs[c] in set(reg.queryCollections()):
                                    still.append("queryCollections still lists it")
                                if runs[c] in {ci.name for ci in b.collections.query_info("*")}:
                                    still.append("collections.query_info still lists it")
                                try:
                                    reg.getCollectionType(runs[c])
                                    still.append("getCollectionType still answers for it")
                                except _MCE:
                                    pass
                                try:
                                    got_ = b.query_datasets(dts[0], collections=[runs[c]], find_first=False, explain=False, limit=None)
                                    still.append(f"query_datasets over it returns {len(got_)} rows instead of reporting the missing collection")
                                except _MCE:
                                    pass
                                if still:
                                    viol(f"after {ops[-3:]}: removeRuns({c}) inside a caching context: " + "; ".join(still), f"rmrun-cached:{ops}",
                                         {"kind": "history", "ops": ops + [line], "problems": still})
                        elif force_keep_now or rng.random() < 0.3:
                            # the run goes, its artifacts stay where they are: the datastore must forget the datasets all the same
                            b.removeRuns([runs[c]], unstore=False)
                            keep_files = True
                            ctx.count("rmrun-unstore-false")
                        else:
                            b.removeRuns([runs[c]], unstore=True)
                        out = "ok"
                        gone = {i for i in o_reg if info[i][2] == c}
                        for s_ in (o_reg, o_ds, o_tag, o_cal) + (() if keep_files else (o_disk,)):
                            s_.difference_update(gone)
                        interesting = interesting or bool(o_reg)
                    except Exception as e:
                        out = "err INTERNAL:" + type(e).__name__
                    req.append(line), impl.append(out)
                    reg.registerRun(runs[c])
                    reg.setCollectionChain(chain, kids + [runs[c]])
                    line, out = f"repo reg regcoll {c} R", "True"
            else:
                cands = sorted(o_disk)
                if not cands:
                    continue
                i = rng.choice(cands)
                os.remove(path[i])
                o_disk.discard(i)
                line, out = f"repo extrm {i}", "ok"
            if line is not None:
                ops.append(line[5:])
                req.append(line), impl.append(out)
                ctx.count(line.split()[1] if line.split()[1] != "reg" else line.split()[2])
            ctx.evaluations += 1
            # ---- probes: every dataset ever created
            allrefs = [refs[i] for i in sorted(refs)]
            many = b._exists_many(allrefs, full_check=True)
            many_quick = b._exists_many(allrefs, full_check=False)
            on_disk = listing()
            for i in sorted(refs):
                ex = b.exists(refs[i], full_check=True)
                E = DatasetExistence
                fl = ("R" if (ex & E.RECORDED) == E.RECORDED else "-") + ("D" if (ex & E.DATASTORE) == E.DATASTORE else "-") + (
                    "A" if (ex & E._ARTIFACT) == E._ARTIFACT else "-")
                want = ("R" if i in o_reg else "-") + ("D" if i in o_ds else "-") + ("A" if (i in o_ds and i in o_disk) else "-")
                req.append(f"repo flags {i}"), impl.append(fl)
                problems = []
                if fl != want:
                    problems.append(f"exists flags {fl}, truth {want}")
                if many[refs[i]] != ex:
                    problems.append(f"_exists_many says {many[refs[i]]!r}, exists says {ex!r}")
                if b.stored(refs[i]) != (i in o_ds and i in o_disk):
                    problems.append(f"stored() = {b.stored(refs[i])}, truth {i in o_ds and i in o_disk}")
                if bool(ex) != (fl == "RDA"):
                    problems.append(f"truth value of exists() is {bool(ex)} with flags {fl}")
                # the quick form (no look at the artifact): true exactly when registry and datastore both know the dataset
                exq = b.exists(refs[i], full_check=False)
                if bool(exq) != (i in o_reg and i in o_ds) or bool(many_quick[refs[i]]) != (i in o_reg and i in o_ds):
                    problems.append(f"exists(full_check=False) is {exq!r} (truth value {bool(exq)}), _exists_many(full_check=False) {many_quick[refs[i]]!r}; "
                                    f"registry knows it: {i in o_reg}, datastore knows it: {i in o_ds}")
                rel = os.path.relpath(path[i], root)
                # an artifact may only survive if no later dataset re-used the path
                if (rel in on_disk) != (i in o_disk or any(path[j] == path[i] and j in o_disk for j in refs)):
                    problems.append(f"artifact {'present' if rel in on_disk else 'absent'} on disk, expected {'present' if i in o_disk else 'absent'}")
                if problems:
                    viol(f"after {ops[-4:]}: dataset {i} (type/det/run {info[i]}): " + "; ".join(problems), f"probe:{ops}:{i}",
                         {"kind": "history", "ops": ops, "dataset": i, "problems": problems})
                    break
            # membership through queries
            for t in range(2):
                for cname, members in ((runs[0], {i for i in o_reg if info[i][2] == 0}), (runs[1], {i for i in o_reg if info[i][2] == 1}),
                                       (runs[2], {i for i in o_reg if info[i][2] == 2}), (tag, set(o_tag)), (cal, set(o_cal))):
                    got = {r_.id for r_ in b.query_datasets(dts[t], collections=[cname], find_first=False, explain=False, limit=None)}
                    want_ids = {refs[i].id for i in members if info[i][0] == t}
                    if got != want_ids:
                        viol(f"after {ops[-4:]}: query_datasets(type {t}, {cname.split('_')[0][:3]}) returns {len(got)} datasets, expected {len(want_ids)} "
                             f"({'removed dataset still visible' if got - want_ids else 'dataset missing'})", f"members:{ops}:{cname}:{t}",
                             {"kind": "history", "ops": ops, "collection": cname, "type": t})
        if interesting:
            ctx.nontrivial.add(tuple(ops))
        ctx.sample(ops[:10], cap=3)

    if model_ok:
        got = core.driver(req)
        nd = 0
        for line, m, i in zip(req, got, impl):
            if m != i:
                nd += 1
                if nd <= 5:
                    ctx.broken.append(f"correspondence: `{line}` model={m} implementation={i}")
        ctx.extra["correspondence_lines"] = len(req)
        ctx.extra["correspondence_disagreements"] = nd
    else:
        ctx.notes.append("model not built: correspondence skipped, implementation searched with the oracle only")


def chained_existence(ctx, tmp):
    """Existence reports on a ChainedDatastore whose children disagree about a dataset (one child's artifact deleted externally,
    one child never had it): the bulk reports must say what the single-dataset reports say, and both the truth."""
    from lsst.daf.butler import Butler, Config, DatasetExistence, DatasetType

    def viol(what, key, replay):
        ctx.violations.append(core.Violation(what=what, key=key, replay=replay))

    rng = ctx.rng
    root = os.path.join(tmp, "chained")
    c = Config()
    c["datastore", "cls"] = "lsst.daf.butler.datastores.chainedDatastore.ChainedDatastore"
    c["datastore", "datastores"] = [
        {"datastore": {"cls": "lsst.daf.butler.datastores.fileDatastore.FileDatastore", "root": "<butlerRoot>/fs1", "records": {"table": "fs1_records"}}},
        {"datastore": {"cls": "lsst.daf.butler.datastores.fileDatastore.FileDatastore", "root": "<butlerRoot>/fs2", "records": {"table": "fs2_records"}}},
    ]
    Butler.makeRepo(root, config=c)
    b = Butler.from_config(root, writeable=True, run="r1")
    repo.basic_dimensions(b, detectors=tuple(range(1, 13)))
    dt = DatasetType("dt", {"instrument", "detector"}, "StructuredDataDict", universe=b.dimensions)
    b.registry.registerDatasetType(dt)
    refs = [b.put({"n": i}, dt, instrument="I", detector=i) for i in range(1, 13)]
    E = DatasetExistence
    truth = {}
    for i, ref in enumerate(refs):
        paths = sorted(os.path.join(dp, f) for dp, _, fs in os.walk(root) for f in fs if f == f"dt_I_d{i + 1}_r1.yaml")
        if len(paths) != 2:
            ctx.broken.append(f"correspondence: a put into the two-child chain wrote {len(paths)} artifacts")
            return
        how = rng.choice(["both", "first-gone", "second-gone", "all-gone", "both"])
        if how in ("first-gone", "all-gone") and os.path.exists(paths[0]):
            os.remove(paths[0])
        if how in ("second-gone", "all-gone") and os.path.exists(paths[1]):
            os.remove(paths[1])
        truth[ref] = any(os.path.exists(p) for p in paths)
        ctx.count(f"chained-existence:{how}")
    many = b._exists_many(refs, full_check=True)
    stored_many = b.stored_many(refs)
    for ref in refs:
        ex = b.exists(ref, full_check=True)
        st = b.stored(ref)
        ctx.evaluations += 1
        problems = []
        has_art = (ex & E._ARTIFACT) == E._ARTIFACT
        if has_art != truth[ref] or st != truth[ref]:
            problems.append(f"exists()={ex!r}, stored()={st}, an artifact is {'present' if truth[ref] else 'absent'} in the chain")
        if many[ref] != ex:
            problems.append(f"_exists_many says {many[ref]!r}, exists says {ex!r}")
        if stored_many[ref] != st:
            problems.append(f"stored_many says {stored_many[ref]}, stored says {st}")
        if problems:
            viol(f"chained datastore, detector {ref.dataId['detector']}: " + "; ".join(problems), f"chained-existence:{ref.dataId['detector']}",
                 {"kind": "chained-existence", "detector": ref.dataId["detector"]})
    ctx.nontrivial.add("chained-existence")


def big_removal(ctx, tmp):
    """One removal call over more than a thousand datasets (the registry deletes in batches): removed means all of them."""
    from lsst.daf.butler import CollectionType, DatasetType

    def viol(what, key, replay):
        ctx.violations.append(core.Violation(what=what, key=key, replay=replay))

    N = 1003
    b = repo.make_butler(os.path.join(tmp, "big"), run="r1")
    b.registry.insertDimensionData("instrument", {"name": "I"})
    b.registry.insertDimensionData("detector", *[{"instrument": "I", "id": i, "full_name": f"d{i}"} for i in range(N + 3)])
    dt = DatasetType("dt", {"instrument", "detector"}, "StructuredDataDict", universe=b.dimensions)
    b.registry.registerDatasetType(dt)
    b.registry.registerCollection("bigtag", CollectionType.TAGGED)
    refs = b.registry.insertDatasets(dt, [{"instrument": "I", "detector": i} for i in range(N)], run="r1")
    keep = b.registry.insertDatasets(dt, [{"instrument": "I", "detector": N + 1}], run="r1")
    b.registry.associate("bigtag", list(refs) + list(keep))
    b.pruneDatasets(refs, disassociate=True, tags=["bigtag"], unstore=False, purge=False)
    left = {r.id for r in b.registry.queryDatasets(dt, collections=["bigtag"])}
    ctx.evaluations += 1
    if left != {keep[0].id}:
        viol(f"pruneDatasets(disassociate) of {N} datasets in one call left {len(left & {r.id for r in refs})} of them in the TAGGED collection "
             f"(and {'kept' if keep[0].id in left else 'lost'} the untargeted one)", "big-disassociate", {"kind": "big-removal", "n": N})
    b.pruneDatasets(refs, purge=True, unstore=True, disassociate=True)
    left = {r.id for r in b.registry.queryDatasets(dt, collections=["r1"])}
    ctx.evaluations += 1
    if left != {keep[0].id}:
        viol(f"pruneDatasets(purge) of {N} datasets in one call left {len(left & {r.id for r in refs})} of them registered "
             f"(and {'kept' if keep[0].id in left else 'lost'} the untargeted one)", "big-purge", {"kind": "big-removal", "n": N})
    ctx.nontrivial.add("big-removal")


def mexists_unit(ctx, model_ok, tmp):
    """The real FileDatastore._process_mexists_records on generated record sets — several datasets per artifact, several
    artifacts per dataset, URIs answered in advance, a (stubbed) local cache — against Model/Mexists.lean; without cache and
    advance answers the result is also held against the files themselves."""
    from lsst.daf.butler import DatasetRef, DatasetType, StorageClassFactory
    from lsst.daf.butler.datastore.stored_file_info import StoredFileInfo

    rng = ctx.rng
    root = os.path.join(tmp, "mx")
    b = repo.make_butler(root)
    repo.basic_dimensions(b, detectors=tuple(range(1, 9)))
    ds = b._datastore
    dt = DatasetType("mx", {"instrument", "detector"}, "StructuredDataDict", universe=b.dimensions)
    sc = StorageClassFactory().getStorageClass("StructuredDataDict")
    refs = {d: DatasetRef(dt, {"instrument": "I", "detector": d}, run="mxrun") for d in range(1, 9)}
    os.makedirs(os.path.join(root, "mxfiles"), exist_ok=True)

    def viol(what, key, replay):
        ctx.violations.append(core.Violation(what=what, key=key, replay=replay))

    class CacheStub:
        def __init__(self, cached):
            self.cached = cached
            self.file_count = 1 if cached is not None else 0

        def known_to_cache(self, ref, extension=None):
            return ref.dataId["detector"] in (self.cached or ())

    real_cache = ds.cacheManager
    req, impl = [], []
    try:
        for case in range(200 if ctx.quick() else 5000):
            n_uri = rng.randint(1, 5)
            records = {}
            for d in rng.sample(sorted(refs), rng.randint(1, 6)):
                us = [rng.randint(1, n_uri) for _ in range(rng.choice([0, 1, 1, 1, 2, 3]))]
                records[d] = us
            present = {u for u in range(1, n_uri + 1) if rng.random() < 0.6}
            for u in range(1, n_uri + 1):
                f = os.path.join(root, "mxfiles", f"u{u}.yaml")
                if u in present:
                    open(f, "w").write("a: 1\n")
                elif os.path.exists(f):
                    os.remove(f)
            use_cache = rng.random() < 0.25
            cached = set(d for d in records if rng.random() < 0.4) if use_cache else None
            use_known = rng.random() < 0.3
            all_required = rng.random() < 0.7
            info = lambda u: StoredFileInfo("lsst.daf.butler.formatters.yaml.YamlFormatter", f"mxfiles/u{u}.yaml", sc, None, None, 5)  # noqa: E731
            rec_arg = {refs[d].id: [info(u) for u in us] for d, us in records.items() if us}
            id_to_ref = {refs[d].id: refs[d] for d in records}
            known = {}
            if use_known:
                for u in range(1, n_uri + 1):
                    if rng.random() < 0.4:
                        known[u] = rng.random() < 0.5
            art = {info(u).file_location(ds.locationFactory).uri: v for u, v in known.items()} if use_known else None
            ds.cacheManager = CacheStub(cached)
            try:
                out = ds._process_mexists_records(id_to_ref, rec_arg, all_required, artifact_existence=art)
                got = {r_.dataId["detector"]: v for r_, v in out.items()}
                text = ",".join(f"{d}={1 if v else 0}" for d, v in sorted(got.items())) or "-"
            except Exception as e:
                got, text = None, f"{type(e).__name__}: {str(e)[:80]}"
            ctx.evaluations += 1
            ctx.count(f"mexists-unit:{'cache' if use_cache else 'nocache'}:{'known' if use_known else 'fresh'}")
            shared = len({u for us in records.values() for u in us}) < sum(len(set(us)) for us in records.values())
            if shared:
                ctx.nontrivial.add(("mx", case))
            req.append(f"mx run {1 if all_required else 0} {1 if use_cache else 0} " + (";".join(f"{d}:{','.join(map(str, us)) or '-'}" for d, us in sorted(records.items())) or "-")
                       + " " + (",".join(f"{d}.{u}" for d in sorted(cached or ()) for u in sorted(set(records[d]))) or "-")
                       + " " + (",".join(f"{u}={1 if v else 0}" for u, v in sorted(known.items())) or "-") + " " + (",".join(map(str, sorted(present))) or "-"))
            impl.append(text)
            if got is None:
                viol(f"_process_mexists_records raised {text} for records {records}", f"mx-raise:{records}", {"kind": "mexists-unit", "records": {str(k): v for k, v in records.items()}})
                continue
            if not use_cache and not use_known:
                want = {d: (all(u in present for u in us) if all_required else any(u in present for u in us)) for d, us in records.items() if us}
                if got != want:
                    viol(f"_process_mexists_records(all_required={all_required}) over records {records} with files {sorted(present)} present answers {got}; "
                         f"the files say {want}", f"mx:{sorted(records.items())}:{sorted(present)}:{all_required}",
                         {"kind": "mexists-unit", "records": {str(k): v for k, v in records.items()}, "present": sorted(present), "all_required": all_required})
            if art is not None:
                # every URI that was looked at is reported back to the caller with the answer that was used
                for u in {u for us in records.values() for u in us}:
                    uri = info(u).file_location(ds.locationFactory).uri
                    if uri not in art:
                        viol(f"artifact_existence was not told about u{u} (records {records})", f"mx-art:{sorted(records.items())}:{u}", {"kind": "mexists-unit"})
                        break
    finally:
        ds.cacheManager = real_cache
    if model_ok:
        got = core.driver(req)
        nd = 0
        for line, m, i in zip(req, got, impl):
            if m != i:
                nd += 1
                if nd <= 5:
                    ctx.broken.append(f"correspondence (mexists): `{line}` model={m} implementation={i}")
        ctx.extra["mexists_correspondence_lines"] = len(req)
        ctx.extra["mexists_correspondence_disagreements"] = nd


def replay(ctx, content):
    print("replay:", content.get("what"))
    print("ops:", content.get("ops"))
    run(ctx)
    return core.finish(ctx)
