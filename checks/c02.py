"""C02 — collections hold what the history says, one dataset per type + data ID.

Model: Model/Registry.lean (collections, dataset types, dataset table, tag table with its UNIQUE
constraint, chains, datastore-held flags; every operation all-or-nothing); theorems in Props/C02.lean
(invariants for every history, uniqueness, one run for ever, refusals change nothing, TAGGED membership
changes only through associate/disassociate/removal).
Tie: C — seeded histories with arbitrary (also invalid) arguments on a real SQLite registry; after every
step the membership of every collection is read back through every query interface and compared.
Oracle (model-free): an independent dict model of the documented behaviour kept by the harness.
"""
from __future__ import annotations

import os

from vlib import core, repo

LEVEL = "proof"
LEAN_TARGETS = ["ButlerModel.Props.C02", "driver"]


def run(ctx):
    ctx.rule = (
        "seeded histories of 15-45 operations over {registerRun/registerCollection (also with a clashing type), "
        "registerDatasetType (also conflicting redefinition), insertDatasets, Butler.put, _importDatasets (same / conflicting), "
        "associate, disassociate, removeDatasets, removeCollection, setCollectionChain, unstore} with valid and invalid "
        "arguments (unknown names, wrong collection types, duplicate data IDs, refs of other runs, deleted refs, empty lists); "
        "after every step all (dataset type, collection) memberships via Registry.queryDatasets and Butler.query_datasets; "
        "non-trivial = distinct histories with at least one accepted and one refused operation"
    )
    ctx.assumptions = [
        "SQLite enforces the UNIQUE / PRIMARY KEY / FOREIGN KEY constraints the managers declare",
        "PostgreSQL code paths are not executable here",
    ]
    with core.Lock():
        # T-tie: CollectionSummary.add_data_ids_generator (translated) and is_compatible_with (recognised) are generated from the
        # working tree into Gen/SummaryPy.lean; C02.Translated.summary_never_hides (a collection holding a matching dataset is never
        # pruned from a query through its summary) is proved about the generated definitions
        import sys as _sys

        _sys.path.insert(0, os.path.join(core.VERIF, "translate"))
        try:
            import gen_summary

            gen_summary.generate(core.GEN_DIR)
        except Exception as e:
            ctx.broken.append(f"translation: CollectionSummary: {type(e).__name__}: {e}")
        built = core.lean_build(ctx, LEAN_TARGETS)
        if built:
            core.lean_audit(ctx, ["ButlerModel.Props.C02"])
            if not ctx.quick():
                core.leanchecker(ctx, ["ButlerModel.Props.C02"])
    with repo.Scratch("verif-c02-") as tmp:
        correspondence(ctx, built, tmp)


def correspondence(ctx, model_ok, tmp):
    import sqlalchemy.exc
    from lsst.daf.butler import CollectionType, DatasetRef, DatasetType
    from lsst.daf.butler._exceptions import (
        CollectionTypeError, DatasetTypeError, MissingCollectionError, MissingDatasetTypeError,
    )
    from lsst.daf.butler.registry import ConflictingDefinitionError, OrphanedRecordError

    rng = ctx.rng
    b = repo.make_butler(os.path.join(tmp, "r"))
    repo.basic_dimensions(b, detectors=(1, 2, 3))
    repo.basic_dimensions(b, instrument="J", detectors=(1, 2, 3))  # data-ID keys 11..13 are detectors 1..3 of instrument J
    reg = b.registry
    req, impl = [], []
    n_hist = 20 if ctx.quick() else 320
    CT = {"R": CollectionType.RUN, "T": CollectionType.TAGGED, "C": CollectionType.CHAINED}

    def viol(what, key, replay):
        ctx.violations.append(core.Violation(what=what, key=key, replay=replay))

    def classify(e):
        for cls, name in ((ConflictingDefinitionError, "ConflictingDefinitionError"), (OrphanedRecordError, "OrphanedRecordError"),
                          (MissingCollectionError, "MissingCollectionError"), (MissingDatasetTypeError, "MissingDatasetTypeError"),
                          (CollectionTypeError, "CollectionTypeError"), (sqlalchemy.exc.IntegrityError, "IntegrityError")):
            if isinstance(e, cls):
                return "err " + name
        return f"err INTERNAL:{type(e).__name__}"

    for h in range(n_hist):
        # per-history namespace: collection number c -> name; dataset type number -> name
        cname = lambda c: f"c{c}_{h}"  # noqa: E731
        tname = lambda t: f"dt{t}_{h}"  # noqa: E731
        defs = {
            0: lambda t: DatasetType(tname(t), {"instrument", "detector"}, "StructuredDataDict", universe=b.dimensions),
            1: lambda t: DatasetType(tname(t), {"instrument", "detector"}, "StructuredDataList", universe=b.dimensions),
            # a dataset type without dimensions: its tag rows have no data-ID columns at all
            2: lambda t: DatasetType(tname(t), set(), "StructuredDataDict", universe=b.dimensions),
        }

        def data_id(t, k):
            if o_types.get(t) == 2:
                return {}
            return {"instrument": "J", "detector": k - 10} if k > 10 else {"instrument": "I", "detector": k}

        def key_of(ref):
            d = ref.dataId.get("detector")
            return 0 if d is None else (d + 10 if ref.dataId["instrument"] == "J" else d)

        def keys_for(t):
            return [0] if o_types.get(t) == 2 else [1, 2, 3]

        def pick_coll(kind, p=0.7):
            """Mostly an existing collection of the kind the operation needs, sometimes any number."""
            good = [c for c, k in o_colls.items() if k == kind]
            return rng.choice(good) if good and rng.random() < p else rng.randrange(NC)

        def clashing(c):
            """Datasets that share dataset type and data ID with a current member of TAGGED collection c."""
            cur = {(o_ds[i][0], o_ds[i][1]) for i in o_tag.get(c, set()) if i in o_ds}
            return [i for i in sorted(refs) if i in o_ds and (o_ds[i][0], o_ds[i][1]) in cur and i not in o_tag.get(c, set())]
        req.append("reg new")
        impl.append("ok")
        # oracle state
        o_colls, o_types, o_ds, o_tag, o_chain, o_stored = {}, {}, {}, {}, {}, set()
        refs = {}  # dataset number -> DatasetRef
        next_id = 1
        ops = []
        flags = set()
        NC, NT = 7, 3

        def o_members(c, t):
            if o_colls.get(c) == "R":
                return sorted(i for i, (ty, k, r) in o_ds.items() if r == c and ty == t)
            if o_colls.get(c) == "T":
                return sorted(i for i in o_tag.get(c, set()) if o_ds[i][0] == t)
            return []

        # four histories in five start from a furnished registry (runs, TAGGED collections, a chain, dataset types),
        # so that most later operations are accepted; the others start from nothing
        forced = []
        if rng.random() < 0.8:
            forced = [("regcoll", (0, "R")), ("regcoll", (1, "R")), ("regcoll", (2, "T")), ("regcoll", (3, "T")), ("regcoll", (4, "C")),
                      ("regtype", (0, 0)), ("regtype", (1, rng.choice([0, 1, 2]))), ("regtype", (2, 2))]
            rng.shuffle(forced)
        if h == 0:
            # corpus (runs first, whatever the seed): the delicate sequences earlier findings and seeded changes turned on —
            # a non-member sharing type + data ID with a member is disassociated (ignored) / associated (conflict); a member is
            # re-associated (no-op); the twin is removed from the registry; a dimensionless type goes through the same
            forced = [("regcoll", (0, "R")), ("regcoll", (1, "R")), ("regcoll", (2, "T")), ("regcoll", (3, "T")), ("regtype", (0, 0)), ("regtype", (2, 2)),
                      ("insert", (0, 1, 0)), ("insert", (0, 1, 1)), ("insert", (0, 2, 0)), ("insert", (2, 0, 0)), ("insert", (2, 0, 1)),
                      ("assoc", (2, [1, 3])), ("disassoc", (2, [2])), ("assoc", (2, [2])), ("assoc", (2, [1])), ("assoc", (3, [2, 4])),
                      ("disassoc", (3, [5, 1])), ("assoc", (3, [5])), ("disassoc", (2, [1])), ("assoc", (2, [2])), ("rmds", ([1],)), ("disassoc", (2, [3, 2]))]
        n_steps = rng.randint(15, 45) + len(forced)
        for step in range(n_steps):
            c = None
            # pick the operation kind by weight among those that make sense now, then map it onto the thresholds below
            kinds = [("regcoll", 0.07, 5), ("regtype", 0.18, 3), ("insert", 0.3, 16), ("multi", 0.985, 6), ("dupinsert", 0.9755, 3)]
            if refs:
                kinds.append(("purge", 0.9655, 4))
            if refs:
                kinds += [("import", 0.47, 6), ("assoc", 0.6, 20), ("disassoc", 0.7, 12), ("rmds", 0.8, 6)]
            kinds += [("rmcoll", 0.87, 4), ("chain", 0.93, 4)]
            if o_stored:
                kinds.append(("unstore", 0.97, 3))
            if len(o_colls) < 4:
                kinds.append(("regcoll", 0.07, 20))
            tot = sum(w for _, _, w in kinds)
            pick = rng.random() * tot
            for _, r, w in kinds:
                pick -= w
                if pick <= 0:
                    break
            params = None
            if forced:
                kind, params = forced.pop(0)
                r = {"regcoll": 0.07, "regtype": 0.18, "insert": 0.3, "assoc": 0.6, "disassoc": 0.7, "rmds": 0.8}[kind]
            want = None  # oracle's expected reply class
            if r < 0.14:
                c, k = params or (rng.randrange(NC), rng.choice("RRTTC"))
                line = f"reg regcoll {c} {k}"
                try:
                    out = "True" if reg.registerCollection(cname(c), CT[k]) else "False"
                except Exception as e:
                    out = classify(e)
                # get-or-create; an existing name of another type is a conflict (finding C20-b: it used to be ignored silently)
                want = ("False" if o_colls[c] == k else "err ConflictingDefinitionError") if c in o_colls else "True"
                if c not in o_colls:
                    o_colls[c] = k
                    if k == "C":
                        o_chain[c] = []
            elif r < 0.22:
                t, d = params or (rng.randrange(NT), rng.choice([0, 0, 0, 0, 1, 2, 2]))
                line = f"reg regtype {t} {d}"
                try:
                    out = "True" if reg.registerDatasetType(defs[d](t)) else "False"
                except Exception as e:
                    out = classify(e)
                want = ("False" if o_types[t] == d else "err ConflictingDefinitionError") if t in o_types else "True"
                o_types.setdefault(t, d)
            elif r < 0.45:
                t, c = rng.randrange(NT), pick_coll("R", 0.8)
                k = rng.choice(keys_for(t))
                use_put = rng.random() < 0.3
                if params:
                    (t, k, c), use_put = params, False
                line = f"reg insert {next_id} {t} {k} {c}"
                if t not in o_types:
                    want = "err MissingDatasetTypeError"
                elif c not in o_colls:
                    want = "err MissingCollectionError"
                elif o_colls[c] != "R":
                    want = "err CollectionTypeError"
                elif any(ty == t and kk == k and rr == c for ty, kk, rr in o_ds.values()):
                    want = "err ConflictingDefinitionError"
                else:
                    want = "ok"
                try:
                    if use_put and o_types.get(t) in (0, 2):
                        ref = b.put({"v": step}, tname(t), data_id(t, k), run=cname(c))
                    else:
                        (ref,) = reg.insertDatasets(tname(t), [data_id(t, k)], run=cname(c))
                    out = "ok"
                except Exception as e:
                    out = classify(e)
                if out == "ok":
                    refs[next_id] = ref
                    o_ds[next_id] = (t, k, c)
                    if use_put and o_types.get(t) in (0, 2):
                        req.append(line), impl.append(out)
                        line, out = f"reg store {next_id}", "ok"
                        o_stored.add(next_id)
                    next_id += 1
            elif r < 0.5 and refs:
                # import: an existing ref again (idempotent), or the same id with a different run / data ID (conflict)
                i = rng.choice(sorted(refs))
                ref = refs[i]
                t, k, c = o_ds.get(i, (None, None, None)) if i in o_ds else (None, None, None)
                if i not in o_ds:
                    continue
                mode = rng.choice(["same", "other-run", "other-key"])
                c2 = c if mode != "other-run" else rng.choice([x for x in range(NC)])
                k2 = k if mode != "other-key" else rng.choice(keys_for(t))
                line = f"reg import {i} {t} {k2} {c2}"
                if c2 not in o_colls:
                    want = "err MissingCollectionError"
                elif o_colls[c2] != "R":
                    want = "err CollectionTypeError"
                elif (t, k2, c2) == (t, k, c):
                    want = "ok"
                else:
                    want = "err ConflictingDefinitionError"
                try:
                    new = DatasetRef(ref.datasetType, data_id(t, k2), run=cname(c2), id=ref.id)
                    reg._importDatasets([new])
                    out = "ok"
                except Exception as e:
                    out = classify(e)
            elif r < 0.68 and refs:
                c = pick_coll("T")
                ids = rng.sample(sorted(refs), min(len(refs), rng.choice([0, 1, 1, 2, 3])))
                if clashing(c) and rng.random() < 0.4:
                    # a dataset whose type + data ID is already taken in c, alone or together with harmless ones
                    ids = rng.sample(ids, min(len(ids), rng.choice([0, 1, 2]))) + [rng.choice(clashing(c))]
                    ids = list(dict.fromkeys(ids))
                    rng.shuffle(ids)
                if params:
                    c, ids = params
                line = f"reg assoc {c} " + (",".join(map(str, ids)) or "-")
                if c not in o_colls:
                    want = "err MissingCollectionError"
                elif not ids:
                    want = "ok"  # nothing to do: accepted whatever the collection type
                elif o_colls[c] != "T":
                    want = "err CollectionTypeError"
                else:
                    cur = {(o_ds[i][0], o_ds[i][1]): i for i in o_tag.get(c, set())}
                    ok = True
                    for i in ids:
                        if i not in o_ds:
                            ok = False
                            break
                        kk = (o_ds[i][0], o_ds[i][1])
                        if cur.get(kk, i) != i:
                            ok = False
                            break
                        cur[kk] = i
                    want = "ok" if ok else "err ConflictingDefinitionError"
                    if ok:
                        o_tag.setdefault(c, set()).update(ids)
                try:
                    reg.associate(cname(c), [refs[i] for i in ids])
                    out = "ok"
                except Exception as e:
                    out = classify(e)
            elif r < 0.76 and refs:
                c = pick_coll("T")
                ids = rng.sample(sorted(refs), min(len(refs), rng.choice([1, 2])))
                if clashing(c) and rng.random() < 0.5:
                    # a non-member that shares dataset type and data ID with a member: must be ignored
                    ids = [rng.choice(clashing(c))]
                if params:
                    c, ids = params
                line = f"reg disassoc {c} " + ",".join(map(str, ids))
                if c not in o_colls:
                    want = "err MissingCollectionError"
                elif o_colls[c] != "T":
                    want = "err CollectionTypeError"
                else:
                    want = "ok"
                    o_tag.setdefault(c, set()).difference_update(ids)
                try:
                    reg.disassociate(cname(c), [refs[i] for i in ids])
                    out = "ok"
                except Exception as e:
                    out = classify(e)
            elif r < 0.84 and refs:
                ids = rng.sample(sorted(refs), min(len(refs), rng.choice([1, 1, 2])))
                if params:
                    (ids,) = params
                line = "reg rmds " + ",".join(map(str, ids))
                if any(i in o_stored for i in ids):
                    want = "err OrphanedRecordError"
                else:
                    want = "ok"
                    for i in ids:
                        o_ds.pop(i, None)
                        for s_ in o_tag.values():
                            s_.discard(i)
                try:
                    reg.removeDatasets([refs[i] for i in ids])
                    out = "ok"
                except Exception as e:
                    out = classify(e)
            elif r < 0.9:
                c = rng.randrange(NC)
                line = f"reg rmcoll {c}"
                if c not in o_colls:
                    want = "err MissingCollectionError"
                elif any(c in kids for kids in o_chain.values()):
                    want = "refused"
                elif o_colls[c] == "R" and any(rr == c and i in o_stored for i, (_, _, rr) in o_ds.items()):
                    want = "refused"
                else:
                    want = "ok"
                    gone = [i for i, (_, _, rr) in o_ds.items() if rr == c] if o_colls[c] == "R" else []
                    for i in gone:
                        o_ds.pop(i)
                        for s_ in o_tag.values():
                            s_.discard(i)
                    o_tag.pop(c, None)
                    o_chain.pop(c, None)
                    o_colls.pop(c)
                try:
                    reg.removeCollection(cname(c))
                    out = "ok"
                except Exception as e:
                    out = classify(e)
            elif r < 0.95:
                chains = [c for c, k in o_colls.items() if k == "C"]
                c = rng.choice(chains) if chains and rng.random() < 0.85 else rng.randrange(NC)
                kids = [x for x in o_colls if o_colls[x] != "C" and rng.random() < 0.4]
                line = f"reg chain {c} " + (",".join(map(str, kids)) or "-")
                if o_colls.get(c) == "C":
                    want = "ok"
                    o_chain[c] = kids
                else:
                    want = "refused"
                try:
                    reg.setCollectionChain(cname(c), [cname(x) for x in kids])
                    out = "ok"
                except MissingCollectionError:
                    out = "err CollectionTypeError"  # unknown parent: the model has one "not a chain" refusal
                except Exception as e:
                    out = classify(e)
            elif 0.975 < r < 0.976:
                # one insertDatasets call naming the same data ID twice (possibly next to a harmless one): the second would
                # share dataset type, data ID and run with the first, so the whole call must be refused and change nothing
                runs_ = [c_ for c_, k_ in o_colls.items() if k_ == "R"]
                dim_types = [t_ for t_, d_ in o_types.items() if d_ == 0]
                if not runs_ or not dim_types:
                    continue
                c, t = rng.choice(runs_), rng.choice(dim_types)
                taken = {(ty, kk) for ty, kk, rr in o_ds.values() if rr == c}
                free = [k_ for k_ in (1, 2, 3, 11, 12, 13) if (t, k_) not in taken]
                if not free:
                    continue
                k = rng.choice(free)
                ks = [k, k] + ([rng.choice(free)] if rng.random() < 0.5 else [])
                rng.shuffle(ks)
                want = "err ConflictingDefinitionError"
                try:
                    got_refs = reg.insertDatasets(tname(t), [data_id(t, k_) for k_ in ks], run=cname(c))
                    out = f"ok ({len(got_refs)} refs for {len(ks)} data IDs)"
                except Exception as e:
                    out = classify(e)
                ops.append(f"dupinsert {t} {ks} {c}")
                ctx.count("dupinsert")
                if out != want:
                    viol(f"history {ops[-4:]}: insertDatasets(type {t}, data IDs {ks}, run {c}) names one data ID twice -> {out}, documented outcome {want}",
                         f"dupinsert:{ops}", {"kind": "history", "ops": ops, "got": out, "want": want})
                line = None  # nothing changed: the model is not told; the probes below compare with the unchanged state
            elif 0.965 < r < 0.966 and refs:
                # Butler.pruneDatasets(purge=True) — the refs handed over as a list, a tuple or a one-shot generator: the same
                # as unstore + removeDatasets of exactly those datasets
                live = [i for i in sorted(refs) if i in o_ds]
                if not live:
                    continue
                ids = rng.sample(live, min(len(live), rng.choice([1, 1, 2, 3])))
                how = rng.choice(["list", "tuple", "generator", "generator"])
                arg = [refs[i] for i in ids]
                arg = tuple(arg) if how == "tuple" else ((x for x in list(arg)) if how == "generator" else arg)
                try:
                    b.pruneDatasets(arg, purge=True, unstore=True, disassociate=True)
                    out = "ok"
                except Exception as e:
                    out = classify(e)
                ctx.count("purge:" + how)
                ops.append(f"purge[{how}] " + ",".join(map(str, ids)))
                if out != "ok":
                    viol(f"history {ops[-4:]}: pruneDatasets({ids} as {how}, purge, unstore, disassociate) -> {out}", f"purge:{ops}",
                         {"kind": "history", "ops": ops, "got": out})
                    continue
                # tell the model the same thing as unstore + rmds
                for i in ids:
                    if i in o_stored:
                        req.append(f"reg unstore {i}"), impl.append("ok")
                        o_stored.discard(i)
                req.append("reg rmds " + ",".join(map(str, ids))), impl.append("ok")
                for i in ids:
                    o_ds.pop(i, None)
                    for s_ in o_tag.values():
                        s_.discard(i)
                line, want = None, None
            elif r > 0.98:
                # one call that creates several datasets at once: insertDatasets over data IDs of two instruments, or
                # _importDatasets of new datasets of two dataset types — only with free slots in an existing RUN, so that
                # the whole call is accepted and equals the same inserts one by one
                runs_ = [c_ for c_, k_ in o_colls.items() if k_ == "R"]
                dim_types = [t_ for t_, d_ in o_types.items() if d_ == 0]
                if not runs_ or not dim_types:
                    continue
                c = rng.choice(runs_)
                taken = {(ty, kk) for ty, kk, rr in o_ds.values() if rr == c}
                if rng.random() < 0.5 or len(dim_types) < 2:
                    t = rng.choice(dim_types)
                    free = [k_ for k_ in (1, 2, 3, 11, 12, 13) if (t, k_) not in taken]
                    ks = rng.sample(free, min(len(free), rng.choice([2, 3])))
                    if len(ks) < 2 or not any(k_ > 10 for k_ in ks) or not any(k_ < 10 for k_ in ks):
                        continue
                    items = [(t, k_) for k_ in ks]
                    try:
                        new_refs = reg.insertDatasets(tname(t), [data_id(t, k_) for k_ in ks], run=cname(c))
                    except Exception as e:
                        viol(f"after {ops[-4:]}: insertDatasets(type {t}, data IDs {ks} of two instruments, run {c}) in one call -> {type(e).__name__}: "
                             f"{str(e)[:100]} although every slot is free", f"multi-insert:{ops}", {"kind": "history", "ops": ops + [f"multi-insert {t} {ks} {c}"]})
                        continue
                else:
                    import uuid as _uuid

                    t1, t2 = rng.sample(dim_types, 2)
                    items = []
                    for t_ in (t1, t2):
                        free = [k_ for k_ in (1, 2, 3) if (t_, k_) not in taken]
                        if free:
                            items.append((t_, rng.choice(free)))
                    if len(items) < 2:
                        continue
                    try:
                        new_refs = reg._importDatasets([DatasetRef(defs[0](t_), data_id(t_, k_), run=cname(c), id=_uuid.uuid4()) for t_, k_ in items])
                    except Exception as e:
                        viol(f"after {ops[-4:]}: _importDatasets of new datasets {items} (two dataset types) into run {c} in one call -> {type(e).__name__}: "
                             f"{str(e)[:100]} although every slot is free", f"multi-import:{ops}", {"kind": "history", "ops": ops + [f"multi-import {items} {c}"]})
                        continue
                for (t_, k_), ref in zip(items, new_refs):
                    refs[next_id] = ref
                    o_ds[next_id] = (t_, k_, c)
                    req.append(f"reg insert {next_id} {t_} {k_} {c}"), impl.append("ok")
                    ops.append(f"insert {next_id} {t_} {k_} {c}")
                    next_id += 1
                ctx.count("multi-dataset-call")
                line, out, want = None, "ok", None
            elif o_stored:
                i = rng.choice(sorted(o_stored))
                line = f"reg unstore {i}"
                want = "ok"
                try:
                    b.pruneDatasets([refs[i]], unstore=True, disassociate=False, purge=False)
                    out = "ok"
                    o_stored.discard(i)
                except Exception as e:
                    out = classify(e)
            else:
                continue
            if line is not None:
                ops.append(line[4:])
                req.append(line)
                impl.append(out)
                ctx.count(line.split()[1])
            else:
                line = "reg multi"
            ctx.evaluations += 1
            flags.add("refused" if out.startswith("err") else "accepted")
            # ---- oracle verdict on the reply
            if want is not None:
                agree = (out == want) or (want == "refused" and out.startswith("err")) or (out.startswith("err") and want.startswith("err") and
                                                                                             "INTERNAL" not in out and line.split()[1] in ("chain",))
                if not agree:
                    conflict_expected = "Conflicting" in want or "Orphaned" in want
                    viol(f"history {ops[-6:]}: `{line[4:]}` -> {out}, documented outcome {want}",
                         f"reply:{ops}", {"kind": "history", "ops": ops, "failing_step": len(ops) - 1, "got": out, "want": want})
            # ---- observe: memberships through both query systems — of every collection on every third step and at the
            # end of the history, otherwise of the collection the operation named plus a random quarter of the others
            touched = c
            full_probe = (step % 3 == 2) or step == n_steps - 1 or not ctx.quick()
            # every fourth round of probes runs inside one caching context (the answers must be the same: its summary / record
            # caches are filled by the first lookups and serve the later ones)
            import contextlib as _cl

            probe_ctx = _cl.ExitStack()
            if rng.random() < 0.25:
                probe_ctx.enter_context(reg.caching_context())
                ctx.count("probes-inside-caching-context")
            # a search over two collections at once: the union of their members, each with its own run
            known_c = [c_ for c_ in o_colls if o_colls[c_] in "RT"]
            if len(known_c) >= 2 and o_types and rng.random() < 0.5:
                c1, c2 = rng.sample(known_c, 2)
                t_ = rng.choice(sorted(o_types))
                want_u = sorted(set(o_members(c1, t_)) | set(o_members(c2, t_)))
                byid_ = {rf.id: i for i, rf in refs.items()}
                ctx.count("two-collection-search")
                for api in ("Butler.query_datasets", "Query.datasets"):
                    try:
                        if api == "Butler.query_datasets":
                            rows_ = b.query_datasets(tname(t_), collections=[cname(c1), cname(c2)], find_first=False, explain=False, limit=None)
                        else:
                            with b.query() as q_:
                                rows_ = list(q_.datasets(tname(t_), collections=[cname(c1), cname(c2)], find_first=False))
                        got_u = sorted({byid_[x.id] for x in rows_})
                        wrong_run = [(byid_[x.id], x.run) for x in rows_ if byid_[x.id] in o_ds and x.run != cname(o_ds[byid_[x.id]][2])]
                    except Exception as e:
                        got_u, wrong_run = classify(e), []
                    if got_u != want_u or wrong_run:
                        viol(f"after {ops[-4:]}: {api}(type {t_}, collections [{c1}, {c2}]) = {got_u}"
                             + (f" with runs {wrong_run[:2]} (a dataset belongs to exactly one RUN, the one it was inserted into)" if wrong_run else "")
                             + f", the history says {want_u}", f"two-collections:{ops}:{c1}:{c2}:{t_}",
                             {"kind": "history", "ops": ops, "collections": [c1, c2], "type": t_})
            for c in range(NC):
                for t in range(NT):
                    if t not in o_types:
                        continue
                    if c not in o_colls and rng.random() < 0.85:
                        continue  # an unknown collection is only probed now and then
                    if not (full_probe or c == touched or rng.random() < 0.25):
                        continue
                    obs = []
                    for api in ("registry", "butler"):
                        try:
                            if api == "registry":
                                got = sorted(i for i, rf in refs.items() for x in [0] if False)  # placeholder
                                rows = list(reg.queryDatasets(tname(t), collections=[cname(c)], findFirst=False))
                            else:
                                rows = b.query_datasets(tname(t), collections=[cname(c)], find_first=False, explain=False, limit=None)
                            byid = {rf.id: i for i, rf in refs.items()}
                            got = sorted(byid[x.id] for x in rows)
                            bad_identity = [byid[x.id] for x in rows if byid[x.id] in o_ds and
                                            (x.run != cname(o_ds[byid[x.id]][2]) or key_of(x) != o_ds[byid[x.id]][1])]
                            obs.append((",".join(map(str, got)) or "-", bad_identity))
                        except MissingCollectionError:
                            obs.append(("err MissingCollectionError", []))
                        except Exception as e:
                            obs.append((classify(e), []))
                    if o_colls.get(c) == "C":
                        continue  # chains are C03's business
                    req.append(f"reg members {c} {t}")
                    impl.append(obs[0][0])
                    want_m = (",".join(map(str, o_members(c, t))) or "-") if c in o_colls else "err MissingCollectionError"
                    for api, (text, bad_identity) in zip(("Registry.queryDatasets", "Butler.query_datasets"), obs):
                        if text != want_m:
                            viol(f"after {ops[-5:]}: {api}(type {t}, collection {c}) = {text}, the history says {want_m}",
                                 f"members:{ops}:{c}:{t}:{api}", {"kind": "history", "ops": ops, "collection": c, "type": t, "got": text, "want": want_m})
                        if bad_identity:
                            viol(f"after {ops[-5:]}: datasets {bad_identity} changed their run or data ID", f"identity:{ops}",
                                 {"kind": "history", "ops": ops})
                        # uniqueness as observed
                    ctx.evaluations += 1
            probe_ctx.close()
            # ---- the registry's own tables (read from the SQLite file): dataset rows, tag rows and collection rows are exactly what
            # the history says; the per-collection summaries (which queries use to skip collections) cover every membership
            if (step % 3 == 2) or step == n_steps - 1:
                from vlib import regtables

                snap = regtables.snapshot(os.path.join(tmp, "r"))
                mine = lambda name: name.endswith(f"_{h}")  # noqa: E731
                hexof = {i: rf.id.hex for i, rf in refs.items()}
                num = {v: k for k, v in hexof.items()}
                want_ds = {hexof[i]: (tname(t), cname(c_)) for i, (t, k_, c_) in o_ds.items()}
                got_ds = {d: v for d, v in snap["datasets"].items() if mine(v[1])}
                want_tags = {(cname(c_), hexof[i], tname(t)) for c_ in o_colls for t in range(NT) for i in o_members(c_, t)}
                got_tags = {x for x in snap["tags"] if mine(x[0])}
                kinds_num = {1: "R", 2: "T", 3: "C"}
                got_colls = {n: kinds_num.get(k_, str(k_)) for n, k_ in snap["collections"].items() if mine(n)}
                want_colls = {cname(c_): k_ for c_, k_ in o_colls.items()}
                problems = []
                if got_ds != want_ds:
                    problems.append(f"dataset table: rows for datasets {sorted(num.get(d, d) for d in set(got_ds) ^ set(want_ds)) or [num.get(d, d) for d in got_ds if got_ds[d] != want_ds.get(d)]} "
                                    "differ from the registered datasets")
                if got_tags != want_tags:
                    problems.append(f"tag tables: unexpected rows {sorted((c_, num.get(d, d)) for c_, d, _ in got_tags - want_tags)[:4]}, missing rows "
                                    f"{sorted((c_, num.get(d, d)) for c_, d, _ in want_tags - got_tags)[:4]}")
                if got_colls != want_colls:
                    problems.append(f"collection table: {got_colls}, the history registered {want_colls}")
                if snap["dangling_datasets"]:
                    problems.append(f"dataset rows without type or run: {snap['dangling_datasets'][:3]}")
                for c_, d, tn in got_tags & want_tags:
                    if (c_, tn) not in snap["summary_types"]:
                        problems.append(f"collection {c_} holds a {tn} dataset but its summary does not list the dataset type")
                        break
                    inst = refs[num[d]].dataId.get("instrument")
                    if inst is not None and (c_, inst) not in snap["summary_instrument"]:
                        problems.append(f"collection {c_} holds a dataset of instrument {inst} but its summary does not list the instrument")
                        break
                ctx.count("table-snapshots")
                if problems:
                    viol(f"after {ops[-5:]}: " + "; ".join(problems[:3]), f"tables:{ops}", {"kind": "history", "ops": ops, "problems": problems})
        if {"refused", "accepted"} <= flags:
            ctx.nontrivial.add(tuple(ops))
        ctx.sample(ops[:12], cap=3)

    # ---- one call over more than a thousand datasets (the managers cut long IN lists into batches): associate, disassociate and
    # removeDatasets of n datasets, n not a multiple of the batch size, leave exactly what the history says
    n_big = 1003 if ctx.quick() else 2503
    reg.insertDimensionData("instrument", {"name": "K"})
    reg.insertDimensionData("detector", *[{"instrument": "K", "id": i_, "full_name": f"k{i_}"} for i_ in range(n_big)])
    dt_big = DatasetType("dt_big", {"instrument", "detector"}, "StructuredDataDict", universe=b.dimensions)
    reg.registerDatasetType(dt_big)
    reg.registerRun("big_run"), reg.registerCollection("big_tag", CollectionType.TAGGED)
    big_refs = reg.insertDatasets(dt_big, [{"instrument": "K", "detector": i_} for i_ in range(n_big)], run="big_run")

    def count_in(coll):
        return len(list(reg.queryDatasets(dt_big, collections=[coll])))

    for label, call, where, want in (
        (f"associate({n_big})", lambda: reg.associate("big_tag", big_refs), "big_tag", n_big),
        (f"disassociate({n_big - 1})", lambda: reg.disassociate("big_tag", big_refs[1:]), "big_tag", 1),
        (f"removeDatasets({n_big - 2})", lambda: reg.removeDatasets(big_refs[2:]), "big_run", 2),
    ):
        ctx.evaluations += 1
        ctx.count("bulk-call")
        try:
            call()
            got = count_in(where)
        except Exception as e:
            got = classify(e)
        if got != want:
            viol(f"{label} in one call: {where} then holds {got} datasets, the history says {want}", f"bulk:{label}", {"kind": "bulk", "call": label})
            break

    if model_ok:
        got = core.driver(req)
        nd = 0
        for line, m, i in zip(req, got, impl):
            if m != i:
                nd += 1
                if nd <= 5:
                    ctx.broken.append(f"correspondence: `{line}` model={m} implementation={i}")
        ctx.extra["correspondence_lines"] = len(req)
        ctx.extra["correspondence_disagreements"] = nd
    else:
        ctx.notes.append("model not built: correspondence skipped, implementation searched with the oracle only")


def replay(ctx, content):
    print("replay:", content.get("what"))
    print("ops:", content.get("ops"))
    run(ctx)
    return core.finish(ctx)
