"""C05 — a where-expression selects exactly the rows for which it is true.

Model: Model/Eval.lean (`denote`: the documented meaning of a predicate on a row under three-valued logic;
`sql`: what the code compiles it to, with SQL's truncating remainder in range tests); theorems in Props/C05.lean
(inRange_correct for every member and stride, compile_correct / selects_exactly for every well-formed
predicate and row, three-valued operator lemmas; the regression witness of C05-a).
Tie: T — `SqlColumnVisitor.visit_in_range` is translated from the working tree on every run (translate/gen_inrange.py →
Gen/InRangeSql.lean) and `Translated.translated_inRange_correct` is proved about that translation; C — type-directed random expressions (boolean structure, comparisons in both orientations, + - * % and
unary minus with negative intermediate values, IN / NOT IN over literals and strided ranges, NULL tests, bind
values and bind lists) are rendered as strings, run through Butler.query_data_ids / query_dimension_records /
query_datasets and the legacy Registry.query* on a populated repository with NULL metadata, and the selected
keys are compared with the model's verdict on every candidate row.
Oracle (model-free): a Python evaluation of the documented meaning (ranges as Python sets, None as unknown).
"""
from __future__ import annotations

import os

from vlib import core, repo

LEVEL = "proof"
LEAN_TARGETS = ["ButlerModel.Props.C05", "driver"]

TARGETS = {
    "detector": dict(key="detector", int_cols=["detector"], str_cols=["detector.purpose", "detector.raft", "detector.full_name", "detector.name_in_raft"],
                     bool_cols=[], time_cols=[], str_values=["SCIENCE", "GUIDER", "R00", "R01", "d3", "d10", "S0", "", "science", "Z"]),
    "exposure": dict(key="exposure", int_cols=["exposure.seq_num"], str_cols=["exposure.observation_type", "exposure.obs_id", "instrument"],
                     bool_cols=["exposure.can_see_sky", "exposure.has_simulated"], time_cols=["exposure.timespan.begin", "exposure.timespan.end"],
                     str_values=["science", "dark", "o3", "I", "J", "", "Science"]),
}
CUR = dict(TARGETS["detector"])
T0_NS = 1577836800 * 10**9  # 2020-01-01T00:00:00 TAI as nanoseconds since 1970-01-01 TAI (the unit of the model's time values)


class _Pool:
    """STR_COLS / STR_VALUES follow the current target."""

    def __init__(self, k):
        self.k = k

    def __iter__(self):
        return iter(CUR[self.k])

    def __len__(self):
        return len(CUR[self.k])

    def __getitem__(self, i):
        return CUR[self.k][i]


STR_COLS = _Pool("str_cols")
STR_VALUES = _Pool("str_values")


def run(ctx):
    ctx.rule = (
        "type-directed random predicates to depth 4 over the detector dimension (integer key 0..13; string metadata purpose / raft / "
        "full_name / name_in_raft with NULLs): comparisons = != < <= > >= in both orientations, integer arithmetic + - * % and unary "
        "minus producing negative and zero values, IN / NOT IN over integer or string literals and ranges a..b[:s] with negative "
        "bounds, = NULL / != NULL, scalar binds and list binds, NOT / AND / OR; each through query_data_ids, "
        "query_dimension_records, query_datasets and the three legacy Registry methods; non-trivial = predicates that select some "
        "but not all candidate rows"
    )
    ctx.assumptions = [
        "SQLite's integer arithmetic and BINARY collation (PostgreSQL not executable here)",
        "timespan-versus-timespan overlap is C11's subject; POINT overlap is probed against sphgeom's own containment test (geometry is not modelled)",
    ]
    with core.Lock():
        # T-tie: SqlColumnVisitor.visit_in_range is translated from the working tree into Gen/InRangeSql.lean
        import sys

        sys.path.insert(0, os.path.join(core.VERIF, "translate"))
        try:
            import gen_inrange

            gen_inrange.generate(core.GEN_DIR)
        except Exception as e:  # Untranslatable or anything else: the tie is broken, the search below still runs
            ctx.broken.append(f"translation: visit_in_range: {type(e).__name__}: {e}")
        built = core.lean_build(ctx, LEAN_TARGETS)
        if built:
            core.lean_audit(ctx, ["ButlerModel.Props.C05"])
            if not ctx.quick():
                core.leanchecker(ctx, ["ButlerModel.Props.C05"])
    with repo.Scratch("verif-c05-") as tmp:
        expressions(ctx, built, tmp)


# ------------------------------------------------------------------------------------ expression generator
FRIENDLY = [False]  # half of the predicates avoid the operators the legacy parser path refuses (% and unary minus)


def gen_int(rng, depth):
    r = rng.random()
    if FRIENDLY[0] and 0.35 <= r < 0.45:
        r = 0.9
    if depth <= 0 or r < 0.35:
        return ("col", rng.choice(CUR["int_cols"])) if rng.random() < 0.7 else ("lit", rng.choice([0, 1, 2, 3, 5, 7, 10, -1, -4, 13]))
    if r < 0.45:
        return ("neg", gen_int(rng, depth - 1))
    if r < 0.5:
        return ("bind", rng.choice([2, 5, -3, 0]))
    op = rng.choice(["add", "sub", "sub", "mul", "mod"] if not FRIENDLY[0] else ["add", "sub", "sub", "mul"])
    if op == "mod":
        return ("mod", gen_int(rng, depth - 1), ("lit", rng.choice([2, 3, 4])))
    if op == "mul":
        return ("mul", gen_int(rng, depth - 1), ("lit", rng.choice([2, 3, -1, -2])))
    return (op, gen_int(rng, depth - 1), gen_int(rng, depth - 1))


def gen_str(rng):
    r = rng.random()
    if r < 0.6:
        return ("col", rng.choice(STR_COLS))
    if r < 0.9:
        return ("lit", rng.choice(STR_VALUES))
    return ("bind", rng.choice(STR_VALUES))


def gen_range(rng):
    a = rng.randint(-9, 9)
    b = a + rng.randint(0, 12)
    s = rng.choice([1, 1, 2, 3, 4, 5])
    return (a, b, s)


def gen_pred(rng, depth):
    r = rng.random()
    if depth <= 0 or r < 0.45:
        k = rng.random()
        if k < 0.35:
            a, b = gen_int(rng, 2), gen_int(rng, 1)
            return ("cmp", rng.choice(["=", "!=", "<", "<=", ">", ">="]), a, b)
        if k < 0.5:
            a, b = gen_str(rng), gen_str(rng)
            return ("cmp", rng.choice(["=", "!=", "<", "<=", ">", ">="]), a, b)
        if k < 0.62:
            if CUR["bool_cols"] and rng.random() < 0.5:
                return ("flag", rng.choice(CUR["bool_cols"]))
            if CUR["time_cols"] and rng.random() < 0.4:
                # an instant tested against the half-open timespan, also exactly at its begin and its (exclusive) end
                return ("tin", T0_NS + rng.choice([0, 100, 150, 250, 300, 350, 450, 500, 650, 850, 1000, 1100, 1250]) * 10**6, rng.random() < 0.5,
                        rng.choice(["tlit", "tlit", "tbind-astropy", "tbind-datetime"]))
            if CUR["time_cols"] and rng.random() < 0.6:
                # times within one second of each other: sub-second resolution matters
                # the instant as a literal, or bound as an astropy Time (TAI) / a Python datetime (UTC: 37 s behind TAI in 2020)
                how = rng.choice(["tlit", "tbind-astropy", "tbind-datetime", "tbind-datetime"])
                return ("cmp", rng.choice(["<", "<=", ">", ">=", "=", "!="]), ("col", rng.choice(CUR["time_cols"])),
                        (how.split("-")[0], T0_NS + rng.choice([0, 100, 250, 300, 350, 500, 600, 750, 850, 1000, 1100]) * 10**6) + ((how,) if how != "tlit" else ()))
            nullable = [c for c in list(STR_COLS) + CUR["int_cols"] if c not in ("detector", "exposure", "instrument")]
            # the NULL keyword on either side of the comparison
            return ("isnull", rng.random() < 0.5, ("col", rng.choice(nullable)), rng.random() < 0.4)
        if k < 0.9:
            items = []
            for _ in range(rng.randint(1, 3)):
                items.append(("r", gen_range(rng)) if rng.random() < 0.6 else ("v", rng.choice([0, 1, 4, 6, -2, 9, 12])))
            if rng.random() < 0.15:
                items = [("b", tuple(rng.sample([0, 1, 2, 3, 5, 8, 11, -1], rng.randint(1, 3))))]
            return ("in", rng.random() < 0.3, gen_int(rng, 2), tuple(items))
        items = [("v", rng.choice(STR_VALUES)) for _ in range(rng.randint(1, 3))]
        return ("in", rng.random() < 0.3, ("col", rng.choice(STR_COLS)), tuple(items))
    if r < 0.6:
        return ("not", gen_pred(rng, depth - 1))
    return (rng.choice(["and", "or"]), gen_pred(rng, depth - 1), gen_pred(rng, depth - 1))


class Render:
    """Renders a tree for the new system (binds as :name) or the legacy one (binds as bare identifiers)."""

    def __init__(self, legacy):
        self.legacy = legacy
        self.bind = {}

    def b(self, v):
        name = f"b{len(self.bind)}"
        self.bind[name] = v
        return name if self.legacy else ":" + name

    def sc(self, e):
        k = e[0]
        if k == "col":
            return e[1]
        if k == "lit":
            return repr(e[1]) if isinstance(e[1], str) else (f"({e[1]})" if e[1] < 0 else str(e[1]))
        if k == "bind":
            return self.b(e[1])
        if k == "tlit" or (k == "tbind" and self.legacy):
            ns = e[1] - T0_NS
            return f"T'2020-01-01 00:00:{ns // 10**9:02d}.{ns % 10**9:09d}/tai'"
        if k == "tbind":
            import datetime

            from astropy.time import Time, TimeDelta

            ns = e[1] - T0_NS
            if e[2] == "tbind-astropy":
                return self.b(Time("2020-01-01T00:00:00", scale="tai") + TimeDelta(ns * 1e-9, format="sec", scale="tai"))
            # the same instant on the UTC clock (TAI - UTC = 37 s since 2017), millisecond steps only
            return self.b(datetime.datetime(2019, 12, 31, 23, 59, 23) + datetime.timedelta(microseconds=ns // 1000))
        if k == "neg":
            return f"-({self.sc(e[1])})"
        op = {"add": "+", "sub": "-", "mul": "*", "mod": "%"}[k]
        return f"({self.sc(e[1])} {op} {self.sc(e[2])})"

    def p(self, e):
        k = e[0]
        if k == "cmp":
            return f"{self.sc(e[2])} {e[1]} {self.sc(e[3])}"
        if k == "isnull":
            if len(e) > 3 and e[3] and not self.legacy:
                return f"NULL {'!=' if e[1] else '='} {self.sc(e[2])}"
            return f"{self.sc(e[2])} {'!=' if e[1] else '='} NULL"
        if k == "flag":
            return e[1]
        if k == "tin":
            how = e[3] if len(e) > 3 else "tlit"
            lit = self.sc(("tlit", e[1]) if how == "tlit" else ("tbind", e[1], how))
            return f"{lit} OVERLAPS exposure.timespan" if e[2] else f"exposure.timespan OVERLAPS {lit}"
        if k == "in":
            parts = []
            for kind, v in e[3]:
                if kind == "r":
                    a, b_, s = v
                    parts.append(f"{a}..{b_}" + (f":{s}" if s != 1 else ""))
                elif kind == "b":
                    parts.append(self.b(list(v)))
                else:
                    parts.append(repr(v) if isinstance(v, str) else str(v))
            return f"{self.sc(e[2])} {'NOT IN' if e[1] else 'IN'} ({', '.join(parts)})"
        if k == "not":
            return f"NOT ({self.p(e[1])})"
        return f"({self.p(e[1])}) {k.upper()} ({self.p(e[2])})"


def tokens(e):
    """prefix tokens for the model (binds are replaced by their values)"""
    k = e[0]

    def v(x):
        return "n" if x is None else (f"s:{x.encode().hex() or '-'}" if isinstance(x, str) else f"i:{x}")

    if k == "col":
        return ["col", e[1]]
    if k in ("lit", "bind", "tlit", "tbind"):
        return ["lit", v(e[1])]
    if k == "flag":
        return ["flag", e[1]]
    if k == "tin":
        # begin <= t AND end > t, in the model's own connectives
        return (["and", "cmp", "<=", "col", "exposure.timespan.begin", "lit", f"i:{e[1]}", "cmp", ">", "col", "exposure.timespan.end", "lit", f"i:{e[1]}"])
    if k == "neg":
        return ["neg"] + tokens(e[1])
    if k in ("add", "sub", "mul", "mod"):
        return [k] + tokens(e[1]) + tokens(e[2])
    if k == "cmp":
        return ["cmp", e[1]] + tokens(e[2]) + tokens(e[3])
    if k == "isnull":
        return ["isnull", "1" if e[1] else "0"] + tokens(e[2])
    if k == "in":
        lits, rngs = [], []
        for kind, x in e[3]:
            if kind == "r":
                rngs += [str(x[0]), str(x[1]), str(x[2])]
            elif kind == "b":
                lits += [v(i) for i in x]
            else:
                lits.append(v(x))
        return ["in", "1" if e[1] else "0"] + tokens(e[2]) + [str(len(lits))] + lits + [str(len(rngs) // 3)] + rngs
    if k == "not":
        return ["not"] + tokens(e[1])
    return [k] + tokens(e[1]) + tokens(e[2])


def tmod(x, y):
    q = abs(x) % abs(y)
    return q if x >= 0 else -q


def ev_sc(e, row):
    k = e[0]
    if k == "col":
        return row[e[1]]
    if k in ("lit", "bind", "tlit", "tbind"):
        return e[1]
    if k == "neg":
        x = ev_sc(e[1], row)
        return None if x is None else -x
    a, b = ev_sc(e[1], row), ev_sc(e[2], row)
    if a is None or b is None:
        return None
    return {"add": lambda: a + b, "sub": lambda: a - b, "mul": lambda: a * b, "mod": lambda: None if b == 0 else tmod(a, b)}[k]()


def k_not(x):
    return None if x is None else (not x)


def k_and(a, b):
    if a is False or b is False:
        return False
    return True if (a is True and b is True) else None


def k_or(a, b):
    if a is True or b is True:
        return True
    return False if (a is False and b is False) else None


LEGACY = {"range": False, "null": False}  # switches that reproduce the two known deviations of the legacy path


def ev_p(e, row):
    """documented meaning; None = unknown"""
    k = e[0]
    if k == "cmp":
        a, b = ev_sc(e[2], row), ev_sc(e[3], row)
        if a is None or b is None:
            return None
        return {"=": a == b, "!=": a != b, "<": a < b, "<=": a <= b, ">": a > b, ">=": a >= b}[e[1]]
    if k == "flag":
        x = row[e[1]]
        return None if x is None else bool(x)
    if k == "tin":
        return row["exposure.timespan.begin"] <= e[1] < row["exposure.timespan.end"]
    if k == "isnull":
        if LEGACY["null"]:
            return None  # '= NULL' reaches the database as a comparison with NULL
        x = ev_sc(e[2], row) is None
        return (not x) if e[1] else x
    if k == "in":
        m = ev_sc(e[2], row)
        members = set()
        for kind, x in e[3]:
            if kind == "r":
                if LEGACY["range"] and x[2] != 1:
                    members |= {v for v in range(x[0], x[1] + 1) if tmod(v, x[2]) == x[0] % x[2]}
                    continue
                members |= set(range(x[0], x[1] + 1, x[2]))
            elif kind == "b":
                members |= set(x)
            else:
                members.add(x)
        res = None if m is None else (m in members)
        return k_not(res) if e[1] else res
    if k == "not":
        return k_not(ev_p(e[1], row))
    a, b = ev_p(e[1], row), ev_p(e[2], row)
    return k_and(a, b) if k == "and" else k_or(a, b)


def has(e, kinds, name=None):
    """Does the tree contain a node of one of the kinds (with the given first argument, if one is named)?"""
    return isinstance(e, tuple) and ((e[0] in kinds and (name is None or (len(e) > 1 and e[1] == name))) or
                                     any(has(x, kinds, name) for x in e[1:] if isinstance(x, tuple)))


def expressions(ctx, model_ok, tmp):
    import astropy.units as u
    from astropy.time import Time
    from lsst.daf.butler import DatasetType, Timespan

    rng = ctx.rng
    b = repo.make_butler(os.path.join(tmp, "r"), run="r1")
    for inst in ("I", "J"):
        b.registry.insertDimensionData("instrument", {"name": inst})
        b.registry.insertDimensionData("physical_filter", {"instrument": inst, "name": "f", "band": "r"})
        b.registry.insertDimensionData("day_obs", {"instrument": inst, "id": 20200101})
        b.registry.insertDimensionData("group", {"instrument": inst, "name": "g"})
        b.registry.registerRun("c" + inst)
    # ---- target 1: detectors of instrument I
    det_rows = []
    for i in range(0, 14):
        rec = {"instrument": "I", "id": i, "full_name": f"d{i}", "purpose": [None, "SCIENCE", "GUIDER"][i % 3],
               "raft": [None, "R00", "R01", "R00"][i % 4], "name_in_raft": None if i % 5 == 0 else f"S{i % 3}"}
        b.registry.insertDimensionData("detector", rec)
        det_rows.append({"detector": i, "detector.purpose": rec["purpose"], "detector.raft": rec["raft"], "detector.full_name": rec["full_name"],
                         "detector.name_in_raft": rec["name_in_raft"], "_key": i})
    dt = DatasetType("dt", {"instrument", "detector"}, "StructuredDataDict", universe=b.dimensions)
    b.registry.registerDatasetType(dt)
    det_ds = set()
    for i in range(0, 14, 2):
        b.put({"i": i}, dt, instrument="I", detector=i)
        det_ds.add(i)
    # ---- target 2: exposures of two instruments, with NULL integers / flags / strings and sub-second timespans
    t0 = Time("2020-01-01T00:00:00", scale="tai")
    exp_rows = []
    dte = DatasetType("dte", {"instrument", "exposure"}, "StructuredDataDict", universe=b.dimensions)
    b.registry.registerDatasetType(dte)
    exp_ds = set()
    for i in range(0, 12):
        inst = "I" if i % 3 else "J"
        begin_ms, end_ms = 100 * i, 100 * i + 150
        rec = {"instrument": inst, "id": i, "obs_id": f"o{i}", "physical_filter": "f", "day_obs": 20200101, "group": "g",
               "seq_num": None if i % 4 == 2 else 3 * i - 10, "can_see_sky": [True, False, None][i % 3 if i < 9 else (i + 1) % 3],
               "has_simulated": [None, True, False, True][i % 4], "observation_type": [None, "science", "dark"][(i // 2) % 3],
               "timespan": Timespan(t0 + begin_ms * 1e-3 * u.s, t0 + end_ms * 1e-3 * u.s)}
        b.registry.insertDimensionData("exposure", rec)
        exp_rows.append({"instrument": inst, "exposure": i, "exposure.seq_num": rec["seq_num"], "exposure.obs_id": rec["obs_id"],
                         "exposure.observation_type": rec["observation_type"],
                         "exposure.can_see_sky": None if rec["can_see_sky"] is None else int(rec["can_see_sky"]),
                         "exposure.has_simulated": None if rec["has_simulated"] is None else int(rec["has_simulated"]),
                         "exposure.timespan.begin": T0_NS + begin_ms * 10**6, "exposure.timespan.end": T0_NS + end_ms * 10**6, "_key": (inst, i)})
        if i % 2 == 0:
            b.put({"i": i}, dte, instrument=inst, exposure=i, run="c" + inst)
            exp_ds.add((inst, i))
    targets = {
        "detector": dict(rows=det_rows, with_ds=det_ds, kw={"instrument": "I"},
                         new={"query_data_ids": lambda w, bd, kw: {d["detector"] for d in b.query_data_ids(["detector"], where=w, bind=bd, explain=False, **kw)},
                              "query_dimension_records": lambda w, bd, kw: {r_.id for r_ in b.query_dimension_records("detector", where=w, bind=bd, explain=False, **kw)},
                              "query_datasets": lambda w, bd, kw: {r_.dataId["detector"] for r_ in b.query_datasets(dt, collections="r1", where=w, bind=bd, explain=False, limit=None, **kw)}},
                         legacy={"queryDataIds": lambda w, bd, kw: {d["detector"] for d in b.registry.queryDataIds(["detector"], where=w, bind=bd, **kw)},
                                 "queryDimensionRecords": lambda w, bd, kw: {r_.id for r_ in b.registry.queryDimensionRecords("detector", where=w, bind=bd, **kw)},
                                 "queryDatasets": lambda w, bd, kw: {r_.dataId["detector"] for r_ in b.registry.queryDatasets(dt, collections="r1", where=w, bind=bd, **kw)}}),
        "exposure": dict(rows=exp_rows, with_ds=exp_ds, kw={},
                         new={"query_data_ids": lambda w, bd, kw: {(d["instrument"], d["exposure"]) for d in b.query_data_ids(["exposure"], where=w, bind=bd, explain=False)},
                              "query_dimension_records": lambda w, bd, kw: {(r_.instrument, r_.id) for r_ in b.query_dimension_records("exposure", where=w, bind=bd, explain=False)},
                              "query_datasets": lambda w, bd, kw: {(r_.dataId["instrument"], r_.dataId["exposure"]) for r_ in
                                                                   b.query_datasets(dte, collections=["cI", "cJ"], where=w, bind=bd, explain=False, limit=None)}},
                         legacy={"queryDataIds": lambda w, bd, kw: {(d["instrument"], d["exposure"]) for d in b.registry.queryDataIds(["exposure"], where=w, bind=bd)},
                                 "queryDimensionRecords": lambda w, bd, kw: {(r_.instrument, r_.id) for r_ in b.registry.queryDimensionRecords("exposure", where=w, bind=bd)},
                                 "queryDatasets": lambda w, bd, kw: {(r_.dataId["instrument"], r_.dataId["exposure"]) for r_ in
                                                                     b.registry.queryDatasets(dte, collections=["cI", "cJ"], where=w, bind=bd)}}),
    }
    # a second client of the same repository with a default data ID: the default instrument constrains a query only when the
    # expression does not mention the instrument itself
    from lsst.daf.butler import Butler as _Butler

    bdef = _Butler.from_config(os.path.join(tmp, "r"), instrument="I")
    targets["exposure"]["new"]["query_data_ids@default-instrument-I"] = lambda w, bd, kw: {
        (d["instrument"], d["exposure"]) for d in bdef.query_data_ids(["exposure"], where=w, bind=bd, explain=False)}
    targets["exposure"]["new"]["query_datasets@default-instrument-I"] = lambda w, bd, kw: {
        (r_.dataId["instrument"], r_.dataId["exposure"]) for r_ in bdef.query_datasets(dte, collections=["cI", "cJ"], where=w, bind=bd, explain=False, limit=None)}
    req, impl = [], []

    def viol(what, key, replay):
        ctx.violations.append(core.Violation(what=what, key=key, replay=replay))

    def vtok(x):
        return "n" if x is None else (f"s:{x.encode().hex() or '-'}" if isinstance(x, str) else f"i:{x}")

    rows_tok = {t: " ".join(",".join(f"{k}={vtok(v)}" for k, v in r_.items() if k != "_key") for r_ in spec["rows"]) for t, spec in targets.items()}
    corpus = [("detector", ("in", False, ("sub", ("col", "detector"), ("lit", 5)), (("r", (-3, 3, 2)),))),   # C05-a
              ("detector", ("isnull", False, ("col", "detector.purpose"))),                                   # C05-c (legacy)
              ("detector", ("in", False, ("sub", ("col", "detector"), ("lit", 9)), (("r", (-8, 0, 3)),))),
              # C05-e: NOT over a disjunction that contains IN lists with ranges: the conjunctive normal form explodes
              ("detector", ("not", ("or", ("and", ("in", False, ("col", "detector"), (("r", (-3, 0, 5)), ("r", (7, 13, 2)))),
                                              ("in", False, ("col", "detector.raft"), (("v", "SCIENCE"), ("v", "d10"), ("v", "SCIENCE")))),
                                    ("not", ("in", False, ("col", "detector"), (("r", (9, 11, 1)), ("r", (5, 9, 1)), ("v", -2))))))),
              ("exposure", ("not", ("cmp", "=", ("col", "instrument"), ("lit", "I")))),
              ("exposure", ("not", ("flag", "exposure.can_see_sky"))),
              ("exposure", ("tin", T0_NS + 250 * 10**6, False)),   # exactly the exclusive end of exposure 1
              ("exposure", ("tin", T0_NS + 300 * 10**6, True)),    # exactly the begin of exposure 3
              ("exposure", ("or", ("cmp", "<", ("col", "exposure.timespan.begin"), ("tlit", T0_NS + 250 * 10**6)),
                            ("cmp", "<", ("col", "exposure.timespan.begin"), ("tlit", T0_NS + 850 * 10**6))))]
    n_expr = 900 if ctx.quick() else 20000
    constant = 0
    for n in range(n_expr + len(corpus)):
        FRIENDLY[0] = n % 2 == 0
        tname = corpus[n][0] if n < len(corpus) else ("detector" if n % 5 < 2 else "exposure")
        CUR.clear()
        CUR.update(TARGETS[tname])
        spec = targets[tname]
        rows = spec["rows"]
        e = corpus[n][1] if n < len(corpus) else gen_pred(rng, rng.choice([1, 2, 2, 3]))
        # both query systems keep predicates in conjunctive normal form, which is exponential in the number of
        # alternations (C15's subject; SQLite also limits the depth of an expression tree): keep the connectives few
        while Render(False).p(e).count(") AND (") + Render(False).p(e).count(") OR (") > 4:
            e = gen_pred(rng, 2)
        if tname == "exposure" and n >= len(corpus) and rng.random() < 0.4:
            # a governor constraint the legacy interface insists on, in one of its spellings
            gov = rng.choice([("cmp", "=", ("col", "instrument"), ("lit", "I")), ("not", ("cmp", "=", ("col", "instrument"), ("lit", "J"))),
                              ("in", False, ("col", "instrument"), (("v", "I"),)),
                              # ... and references to the governor that do not pin it to one value (a default data ID must then stay out of it)
                              ("in", False, ("col", "instrument"), (("v", "I"), ("v", "J"))), ("cmp", "!=", ("col", "instrument"), ("lit", "I")),
                              ("cmp", "=", ("col", "instrument"), ("lit", "J")), ("not", ("cmp", "=", ("col", "instrument"), ("lit", "I"))),
                              ("cmp", ">", ("col", "instrument"), ("lit", "I")),
                              ("or", ("cmp", "=", ("col", "instrument"), ("lit", "I")), ("cmp", "=", ("col", "instrument"), ("lit", "J")))])
            # OR only with an atom: both query systems keep conjunctive normal form, exponential in the number of alternations
            e = ("or", gov, e) if (rng.random() < 0.2 and e[0] not in ("and", "or", "not") and gov[0] != "or") else ("and", gov, e)
        want = {r_["_key"] for r_ in rows if ev_p(e, r_) is True}
        if len(want) in (0, len(rows)):
            constant += 1
        else:
            ctx.nontrivial.add(repr(e))
        rn, rl = Render(False), Render(True)
        s_new, s_leg = rn.p(e), rl.p(e)
        import time as _time

        _t_expr = _time.time()
        ctx.evaluations += 1
        ctx.count(f"{tname}:predicate:" + e[0])
        req.append("ev sel 1 " + " ".join(tokens(e)) + " ROWS " + rows_tok[tname])
        got_new = {}
        from lsst.daf.butler import InvalidQueryError

        for api, f in spec["new"].items():
            try:
                got_new[api] = f(s_new, rn.bind, spec["kw"])
            except InvalidQueryError as ex:
                got_new[api] = None  # refused as not well-formed for this query (documented refusals: unconstrained governor, types)
                ctx.count(f"new-refuses:{str(ex)[:40]}")
            except Exception as ex:
                got_new[api] = f"{type(ex).__name__}: {str(ex)[:100]}"
                if "Expression tree is too large" in got_new[api]:
                    # known finding C05-e (CNF explosion): building such a statement takes minutes; once is enough
                    break
        too_large_seen = any(isinstance(g_, str) and "Expression tree is too large" in g_ for g_ in got_new.values())
        g = got_new["query_data_ids"]
        impl.append("".join(("T" if r_["_key"] in g else "?") for r_ in rows) if isinstance(g, set) else "error")
        for api, got in got_new.items():
            expect = want & spec["with_ds"] if api.startswith("query_datasets") else want
            if api.endswith("@default-instrument-I") and not has(e, ("col",), "instrument"):
                expect = {k_ for k_ in expect if k_[0] == "I"}
                ctx.count("default-data-id-applied")
            elif api.endswith("@default-instrument-I"):
                ctx.count("default-data-id-not-applied" + (":non-trivial" if any(k_[0] != "I" for k_ in expect) else ""))
            if got is None:
                continue
            if got != expect:
                too_large = isinstance(got, str) and "Expression tree is too large" in got
                viol(f"Butler.{api}(where={s_new!r}, bind={rn.bind}) selects {tname}s {sorted(got) if isinstance(got, set) else got}, the documented meaning "
                     f"selects {sorted(expect)}", "cnf-explosion-expression-tree-too-large" if too_large else f"c05:new:{api}:{s_new}",
                     {"kind": "expression", "where": s_new, "bind": {k: v for k, v in rn.bind.items()}, "api": api, "target": tname})
                break
        # legacy: whenever it accepts the expression it must return the same rows.
        for api, f in spec["legacy"].items():
            if too_large_seen:
                break
            try:
                got = f(s_leg, rl.bind, spec["kw"])
            except Exception as ex:
                ctx.count(f"legacy-refuses:{type(ex).__name__}")
                continue
            ctx.count("legacy-accepts")
            expect = want & spec["with_ds"] if api == "queryDatasets" else want
            if got != expect:
                key = f"c05:legacy:{api}:{s_leg}"
                # is it exactly one of the two listed deviations of the legacy path?
                for dev, name in (("range", "legacy-in-range-negative-member"), ("null", "legacy-null-test-never-true"), ("both", "legacy-null-test-never-true")):
                    for d_ in (("range", "null") if dev == "both" else (dev,)):
                        LEGACY[d_] = True
                    alt = {r_["_key"] for r_ in rows if ev_p(e, r_) is True}
                    LEGACY["range"] = LEGACY["null"] = False
                    if got == (alt & spec["with_ds"] if api == "queryDatasets" else alt):
                        key = name
                        break
                viol(f"Registry.{api}(where={s_leg!r}, bind={rl.bind}) selects {tname}s {sorted(got)}, the documented meaning (and the new query system) "
                     f"selects {sorted(expect)}", key, {"kind": "expression", "where": s_leg, "bind": {k: v for k, v in rl.bind.items()}, "api": api, "target": tname})
                break
        ctx.sample({"where": s_new, "selected": len(want)}, cap=8)
        _dt = _time.time() - _t_expr
        if _dt > ctx.extra.get("slowest_expression_s", 0):
            ctx.extra["slowest_expression_s"], ctx.extra["slowest_expression"] = round(_dt, 2), s_new
    point_overlaps(ctx, b)
    ctx.extra["constant_predicates"] = constant
    ctx.extra["expressions"] = n_expr + len(corpus)
    if model_ok:
        got = core.driver(req)
        nd = 0
        for line, m, i in zip(req, got, impl):
            m2 = "".join("T" if c == "T" else "?" for c in m) if m != "bad-op" else m
            if m2 != i and i != "error":
                nd += 1
                if nd <= 5:
                    ctx.broken.append(f"correspondence: `{line[:160]}` model={m} implementation={i}")
        ctx.extra["correspondence_lines"] = len(req)
        ctx.extra["correspondence_disagreements"] = nd


def point_overlaps(ctx, b):
    """`visit.region OVERLAPS POINT(ra, dec)`: exactly the visits whose region contains the point (sphgeom decides), whatever the
    target dimension set is — also with the common skypix dimension in it — and never a visit with a NULL region."""
    import lsst.sphgeom as sg

    def viol(what, key, replay):
        ctx.violations.append(core.Violation(what=what, key=key, replay=replay))

    def poly(ra, dec, half):
        return sg.ConvexPolygon([sg.UnitVector3d(sg.LonLat.fromDegrees(ra + dx, dec + dy))
                                 for dx, dy in ((-half, -half), (half, -half), (half, half), (-half, half))])

    rng = ctx.rng
    regions = {1: poly(10.0, 10.0, 0.05), 2: poly(10.08, 10.0, 0.05), 3: poly(40.0, -20.0, 0.05), 4: None, 5: poly(10.0, 10.06, 0.03)}
    for v, region in regions.items():
        b.registry.insertDimensionData("visit", {"instrument": "I", "id": v, "name": f"v{v}", "physical_filter": "f", "day_obs": 20200101, "region": region})
    points = [(10.0, 10.0), (10.04, 10.0), (10.07, 10.0), (10.1, 10.04), (10.2, 10.0), (40.0, -20.0), (10.0, 10.04), (10.0, 10.08), (9.94, 10.0)]
    points += [(round(10.0 + rng.uniform(-0.12, 0.2), 3), round(10.0 + rng.uniform(-0.1, 0.12), 3)) for _ in range(12 if ctx.quick() else 300)]
    common = b.dimensions.commonSkyPix.name
    with b.query() as q:
        for ra, dec in points:
            vec = sg.UnitVector3d(sg.LonLat.fromDegrees(ra, dec))
            want = sorted(v for v, r_ in regions.items() if r_ is not None and r_.contains(vec))
            # a point within a micro-degree of an edge is decided by sphgeom's floating-point tolerance (the polygon's containment
            # test and the region relation the query uses may differ there); geometry is a parameter, not a subject, of C05
            near = [sorted(v for v, r_ in regions.items() if r_ is not None and
                           r_.contains(sg.UnitVector3d(sg.LonLat.fromDegrees(ra + dx, dec + dy))))
                    for dx, dy in ((1e-6, 0), (-1e-6, 0), (0, 1e-6), (0, -1e-6))]
            if any(n_ != want for n_ in near):
                ctx.count("point-overlap:on-an-edge-skipped")
                continue
            where = f"instrument = 'I' AND visit.region OVERLAPS POINT({ra}, {dec})"
            for dims in (["visit"], ["visit", common], ["visit", "physical_filter"]):
                ctx.evaluations += 1
                ctx.count("point-overlap")
                try:
                    got = sorted({d["visit"] for d in q.data_ids(dims).where(where)})
                except Exception as e:
                    got = f"{type(e).__name__}: {str(e)[:80]}"
                if got != want:
                    viol(f"query over {dims} with where={where!r} selects visits {got}; the regions that contain the point are those of {want}",
                         f"point:{dims}:{ra}:{dec}", {"kind": "point-overlap", "dims": dims, "where": where})
            # the same constraint on a query that is materialised first and read (and constrained further) afterwards
            for label, run_ in (("where(...).materialize().data_ids", lambda: q.where(where).materialize().data_ids(["visit"])),
                                ("where(...).materialize().where(...)", lambda: q.where(where).materialize().data_ids(["visit"]).where("instrument = 'I' AND visit > 0")),
                                ("where(...).materialize().dimension_records", lambda: q.where(where).materialize().dimension_records("visit"))):
                ctx.evaluations += 1
                ctx.count("point-overlap:materialized")
                try:
                    got = sorted({(d["visit"] if hasattr(d, "mapping") else d.id) for d in run_()})
                except Exception as e:
                    got = f"{type(e).__name__}: {str(e)[:80]}"
                if got != want:
                    viol(f"query.{label} with where={where!r} selects visits {got}; the regions that contain the point are those of {want}",
                         f"point-materialized:{label}:{ra}:{dec}", {"kind": "point-overlap", "form": label, "where": where})
            try:
                got = sorted(r_.id for r_ in q.dimension_records("visit").where(where))
            except Exception as e:
                got = f"{type(e).__name__}: {str(e)[:80]}"
            if got != want:
                viol(f"dimension records of visit with where={where!r}: {got}, expected {want}", f"point-records:{ra}:{dec}", {"kind": "point-overlap", "where": where})
            if want:
                ctx.nontrivial.add(("point", ra, dec))


def replay(ctx, content):
    print("replay:", content.get("what"))
    print({k: content.get(k) for k in ("where", "bind", "api")})
    run(ctx)
    return core.finish(ctx)
