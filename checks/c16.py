"""C16 — ordering, limits, paging and counts describe the same result set.

Model: Model/Paging.lean (`Postprocessing.apply` with its decrementing limit, pages of k rows,
concatenation; stable sort); theorems in Props/C16.lean (paging_concat for every page size and limit).
Tie: C — (1) unit level: the real `Postprocessing.apply` is driven page by page with synthetic rows
(regions overlapping / disjoint from a where-region) and compared with the model's `applyPage`, limit
state included; (2) integration level: real queries on a populated repository with the raw page
size forced to 1..7, with and without spatial post-filtering.
Oracle (model-free): Python sorted() + slicing over the unordered, unlimited result.
"""
from __future__ import annotations

import itertools
import os

from vlib import core, repo

LEVEL = "proof"
LEAN_TARGETS = ["ButlerModel.Props.C16", "driver"]


def run(ctx):
    ctx.rule = (
        "unit: seeded pages (sizes 0-6) of pass/fail rows through the real Postprocessing.apply for limits None,0,1,2,3,5,8; "
        "integration: data-ID and dimension-record queries (visit x tract spatial join with post-filtering, visit x detector "
        "without) with order_by lists over key and metadata fields (ascending/descending, NULLs), limits {0,1,2,n-1,n,n+1, "
        "around page boundaries}, raw page sizes 1-7; iteration vs count(exact/discard) vs any(); data-ID / kwargs / where "
        "spellings of one constraint; non-trivial = distinct query variants returning at least 2 rows with a limit or order"
    )
    ctx.assumptions = [
        "SQLite's ORDER BY (NULLs first ascending) is what orders the rows; ties among equal keys may come in any order",
        "sphgeom region overlap is exact for the boxes used",
    ]
    with core.Lock():
        # T-tie: the control flow of Postprocessing.apply is translated from the working tree into Gen/PostprocessingPy.lean;
        # C16.Translated.translated_apply_eq identifies it with the page function the paging theorems are about
        import os as _os
        import sys as _sys

        _sys.path.insert(0, _os.path.join(core.VERIF, "translate"))
        try:
            import gen_postprocessing

            gen_postprocessing.generate(core.GEN_DIR)
        except Exception as e:  # Untranslatable or anything else: the tie is broken, the searches below still run
            ctx.broken.append(f"translation: Postprocessing.apply: {type(e).__name__}: {e}")
        built = core.lean_build(ctx, LEAN_TARGETS)
        if built:
            core.lean_audit(ctx, ["ButlerModel.Props.C16"])
            if not ctx.quick():
                core.leanchecker(ctx, ["ButlerModel.Props.C16"])
    unit_apply(ctx, built)
    with repo.Scratch("verif-c16-") as tmp:
        integration(ctx, tmp)


def box(lon0, lon1, lat0, lat1):
    from lsst.sphgeom import ConvexPolygon, LonLat, UnitVector3d

    return ConvexPolygon([
        UnitVector3d(LonLat.fromDegrees(lon0, lat0)), UnitVector3d(LonLat.fromDegrees(lon1, lat0)),
        UnitVector3d(LonLat.fromDegrees(lon1, lat1)), UnitVector3d(LonLat.fromDegrees(lon0, lat1)),
    ])


# ------------------------------------------------------------------ unit level
def unit_apply(ctx, model_ok):
    from lsst.daf.butler import DimensionUniverse
    from lsst.daf.butler.direct_query_driver._postprocessing import Postprocessing
    from lsst.daf.butler.queries import tree as qt

    rng = ctx.rng
    u = DimensionUniverse()
    where_region = box(0, 10, 0, 10)
    inside, outside = box(2, 3, 2, 3), box(40, 41, 40, 41)
    col = qt.ColumnSet.get_qualified_name("visit", "region")

    class Row:
        def __init__(self, i, ok):
            self.i = i
            self._mapping = {col: inside if ok else outside}

    req, impl = [], []
    n_cases = 150 if ctx.quick() else 3000
    for c in range(n_cases):
        limit = rng.choice([None, 0, 1, 2, 3, 5, 8])
        pp = Postprocessing()
        pp.spatial_where_filtering.append((u["visit"], where_region))
        pp.limit = limit
        req.append(f"page new {'none' if limit is None else limit}")
        impl.append("ok")
        n = 0
        total = []
        allrows = []
        for _ in range(rng.randint(1, 5)):
            flags = [rng.random() < 0.6 for _ in range(rng.randint(0, 6))]
            rows = [Row(n + i, f) for i, f in enumerate(flags)]
            allrows += [(n + i, f) for i, f in enumerate(flags)]
            n += len(flags)
            out = [r.i for r in pp.apply(rows)]
            total += out
            req.append("page apply " + ("".join("1" if f else "0" for f in flags) or "-"))
            impl.append("yield=" + (",".join(map(str, out)) or "-") + " limit=" + ("none" if pp.limit is None else str(pp.limit)))
            ctx.evaluations += 1
        want = [i for i, f in allrows if f]
        if limit is not None:
            want = want[:limit]
        ctx.nontrivial.add(("unit", limit, tuple(allrows)))
        if total != want:
            ctx.violations.append(core.Violation(
                what=f"Postprocessing.apply over pages with limit {limit}: yielded rows {total}, expected the first {limit} passing rows {want}",
                key=f"apply:{limit}:{allrows}", replay={"kind": "apply", "limit": limit, "rows": allrows, "got": total}))
    ctx.count("unit-apply-cases", n_cases)
    ctx.sample({"request": req[1], "implementation": impl[1]})
    if model_ok:
        got = core.driver(req)
        nd = 0
        for line, m, i in zip(req, got, impl):
            if m != i:
                nd += 1
                if nd <= 5:
                    ctx.broken.append(f"correspondence: `{line}` model={m} implementation={i}")
        ctx.extra["correspondence_lines"] = len(req)
        ctx.extra["correspondence_disagreements"] = nd
    else:
        ctx.notes.append("model not built: correspondence skipped")


# ------------------------------------------------------------------ integration level
def populate(b):
    reg = b.registry
    repo.basic_dimensions(b, detectors=(1, 2, 3), filters=(("f1", "r"), ("f2", "g")))
    reg.insertDimensionData("day_obs", {"instrument": "I", "id": 20240101})
    exptimes = [30.0, None, 15.0, 30.0, None, 60.0, 15.0, 45.0, 30.0]
    for v in range(1, 10):
        lon = (v - 1) * 4.0
        reg.insertDimensionData("visit", {
            "instrument": "I", "id": v, "name": f"v{v}", "physical_filter": "f1" if v % 3 else "f2", "day_obs": 20240101,
            "exposure_time": exptimes[v - 1], "science_program": None if v % 4 == 0 else f"p{v % 2}",
            "region": box(lon, lon + 5.0, 0.0, 4.0) if v != 7 else None,
        })
    reg.insertDimensionData("skymap", {"name": "S", "hash": b"\x01" * 20, "tract_max": 10, "patch_nx_max": 2, "patch_ny_max": 2})
    for t in range(6):
        reg.insertDimensionData("tract", {"skymap": "S", "id": t, "region": box(t * 7.0, t * 7.0 + 6.0, 1.0, 3.0)})
    # a second sky map for any(): each of three visits is ringed by many tracts that share its common-skypix cells without
    # touching it (near misses) and overlapped by exactly one
    reg.insertDimensionData("skymap", {"name": "N", "hash": b"\x02" * 20, "tract_max": 100, "patch_nx_max": 2, "patch_ny_max": 2})
    tid = 0
    for j, v in enumerate((20, 21, 22)):
        lon = 100.0 + 10.0 * j
        reg.insertDimensionData("visit", {"instrument": "I", "id": v, "name": f"v{v}", "physical_filter": "f1", "day_obs": 20240101, "exposure_time": 1.0,
                                          "science_program": "near", "region": box(lon, lon + 1.0, 10.0, 11.0)})
        for k in range(14):
            # thin slivers just outside the right and the upper edge
            reg.insertDimensionData("tract", {"skymap": "N", "id": tid, "region": box(lon + 1.01 + 0.005 * k, lon + 1.012 + 0.005 * k, 10.0, 11.0) if k % 2
                                              else box(lon, lon + 1.0, 11.01 + 0.005 * k, 11.012 + 0.005 * k)})
            tid += 1
        reg.insertDimensionData("tract", {"skymap": "N", "id": tid, "region": box(lon + 0.4, lon + 0.6, 10.4, 10.6)})
        tid += 1


def integration(ctx, tmp):
    rng = ctx.rng
    b = repo.make_butler(os.path.join(tmp, "r"))
    populate(b)

    def viol(what, key, replay):
        ctx.violations.append(core.Violation(what=what, key=key, replay=replay))

    QUERIES = [
        ("visit-tract(spatial)", ["visit", "tract"], {"instrument": "I", "skymap": "S"}, None,
         [["visit"], ["-visit", "tract"], ["tract", "-visit"], ["visit.exposure_time", "visit", "tract"], ["-visit.exposure_time", "-tract", "visit"],
          ["visit.science_program", "-visit", "tract"]]),
        ("visit-detector", ["visit", "detector"], {"instrument": "I"}, None,
         [["visit", "detector"], ["-detector", "visit"], ["visit.exposure_time", "detector", "visit"], ["-visit.science_program", "visit", "-detector"]]),
        ("visit-tract(where)", ["visit", "tract"], {"instrument": "I", "skymap": "S"}, "visit > 2 AND tract < 5",
         [["visit", "tract"], ["-tract", "-visit"]]),
        ("visit", ["visit"], {"instrument": "I"}, "visit.exposure_time > 20.0",
         [["visit"], ["-visit.exposure_time", "visit"], ["visit.science_program", "visit"]]),
    ]

    def key_fn(order, rec):
        """Sort key following SQLite: NULL smallest; descending handled by the caller via cmp."""
        return order

    def fetch(dims, data_id, where, order=None, limit=None, page=None, factor=None):
        with b.query() as q:
            if page is not None:
                q._driver._raw_page_size = page
            if factor is not None:
                q._driver._postprocessing_filter_factor = factor
            r = q.data_ids(dims).where(data_id, where or "", bind=None) if where else q.data_ids(dims).where(data_id)
            if order:
                r = r.order_by(*order)
            if limit is not None:
                r = r.limit(limit)
            rows = [d for d in r]
            out = {"rows": rows}
            try:
                out["count_exact"] = r.count(exact=True, discard=True)
            except Exception as e:
                out["count_exact"] = f"{type(e).__name__}"
            out["count_inexact"] = r.count(exact=False)
            out["any"] = r.any(execute=True, exact=True)
            return out

    visit_rec = {r.id: r for r in b.query_dimension_records("visit", instrument="I")}

    def field(d, term):
        name = term.lstrip("-")
        if "." in name:
            el, f = name.split(".")
            assert el == "visit"
            return getattr(visit_rec[d["visit"]], f)
        return d[name]

    def sorted_ok(rows, order):
        def cmp_key(d):
            return [field(d, t) for t in order]

        for x, y in zip(rows, rows[1:]):
            for t in order:
                a, c = field(x, t), field(y, t)
                if a == c:
                    continue
                # NULLs first ascending (SQLite), last descending
                less = (a is None) or (c is not None and a < c)
                if t.startswith("-"):
                    less = not less
                if not less:
                    return False
                break
        return True

    # ---- any() on a spatial join in which near misses outnumber the real overlaps: it must agree with iteration for every batch size
    for v in (20, 21, 22):
        for factor in (1, 2, 3, 10):
            with b.query() as q:
                q._driver._postprocessing_filter_factor = factor
                r = q.data_ids(["visit", "tract"]).where({"instrument": "I", "skymap": "N", "visit": v})
                rows = list(r)
                got_any = r.any(execute=True, exact=True)
                cnt = r.count(exact=True, discard=True)
                loose = r.count(exact=False)
            ctx.evaluations += 1
            ctx.count("any-near-misses")
            if len(rows) != 1 or got_any is not True or cnt != 1 or loose < 1:
                viol(f"visit {v} x tract (sky map N, 14 near misses, 1 overlap), filter batch {factor}: iteration gives {len(rows)} rows, any()={got_any}, "
                     f"count(exact)={cnt}, count(inexact)={loose}", f"any-near:{v}:{factor}", {"kind": "any", "visit": v, "factor": factor})
            if loose > 1:
                ctx.nontrivial.add(("any-near", v, factor))

    # ---- dimension-record and dataset results: the same rows as the data-ID results, for every raw page size, also page by page
    for element, data_id, where, orders in [("visit", {"instrument": "I"}, None, [None, ["visit"], ["-visit.exposure_time", "visit"]]),
                                            ("tract", {"skymap": "S"}, None, [None, ["-tract"]]),
                                            ("detector", {"instrument": "I"}, "detector > 1", [None, ["detector"]])]:
        with b.query() as q:
            want_ids = sorted(d[element] for d in q.data_ids([element]).where(data_id, where or ""))
        for order in orders:
            for page in ([1, 2, 3, 5, 50] if ctx.quick() else [1, 2, 3, 4, 5, 7, 11, 50]):
                for limit in (None, 0, 1, len(want_ids) - 1, len(want_ids), len(want_ids) + 3):
                    with b.query() as q:
                        q._driver._raw_page_size = page
                        r = q.dimension_records(element).where(data_id, where or "")
                        if order:
                            r = r.order_by(*order)
                        if limit is not None:
                            r = r.limit(limit)
                        recs = list(r)
                        raised = []
                        try:
                            paged = [rec for pg in r.iter_set_pages() for rec in pg]
                        except Exception as e:
                            paged, _ = [], raised.append(f"iter_set_pages raised {type(e).__name__}: {str(e)[:60]}")
                        try:
                            tabled = [rec for pg in r.iter_table_pages() for rec in pg]
                        except Exception as e:
                            tabled, _ = [], raised.append(f"iter_table_pages raised {type(e).__name__}: {str(e)[:60]}")
                        cnt = r.count(exact=True, discard=True)
                    ctx.evaluations += 1
                    ctx.count("record-queries")
                    ids = [rec.id for rec in recs]
                    want_len = len(want_ids) if limit is None else min(limit, len(want_ids))
                    if want_len >= 2 and page < want_len:
                        ctx.nontrivial.add(("records", element, tuple(order or ()), limit, page))
                    problems = list(raised)
                    if len(set(ids)) != len(ids):
                        problems.append(f"records {sorted(i for i in set(ids) if ids.count(i) > 1)} are returned more than once")
                    if len(ids) != want_len or not set(ids) <= set(want_ids):
                        problems.append(f"{len(ids)} records ({sorted(set(ids) - set(want_ids))} not in the result), expected {want_len}")
                    if sorted(x.id for x in paged) != sorted(ids) or sorted(x.id for x in tabled) != sorted(ids):
                        problems.append(f"iter_set_pages gives {len(paged)} and iter_table_pages {len(tabled)} records, iteration {len(ids)}")
                    if cnt != len(ids):
                        problems.append(f"count(exact) = {cnt}, iteration gives {len(ids)}")
                    if order == ["visit"] or order == ["detector"]:
                        if ids != sorted(ids):
                            problems.append("not sorted")
                    if order == ["-tract"] and ids != sorted(ids, reverse=True):
                        problems.append("not sorted")
                    if problems:
                        viol(f"[records of {element} where={where} order_by={order} limit={limit} raw_page_size={page}] " + "; ".join(problems[:3]),
                             f"records:{element}:{order}:{limit}:{page}", {"kind": "records", "element": element, "order_by": order, "limit": limit, "raw_page_size": page})

    n_variants = 0
    for name, dims, data_id, where, orders in QUERIES:
        base = fetch(dims, data_id, where)
        U = base["rows"]
        Uset = {tuple(sorted(d.required.items())) for d in U}
        n = len(U)
        if len(Uset) != n:
            viol(f"[{name}] unordered query returns duplicate rows", f"dupes:{name}", {"kind": "query", "query": name})
        if base["count_exact"] != n or base["any"] != (n > 0) or base["count_inexact"] < n:
            viol(f"[{name}] count(exact)={base['count_exact']} count(inexact)={base['count_inexact']} any={base['any']} but iteration returns {n} rows",
                 f"count:{name}", {"kind": "query", "query": name})
        limits = sorted({0, 1, 2, max(n - 1, 0), n, n + 1, 3, 4, 7})
        pages = [1, 2, 3, 5, 7] if ctx.quick() else [1, 2, 3, 4, 5, 6, 7, 50]
        combos = list(itertools.product(orders + [None], limits + [None], pages))
        if ctx.quick():
            rng.shuffle(combos)
            combos = combos[:70]
        for order, limit, page in combos:
            factor = rng.choice([None, 1, 2])
            res = fetch(dims, data_id, where, order, limit, page, factor)
            rows = res["rows"]
            ctx.evaluations += 1
            n_variants += 1
            keys = [tuple(sorted(d.required.items())) for d in rows]
            want_len = n if limit is None else min(limit, n)
            tag = f"[{name}] order_by={order} limit={limit} raw_page_size={page}"
            if want_len >= 2 and (order or limit is not None):
                ctx.nontrivial.add((name, tuple(order or ()), limit, page))
            problems = []
            if len(set(keys)) != len(keys):
                problems.append("a row is returned twice")
            if not set(keys) <= Uset:
                problems.append("rows outside the unlimited result")
            if len(rows) != want_len:
                problems.append(f"{len(rows)} rows, expected {want_len}")
            if order and not sorted_ok(rows, order):
                problems.append("rows are not sorted by the requested keys")
            if order and limit is not None and rows and len(rows) == want_len < n:
                # prefix property: nothing left out sorts strictly before the last returned row
                rest = [d for d in U if tuple(sorted(d.required.items())) not in set(keys)]
                last = rows[-1]
                for d in rest:
                    if not sorted_ok([last, d], order):
                        problems.append(f"row {dict(d.required)} sorts before the last returned row but was left out")
                        break
            if res["count_exact"] != len(rows):
                problems.append(f"count(exact=True, discard=True) = {res['count_exact']}, iteration gives {len(rows)}")
            if res["any"] != (len(rows) > 0) and limit != 0:
                problems.append(f"any() = {res['any']}, iteration gives {len(rows)} rows")
            if res["count_inexact"] < len(rows):
                problems.append(f"count(exact=False) = {res['count_inexact']} is below the exact number {len(rows)}")
            if problems:
                viol(f"{tag}: " + "; ".join(problems[:3]), f"query:{name}:{order}:{limit}:{page}",
                     {"kind": "query", "query": name, "order_by": order, "limit": limit, "raw_page_size": page, "problems": problems})
        ctx.count(name, len(combos))
    ctx.sample({"queries": [q[0] for q in QUERIES], "variants": n_variants})

    # ---- dataset queries: find-first over two runs holding the same data IDs; iteration, count and limit must agree
    from lsst.daf.butler import DatasetType

    dt = DatasetType("c16_dt", {"instrument", "detector"}, "StructuredDataDict", universe=b.dimensions)
    b.registry.registerDatasetType(dt)
    for run, dets in (("ra", (1, 2, 3)), ("rb", (2, 3)), ("rc", (3,))):
        b.registry.registerRun(run)
        b.registry.insertDatasets(dt, [{"instrument": "I", "detector": d} for d in dets], run=run)
    for colls, find_first in itertools.product([["ra"], ["rb", "ra"], ["rc", "rb", "ra"], ["ra", "rb", "rc"]], [True, False]):
        with b.query() as q:
            base = q.datasets(dt, collections=colls, find_first=find_first)
            allrows = list(base)
            n = len(allrows)
            want_n = 3 if find_first else sum({"ra": 3, "rb": 2, "rc": 1}[c] for c in colls)
            ctx.evaluations += 1
            problems = []
            if n != want_n:
                problems.append(f"{n} datasets, expected {want_n}")
            if find_first:
                for r in allrows:
                    first = next(c for c in colls if r.dataId["detector"] in {"ra": (1, 2, 3), "rb": (2, 3), "rc": (3,)}[c])
                    if r.run != first:
                        problems.append(f"detector {r.dataId['detector']} comes from {r.run}, first match is {first}")
            for exact in (True, False):
                cnt = base.count(exact=exact, discard=True)
                if cnt != n:
                    problems.append(f"count(exact={exact}) = {cnt}, iteration gives {n}")
            for lim in (0, 1, 2, n, n + 2):
                lr = base.limit(lim)
                rows = list(lr)
                if len(rows) != min(lim, n) or lr.count(exact=True, discard=True) != len(rows):
                    problems.append(f"limit({lim}): {len(rows)} rows, count {lr.count(exact=True, discard=True)}, expected {min(lim, n)}")
            if base.any() != (n > 0):
                problems.append("any() disagrees with iteration")
            ordered = [r.dataId["detector"] for r in base.order_by("-detector")]
            if ordered != sorted(ordered, reverse=True) or len(ordered) != n:
                problems.append(f"order_by('-detector') gives {ordered}")
            if problems:
                viol(f"[datasets collections={colls} find_first={find_first}] " + "; ".join(problems[:3]), f"datasets:{colls}:{find_first}",
                     {"kind": "datasets", "collections": colls, "find_first": find_first, "problems": problems})
    ctx.count("dataset-queries", 8)
    # ordering and limit together with dimension records attached (whatever the order in which the query was put together)
    for with_rec in (False, True):
        for order, lim in (("-detector", 2), ("detector", 1), ("-detector", 5), ("detector", 3)):
            want_rows = sorted((1, 2, 3), reverse=order.startswith("-"))[:lim]
            forms = {"Butler.query_datasets": lambda: b.query_datasets("c16_dt", collections=["ra"], order_by=order, limit=lim, with_dimension_records=with_rec, explain=False)}

            def _late():
                with b.query() as q_:
                    r_ = q_.datasets("c16_dt", collections=["ra"]).order_by(order).limit(lim)
                    r_ = r_.with_dimension_records() if with_rec else r_
                    return list(r_), r_.count(exact=True, discard=True)

            ctx.evaluations += 1
            ctx.count("datasets-ordered-limited" + (":with-records" if with_rec else ""))
            try:
                got_rows = [r_.dataId["detector"] for r_ in forms["Butler.query_datasets"]()]
                late_rows, late_count = _late()
                late_rows = [r_.dataId["detector"] for r_ in late_rows]
            except Exception as e:
                got_rows, late_rows, late_count = f"{type(e).__name__}: {str(e)[:80]}", None, None
            if got_rows != want_rows or late_rows != want_rows or late_count != len(want_rows):
                viol(f"datasets ordered by {order!r} with limit {lim}" + (" and dimension records" if with_rec else "") + f": Butler.query_datasets gives detectors {got_rows}, "
                     f"Query.datasets(...).order_by().limit()" + (".with_dimension_records()" if with_rec else "") + f" gives {late_rows} (count {late_count}); expected {want_rows}",
                     f"datasets-order-limit:{order}:{lim}:{with_rec}", {"kind": "datasets", "order_by": order, "limit": lim, "with_dimension_records": with_rec})

    # ---- one constraint, three spellings
    for v in (1, 4, 7):
        a = {tuple(sorted(d.required.items())) for d in b.query_data_ids(["visit", "detector"], data_id={"instrument": "I", "visit": v}, explain=False)}
        k = {tuple(sorted(d.required.items())) for d in b.query_data_ids(["visit", "detector"], instrument="I", visit=v, explain=False)}
        w = {tuple(sorted(d.required.items())) for d in b.query_data_ids(["visit", "detector"], where=f"instrument = 'I' AND visit = {v}", explain=False)}
        bd = {tuple(sorted(d.required.items())) for d in b.query_data_ids(["visit", "detector"], where="instrument = 'I' AND visit = :v", bind={"v": v}, explain=False)}
        ctx.evaluations += 1
        if not (a == k == w == bd) or len(a) != 3:
            viol(f"visit={v}: data-ID / kwargs / where / bind spellings return {len(a)}/{len(k)}/{len(w)}/{len(bd)} rows", f"spellings:{v}",
                 {"kind": "spellings", "visit": v})
    # ---- a data ID together with keyword arguments: the keywords extend it and, for a key given both ways, take precedence —
    # the same rows as the merged data ID, through the convenience wrappers and through Query.where
    from lsst.daf.butler import DataCoordinate

    for v, v2 in ((1, 4), (4, 7), (7, 1)):
        merged = {tuple(sorted(d.required.items())) for d in b.query_data_ids(["visit", "detector"], data_id={"instrument": "I", "visit": v2}, explain=False)}
        forms = {
            "query_data_ids(data_id={visit: a}, visit=b)": lambda: b.query_data_ids(["visit", "detector"], data_id={"instrument": "I", "visit": v}, visit=v2, explain=False),
            "query_data_ids(data_id=DataCoordinate(visit=a), visit=b)": lambda: b.query_data_ids(
                ["visit", "detector"], data_id=DataCoordinate.standardize(instrument="I", visit=v, universe=b.dimensions), visit=v2, explain=False),
            "query_data_ids(data_id={instrument}, visit=b)": lambda: b.query_data_ids(["visit", "detector"], data_id={"instrument": "I"}, visit=v2, explain=False),
        }

        def _via_where():
            with b.query() as q_:
                return list(q_.data_ids(["visit", "detector"]).where({"instrument": "I", "visit": v}, visit=v2))

        forms["Query.where({visit: a}, visit=b)"] = _via_where
        for form, f_ in forms.items():
            ctx.evaluations += 1
            ctx.count("data-id-with-keywords")
            try:
                got = {tuple(sorted(d.required.items())) for d in f_()}
            except Exception as e:
                got = f"{type(e).__name__}: {str(e)[:80]}"
            if got != merged or len(merged) != 3:
                viol(f"{form} with a={v}, b={v2} returns {sorted(got) if isinstance(got, set) else got}; the merged data ID (visit={v2}) returns {sorted(merged)}",
                     f"data-id-kwargs:{form}", {"kind": "spellings", "form": form, "visit": [v, v2]})
    # negative limit through the convenience wrappers = warn and cap: min(|limit|, n) rows, for limits around the number of matches
    n_det = 3
    wrappers = {
        "query_data_ids": (lambda lim: b.query_data_ids(["detector"], instrument="I", limit=lim, explain=False), n_det),
        "query_dimension_records": (lambda lim: b.query_dimension_records("detector", instrument="I", limit=lim, explain=False), n_det),
        "query_datasets": (lambda lim: b.query_datasets("c16_dt", collections=["ra"], limit=lim, explain=False), 3),
        "query_datasets(find_first over 3 runs)": (lambda lim: b.query_datasets("c16_dt", collections=["rc", "rb", "ra"], limit=lim, explain=False), 3),
    }
    import logging

    class Catch(logging.Handler):
        def __init__(self):
            super().__init__(level=logging.WARNING)
            self.hits = 0

        def emit(self, record):
            if "requested limit" in record.getMessage():
                self.hits += 1

    wreq, wimpl = [], []
    for wname, (fn, n) in wrappers.items():
        for lim in (-1, -(n - 1), -n, -(n + 1), -(n + 5), n - 1, n, n + 1, 0, None):
            ctx.evaluations += 1
            ctx.count("wrapper-limits")
            catch = Catch()
            lg = logging.getLogger("lsst.daf.butler")
            lg.addHandler(catch)
            logging.disable(logging.INFO)  # (the harness silences warnings globally; this one is part of the documented behaviour)
            try:
                got = len(fn(lim))
            except Exception as e:
                got = f"{type(e).__name__}: {str(e)[:60]}"
            finally:
                logging.disable(logging.WARNING)
                lg.removeHandler(catch)
            want = n if lim is None else min(abs(lim), n)
            warned = catch.hits > 0
            want_warn = lim is not None and lim < 0 and n > abs(lim)
            if got != want or warned != want_warn:
                viol(f"{wname}(limit={lim}) over {n} matches returned {got} rows (warning: {warned}), documented: {want} rows (warning: {want_warn})",
                     f"wrapper-limit:{wname}:{lim}", {"kind": "neg-limit", "wrapper": wname, "limit": lim})
            wreq.append(f"page wrap {'none' if lim is None else lim} {n}")
            wimpl.append(f"rows={got} first=true warn={'true' if warned else 'false'}")
    if core.os.path.exists(core.os.path.join(core.LEAN_DIR, ".lake", "build", "bin", "driver")):
        for line, m, i in zip(wreq, core.driver(wreq), wimpl):
            if m != i:
                ctx.broken.append(f"correspondence (wrappers): `{line}` model={m} implementation={i}")
        ctx.extra["wrapper_correspondence_lines"] = len(wreq)


def replay(ctx, content):
    print("replay:", content.get("what"))
    run(ctx)
    return core.finish(ctx)
